package main

// A small well-formed room per room version, built through the library's own untrusted parsing path, and the
// subject events of Lifecycle.tla (one per special event type) with faults applied.

import (
	"crypto/ed25519"
	"crypto/sha256"
	"encoding/base64"
	"encoding/json"
	"fmt"
	"sort"
	"strings"
	"sync"

	gmsl "github.com/matrix-org/gomatrixserverlib"
	"github.com/matrix-org/gomatrixserverlib/spec"
	"github.com/tidwall/sjson"
)

// AllVersions lists every room version identifier registered in eventversion.go.
var AllVersions = []string{"1", "2", "3", "4", "5", "6", "7", "8", "9", "10", "11", "12",
	"org.matrix.msc3667", "org.matrix.msc3787", "org.matrix.msc4014", "org.matrix.hydra.11"}

// SubjectTypes are the subject event types of Lifecycle.tla.
var SubjectTypes = []string{"create", "member", "member_tpi", "power_levels", "join_rules", "third_party_invite",
	"redaction", "aliases", "history_visibility", "message"}

type tree = map[string]interface{}

func seedKey(tag string) ed25519.PrivateKey {
	h := sha256.Sum256([]byte("c18-key-" + tag))
	return ed25519.NewKeyFromSeed(h[:])
}

var (
	serverKeys = map[string]ed25519.PrivateKey{"hs1": seedKey("hs1"), "hs2": seedKey("hs2"), "idserver": seedKey("idserver")}
	userServer = map[string]string{"creator": "hs1", "alice": "hs1", "bob": "hs2", "carol": "hs2", "dave": "hs1"}
	userKeys   = map[string]ed25519.PrivateKey{}
)

func init() {
	for u := range userServer {
		userKeys[u] = seedKey("user-" + u)
	}
}

func b64(b []byte) string { return base64.RawStdEncoding.EncodeToString(b) }

func userID(u string) string { return "@" + u + ":" + userServer[u] }

func pseudoID(u string) string {
	return string(spec.SenderIDFromPseudoIDKey(userKeys[u]))
}

type roomCtx struct {
	ver        string
	impl       gmsl.IRoomVersion
	fmtV1      bool
	domainless bool
	pseudo     bool
	roomID     string
	trees      map[string]tree
	raw        map[string][]byte
	pdu        map[string]gmsl.PDU
	ids        map[string]string
	order      []string
	depth      int64
	lack       map[string]gmsl.PDU
	names      map[string]string // signature entry names of the subject being built
	prb        []gmsl.PDU
}

func (c *roomCtx) sender(u string) string {
	if c.pseudo {
		return pseudoID(u)
	}
	return userID(u)
}

// userIDForSender mirrors the answers of a homeserver's querier: a sender ID that is a user ID maps to itself, a
// known pseudo ID maps to its user, an unknown but well-formed pseudo ID has no user (nil, nil), anything else is
// an error.
func userIDForSender(roomID spec.RoomID, senderID spec.SenderID) (*spec.UserID, error) {
	switch env {
	case "qnil": // no user is known for any sender
		return nil, nil
	case "qerr": // the lookup fails
		return nil, fmt.Errorf("querier: database error")
	}
	if u, err := spec.NewUserID(string(senderID), true); err == nil {
		return u, nil
	}
	var raw spec.Base64Bytes
	if err := raw.Decode(string(senderID)); err != nil {
		return nil, err
	}
	for u := range userServer {
		if pseudoID(u) == string(senderID) {
			return spec.NewUserID(userID(u), true)
		}
	}
	return nil, nil
}

func cloneTree(v interface{}) interface{} {
	switch x := v.(type) {
	case tree:
		out := tree{}
		for k, e := range x {
			out[k] = cloneTree(e)
		}
		return out
	case []interface{}:
		out := make([]interface{}, len(x))
		for i, e := range x {
			out[i] = cloneTree(e)
		}
		return out
	case json.RawMessage:
		return append(json.RawMessage(nil), x...)
	}
	return v
}

// marshalTree serialises a tree; json.RawMessage leaves are emitted verbatim (encoding/json validates them, so
// leaves with invalid UTF-8 or other oddities are spliced in textually).
func marshalTree(v interface{}) []byte {
	switch x := v.(type) {
	case tree:
		keys := make([]string, 0, len(x))
		for k := range x {
			keys = append(keys, k)
		}
		sort.Strings(keys)
		var b strings.Builder
		b.WriteByte('{')
		for i, k := range keys {
			if i > 0 {
				b.WriteByte(',')
			}
			b.Write(jstr(k))
			b.WriteByte(':')
			b.Write(marshalTree(x[k]))
		}
		b.WriteByte('}')
		return []byte(b.String())
	case []interface{}:
		var b strings.Builder
		b.WriteByte('[')
		for i, e := range x {
			if i > 0 {
				b.WriteByte(',')
			}
			b.Write(marshalTree(e))
		}
		b.WriteByte(']')
		return []byte(b.String())
	case json.RawMessage:
		return x
	}
	out, err := json.Marshal(v)
	if err != nil {
		panic(err)
	}
	return out
}

// withContentHash adds hashes.sha256 the way the library checks it (canonical form without signatures,
// unsigned, hashes and the keys the parser strips). Returns the input unchanged when the library cannot
// canonicalise it (then parsing decides what happens).
func withContentHash(eventJSON []byte, fmtV1 bool) []byte {
	var out []byte
	if pi := guard(func() {
		canon, err := gmsl.CanonicalJSON(eventJSON)
		if err != nil {
			return
		}
		strip := []string{"outlier", "destinations", "age_ts", "unsigned", "signatures", "hashes"}
		if !fmtV1 {
			strip = append(strip, "event_id")
		}
		for _, k := range strip {
			if canon, err = sjson.DeleteBytes(canon, k); err != nil {
				return
			}
		}
		sum := sha256.Sum256(canon)
		res, err := sjson.SetRawBytes(eventJSON, "hashes", []byte(`{"sha256":"`+b64(sum[:])+`"}`))
		if err != nil {
			return
		}
		out = res
	}); pi != nil || out == nil {
		return eventJSON
	}
	return out
}

func (c *roomCtx) refs(ids []string) interface{} {
	out := make([]interface{}, 0, len(ids))
	for _, id := range ids {
		if c.fmtV1 {
			out = append(out, []interface{}{id, tree{"sha256": "47DEQpj8HBSa+/TImW+5JCeuQeRkm5NMpJWZG3hSuFU"}})
		} else {
			out = append(out, id)
		}
	}
	return out
}

// newEvent builds the tree of a well-formed event on top of the current room.
func (c *roomCtx) newEvent(name, typ string, stateKey *string, sender string, content tree, auth []string, prev []string) tree {
	c.depth++
	t := tree{
		"type":             typ,
		"sender":           c.sender(sender),
		"content":          content,
		"depth":            c.depth,
		"origin_server_ts": 1700000000000 + c.depth*1000,
		"origin":           userServer[sender],
	}
	if stateKey != nil {
		t["state_key"] = *stateKey
	}
	if !(c.domainless && typ == "m.room.create") {
		t["room_id"] = c.roomID
	}
	var authIDs, prevIDs []string
	for _, a := range auth {
		if id, ok := c.ids[a]; ok {
			if c.domainless && a == "create" {
				continue
			}
			authIDs = append(authIDs, id)
		}
	}
	for _, p := range prev {
		if id, ok := c.ids[p]; ok {
			prevIDs = append(prevIDs, id)
		}
	}
	t["auth_events"] = c.refs(authIDs)
	t["prev_events"] = c.refs(prevIDs)
	if c.fmtV1 {
		t["event_id"] = "$" + name + ":" + userServer[sender]
	}
	return t
}

func strp(s string) *string { return &s }

// parse runs the library's untrusted parser under recover.
func (c *roomCtx) parse(raw []byte) (ev gmsl.PDU, o outcome) {
	o = call(func() error {
		var err error
		ev, err = c.impl.NewEventFromUntrustedJSON(raw)
		if err != nil {
			ev = nil
		}
		return err
	})
	return
}

// add finalises (hash, sign), parses and registers a standard event; any failure is a harness error.
func (c *roomCtx) add(name string, t tree, signer string) error {
	raw := withContentHash(marshalTree(t), c.fmtV1)
	ev, o := c.parse(raw)
	if o.Out != "ok" {
		return fmt.Errorf("standard event %s of room version %s does not parse (%s %s%v): %s", name, c.ver, o.Out, o.Err, o.Panic, raw)
	}
	if ev.Redacted() {
		return fmt.Errorf("standard event %s of room version %s parsed as redacted: %s", name, c.ver, raw)
	}
	if signer != "" {
		name2, key := userServer[signer], serverKeys[userServer[signer]]
		if c.pseudo {
			name2, key = pseudoID(signer), userKeys[signer]
		}
		var signed []byte
		if pi := guard(func() { signed = ev.Sign(name2, "ed25519:1", key).JSON() }); pi != nil {
			return fmt.Errorf("standard event %s cannot be signed: %s", name, pi.Value)
		}
		// parse the signed bytes again: the context events are exactly what the untrusted parser returns
		var o outcome
		if ev, o = c.parse(signed); o.Out != "ok" {
			return fmt.Errorf("signed standard event %s does not parse: %s", name, o.Err)
		}
	}
	c.trees[name] = t
	c.raw[name] = ev.JSON()
	c.pdu[name] = ev
	var id string
	if pi := guard(func() { id = ev.EventID() }); pi != nil {
		return fmt.Errorf("standard event %s has no event ID: %s", name, pi.Value)
	}
	c.ids[name] = id
	c.order = append(c.order, name)
	return nil
}

func (c *roomCtx) memberContent(u, membership string) tree {
	ct := tree{"membership": membership, "displayname": u}
	if c.pseudo { // every membership event carries the mapping (PerformJoin stores the mapping of each of them)
		m := gmsl.MXIDMapping{UserRoomKey: spec.SenderID(pseudoID(u)), UserID: userID(u)}
		if err := m.Sign(spec.ServerName(userServer[u]), "ed25519:1", serverKeys[userServer[u]]); err != nil {
			panic(err)
		}
		b, _ := json.Marshal(m)
		ct["mxid_mapping"] = json.RawMessage(b)
	}
	return ct
}

func restrictedSupported(ver string) bool {
	switch ver {
	case "8", "9", "10", "11", "12", "org.matrix.msc3787", "org.matrix.msc4014", "org.matrix.hydra.11":
		return true
	}
	return false
}

type roomOpts struct {
	roomID string // "" = the standard room ID
	create []byte // nil = the standard create event
}

var roomCache sync.Map

// roomFor returns the (cached) context room of a version; with opts the room is built around a given room ID
// string or create event (nil when the standard events do not parse in such a room).
func roomFor(ver string, o roomOpts) *roomCtx {
	key := ver + "\x00" + o.roomID + "\x00" + string(o.create)
	if v, ok := roomCache.Load(key); ok {
		return v.(*roomCtx)
	}
	c, err := buildRoom(ver, o)
	if err != nil {
		if o.roomID == "" && o.create == nil {
			fatalf("cannot build the standard room: %v", err)
		}
		c = nil
	}
	roomCache.Store(key, c)
	return c
}

func buildRoom(ver string, o roomOpts) (*roomCtx, error) {
	impl, err := gmsl.GetRoomVersion(gmsl.RoomVersion(ver))
	if err != nil {
		return nil, err
	}
	c := &roomCtx{ver: ver, impl: impl, fmtV1: impl.EventFormat() == gmsl.EventFormatV1, domainless: impl.DomainlessRoomIDs(),
		pseudo: ver == "org.matrix.msc4014", roomID: "!room:hs1",
		trees: map[string]tree{}, raw: map[string][]byte{}, pdu: map[string]gmsl.PDU{}, ids: map[string]string{}}
	if o.roomID != "" {
		c.roomID = o.roomID
	}
	// create
	if o.create != nil {
		ev, oc := c.parse(o.create)
		if oc.Out != "ok" {
			return nil, fmt.Errorf("override create does not parse")
		}
		var id string
		var rid string
		if pi := guard(func() { id = ev.EventID() }); pi != nil {
			return nil, fmt.Errorf("override create has no event ID")
		}
		if c.domainless {
			rid = "!" + strings.TrimPrefix(id, "$")
		} else {
			var f struct {
				RoomID string `json:"room_id"`
			}
			_ = json.Unmarshal(o.create, &f)
			rid = f.RoomID
		}
		c.roomID = rid
		c.depth = 1
		c.raw["create"], c.pdu["create"], c.ids["create"] = ev.JSON(), ev, id
		var t tree
		_ = json.Unmarshal(o.create, &t)
		c.trees["create"] = t
		c.order = append(c.order, "create")
	} else {
		cc := tree{"room_version": ver}
		if !c.domainless {
			cc["creator"] = c.sender("creator")
		}
		if err := c.add("create", c.newEvent("create", "m.room.create", strp(""), "creator", cc, nil, nil), "creator"); err != nil {
			return nil, err
		}
		if c.domainless {
			c.roomID = "!" + strings.TrimPrefix(c.ids["create"], "$")
		}
	}
	step := func(name, typ string, sk *string, sender string, content tree, auth []string) error {
		prev := []string{c.order[len(c.order)-1]}
		return c.add(name, c.newEvent(name, typ, sk, sender, content, auth, prev), sender)
	}
	cr, al, bo := c.sender("creator"), c.sender("alice"), c.sender("bob")
	users := tree{al: 50, bo: 10}
	if !c.domainless {
		users[cr] = 100
	}
	jr := tree{"join_rule": "public"}
	if restrictedSupported(ver) {
		jr = tree{"join_rule": "restricted", "allow": []interface{}{tree{"type": "m.room_membership", "room_id": "!other:hs1"}}}
	}
	idPub := serverKeys["idserver"].Public().(ed25519.PublicKey)
	steps := []func() error{
		func() error {
			return step("jcreator", "m.room.member", &cr, "creator", c.memberContent("creator", "join"), []string{"create"})
		},
		func() error {
			return step("pl", "m.room.power_levels", strp(""), "creator", tree{"users": users, "users_default": 0, "events_default": 0,
				"state_default": 50, "ban": 50, "kick": 50, "redact": 50, "invite": 0, "events": tree{"m.room.name": 50},
				"notifications": tree{"room": 50}}, []string{"create", "jcreator"})
		},
		func() error {
			return step("jr0", "m.room.join_rules", strp(""), "creator", tree{"join_rule": "public"}, []string{"create", "jcreator", "pl"})
		},
		func() error {
			return step("jalice", "m.room.member", &al, "alice", c.memberContent("alice", "join"), []string{"create", "pl", "jr0"})
		},
		func() error {
			return step("jbob", "m.room.member", &bo, "bob", c.memberContent("bob", "join"), []string{"create", "pl", "jr0"})
		},
		func() error {
			return step("jr", "m.room.join_rules", strp(""), "creator", jr, []string{"create", "jcreator", "pl"})
		},
		func() error {
			return step("tpi", "m.room.third_party_invite", strp("tok"), "alice", tree{"display_name": "d...",
				"key_validity_url": "https://idserver/valid", "public_key": b64(idPub),
				"public_keys": []interface{}{tree{"public_key": b64(idPub), "key_validity_url": "https://idserver/valid"}}},
				[]string{"create", "jalice", "pl"})
		},
		func() error {
			return step("hv", "m.room.history_visibility", strp(""), "creator", tree{"history_visibility": "shared"}, []string{"create", "jcreator", "pl"})
		},
		func() error {
			return step("msg", "m.room.message", nil, "bob", tree{"msgtype": "m.text", "body": "hi"}, []string{"create", "jbob", "pl"})
		},
		// two events that are not part of the current state: the other side of the forks that state resolution sees
		func() error {
			u2 := tree{al: 50, bo: 5}
			if !c.domainless {
				u2[cr] = 100
			}
			return step("plB", "m.room.power_levels", strp(""), "creator", tree{"users": u2, "users_default": 0, "events_default": 0,
				"state_default": 50, "ban": 50, "kick": 50, "redact": 50, "invite": 0}, []string{"create", "jcreator", "pl"})
		},
		func() error {
			kc := c.memberContent("bob", "leave")
			kc["reason"] = "bye"
			return step("kickbob", "m.room.member", &bo, "alice", kc, []string{"create", "jalice", "jbob", "pl"})
		},
	}
	for _, s := range steps {
		if err := s(); err != nil {
			return nil, err
		}
	}
	return c, nil
}

// chain is the auth chain of the standard room: every state event of its history.
func (c *roomCtx) chain() []string {
	var out []string
	for _, n := range c.order {
		if n != "msg" {
			out = append(out, n)
		}
	}
	return out
}

// stateNames is the current state of the standard room.
var stateNames = []string{"create", "jcreator", "pl", "jr", "jalice", "jbob", "tpi", "hv"}

// replaces says which standard state event a subject type stands in for ("" = an additional event).
func replaces(typ string) string {
	switch typ {
	case "create":
		return "create"
	case "power_levels":
		return "pl"
	case "join_rules":
		return "jr"
	case "third_party_invite":
		return "tpi"
	case "history_visibility":
		return "hv"
	}
	return ""
}

// signedTPI builds the `signed` object of a third party invite, really signed by the identity server.
func (c *roomCtx) signedTPI(target string) tree {
	obj := tree{"mxid": c.sender(target), "token": "tok"}
	signed, err := gmsl.SignJSON("idserver", "ed25519:0", serverKeys["idserver"], marshalTree(obj))
	if err != nil {
		panic(err)
	}
	var s struct {
		Signatures map[string]map[string]string `json:"signatures"`
	}
	_ = json.Unmarshal(signed, &s)
	sigs := tree{}
	for k, v := range s.Signatures {
		m := tree{}
		for k2, v2 := range v {
			m[k2] = v2
		}
		sigs[k] = m
	}
	obj["signatures"] = sigs
	return obj
}

// subjectTree is the well-formed subject event of a type, built on top of the room.
func (c *roomCtx) subjectTree(typ string) tree {
	d := c.depth // subjects sit on top of the room, they do not advance it
	defer func() { c.depth = d }()
	cr, al, bo, ca, da := c.sender("creator"), c.sender("alice"), c.sender("bob"), c.sender("carol"), c.sender("dave")
	_ = cr
	last := []string{"msg"}
	switch typ {
	case "create":
		return cloneTree(c.trees["create"]).(tree)
	case "member":
		ct := c.memberContent("carol", "join")
		auth := []string{"create", "pl", "jr"}
		if restrictedSupported(c.ver) {
			ct["join_authorised_via_users_server"] = al
			auth = append(auth, "jalice")
		}
		return c.newEvent("jcarol", "m.room.member", &ca, "carol", ct, auth, last)
	case "member_tpi":
		ct := tree{"membership": "invite", "third_party_invite": tree{"display_name": "d...", "signed": c.signedTPI("dave")}}
		return c.newEvent("idave", "m.room.member", &da, "alice", ct, []string{"create", "pl", "jr", "jalice", "tpi"}, last)
	case "power_levels":
		users := tree{al: 50, bo: 20}
		if !c.domainless {
			users[cr] = 100
		}
		return c.newEvent("pl2", "m.room.power_levels", strp(""), "creator", tree{"users": users, "users_default": 0, "events_default": 0,
			"state_default": 50, "ban": 50, "kick": 50, "redact": 50, "invite": 0, "events": tree{"m.room.name": 50, "m.room.topic": 50},
			"notifications": tree{"room": 50}}, []string{"create", "jcreator", "pl"}, last)
	case "join_rules":
		return c.newEvent("jr2", "m.room.join_rules", strp(""), "creator", tree{"join_rule": "invite"}, []string{"create", "jcreator", "pl"}, last)
	case "third_party_invite":
		t := cloneTree(c.trees["tpi"]).(tree)
		n := c.newEvent("tpi2", "m.room.third_party_invite", strp("tok"), "alice", t["content"].(tree), []string{"create", "jalice", "pl"}, last)
		return n
	case "redaction":
		t := c.newEvent("red", "m.room.redaction", nil, "bob", tree{"reason": "r", "redacts": c.ids["msg"]}, []string{"create", "jbob", "pl"}, last)
		t["redacts"] = c.ids["msg"]
		return t
	case "aliases":
		sk := "hs1"
		if c.pseudo {
			sk = al // the rule for pseudo ID rooms: the state key is the sender
		}
		return c.newEvent("ali", "m.room.aliases", &sk, "alice", tree{"aliases": []interface{}{"#a:hs1"}}, []string{"create", "jalice", "pl"}, last)
	case "history_visibility":
		return c.newEvent("hv2", "m.room.history_visibility", strp(""), "creator", tree{"history_visibility": "joined"}, []string{"create", "jcreator", "pl"}, last)
	case "message":
		return c.newEvent("msg2", "m.room.message", nil, "bob", tree{"msgtype": "m.text", "body": "hello"}, []string{"create", "jbob", "pl"}, last)
	}
	fatalf("unknown subject type %q", typ)
	return nil
}

func fatalf(format string, a ...interface{}) {
	panic("harness: " + fmt.Sprintf(format, a...))
}
