package main

// C08 over histories - replay of spec/AuthSeq_gen.tla: a session of power-levels events is judged one after the other
// against the evolving current power levels, (a) through ONE reused checker driven as state resolution drives it
// (gmsl.NewVerifChecker: provider cleared and refilled, update(), allowed()) and (b) through a fresh Allowed() per
// event.  Whenever either accepts an event, NoEsc (computed by the specification against the levels current at that
// time) must hold.

import (
	"encoding/json"
	"fmt"
	"strings"

	gmsl "github.com/matrix-org/gomatrixserverlib"
)

type seqStep struct {
	Sender string `json:"sender"`
	Base   string `json:"base"` // "cur": edit of the current content, "init": edit of the initial content (a fork)
	K      string `json:"k"`
	X      int    `json:"x"`
	Want   bool   `json:"want"`
	NoEsc  bool   `json:"noesc"`
}

type seqRecord struct {
	Ver   string    `json:"ver"`
	A0    int       `json:"a0"`
	B0    int       `json:"b0"`
	Fam   string    `json:"fam"`
	Steps []seqStep `json:"steps"`
}

func init() {
	register("c08seq", "replay AuthSeq_gen.tla sessions of power-levels events (reused checker and fresh Allowed): accepted => NoEsc", func(a *args) error {
		return replayAll(a, func(i int, raw json.RawMessage) Result { return seqReplay(i, raw, int(a.seed)) })
	})
}

func emptyAbsPL() absPL {
	c := absPL{Ban: -1, Kick: -1, Invite: -1, Redact: -1, EventsDefault: -1, StateDefault: -1, UsersDefault: -1,
		Users: map[string]int{}, Events: map[string]int{}, Notif: map[string]int{}, SpKind: "int"}
	for _, u := range absUsers {
		c.Users[u] = -1
	}
	for _, k := range evKeys {
		c.Events[k] = -1
	}
	c.Notif["room"], c.Notif["here"] = -1, -1
	return c
}

// setK is SetK of AuthSeq_gen.tla.
func setK(c absPL, k string, x int) absPL {
	d := clonePL(c)
	switch {
	case strings.HasPrefix(k, "users."):
		d.Users[k[len("users."):]] = x
	case strings.HasPrefix(k, "events."):
		d.Events[k[len("events."):]] = x
	default:
		setScalar(&d, k, x)
	}
	return d
}

func seqReplay(i int, raw json.RawMessage, seed int) Result {
	var rec seqRecord
	if err := json.Unmarshal(raw, &rec); err != nil {
		panic(err)
	}
	variant := seed + i
	lad := ladders[((variant%len(ladders))+len(ladders))%len(ladders)]
	ver := rec.Ver
	ids := newAuthIDs(ver, 0)
	authBase := []string{ids.createID}
	if isDomainless(ver) {
		authBase = nil
	}
	cc := map[string]interface{}{"room_version": ver}
	if !(ver == "11" || isDomainless(ver)) {
		cc["creator"] = userIDs["creator"]
	}
	ce := eventSpec{Ver: ver, ID: ids.createID, RoomID: ids.room, Type: "m.room.create", StateKey: strp(""), Sender: userIDs["creator"], Content: cc, Depth: 1, TS: 1}
	if isDomainless(ver) {
		ce.RoomID = ""
	}
	depth := int64(1)
	stEv := func(tag, typ, skey, sender string, content interface{}) gmsl.PDU {
		depth++
		es := eventSpec{Ver: ver, ID: ids.id(tag), RoomID: ids.room, Type: typ, StateKey: strp(skey), Sender: sender, Content: content,
			Prev: []string{ids.createID}, Auth: authBase, Depth: depth, TS: depth}
		return es.mustBuild()
	}
	// the same create and member event objects throughout the session, as in state resolution
	base := []gmsl.PDU{ce.mustBuild()}
	for _, u := range []string{"creator", "alice", "bob"} {
		base = append(base, stEv("mem_"+u, "m.room.member", userIDs[u], userIDs[u], map[string]interface{}{"membership": "join"}))
	}
	init0 := emptyAbsPL()
	init0.Users["alice"], init0.Users["bob"] = rec.A0, rec.B0
	cur := init0
	curEv := stEv("seqpl0", "m.room.power_levels", "", userIDs["creator"], plJSON(&cur, lad, variant, ""))

	var ch *gmsl.VerifChecker
	lastK := "" // the key the last accepted event of the session changed
	var ntParts []string
	for j, s := range rec.Steps {
		from := cur
		if s.Base == "init" {
			from = init0
		}
		next := setK(from, s.K, s.X)
		ev := stEv(fmt.Sprintf("seqpl%d", j+1), "m.room.power_levels", "", userIDs[s.Sender], plJSON(&next, lad, variant, ""))
		state := append(append([]gmsl.PDU{}, base...), curEv)
		if ch == nil {
			ch = gmsl.NewVerifChecker(identityQuerier, ev.RoomID())
		}
		reused := ch.Check(state, ev) == nil
		prov, err := gmsl.NewAuthEvents(state)
		if err != nil {
			panic(err)
		}
		fresh := gmsl.Allowed(ev, prov, identityQuerier) == nil

		// abstract state / event of this step, for the canonical key
		ast := absState{}
		ast.PL.Present, ast.PL.C = true, cur
		aev := absEvent{Type: "pl", Sender: s.Sender, NewPL: next}
		stepDiff := plDiffKey(&ast, &aev)
		// canonical class of the step: the names of the keys it changes (how they relate to the sender's level is in
		// the description)
		var names []string
		for _, part := range strings.Split(stepDiff, ",") {
			if k := strings.IndexByte(part, ':'); k > 0 {
				names = append(names, part[:k])
			}
		}
		stepKey := strings.Join(names, "+")
		afterKey := lastK
		switch {
		case lastK == "":
			afterKey = "nothing"
		case lastK == "users."+s.Sender:
			afterKey = "users.SENDER"
		case strings.HasPrefix(lastK, "users."):
			afterKey = "users.OTHER"
		}
		ntParts = append(ntParts, fmt.Sprintf("%s:%s:%s=%d:%v", s.Sender, s.Base, s.K, s.X, s.Want))
		for _, route := range []struct {
			name string
			got  bool
		}{{"reused", reused}, {"fresh", fresh}} {
			if route.got && !s.NoEsc {
				how := "the checker state resolution reuses for a run of events (update() + allowed() on a refilled provider)"
				if route.name == "fresh" {
					how = "a fresh Allowed()"
				}
				return Result{OK: false, NT: "plseq|" + ver + "|" + strings.Join(ntParts, ";"),
					Key:  fmt.Sprintf("C08/seq/checker=%s/%s/after=%s", route.name, stepKey, afterKey),
					Want: "rejected (escalation)", Got: "accepted",
					What: fmt.Sprintf("event %d of a session of power-levels events was accepted by %s although it escalates privilege against the levels current at that time: "+
						"%s (the last accepted event of the session changed %s; the other route says accepted=%v; the rules say accepted=%v); room version %s",
						j+1, how, stepDiff, afterKey, map[bool]bool{true: fresh, false: reused}[route.name == "reused"], s.Want, ver),
					Extra: map[string]interface{}{"event": json.RawMessage(ev.JSON()), "auth": pdusJSON(state), "session": rec}}
			}
		}
		if s.Want {
			// the session goes on as the specification says (the records were generated that way)
			cur, curEv = next, ev
			lastK = s.K
		}
	}
	return Result{OK: true, NT: "plseq|" + ver + "|" + strings.Join(ntParts, ";")}
}
