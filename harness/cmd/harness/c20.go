package main

// C20 - login tokens.  Replays Tokens.tla behaviours against tokens.GenerateLoginToken,
// ValidateToken and GetUserFromToken.  No clock hook: model instants are realised by
// shifting the expiry caveat relative to the real clock (DESIGN.md section 3, "Time").

import (
	"bytes"
	"encoding/base64"
	"encoding/json"
	"fmt"
	"strconv"
	"strings"
	"sync"
	"time"

	"github.com/matrix-org/gomatrixserverlib/tokens"
	macaroon "gopkg.in/macaroon.v2"
)

type c20Rec struct {
	Call    string   `json:"call"`
	Secret  string   `json:"secret"`
	User    string   `json:"user"`
	Dur     int      `json:"dur"`
	At      int      `json:"at"`
	Altered []string `json:"altered"`
	Clock   int      `json:"clock"`
	VSecret string   `json:"vsecret"`
	VUser   string   `json:"vuser"`
	OK      bool     `json:"ok"`
	GUser   string   `json:"guser"`
}

func init() {
	register("c20", "replay Tokens.tla records against the tokens package", func(a *args) error {
		return replayAll(a, c20Replay)
	})
}

// c20Secret realises a model secret.  Names starting with "K" are keys of particular LENGTHS that share a prefix:
// K64a and K64b are 64 bytes long and differ only in their second half, K32 is their common first half, K33 one byte
// more - different secrets all the same.  Every other name is used as it is.
func c20Secret(name string) []byte {
	a := strings.Repeat("A", 32)
	switch name {
	case "K64a":
		return []byte(a + strings.Repeat("a", 32))
	case "K64b":
		return []byte(a + strings.Repeat("b", 32))
	case "K32":
		return []byte(a)
	case "K33":
		return []byte(a + "a")
	case "K16":
		return []byte(a[:16])
	}
	return []byte(name)
}

// --- user IDs: the alphabet dimension of Tokens.tla ("~frame~class~position") -------------------------------------
// The model names a structured user ID; the bytes are chosen here.  One text per character class, placed in a frame
// (a full Matrix ID or the bare localpart) at a position.  Distinct names MUST give distinct byte strings (the model
// says "another user"): asserted once over the whole table.
var c20ClassText = map[string]string{
	"none": "",
	// URL escaping: the query and the path flavour disagree on '+'; '%' starts an escape - valid, lower case,
	// not hexadecimal, cut short
	"plus": "+", "space": " ", "pct_plus": "%2B", "pct_plus_lc": "%2b", "pct_space": "%20", "pct_pct": "%25",
	"pct_bare": "%", "pct_hex": "%41", "pct_trunc": "%4",
	// separators of URLs, forms, Matrix IDs and caveat texts
	"slash": "/", "pct_slash": "%2F", "question": "?", "hash": "#", "amp": "&", "eq": "=", "semicolon": ";",
	"colon": ":", "at": "@", "comma": ",", "dot": ".", "cav_sep": " = ", "cav_user": "user_id = ",
	// JSON / log escaping, control characters
	"quote": "\"", "backslash": "\\", "newline": "\n", "crlf": "\r\n", "tab": "\t", "nul": "\x00", "del": "\x7f",
	// base64 alphabets, markup
	"b64url": "-_", "lt": "<",
	// Unicode: composed, decomposed, outside the BMP, bytes that are not UTF-8, a byte order mark
	"nonascii": "\u00e9", "nfd": "e\u0301", "astral": "\U0001F600", "notutf8": "\xe9", "bom": "\ufeff",
	// lengths beyond what 7 bits, one byte and two bytes can say
	"long200": strings.Repeat("x", 200), "long300": strings.Repeat("x", 300), "long70k": strings.Repeat("x", 70000),
}

var c20Frames = map[string][4]string{ // prefix, first half, second half, suffix
	"mxid": {"@", "alice", "work", ":example.org"},
	"bare": {"", "alice", "work", ""},
}

func c20Place(frame, class, pos string) (string, bool) {
	f, ok := c20Frames[frame]
	m, ok2 := c20ClassText[class]
	if !ok || !ok2 {
		panic("Tokens.tla names a user ID the harness cannot realise: ~" + frame + "~" + class + "~" + pos)
	}
	switch pos {
	case "lead":
		return f[0] + m + f[1] + f[2] + f[3], true
	case "mid":
		return f[0] + f[1] + m + f[2] + f[3], true
	case "trail":
		return f[0] + f[1] + f[2] + m + f[3], true
	case "end":
		return f[0] + f[1] + f[2] + f[3] + m, f[3] != ""
	case "only":
		return f[0] + m + f[3], true
	case "twice":
		return f[0] + f[1] + m + f[2] + m + f[3], true
	}
	panic("Tokens.tla names a position the harness cannot realise: " + pos)
}

var c20UsersOnce sync.Once

// c20User realises a model user ID: structured names as above, every other name as it is.  The second result is the
// character class ("" for a plain name).
func c20User(name string) (string, string) {
	if !strings.HasPrefix(name, "~") {
		return name, ""
	}
	c20UsersOnce.Do(func() {
		seen := map[string]string{}
		for fr := range c20Frames {
			for cl := range c20ClassText {
				for _, pos := range []string{"lead", "mid", "trail", "end", "only", "twice"} {
					if cl == "none" && pos != "mid" || strings.HasPrefix(cl, "long") && pos != "mid" { // WellPlaced
						continue
					}
					u, ok := c20Place(fr, cl, pos)
					if !ok {
						continue
					}
					n := "~" + fr + "~" + cl + "~" + pos
					if o, dup := seen[u]; dup {
						panic(fmt.Sprintf("user IDs %s and %s are the same byte string %.40q", o, n, u))
					}
					seen[u] = n
				}
			}
		}
	})
	p := strings.Split(name[1:], "~")
	if len(p) != 3 {
		panic("malformed structured user ID " + name)
	}
	u, ok := c20Place(p[0], p[1], p[2])
	if !ok || u == "" {
		panic("structured user ID " + name + " is not well placed")
	}
	return u, p[1] + "@" + p[2]
}

// c20IssuedID is the macaroon identifier the library itself gives a token for this user (what GetUserFromToken reads
// the user from is the library's business: tokens the harness mints - shifted expiry, faulty issuers - carry the
// identifier a real issue would).
func c20IssuedID(key []byte, user string) string {
	t, err := tokens.GenerateLoginToken(tokens.TokenOptions{ServerPrivateKey: key, ServerName: "example.org", UserID: user})
	if err != nil {
		return user
	}
	bin, err := base64.RawURLEncoding.DecodeString(t)
	if err != nil {
		return user
	}
	var m macaroon.Macaroon
	if err := m.UnmarshalBinary(bin); err != nil {
		return user
	}
	return string(m.Id())
}

// c20ThirdParty appends a third-party caveat to the token (no key needed) and, if discharged, returns the binary
// SLICE form: the token followed by a discharge macaroon minted by the holder and bound to the token.
func c20ThirdParty(bin []byte, discharged bool) []byte {
	var m macaroon.Macaroon
	if err := m.UnmarshalBinary(bin); err != nil {
		return bin
	}
	rootKey := []byte("holder-chosen third-party key 01")
	if err := m.AddThirdPartyCaveat(rootKey, []byte("third-party-caveat"), "elsewhere.example.org"); err != nil {
		panic(err)
	}
	if !discharged {
		b, err := m.MarshalBinary()
		if err != nil {
			panic(err)
		}
		return b
	}
	d, err := macaroon.New(rootKey, []byte("third-party-caveat"), "elsewhere.example.org", macaroon.V2)
	if err != nil {
		panic(err)
	}
	d.Bind(m.Signature())
	b, err := macaroon.Slice{&m, d}.MarshalBinary()
	if err != nil {
		panic(err)
	}
	return b
}

func c20Mint(key []byte, id string, cavs []string) []byte {
	m, err := macaroon.New(key, []byte(id), "example.org", macaroon.V2)
	if err != nil {
		panic(err)
	}
	for _, c := range cavs {
		if err := m.AddFirstPartyCaveat([]byte(c)); err != nil {
			panic(err)
		}
	}
	b, err := m.MarshalBinary()
	if err != nil {
		panic(err)
	}
	return b
}

func c20Add(bin []byte, cav string) []byte {
	var m macaroon.Macaroon
	if err := m.UnmarshalBinary(bin); err != nil {
		return bin // unparsable stays unparsable
	}
	if err := m.AddFirstPartyCaveat([]byte(cav)); err != nil {
		panic(err)
	}
	b, err := m.MarshalBinary()
	if err != nil {
		panic(err)
	}
	return b
}

func c20Replay(i int, raw json.RawMessage) Result {
	var r c20Rec
	if err := json.Unmarshal(raw, &r); err != nil {
		panic(err)
	}
	eff := r.Dur
	if eff == 0 {
		eff = 120
	}
	delta := r.At + eff - r.Clock // seconds of validity left at the validation instant in the model
	realDelta := delta
	if delta > 0 {
		realDelta = delta + 2 // keep clear of the real clock ticking between minting and validating
	}
	key := c20Secret(r.Secret)
	sgn := "expired"
	if delta > 0 {
		sgn = "live"
	}
	sameUser := r.User == r.VUser // in the model; the realisation is injective
	var ucls, vcls string
	r.User, ucls = c20User(r.User)
	if r.VUser != "" {
		r.VUser, vcls = c20User(r.VUser)
	}
	nt := fmt.Sprintf("%s|%v|%s|key=%v|user=%v|%v", r.Call, r.Altered, sgn, r.Secret == r.VSecret, sameUser, r.OK)
	ukey := ""
	if ucls != "" {
		// the character class of the user ID is the point of such a scenario (the position is a neighbouring value)
		c := strings.SplitN(ucls, "@", 2)[0]
		ukey = "userclass=" + c + "/"
		if vcls != "" && !sameUser {
			vc := strings.SplitN(vcls, "@", 2)[0]
			ukey += "validated-as=" + vc + "/"
			nt += "|user:" + c + ">" + vc
		} else {
			nt += "|user:" + ucls
		}
	}
	keyOf := func(stage string) string {
		return fmt.Sprintf("C20/%s/%saltered=%s/%s/samekey=%v/sameuser=%v/model=%v", stage, ukey, strings.Join(r.Altered, "+"), sgn, r.Secret == r.VSecret, sameUser, r.OK)
	}

	var token string
	realIssue := len(r.Altered) == 0 && r.Clock == r.At && !(eff > 0 && eff < 3)
	if realIssue {
		before := time.Now().Unix()
		t, err := tokens.GenerateLoginToken(tokens.TokenOptions{ServerPrivateKey: key, ServerName: "example.org", UserID: r.User, Duration: r.Dur})
		after := time.Now().Unix()
		if err != nil {
			return Result{OK: false, NT: nt, Key: "C20/issue/" + ukey + "error", What: fmt.Sprintf("GenerateLoginToken for user %.80q failed: %v", r.User, err)}
		}
		token = t
		bin, err := base64.RawURLEncoding.DecodeString(t)
		if err != nil {
			return Result{OK: false, NT: nt, Key: "C20/issue/" + ukey + "encoding", What: "issued token is not unpadded URL-safe base64"}
		}
		var m macaroon.Macaroon
		if err := m.UnmarshalBinary(bin); err != nil {
			return Result{OK: false, NT: nt, Key: "C20/issue/" + ukey + "encoding", What: "issued token is not a macaroon: " + err.Error()}
		}
		var cavs []string
		for _, c := range m.Caveats() {
			cavs = append(cavs, string(c.Id))
		}
		okShape := len(cavs) == 3 && cavs[0] == tokens.Gen && cavs[1] == tokens.UserPrefix+r.User && strings.HasPrefix(cavs[2], tokens.TimePrefix)
		// (the identifier is not compared: what GetUserFromToken reads the user from is the library's business,
		// and every issue is followed by a GetUser in the model)
		if !okShape {
			return Result{OK: false, NT: nt, Key: "C20/issue/" + ukey + "caveats", What: fmt.Sprintf("token issued for %.60q has id %.60q caveats %.120q", r.User, m.Id(), cavs)}
		}
		exp, err := strconv.ParseInt(cavs[2][len(tokens.TimePrefix):], 10, 64)
		if err != nil || exp < before+int64(eff) || exp > after+int64(eff) {
			return Result{OK: false, Key: "C20/issue/time-caveat",
				What: fmt.Sprintf("issued at unix %d..%d for %d s: expiry caveat %q is not issue instant + duration", before, after, eff, cavs[2]),
				Want: before + int64(eff), Got: cavs[2]}
		}
	} else {
		now := time.Now().Unix()
		exp := now + int64(realDelta)
		std := []string{tokens.Gen, tokens.UserPrefix + r.User, tokens.TimePrefix + strconv.FormatInt(exp, 10)}
		id := c20IssuedID(key, r.User)
		bin := c20Mint(key, id, std)
		other := "@bob:example.org"
		if r.User == other {
			other = "@alice:example.org"
		}
		for _, k := range r.Altered {
			switch k {
			case "flip_sig":
				bin = append([]byte(nil), bin...)
				bin[len(bin)-1]++
			case "flip_caveat":
				var m macaroon.Macaroon
				if m.UnmarshalBinary(bin) == nil && len(m.Caveats()) > 0 {
					last := m.Caveats()[len(m.Caveats())-1].Id
					if p := bytes.LastIndex(bin, last); p >= 0 {
						bin = append([]byte(nil), bin...)
						bin[p]++
					}
				}
			case "flip_id":
				if p := bytes.Index(bin, []byte(id)); p >= 0 {
					bin = append([]byte(nil), bin...)
					bin[p]++
				} else if p := bytes.Index(bin, []byte(id)[1:]); p > 0 {
					bin = append([]byte(nil), bin...)
					bin[p-1]++
				}
			case "truncate":
				if len(bin) > 7 {
					bin = bin[:len(bin)-7]
				}
			case "text_pad":
				// applied to the text below
			case "add_unknown":
				bin = c20Add(bin, "unknown = 1")
			case "add_gen":
				bin = c20Add(bin, tokens.Gen)
			case "add_time_past":
				bin = c20Add(bin, tokens.TimePrefix+"0")
			case "add_time_future":
				bin = c20Add(bin, tokens.TimePrefix+strconv.FormatInt(now+1000000, 10))
			case "add_user_other":
				bin = c20Add(bin, tokens.UserPrefix+other)
			case "add_user_same":
				bin = c20Add(bin, tokens.UserPrefix+r.User)
			case "add_third_party":
				bin = c20ThirdParty(bin, false)
			case "add_third_party_discharged":
				bin = c20ThirdParty(bin, true)
			case "mint_no_time":
				bin = c20Mint(key, id, std[:2])
			case "mint_no_gen":
				bin = c20Mint(key, id, std[1:])
			case "mint_no_user":
				bin = c20Mint(key, id, []string{std[0], std[2]})
			case "mint_extra_unknown":
				bin = c20Mint(key, id, append(append([]string{}, std...), "unknown = 1"))
			case "mint_gen_near":
				// not the generation caveat: its text followed by more characters, another letter case, other spacing
				v := []string{tokens.Gen + "0", tokens.Gen + "x", tokens.Gen + " ", " " + tokens.Gen, "Gen = 1", "gen=1", "gen = 2", "gen = 01", tokens.Gen + ".0"}
				bin = c20Mint(key, id, []string{v[i%len(v)], std[1], std[2]})
			case "mint_user_near":
				// a caveat that is not "user_id = <the user>" although it resembles it; the validating side asks for
				// r.VUser, so the variants are built around that name (and around the issued one)
				vu := r.VUser
				v := []string{"User_id = " + vu, "user_id =" + vu, "user_id  = " + vu, "userid = " + vu, " " + tokens.UserPrefix + vu,
					"user_id = " + vu + " ", "user_id = " + vu + "x", "user_id = " + strings.ToUpper(vu)}
				if len(vu) > 1 {
					v = append(v, "user_id = "+vu[:len(vu)-1])
				}
				bin = c20Mint(key, id, []string{std[0], v[i%len(v)], std[2]})
			case "mint_time_near":
				es := strconv.FormatInt(exp, 10)
				v := []string{"Time < " + es, "time <" + es, "time <= " + es, "time > " + es, " " + tokens.TimePrefix + es,
					tokens.TimePrefix + es + "x", tokens.TimePrefix + es + ".0", tokens.TimePrefix + es + " ", tokens.TimePrefix + " " + es,
					tokens.TimePrefix + "0x7fffffffffff", tokens.TimePrefix + "9" + strings.Repeat("9", 19), tokens.TimePrefix, tokens.TimePrefix + "never"}
				bin = c20Mint(key, id, []string{std[0], std[1], v[i%len(v)]})
			default:
				panic("unknown alteration " + k)
			}
		}
		token = base64.RawURLEncoding.EncodeToString(bin)
		for _, k := range r.Altered {
			if k == "text_pad" {
				// the text an issued token would have in the padded alphabet ('=' up to a multiple of four; one '='
				// if it is one already): another string than the one that was issued
				n := (4 - len(token)%4) % 4
				if n == 0 {
					n = 1
				}
				token += strings.Repeat("=", n)
			}
		}
	}

	switch r.Call {
	case "validate":
		err := tokens.ValidateToken(tokens.TokenOptions{ServerPrivateKey: c20Secret(r.VSecret), ServerName: "example.org", UserID: r.VUser}, token)
		got := err == nil
		if got != r.OK {
			return Result{OK: false, NT: nt, Key: keyOf("validate"), Want: r.OK, Got: got,
				What: fmt.Sprintf("ValidateToken: model says ok=%v, code says ok=%v (err=%v); token altered by %v, %d s of validity left, validated with same key=%v same user=%v", r.OK, got, err, r.Altered, delta, r.Secret == r.VSecret, r.User == r.VUser)}
		}
	case "getuser":
		u, err := tokens.GetUserFromToken(token)
		if r.GUser != "" {
			want, _ := c20User(r.GUser)
			if err != nil || u != want {
				return Result{OK: false, NT: nt, Key: keyOf("getuser"), Want: want, Got: u,
					What: fmt.Sprintf("token issued for %.80q: GetUserFromToken = %.80q, %v", want, u, err)}
			}
		}
	case "validate_read":
		// the caller pattern: read the user from the token, validate for the user READ (not for the model's name)
		u, gerr := tokens.GetUserFromToken(token)
		var verr error
		got := false
		if gerr == nil {
			verr = tokens.ValidateToken(tokens.TokenOptions{ServerPrivateKey: c20Secret(r.VSecret), ServerName: "example.org", UserID: u}, token)
			got = verr == nil
		}
		if got != r.OK {
			return Result{OK: false, NT: nt, Key: keyOf("validate_read"), Want: r.OK, Got: got,
				What: fmt.Sprintf("GetUserFromToken then ValidateToken for the user read: model says ok=%v, code says ok=%v (token issued for %.80q, read %.80q err=%v, validate err=%v); token altered by %v, %d s of validity left, same key=%v",
					r.OK, got, r.User, u, gerr, verr, r.Altered, delta, r.Secret == r.VSecret)}
		}
		if got && u != r.User {
			return Result{OK: false, NT: nt, Key: keyOf("validate_read") + "/other-user", Want: r.User, Got: u,
				What: fmt.Sprintf("a token issued for %.80q reads as %.80q and validates for it", r.User, u)}
		}
	default:
		panic("unknown call " + r.Call)
	}
	return Result{OK: true, NT: nt}
}

// c20seq: the one thing the shifted-caveat realisation cannot show - ONE token string presented twice, before and
// after its expiry, in real time (Tokens.tla: Issue, Validate, TickTo(past expiry), Validate).  The first
// validation must succeed and the second must fail; a first validation that already fails because the machine was
// too slow to reach it within the lifetime is inconclusive and skipped, never reported.
type c20SeqRec struct {
	Secret string `json:"secret"`
	User   string `json:"user"`
	Dur    int    `json:"dur"`
	// Phase > 0: issue only - at that many milliseconds into a wall-clock second - and compare the expiry caveat
	// with (second of issue) + duration: "stops validating once the number of seconds requested has elapsed"
	// whatever the sub-second instant of the issue
	Phase int `json:"phase"`
}

func c20IssuePhase(r c20SeqRec) Result {
	nt := fmt.Sprintf("issue-phase|%d|dur=%d", r.Phase, r.Dur)
	eff := r.Dur
	if eff == 0 {
		eff = 120
	}
	for attempt := 0; attempt < 8; attempt++ {
		now := time.Now()
		target := now.Truncate(time.Second).Add(time.Duration(r.Phase) * time.Millisecond)
		if !target.After(now) {
			target = target.Add(time.Second)
		}
		time.Sleep(time.Until(target))
		before := time.Now()
		tok, err := tokens.GenerateLoginToken(tokens.TokenOptions{ServerPrivateKey: []byte(r.Secret), ServerName: "example.org", UserID: r.User, Duration: r.Dur})
		after := time.Now()
		if err != nil {
			return Result{OK: false, NT: nt, Key: "C20/issue/error", What: "GenerateLoginToken failed: " + err.Error()}
		}
		if before.Unix() != after.Unix() {
			continue // straddled a second boundary: the expected expiry is ambiguous, try again
		}
		bin, err := base64.RawURLEncoding.DecodeString(tok)
		if err != nil {
			return Result{OK: false, NT: nt, Key: "C20/issue/encoding", What: "issued token is not unpadded URL-safe base64"}
		}
		var m macaroon.Macaroon
		if err := m.UnmarshalBinary(bin); err != nil {
			return Result{OK: false, NT: nt, Key: "C20/issue/encoding", What: "issued token is not a macaroon: " + err.Error()}
		}
		for _, c := range m.Caveats() {
			if id := string(c.Id); strings.HasPrefix(id, tokens.TimePrefix) {
				exp, err := strconv.ParseInt(id[len(tokens.TimePrefix):], 10, 64)
				if err != nil || exp != before.Unix()+int64(eff) {
					return Result{OK: false, NT: nt, Key: "C20/issue/time-caveat",
						What: fmt.Sprintf("issued %d ms into unix second %d for %d s: expiry caveat %q is not issue second + duration", before.Nanosecond()/1e6, before.Unix(), eff, id),
						Want: before.Unix() + int64(eff), Got: id}
				}
				return Result{OK: true, NT: nt}
			}
		}
		return Result{OK: false, NT: nt, Key: "C20/issue/caveats", What: "issued token has no time caveat"}
	}
	return Result{OK: true, NT: nt + "|inconclusive", What: "could not issue within one wall-clock second"}
}

func init() {
	register("c20seq", "one token validated before and after its expiry in real time", func(a *args) error {
		return replayAll(a, func(i int, raw json.RawMessage) Result {
			var r c20SeqRec
			if err := json.Unmarshal(raw, &r); err != nil {
				panic(err)
			}
			if r.Phase > 0 {
				return c20IssuePhase(r)
			}
			opts := tokens.TokenOptions{ServerPrivateKey: []byte(r.Secret), ServerName: "example.org", UserID: r.User, Duration: r.Dur}
			issued := time.Now()
			tok, err := tokens.GenerateLoginToken(opts)
			if err != nil {
				return Result{OK: false, Key: "C20/issue/error", What: "GenerateLoginToken failed: " + err.Error()}
			}
			nt := fmt.Sprintf("seq|dur=%d", r.Dur)
			vopts := tokens.TokenOptions{ServerPrivateKey: []byte(r.Secret), ServerName: "example.org", UserID: r.User}
			first := tokens.ValidateToken(vopts, tok)
			// the expiry is (second of issue) + duration, compared in whole seconds: the first validation is only
			// conclusive if it was over before the earliest second the token can expire in
			if time.Now().Unix() >= issued.Unix()+int64(r.Dur) {
				return Result{OK: true, NT: nt + "|inconclusive", What: "too slow to validate within the lifetime"}
			}
			if first != nil {
				return Result{OK: false, NT: nt, Key: "C20/sequence/first-validation-refused", What: "a token validated within its lifetime was refused: " + first.Error()}
			}
			time.Sleep(time.Until(issued.Truncate(time.Second).Add(time.Duration(r.Dur+2)*time.Second + 500*time.Millisecond)))
			// the same string again, and a copy of it
			for n, t := range []string{tok, string(append([]byte(nil), tok...))} {
				if err := tokens.ValidateToken(vopts, t); err == nil {
					return Result{OK: false, NT: nt, Key: "C20/sequence/validates-after-expiry-once-it-validated-before",
						What: fmt.Sprintf("a token issued for %d s validated, and still validates %.1f s after issue (presentation %d of the same string)", r.Dur, time.Since(issued).Seconds(), n+1)}
				}
			}
			if u, err := tokens.GetUserFromToken(tok); err != nil || u != r.User {
				return Result{OK: false, NT: nt, Key: "C20/sequence/getuser", What: fmt.Sprintf("GetUserFromToken = %q, %v", u, err)}
			}
			return Result{OK: true, NT: nt}
		})
	})
}
