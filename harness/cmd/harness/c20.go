package main

// C20 - login tokens.  Replays Tokens.tla behaviours against tokens.GenerateLoginToken,
// ValidateToken and GetUserFromToken.  No clock hook: model instants are realised by
// shifting the expiry caveat relative to the real clock (DESIGN.md section 3, "Time").

import (
	"bytes"
	"encoding/base64"
	"encoding/json"
	"fmt"
	"strconv"
	"strings"
	"time"

	"github.com/matrix-org/gomatrixserverlib/tokens"
	macaroon "gopkg.in/macaroon.v2"
)

type c20Rec struct {
	Call    string   `json:"call"`
	Secret  string   `json:"secret"`
	User    string   `json:"user"`
	Dur     int      `json:"dur"`
	At      int      `json:"at"`
	Altered []string `json:"altered"`
	Clock   int      `json:"clock"`
	VSecret string   `json:"vsecret"`
	VUser   string   `json:"vuser"`
	OK      bool     `json:"ok"`
	GUser   string   `json:"guser"`
}

func init() {
	register("c20", "replay Tokens.tla records against the tokens package", func(a *args) error {
		return replayAll(a, c20Replay)
	})
}

// c20Secret realises a model secret.  Names starting with "K" are keys of particular LENGTHS that share a prefix:
// K64a and K64b are 64 bytes long and differ only in their second half, K32 is their common first half, K33 one byte
// more - different secrets all the same.  Every other name is used as it is.
func c20Secret(name string) []byte {
	a := strings.Repeat("A", 32)
	switch name {
	case "K64a":
		return []byte(a + strings.Repeat("a", 32))
	case "K64b":
		return []byte(a + strings.Repeat("b", 32))
	case "K32":
		return []byte(a)
	case "K33":
		return []byte(a + "a")
	case "K16":
		return []byte(a[:16])
	}
	return []byte(name)
}

// c20ThirdParty appends a third-party caveat to the token (no key needed) and, if discharged, returns the binary
// SLICE form: the token followed by a discharge macaroon minted by the holder and bound to the token.
func c20ThirdParty(bin []byte, discharged bool) []byte {
	var m macaroon.Macaroon
	if err := m.UnmarshalBinary(bin); err != nil {
		return bin
	}
	rootKey := []byte("holder-chosen third-party key 01")
	if err := m.AddThirdPartyCaveat(rootKey, []byte("third-party-caveat"), "elsewhere.example.org"); err != nil {
		panic(err)
	}
	if !discharged {
		b, err := m.MarshalBinary()
		if err != nil {
			panic(err)
		}
		return b
	}
	d, err := macaroon.New(rootKey, []byte("third-party-caveat"), "elsewhere.example.org", macaroon.V2)
	if err != nil {
		panic(err)
	}
	d.Bind(m.Signature())
	b, err := macaroon.Slice{&m, d}.MarshalBinary()
	if err != nil {
		panic(err)
	}
	return b
}

func c20Mint(key []byte, id string, cavs []string) []byte {
	m, err := macaroon.New(key, []byte(id), "example.org", macaroon.V2)
	if err != nil {
		panic(err)
	}
	for _, c := range cavs {
		if err := m.AddFirstPartyCaveat([]byte(c)); err != nil {
			panic(err)
		}
	}
	b, err := m.MarshalBinary()
	if err != nil {
		panic(err)
	}
	return b
}

func c20Add(bin []byte, cav string) []byte {
	var m macaroon.Macaroon
	if err := m.UnmarshalBinary(bin); err != nil {
		return bin // unparsable stays unparsable
	}
	if err := m.AddFirstPartyCaveat([]byte(cav)); err != nil {
		panic(err)
	}
	b, err := m.MarshalBinary()
	if err != nil {
		panic(err)
	}
	return b
}

func c20Replay(i int, raw json.RawMessage) Result {
	var r c20Rec
	if err := json.Unmarshal(raw, &r); err != nil {
		panic(err)
	}
	eff := r.Dur
	if eff == 0 {
		eff = 120
	}
	delta := r.At + eff - r.Clock // seconds of validity left at the validation instant in the model
	realDelta := delta
	if delta > 0 {
		realDelta = delta + 2 // keep clear of the real clock ticking between minting and validating
	}
	key := c20Secret(r.Secret)
	sgn := "expired"
	if delta > 0 {
		sgn = "live"
	}
	nt := fmt.Sprintf("%s|%v|%s|key=%v|user=%v|%v", r.Call, r.Altered, sgn, r.Secret == r.VSecret, r.User == r.VUser, r.OK)
	keyOf := func(stage string) string {
		return fmt.Sprintf("C20/%s/altered=%s/%s/samekey=%v/sameuser=%v/model=%v", stage, strings.Join(r.Altered, "+"), sgn, r.Secret == r.VSecret, r.User == r.VUser, r.OK)
	}

	var token string
	realIssue := len(r.Altered) == 0 && r.Clock == r.At && !(eff > 0 && eff < 3)
	if realIssue {
		before := time.Now().Unix()
		t, err := tokens.GenerateLoginToken(tokens.TokenOptions{ServerPrivateKey: key, ServerName: "example.org", UserID: r.User, Duration: r.Dur})
		after := time.Now().Unix()
		if err != nil {
			return Result{OK: false, Key: "C20/issue/error", What: "GenerateLoginToken failed: " + err.Error()}
		}
		token = t
		bin, err := base64.RawURLEncoding.DecodeString(t)
		if err != nil {
			return Result{OK: false, Key: "C20/issue/encoding", What: "issued token is not unpadded URL-safe base64"}
		}
		var m macaroon.Macaroon
		if err := m.UnmarshalBinary(bin); err != nil {
			return Result{OK: false, Key: "C20/issue/encoding", What: "issued token is not a macaroon: " + err.Error()}
		}
		var cavs []string
		for _, c := range m.Caveats() {
			cavs = append(cavs, string(c.Id))
		}
		okShape := len(cavs) == 3 && cavs[0] == tokens.Gen && cavs[1] == tokens.UserPrefix+r.User && strings.HasPrefix(cavs[2], tokens.TimePrefix)
		if !okShape || string(m.Id()) != r.User {
			return Result{OK: false, Key: "C20/issue/caveats", What: fmt.Sprintf("issued token has id %q caveats %q", m.Id(), cavs)}
		}
		exp, err := strconv.ParseInt(cavs[2][len(tokens.TimePrefix):], 10, 64)
		if err != nil || exp < before+int64(eff) || exp > after+int64(eff) {
			return Result{OK: false, Key: "C20/issue/time-caveat",
				What: fmt.Sprintf("issued at unix %d..%d for %d s: expiry caveat %q is not issue instant + duration", before, after, eff, cavs[2]),
				Want: before + int64(eff), Got: cavs[2]}
		}
	} else {
		now := time.Now().Unix()
		exp := now + int64(realDelta)
		std := []string{tokens.Gen, tokens.UserPrefix + r.User, tokens.TimePrefix + strconv.FormatInt(exp, 10)}
		bin := c20Mint(key, r.User, std)
		other := "@bob:example.org"
		if r.User == other {
			other = "@alice:example.org"
		}
		for _, k := range r.Altered {
			switch k {
			case "flip_sig":
				bin = append([]byte(nil), bin...)
				bin[len(bin)-1]++
			case "flip_caveat":
				var m macaroon.Macaroon
				if m.UnmarshalBinary(bin) == nil && len(m.Caveats()) > 0 {
					last := m.Caveats()[len(m.Caveats())-1].Id
					if p := bytes.LastIndex(bin, last); p >= 0 {
						bin = append([]byte(nil), bin...)
						bin[p]++
					}
				}
			case "flip_id":
				if p := bytes.Index(bin, []byte(r.User)); p >= 0 {
					bin = append([]byte(nil), bin...)
					bin[p]++
				} else if p := bytes.Index(bin, []byte(r.User)[1:]); p > 0 {
					bin = append([]byte(nil), bin...)
					bin[p-1]++
				}
			case "truncate":
				if len(bin) > 7 {
					bin = bin[:len(bin)-7]
				}
			case "text_pad":
				// applied to the text below
			case "add_unknown":
				bin = c20Add(bin, "unknown = 1")
			case "add_gen":
				bin = c20Add(bin, tokens.Gen)
			case "add_time_past":
				bin = c20Add(bin, tokens.TimePrefix+"0")
			case "add_time_future":
				bin = c20Add(bin, tokens.TimePrefix+strconv.FormatInt(now+1000000, 10))
			case "add_user_other":
				bin = c20Add(bin, tokens.UserPrefix+other)
			case "add_user_same":
				bin = c20Add(bin, tokens.UserPrefix+r.User)
			case "add_third_party":
				bin = c20ThirdParty(bin, false)
			case "add_third_party_discharged":
				bin = c20ThirdParty(bin, true)
			case "mint_no_time":
				bin = c20Mint(key, r.User, std[:2])
			case "mint_no_gen":
				bin = c20Mint(key, r.User, std[1:])
			case "mint_no_user":
				bin = c20Mint(key, r.User, []string{std[0], std[2]})
			case "mint_extra_unknown":
				bin = c20Mint(key, r.User, append(append([]string{}, std...), "unknown = 1"))
			case "mint_gen_near":
				// not the generation caveat: its text followed by more characters, another letter case, other spacing
				v := []string{tokens.Gen + "0", tokens.Gen + "x", tokens.Gen + " ", " " + tokens.Gen, "Gen = 1", "gen=1", "gen = 2", "gen = 01", tokens.Gen + ".0"}
				bin = c20Mint(key, r.User, []string{v[i%len(v)], std[1], std[2]})
			case "mint_user_near":
				// a caveat that is not "user_id = <the user>" although it resembles it; the validating side asks for
				// r.VUser, so the variants are built around that name (and around the issued one)
				vu := r.VUser
				v := []string{"User_id = " + vu, "user_id =" + vu, "user_id  = " + vu, "userid = " + vu, " " + tokens.UserPrefix + vu,
					"user_id = " + vu + " ", "user_id = " + vu + "x", "user_id = " + strings.ToUpper(vu)}
				if len(vu) > 1 {
					v = append(v, "user_id = "+vu[:len(vu)-1])
				}
				bin = c20Mint(key, r.User, []string{std[0], v[i%len(v)], std[2]})
			case "mint_time_near":
				es := strconv.FormatInt(exp, 10)
				v := []string{"Time < " + es, "time <" + es, "time <= " + es, "time > " + es, " " + tokens.TimePrefix + es,
					tokens.TimePrefix + es + "x", tokens.TimePrefix + es + ".0", tokens.TimePrefix + es + " ", tokens.TimePrefix + " " + es,
					tokens.TimePrefix + "0x7fffffffffff", tokens.TimePrefix + "9" + strings.Repeat("9", 19), tokens.TimePrefix, tokens.TimePrefix + "never"}
				bin = c20Mint(key, r.User, []string{std[0], std[1], v[i%len(v)]})
			default:
				panic("unknown alteration " + k)
			}
		}
		token = base64.RawURLEncoding.EncodeToString(bin)
		for _, k := range r.Altered {
			if k == "text_pad" {
				// the text an issued token would have in the padded alphabet ('=' up to a multiple of four; one '='
				// if it is one already): another string than the one that was issued
				n := (4 - len(token)%4) % 4
				if n == 0 {
					n = 1
				}
				token += strings.Repeat("=", n)
			}
		}
	}

	switch r.Call {
	case "validate":
		err := tokens.ValidateToken(tokens.TokenOptions{ServerPrivateKey: c20Secret(r.VSecret), ServerName: "example.org", UserID: r.VUser}, token)
		got := err == nil
		if got != r.OK {
			return Result{OK: false, NT: nt, Key: keyOf("validate"), Want: r.OK, Got: got,
				What: fmt.Sprintf("ValidateToken: model says ok=%v, code says ok=%v (err=%v); token altered by %v, %d s of validity left, validated with same key=%v same user=%v", r.OK, got, err, r.Altered, delta, r.Secret == r.VSecret, r.User == r.VUser)}
		}
	case "getuser":
		u, err := tokens.GetUserFromToken(token)
		if r.GUser != "" && (err != nil || u != r.GUser) {
			return Result{OK: false, NT: nt, Key: keyOf("getuser"), Want: r.GUser, Got: u, What: fmt.Sprintf("GetUserFromToken = %q, %v", u, err)}
		}
	}
	return Result{OK: true, NT: nt}
}

// c20seq: the one thing the shifted-caveat realisation cannot show - ONE token string presented twice, before and
// after its expiry, in real time (Tokens.tla: Issue, Validate, TickTo(past expiry), Validate).  The first
// validation must succeed and the second must fail; a first validation that already fails because the machine was
// too slow to reach it within the lifetime is inconclusive and skipped, never reported.
type c20SeqRec struct {
	Secret string `json:"secret"`
	User   string `json:"user"`
	Dur    int    `json:"dur"`
	// Phase > 0: issue only - at that many milliseconds into a wall-clock second - and compare the expiry caveat
	// with (second of issue) + duration: "stops validating once the number of seconds requested has elapsed"
	// whatever the sub-second instant of the issue
	Phase int `json:"phase"`
}

func c20IssuePhase(r c20SeqRec) Result {
	nt := fmt.Sprintf("issue-phase|%d|dur=%d", r.Phase, r.Dur)
	eff := r.Dur
	if eff == 0 {
		eff = 120
	}
	for attempt := 0; attempt < 8; attempt++ {
		now := time.Now()
		target := now.Truncate(time.Second).Add(time.Duration(r.Phase) * time.Millisecond)
		if !target.After(now) {
			target = target.Add(time.Second)
		}
		time.Sleep(time.Until(target))
		before := time.Now()
		tok, err := tokens.GenerateLoginToken(tokens.TokenOptions{ServerPrivateKey: []byte(r.Secret), ServerName: "example.org", UserID: r.User, Duration: r.Dur})
		after := time.Now()
		if err != nil {
			return Result{OK: false, NT: nt, Key: "C20/issue/error", What: "GenerateLoginToken failed: " + err.Error()}
		}
		if before.Unix() != after.Unix() {
			continue // straddled a second boundary: the expected expiry is ambiguous, try again
		}
		bin, err := base64.RawURLEncoding.DecodeString(tok)
		if err != nil {
			return Result{OK: false, NT: nt, Key: "C20/issue/encoding", What: "issued token is not unpadded URL-safe base64"}
		}
		var m macaroon.Macaroon
		if err := m.UnmarshalBinary(bin); err != nil {
			return Result{OK: false, NT: nt, Key: "C20/issue/encoding", What: "issued token is not a macaroon: " + err.Error()}
		}
		for _, c := range m.Caveats() {
			if id := string(c.Id); strings.HasPrefix(id, tokens.TimePrefix) {
				exp, err := strconv.ParseInt(id[len(tokens.TimePrefix):], 10, 64)
				if err != nil || exp != before.Unix()+int64(eff) {
					return Result{OK: false, NT: nt, Key: "C20/issue/time-caveat",
						What: fmt.Sprintf("issued %d ms into unix second %d for %d s: expiry caveat %q is not issue second + duration", before.Nanosecond()/1e6, before.Unix(), eff, id),
						Want: before.Unix() + int64(eff), Got: id}
				}
				return Result{OK: true, NT: nt}
			}
		}
		return Result{OK: false, NT: nt, Key: "C20/issue/caveats", What: "issued token has no time caveat"}
	}
	return Result{OK: true, NT: nt + "|inconclusive", What: "could not issue within one wall-clock second"}
}

func init() {
	register("c20seq", "one token validated before and after its expiry in real time", func(a *args) error {
		return replayAll(a, func(i int, raw json.RawMessage) Result {
			var r c20SeqRec
			if err := json.Unmarshal(raw, &r); err != nil {
				panic(err)
			}
			if r.Phase > 0 {
				return c20IssuePhase(r)
			}
			opts := tokens.TokenOptions{ServerPrivateKey: []byte(r.Secret), ServerName: "example.org", UserID: r.User, Duration: r.Dur}
			issued := time.Now()
			tok, err := tokens.GenerateLoginToken(opts)
			if err != nil {
				return Result{OK: false, Key: "C20/issue/error", What: "GenerateLoginToken failed: " + err.Error()}
			}
			nt := fmt.Sprintf("seq|dur=%d", r.Dur)
			vopts := tokens.TokenOptions{ServerPrivateKey: []byte(r.Secret), ServerName: "example.org", UserID: r.User}
			first := tokens.ValidateToken(vopts, tok)
			// the expiry is (second of issue) + duration, compared in whole seconds: the first validation is only
			// conclusive if it was over before the earliest second the token can expire in
			if time.Now().Unix() >= issued.Unix()+int64(r.Dur) {
				return Result{OK: true, NT: nt + "|inconclusive", What: "too slow to validate within the lifetime"}
			}
			if first != nil {
				return Result{OK: false, NT: nt, Key: "C20/sequence/first-validation-refused", What: "a token validated within its lifetime was refused: " + first.Error()}
			}
			time.Sleep(time.Until(issued.Truncate(time.Second).Add(time.Duration(r.Dur+2)*time.Second + 500*time.Millisecond)))
			// the same string again, and a copy of it
			for n, t := range []string{tok, string(append([]byte(nil), tok...))} {
				if err := tokens.ValidateToken(vopts, t); err == nil {
					return Result{OK: false, NT: nt, Key: "C20/sequence/validates-after-expiry-once-it-validated-before",
						What: fmt.Sprintf("a token issued for %d s validated, and still validates %.1f s after issue (presentation %d of the same string)", r.Dur, time.Since(issued).Seconds(), n+1)}
				}
			}
			if u, err := tokens.GetUserFromToken(tok); err != nil || u != r.User {
				return Result{OK: false, NT: nt, Key: "C20/sequence/getuser", What: fmt.Sprintf("GetUserFromToken = %q, %v", u, err)}
			}
			return Result{OK: true, NT: nt}
		})
	})
}
