package main

// C07/C08 code -> spec: a seeded driver composes abstract scenarios over the *full* Auth.tla vocabulary
// (not the generator families), realises them, calls the real Allowed() and logs scenario + verdict.
// spec/Auth_trace.tla re-derives every logged verdict.

import (
	"encoding/json"
	"fmt"
	"math/rand"
)

func init() {
	register("c07rec", "record random Allowed() calls as an NDJSON trace for Auth_trace.tla", func(a *args) error {
		tw, err := newTraceWriter(a.out)
		if err != nil {
			return err
		}
		rng := rand.New(rand.NewSource(a.seed))
		// the caller's accessor-and-edit steps are drawn from a stream of their own (the scenarios drawn from rng stay
		// what they were)
		prng := rand.New(rand.NewSource(a.seed ^ 0x5eed0acce55))
		for i := 0; i < a.n; i++ {
			sc := randomScenario(rng)
			if sc.Ev.Type == "pl" && prng.Float64() < 0.4 {
				// read-modify-write by the caller: a content is read through a public accessor and the value obtained is
				// edited, before Allowed() is asked (order "cec": also asked once before)
				sc.Pre = &absPre{
					Route: pick(prng, "state.PowerLevels", "state.PowerLevels", "state.FromEvent", "state.FromAuthEvents", "event.PowerLevels", "event.FromEvent"),
					Edit:  pick(prng, "to_other", "to_other", "wipe", "lift"),
					Order: pick(prng, "ec", "cec"),
				}
			}
			var got0 *bool
			did := ""
			r := safely(i, func() Result {
				c, err := concretise(sc, int(a.seed)+i)
				if err != nil {
					panic(fmt.Sprintf("concretise: %v", err))
				}
				if sc.hasPre() {
					if sc.Pre.Order == "cec" {
						g, _ := runAllowed(c)
						got0 = &g
					}
					did = callerEdit(sc, c)
				}
				got, _ := runAllowed(c)
				return Result{OK: true, Got: got}
			})
			if !r.OK {
				// a panic is reported on stdout as a failing result line; the scenario is not part of the trace
				r.I = i
				r.Extra = sc
				b, _ := json.Marshal(r)
				fmt.Println(string(b))
				continue
			}
			if got0 != nil {
				// the check before the caller's edit is a call of its own
				tw.emit(map[string]interface{}{"ver": sc.Ver, "st": sc.St, "ev": sc.Ev, "got": *got0, "variant": int(a.seed) + i})
			}
			line := map[string]interface{}{"ver": sc.Ver, "st": sc.St, "ev": sc.Ev, "got": r.Got, "variant": int(a.seed) + i}
			if did != "" {
				line["pre"] = sc.Pre
			}
			tw.emit(line)
		}
		return tw.close()
	})
}

func pick[T any](r *rand.Rand, xs ...T) T { return xs[r.Intn(len(xs))] }

// weighted pick: first element with probability p, otherwise uniform among the rest
func mostly[T any](r *rand.Rand, p float64, first T, rest ...T) T {
	if r.Float64() < p || len(rest) == 0 {
		return first
	}
	return rest[r.Intn(len(rest))]
}

func randLevel(r *rand.Rand, pAbsent float64) int {
	if r.Float64() < pAbsent {
		return -1
	}
	return r.Intn(5)
}

var absUsers = []string{"creator", "alice", "bob", "carol"}
var evKeys = []string{"pl", "jr", "topic", "msg", "redaction", "tpi", "custom"}

func randPL(r *rand.Rand, sparse float64) absPL {
	c := absPL{Ban: randLevel(r, sparse), Kick: randLevel(r, sparse), Invite: randLevel(r, sparse), Redact: randLevel(r, sparse),
		EventsDefault: randLevel(r, sparse), StateDefault: randLevel(r, sparse), UsersDefault: randLevel(r, sparse),
		Users: map[string]int{}, Events: map[string]int{}, Notif: map[string]int{}, SpKind: "int"}
	for _, u := range absUsers {
		c.Users[u] = randLevel(r, sparse)
	}
	for _, k := range evKeys {
		c.Events[k] = randLevel(r, 0.5+sparse/2)
	}
	c.Notif["room"] = randLevel(r, sparse)
	c.Notif["here"] = randLevel(r, 0.5+sparse/2)
	return c
}

func clonePL(c absPL) absPL {
	d := c
	d.Users, d.Events, d.Notif = map[string]int{}, map[string]int{}, map[string]int{}
	for k, v := range c.Users {
		d.Users[k] = v
	}
	for k, v := range c.Events {
		d.Events[k] = v
	}
	for k, v := range c.Notif {
		d.Notif[k] = v
	}
	return d
}

func randomScenario(r *rand.Rand) *authScenario { return randomScenarioOf(r, pick(r, AllVersions...)) }

// randomScenarioOf draws a scenario of the given room version.
func randomScenarioOf(r *rand.Rand, ver string) *authScenario {
	sc := &authScenario{Fam: "random"}
	sc.Ver = ver
	priv := isDomainless(sc.Ver)
	st := &sc.St
	st.Create.Present = r.Float64() < 0.95
	st.Create.Room = mostly(r, 0.95, "same", "other")
	st.Create.Federate = mostly(r, 0.7, "absent", "true", "false")
	st.Create.Addl = []string{}
	if priv && r.Float64() < 0.4 {
		st.Create.Addl = append(st.Create.Addl, pick(r, "alice", "bob"))
	}
	st.PL.Present = r.Float64() < 0.75
	st.PL.C = randPL(r, 0.6)
	if !st.PL.Present {
		st.PL.C = randPL(r, 1.0)
	}
	if priv {
		st.PL.C.Users["creator"] = -1
		for _, u := range st.Create.Addl {
			st.PL.C.Users[u] = -1
		}
	}
	st.JR = pick(r, "absent", "public", "invite", "knock", "restricted", "knock_restricted", "private", "nokey")
	st.Mem = map[string]string{}
	for _, u := range absUsers {
		st.Mem[u] = mostly(r, 0.45, "join", "absent", "invite", "leave", "ban", "knock", "garbage")
	}
	st.TPI = mostly(r, 0.6, "absent", "match", "nomatch")
	st.TPISender = pick(r, "creator", "alice")
	st.MixedRooms = r.Float64() < 0.03

	ev := &sc.Ev
	ev.Type = pick(r, "member", "member", "member", "pl", "pl", "msg", "topic", "jr", "tpi", "at_state", "redaction", "aliases", "create")
	ev.Sender = pick(r, absUsers...)
	ev.Target = ev.Sender
	ev.Membership, ev.Prev, ev.AuthVia, ev.TPI, ev.SKey, ev.Redacts = "join", "other", "none", "none", "none", "own_domain"
	ev.NewPL = randPL(r, 1.0)
	ev.CDomain, ev.CRV, ev.CCreator, ev.CAddl = "match", "own", true, "none"
	switch ev.Type {
	case "member":
		if r.Float64() < 0.5 {
			ev.Target = pick(r, absUsers...)
		}
		ev.Membership = pick(r, "join", "join", "invite", "leave", "ban", "knock", "garbage", "missing")
		ev.SKey = mostly(r, 0.97, "self", "none")
		ev.Prev = mostly(r, 0.7, "other", "create_only", "two", "none")
		if ev.Membership == "join" {
			ev.AuthVia = mostly(r, 0.5, "none", "creator", "alice", "bob", "carol", "invalid")
		}
		if ev.Membership != "invite" && r.Float64() < 0.05 {
			ev.TPI = pick(r, "ok", "notoken")
		}
		if ev.Membership == "invite" && r.Float64() < 0.3 {
			ev.TPI = pick(r, "ok", "ok", "mxid_mismatch", "notoken")
			if ev.Target == "carol" && ev.TPI == "mxid_mismatch" {
				ev.TPI = "ok" // the mismatching mxid is carol's
			}
			if r.Float64() < 0.7 {
				st.TPI = mostly(r, 0.7, "match", "nomatch", "absent")
			}
		}
	case "pl":
		ev.SKey = mostly(r, 0.95, "empty", "none")
		if st.PL.Present && r.Float64() < 0.8 {
			// a small edit of the current content
			ev.NewPL = clonePL(st.PL.C)
			for n := r.Intn(3); n >= 0; n-- {
				switch r.Intn(4) {
				case 0:
					setScalar(&ev.NewPL, pick(r, "ban", "kick", "invite", "redact", "events_default", "state_default", "users_default"), randLevel(r, 0.3))
				case 1:
					ev.NewPL.Users[pick(r, absUsers...)] = randLevel(r, 0.3)
				case 2:
					ev.NewPL.Events[pick(r, evKeys...)] = randLevel(r, 0.3)
				case 3:
					ev.NewPL.Notif[pick(r, "room", "here")] = randLevel(r, 0.3)
				}
			}
		} else {
			ev.NewPL = randPL(r, 0.6)
		}
		if r.Float64() < 0.1 {
			// spell one present scalar key unusually
			for _, k := range []string{"ban", "kick", "invite", "redact", "events_default", "state_default", "users_default"} {
				if getScalar(&ev.NewPL, k) >= 0 {
					ev.NewPL.SpK, ev.NewPL.SpKind = k, pick(r, "str", "strpad", "float", "frac", "badstr")
					break
				}
			}
		}
		ev.NewPL.BadUser = r.Float64() < 0.03
	case "msg", "redaction":
		ev.SKey = "none"
		ev.Redacts = pick(r, "own_domain", "other_domain", "nocolon")
	case "topic", "jr":
		ev.SKey = "empty"
	case "tpi":
		ev.SKey = "token"
	case "at_state":
		ev.SKey = pick(r, "self", "other_user")
	case "aliases":
		ev.SKey = pick(r, "server_self", "server_self", "server_other", "self", "none")
	case "create":
		ev.Sender = "creator"
		ev.SKey = mostly(r, 0.9, "empty", "none")
		ev.CPrevs = r.Float64() < 0.15
		ev.CDomain = mostly(r, 0.8, "match", "mismatch")
		ev.CRoomID = r.Float64() < 0.2 || ev.SKey == "none"
		ev.CRV = mostly(r, 0.7, "own", "absent", "unknown")
		ev.CCreator = r.Float64() < 0.8
		ev.CAddl = mostly(r, 0.7, "none", "valid", "invalid")
		st.Create.Present = false
	}
	return sc
}

func setScalar(c *absPL, k string, v int) {
	switch k {
	case "ban":
		c.Ban = v
	case "kick":
		c.Kick = v
	case "invite":
		c.Invite = v
	case "redact":
		c.Redact = v
	case "events_default":
		c.EventsDefault = v
	case "state_default":
		c.StateDefault = v
	case "users_default":
		c.UsersDefault = v
	}
}

func getScalar(c *absPL, k string) int {
	switch k {
	case "ban":
		return c.Ban
	case "kick":
		return c.Kick
	case "invite":
		return c.Invite
	case "redact":
		return c.Redact
	case "events_default":
		return c.EventsDefault
	case "state_default":
		return c.StateDefault
	case "users_default":
		return c.UsersDefault
	}
	return -1
}
