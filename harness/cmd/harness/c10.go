package main

// C10 / C11 - state resolution.  Records come from spec/Room_gen.tla: a room DAG, two (or more) state sets at
// fork tips and the resolved state + stages that StateRes.tla derives.
//   c10 : ResolveConflictsNew / ResolveStateConflictsV2New / ResolveStateConflicts must return exactly the
//         specified state (ID set), with the auth events presented as the auth chain of the state sets and as
//         the auth chain plus the state events themselves.
//   c11 : the same inputs under permutations of the state sets, shuffles inside every list, duplicated
//         auth-event entries and repeated runs, through the current and the deprecated entry points: per entry
//         point all ID sets coincide; every output is well formed; orderings are topological.
// Dimensions the concretiser varies under a lemma of StateRes.tla (checked by TLC on the emitted queries):
//   spelling of the levels of power-levels events (field spell; LevelsSpellingFree), realisation of the depth ranks
//   as int64 depths (depthReal; V1StrictTotal, V1DepthRankOnly; v2 / v2.1 and the orderings never read depths),
//   padding of the state sets with a control-type event under a key of its own (padded; PadNeutral).
//   LineariseStateResponse on responses taken from the rooms: c10lin.go.

import (
	"crypto/sha1"
	"encoding/json"
	"fmt"
	"hash/fnv"
	"io"
	"math"
	"math/rand"
	"os"
	"os/exec"
	"sort"
	"strconv"
	"strings"
	"sync"
	"sync/atomic"

	gmsl "github.com/matrix-org/gomatrixserverlib"
)

type roomEvent struct {
	ID         int            `json:"id"`
	Type       string         `json:"type"`
	Sender     string         `json:"sender"`
	SKey       string         `json:"skey"`
	Membership string         `json:"membership"`
	PLU        map[string]int `json:"plu"`
	JR         string         `json:"jr"`
	Prev       []int          `json:"prev"`
	Auth       []int          `json:"auth"`
	Depth      int64          `json:"depth"`
	TS         int64          `json:"ts"`
	IDR        int            `json:"idr"`
	SHA        int            `json:"sha"`
	Addl       []string       `json:"addl"`
	PUD        *int           `json:"pud,omitempty"` // rank of users_default of a power-levels event; nil / -1: key absent
	Spell      string         `json:"spell"`         // how a power-levels event writes its levels: int (or ""), str, strpad, float, frac
}

// spelledLevel writes a level the way the power-levels event spells its levels (StateRes.tla, field spell; the same
// spellings as the auth model's): room versions 1-9 read the same level from each.
func spelledLevel(v int64, sp string) json.RawMessage {
	n := strconv.FormatInt(v, 10)
	switch sp {
	case "", "int":
		return json.RawMessage(n)
	case "str":
		return json.RawMessage(`"` + n + `"`)
	case "strpad":
		return json.RawMessage(`"  ` + n + ` "`)
	case "float":
		return json.RawMessage(n + ".0")
	case "frac":
		return json.RawMessage(n + ".5") // truncated towards zero: 50.5 -> 50, -1.5 -> -1
	}
	panic("unknown spelling " + sp)
}

// pud returns the rank of users_default (-1: the content has no such key).
func (e roomEvent) pud() int {
	if e.PUD == nil {
		return -1
	}
	return *e.PUD
}

// plContent is the content of a power-levels event of a room model: the users map and, where the model sets it,
// users_default (every other threshold keeps its default).
func (e roomEvent) plContent() map[string]interface{} {
	users := map[string]json.RawMessage{}
	for u, r := range e.PLU {
		if r >= 0 {
			users[userIDs[u]] = spelledLevel(roomLadder[r], e.Spell)
		}
	}
	c := map[string]interface{}{"users": users}
	if r := e.pud(); r >= 0 {
		c["users_default"] = spelledLevel(roomLadder[r], e.Spell)
	}
	return c
}

type resQuery struct {
	Ver          string      `json:"ver"`
	Events       []roomEvent `json:"events"`
	Sets         [][]int     `json:"sets"`
	Tips         []int       `json:"tips"`
	Result       []int       `json:"result"`
	Unconflicted []int       `json:"unconflicted"`
	Power        []int       `json:"power"`
	Others       []int       `json:"others"`
	AuthDiff     []int       `json:"authdiff"`
	Subgraph     []int       `json:"subgraph"`
	Rejected     []int       `json:"rejected"`
	Dishonest    bool        `json:"dishonest"`
	SPower       []int       `json:"spower"` // sender-power rank of each event of Power (diagnosis)
}

func init() {
	register("c10", "replay Room_gen.tla resolution queries: resolved state must equal StateRes.tla's", func(a *args) error {
		return replayAll(a, func(i int, raw json.RawMessage) Result { return c10Replay(i, raw, int(a.seed)) })
	})
	register("c11", "order independence / well-formedness / topological orderings on Room_gen.tla queries", func(a *args) error {
		// "the same on every run of the process": a second process resolves the batch in the opposite order (what it
		// has resolved before a given query is what this process resolves after it) and, where event IDs are chosen
		// by the sender, under IDs that no other query of the batch uses; the results must coincide
		other, err := c11OtherProcess(a)
		if err != nil {
			return err
		}
		return replayAll(a, func(i int, raw json.RawMessage) Result { return c11Replay(i, raw, int(a.seed), other) })
	})
	register("c11hist", "(internal) resolve the queries of a batch in reverse order, one result line per query and entry point", func(a *args) error {
		return c11History(a)
	})
}

var roomLadder = [5]int64{-1, 0, 25, 50, 100}

// materialised room
type roomM struct {
	q     *resQuery
	ids   map[int]string
	pdus  map[int]gmsl.PDU
	byID  map[string]int
	types map[int]string
	dr    depthReal // how the depth ranks of the model are realised as int64 depths
}

// depthReal is a realisation of the model's depth ranks as the sender-chosen int64 depths of the real events.
// StateRes.tla: the definition reads the depths (algorithm v1 only) through their order, so every strictly increasing
// realisation defines the same state (lemma V1DepthRankOnly); algorithms v2 / v2.1 and the topological orderings do
// not read them at all, so for those the depths may also run against the DAG.
type depthReal struct {
	name string
	f    func(int64) int64 // nil: the rank itself
}

func (d depthReal) of(rank int64) int64 {
	if d.f == nil {
		return rank
	}
	return d.f(rank)
}

var naturalDepths = depthReal{name: "natural"}

// againstDepths: depths that decrease along the DAG (a server with a wrong depth counter, or a hostile one).
var againstDepths = depthReal{name: "against-the-dag", f: func(r int64) int64 { return 1000 - r }}

// pivotDepths: ranks below p far below zero, p itself 0, ranks above p far above zero: neighbours of p are
// 6e18 apart from it, ranks on different sides more than 2^63 apart from each other.  Strictly increasing.
func pivotDepths(p int64) depthReal {
	const far, step = int64(6_000_000_000_000_000_000), int64(1_000_000_000_000_000)
	return depthReal{name: fmt.Sprintf("extreme(pivot rank %d: below -> <= -6e18, above -> >= 6e18)", p), f: func(r int64) int64 {
		switch {
		case r < p:
			return -far - (p-r-1)*step
		case r > p:
			return far + (r-p-1)*step
		}
		return 0
	}}
}

// edgeDepths: ranks up to lo next to the smallest int64, ranks from hi on next to the largest, the ones in between
// unchanged.  Strictly increasing (ranks are below 1000).
func edgeDepths(lo, hi int64) depthReal {
	return depthReal{name: fmt.Sprintf("extreme(ranks <= %d next to MinInt64, ranks >= %d next to MaxInt64)", lo, hi), f: func(r int64) int64 {
		switch {
		case r <= lo:
			return math.MinInt64 + r
		case r >= hi:
			return math.MaxInt64 - (1000 - r)
		}
		return r
	}}
}

// v1DepthReals: the realisations a version-1 query is run under besides the natural one.  Only keys with conflicting
// events of different depths can tell realisations apart: for each such key the edge realisation around its depth
// range, and a pivot at every depth rank strictly inside the range of some key (low < pivot < high is what makes a
// comparison that is not a total order cyclic).
func v1DepthReals(q *resQuery) []depthReal {
	byID := map[int]roomEvent{}
	for _, e := range q.Events {
		byID[e.ID] = e
	}
	perKey := map[string]map[int]bool{}
	for _, s := range q.Sets {
		for _, i := range s {
			k := byID[i].Type + "\x00" + byID[i].SKey
			if perKey[k] == nil {
				perKey[k] = map[int]bool{}
			}
			perKey[k][i] = true
		}
	}
	var depths []int64 // all depth ranks of conflicted events
	type rng struct{ lo, hi int64 }
	var ranges []rng
	seenRange := map[rng]bool{}
	for _, ids := range perKey {
		if len(ids) < 2 {
			continue
		}
		r := rng{math.MaxInt64, math.MinInt64}
		for i := range ids {
			d := byID[i].Depth
			depths = append(depths, d)
			r.lo, r.hi = min(r.lo, d), max(r.hi, d)
		}
		if r.lo < r.hi && !seenRange[r] {
			seenRange[r] = true
			ranges = append(ranges, r)
		}
	}
	sort.Slice(ranges, func(a, b int) bool {
		return ranges[a].lo < ranges[b].lo || (ranges[a].lo == ranges[b].lo && ranges[a].hi < ranges[b].hi)
	})
	var out, edges []depthReal
	pivots := map[int64]bool{}
	for _, r := range ranges {
		edges = append(edges, edgeDepths(r.lo, r.hi))
		for _, d := range depths {
			if r.lo < d && d < r.hi {
				pivots[d] = true
			}
		}
		if r.hi-r.lo >= 2 {
			pivots[r.lo+1] = true // also a pivot that no conflicted event sits on
		}
	}
	var ps []int64
	for p := range pivots {
		ps = append(ps, p)
	}
	sort.Slice(ps, func(a, b int) bool { return ps[a] < ps[b] })
	// at most four, edge and pivot realisations in turn
	for k := 0; len(out) < 4 && (k < len(edges) || k < len(ps)); k++ {
		if k < len(edges) {
			out = append(out, edges[k])
		}
		if k < len(ps) && len(out) < 4 {
			out = append(out, pivotDepths(ps[k]))
		}
	}
	return out
}

// padded returns the query with one more event - of the given type, under a state key of its own ("p"), cited by
// nothing - added to the room and to every state set (StateRes.tla, lemma PadNeutral: it is an agreed entry of the
// state map whatever its type: it is kept and changes nothing else).
func padded(q *resQuery, typ string) (*resQuery, int) {
	c := *q
	id := 0
	create := 0
	for _, e := range q.Events {
		id = max(id, e.ID)
		if e.Type == "create" && e.SKey == "" {
			create = e.ID
		}
	}
	id++
	plu := map[string]int{}
	for u := range userIDs {
		plu[u] = -1
	}
	pad := roomEvent{ID: id, Type: typ, Sender: "creator", SKey: "p", PLU: plu, Prev: []int{create}, Auth: []int{create}, Depth: 2, TS: 1, Spell: "int"}
	if typ == "jr" {
		pad.JR = "invite"
	}
	c.Events = append(append([]roomEvent(nil), q.Events...), pad)
	c.Sets = nil
	for _, s := range q.Sets {
		c.Sets = append(c.Sets, append(append([]int(nil), s...), id))
	}
	return &c, id
}

// digest identifies the event by its fields and the (already assigned) IDs of the events it references.
func (m *roomM) digest(e roomEvent) string {
	var us []string
	for u, r := range e.PLU {
		us = append(us, fmt.Sprintf("%s=%d", u, r))
	}
	sort.Strings(us)
	ref := func(xs []int) []string {
		var out []string
		for _, x := range xs {
			if id, ok := m.ids[x]; ok {
				out = append(out, id)
			} else {
				out = append(out, fmt.Sprint(x))
			}
		}
		sort.Strings(out)
		return out
	}
	addl := append([]string(nil), e.Addl...)
	sort.Strings(addl)
	h := sha1.Sum([]byte(fmt.Sprint(m.q.Ver, "|", e.Type, "|", e.Sender, "|", e.SKey, "|", e.Membership, "|", us, "|", e.pud(), "|", e.Spell, "|", e.JR,
		"|", m.dr.of(e.Depth), "|", e.TS, "|", addl, "|", ref(e.Prev), "|", ref(e.Auth))))
	return fmt.Sprintf("%x", h[:12])
}

// stateKeyOf is the concrete state key of a non-member event: "" or, for the model's "x" / "p", a key that is no user ID.
func stateKeyOf(e roomEvent) string {
	switch e.SKey {
	case "":
		return ""
	case "p":
		return "padding"
	}
	return "archive"
}

// sha1IDs returns n event IDs whose SHA-1 order realises the given ranks (v1 tie-break).
func sha1IDs(q *resQuery, own string) map[int]string {
	n := len(q.Events)
	type cand struct {
		id  string
		sum [20]byte
	}
	cs := make([]cand, n)
	for i := range cs {
		id := fmt.Sprintf("$ev%02dx%d%s:hs1", i, len(q.Events), own)
		cs[i] = cand{id, sha1.Sum([]byte(id))}
	}
	sort.Slice(cs, func(a, b int) bool { return string(cs[a].sum[:]) < string(cs[b].sum[:]) })
	evs := append([]roomEvent(nil), q.Events...)
	sort.Slice(evs, func(a, b int) bool { return evs[a].SHA < evs[b].SHA })
	out := map[int]string{}
	for k, e := range evs {
		out[e.ID] = cs[k].id
	}
	return out
}

func materialise(q *resQuery) *roomM {
	return materialiseWith(q, "", naturalDepths)
}

func materialiseWith(q *resQuery, own string, dr depthReal) *roomM {
	m := assignIDsWith(q, own, dr)
	m.build()
	return m
}

// assignIDs chooses the event IDs of a query (no event is built yet).  own: "" or a tag that makes the sender-chosen
// IDs of room versions 1 and 2 the query's own.
func assignIDs(q *resQuery, own string) *roomM { return assignIDsWith(q, own, naturalDepths) }

func assignIDsWith(q *resQuery, own string, dr depthReal) *roomM {
	m := &roomM{q: q, ids: map[int]string{}, pdus: map[int]gmsl.PDU{}, byID: map[string]int{}, types: map[int]string{}, dr: dr}
	ver := q.Ver
	var v1ids map[int]string
	if ver == "1" {
		v1ids = sha1IDs(q, own)
	}
	// Event IDs.  Room versions 1 and 2: the sender chooses the ID, so different events may carry one ID; the IDs
	// are derived from the model's event number / rank only, and the queries of one batch deliberately reuse them
	// for different events (event 7 of one room and of the next are different power-levels events under one ID):
	// whatever a resolver remembers about an ID from an earlier call must not leak into the next.  Room versions
	// 3+: the ID is a hash of the event, two different events never share one; the IDs are the rank (which fixes
	// the lexicographic order) followed by a digest of the event's fields and of the IDs it references.
	for _, e := range q.Events {
		switch {
		case ver == "1":
			m.ids[e.ID] = v1ids[e.ID]
		case isFormatV1(ver):
			m.ids[e.ID] = fmt.Sprintf("$e%03d%s:hs1", e.IDR, own)
		default:
			m.ids[e.ID] = eventID43(fmt.Sprintf("e%03d_%s", e.IDR, m.digest(e)))
		}
		m.byID[m.ids[e.ID]] = e.ID
	}
	return m
}

// build builds the real events of the query under the assigned IDs.
func (m *roomM) build() {
	q, ver := m.q, m.q.Ver
	room := "!room:hs1"
	createID := ""
	for _, e := range q.Events {
		if e.Type == "create" && e.SKey == "" {
			createID = m.ids[e.ID]
		}
	}
	if isDomainless(ver) {
		room = "!" + createID[1:]
	}
	for _, e := range q.Events {
		es := eventSpec{Ver: ver, ID: m.ids[e.ID], RoomID: room, Sender: userIDs[e.Sender], Depth: m.dr.of(e.Depth), TS: e.TS * 1000}
		for _, p := range e.Prev {
			es.Prev = append(es.Prev, m.ids[p])
		}
		for _, a := range e.Auth {
			if isDomainless(ver) && m.ids[a] == createID {
				continue // implied by the room ID
			}
			es.Auth = append(es.Auth, m.ids[a])
		}
		sort.Strings(es.Prev)
		sort.Strings(es.Auth)
		switch e.Type {
		case "create":
			es.Type, es.StateKey = "m.room.create", strp(stateKeyOf(e))
			c := map[string]interface{}{"room_version": ver}
			if !(ver == "11" || isDomainless(ver)) {
				c["creator"] = userIDs[e.Sender]
			}
			if len(e.Addl) > 0 {
				var addl []string
				for _, u := range e.Addl {
					addl = append(addl, userIDs[u])
				}
				c["additional_creators"] = addl
			}
			es.Content = c
			if isDomainless(ver) && e.SKey == "" {
				es.RoomID = ""
			}
		case "member":
			es.Type, es.StateKey = "m.room.member", strp(userIDs[e.SKey])
			es.Content = map[string]interface{}{"membership": e.Membership}
		case "pl":
			es.Type, es.StateKey = "m.room.power_levels", strp(stateKeyOf(e))
			es.Content = e.plContent()
		case "jr":
			es.Type, es.StateKey = "m.room.join_rules", strp(stateKeyOf(e))
			es.Content = map[string]interface{}{"join_rule": e.JR}
		default:
			es.Type, es.StateKey = "m.room.topic", strp("")
			es.Content = map[string]interface{}{"topic": fmt.Sprintf("topic %d", e.ID)}
		}
		m.pdus[e.ID] = es.mustBuild()
		m.types[e.ID] = e.Type
	}
}

func (m *roomM) list(ids []int) []gmsl.PDU {
	out := make([]gmsl.PDU, 0, len(ids))
	for _, i := range ids {
		out = append(out, m.pdus[i])
	}
	return out
}

// authChain returns the auth chain (through the model's auth edges) of the given events.
func (m *roomM) authChain(from []int) []int {
	byID := map[int]roomEvent{}
	for _, e := range m.q.Events {
		byID[e.ID] = e
	}
	seen := map[int]bool{}
	var walk func(i int)
	walk = func(i int) {
		for _, a := range byID[i].Auth {
			if !seen[a] {
				seen[a] = true
				walk(a)
			}
		}
	}
	for _, i := range from {
		walk(i)
	}
	var out []int
	for i := range seen {
		out = append(out, i)
	}
	sort.Ints(out)
	return out
}

func unionInts(xs ...[]int) []int {
	seen := map[int]bool{}
	var out []int
	for _, x := range xs {
		for _, i := range x {
			if !seen[i] {
				seen[i] = true
				out = append(out, i)
			}
		}
	}
	sort.Ints(out)
	return out
}

func (m *roomM) idsOf(ps []gmsl.PDU) []int {
	var out []int
	for _, p := range ps {
		if p == nil {
			out = append(out, -1)
			continue
		}
		out = append(out, m.byID[p.EventID()])
	}
	sort.Ints(out)
	return out
}

func sameInts(a, b []int) bool {
	if len(a) != len(b) {
		return false
	}
	for i := range a {
		if a[i] != b[i] {
			return false
		}
	}
	return true
}

func (m *roomM) rejectedFn() gmsl.IsRejected {
	rej := map[string]bool{}
	for _, i := range m.q.Rejected {
		rej[m.ids[i]] = true
	}
	return func(id string) bool { return rej[id] }
}

func algoOf(ver string) gmsl.StateResAlgorithm {
	return gmsl.MustGetRoomVersion(gmsl.RoomVersion(ver)).StateResAlgorithm()
}

// v1AuthEvents: the v1 resolver documents its auth events as the unconflicted events needed for auth, one per key.
func (m *roomM) v1AuthEvents() []int {
	byID := map[int]roomEvent{}
	for _, e := range m.q.Events {
		byID[e.ID] = e
	}
	perKey := map[string]map[int]bool{}
	for _, s := range m.q.Sets {
		for _, i := range s {
			k := byID[i].Type + "\x00" + byID[i].SKey
			if perKey[k] == nil {
				perKey[k] = map[int]bool{}
			}
			perKey[k][i] = true
		}
	}
	var out []int
	for _, ids := range perKey {
		if len(ids) != 1 {
			continue
		}
		for i := range ids {
			// the events the auth rules read: members and the room's create / power levels / join rules (empty state key)
			switch {
			case m.types[i] == "member", (m.types[i] == "create" || m.types[i] == "pl" || m.types[i] == "jr") && byID[i].SKey == "":
				out = append(out, i)
			}
		}
	}
	sort.Ints(out)
	return out
}

func (m *roomM) describe() string {
	var parts []string
	for _, e := range m.q.Events {
		if e.ID <= 6 {
			continue
		}
		s := fmt.Sprintf("%d:%s(%s", e.ID, e.Type, e.Sender)
		if e.Type != "member" && e.SKey != "" {
			s = fmt.Sprintf("%d:%s[state_key %q](%s", e.ID, e.Type, stateKeyOf(e), e.Sender)
		}
		if e.Type == "member" {
			s += "->" + e.SKey + " " + e.Membership
		}
		if e.Type == "pl" {
			var us []string
			for u, r := range e.PLU {
				if r >= 0 {
					us = append(us, fmt.Sprintf("%s=%d", u, roomLadder[r]))
				}
			}
			sort.Strings(us)
			s += " " + strings.Join(us, ",")
			if r := e.pud(); r >= 0 {
				s += fmt.Sprintf(" users_default=%d", roomLadder[r])
			}
			if e.Spell != "" && e.Spell != "int" {
				s += " levels spelled " + e.Spell
			}
		}
		if e.Type == "jr" {
			s += " " + e.JR
		}
		s += fmt.Sprintf(") prev=%v auth=%v", e.Prev, e.Auth)
		parts = append(parts, s)
	}
	return strings.Join(parts, "; ")
}

// powerKeys describes the keys the specification sorted the power events with: the sender's effective level in the
// power-levels event the event cites (a users entry or users_default), timestamp, event-ID rank.
func (m *roomM) powerKeys() string {
	if len(m.q.SPower) != len(m.q.Power) || len(m.q.Power) == 0 {
		return ""
	}
	byID := map[int]roomEvent{}
	for _, e := range m.q.Events {
		byID[e.ID] = e
	}
	var parts []string
	for k, id := range m.q.Power {
		e := byID[id]
		lvl := "2^53 (creator)"
		if r := m.q.SPower[k]; r >= 0 && r < len(roomLadder) {
			lvl = fmt.Sprint(roomLadder[r])
			for _, a := range e.Auth {
				if pl := byID[a]; pl.Type == "pl" {
					if pl.PLU[e.Sender] < 0 {
						lvl += " via users_default"
					}
					break
				}
			}
		}
		parts = append(parts, fmt.Sprintf("%d: %s power %s ts %d id-rank %d", id, e.Sender, lvl, e.TS, e.IDR))
	}
	return " sorted by (sender power desc, ts, id) with keys [" + strings.Join(parts, "; ") + "]"
}

// shapeKey is the canonical abstract key of a query: the multiset of (type, action) of the events that differ
// between the state sets, by algorithm.
func (m *roomM) shapeKey() string {
	inAll := map[int]int{}
	for _, s := range m.q.Sets {
		for _, i := range s {
			inAll[i]++
		}
	}
	byID := map[int]roomEvent{}
	for _, e := range m.q.Events {
		byID[e.ID] = e
	}
	var parts []string
	for i, n := range inAll {
		if n == len(m.q.Sets) {
			continue
		}
		e := byID[i]
		s := e.Type
		if e.Type != "member" && e.SKey != "" {
			s += "@key"
		}
		if e.Type == "member" {
			if e.Sender == e.SKey {
				s += ":self-" + e.Membership
			} else {
				s += ":other-" + e.Membership
			}
		}
		parts = append(parts, s)
	}
	sort.Strings(parts)
	return strings.Join(parts, "+")
}

// spellKey names the spelling dimension of a query in disagreement keys: "" for integer-only rooms.
func (m *roomM) spellKey() string {
	seen := map[string]bool{}
	for _, e := range m.q.Events {
		if e.Type == "pl" && e.Spell != "" && e.Spell != "int" {
			seen[e.Spell] = true
		}
	}
	if len(seen) == 0 {
		return ""
	}
	var out []string
	for sp := range seen {
		out = append(out, sp)
	}
	sort.Strings(out)
	return "/levels-spelled-" + strings.Join(out, "+")
}

func c10Replay(i int, raw json.RawMessage, seed int) Result {
	var q resQuery
	if err := json.Unmarshal(raw, &q); err != nil {
		panic(err)
	}
	m := materialise(&q)
	want := append([]int(nil), q.Result...)
	sort.Ints(want)
	var all []int
	for _, s := range q.Sets {
		all = unionInts(all, s)
	}
	// the specified state is a function of the set of state sets: with three sets every presentation order is run
	orders := [][]int{{0, 1, 2}}
	if len(q.Sets) == 3 {
		orders = [][]int{{0, 1, 2}, {0, 2, 1}, {1, 0, 2}, {1, 2, 0}, {2, 0, 1}, {2, 1, 0}}
	}
	algo := algoOf(q.Ver)
	nt := fmt.Sprintf("%s|%s%s|rej=%v|res=%v", q.Ver, m.shapeKey(), m.spellKey(), q.Rejected, want)
	// Room.tla only lets honest servers send what the rules allow on the state they resolved: every event of the
	// room must therefore be allowed by its own auth events (this binds Room!Send's guard to the real Allowed)
	for _, e := range q.Events {
		if e.ID <= 2 || len(q.Rejected) > 0 || q.Dishonest {
			continue
		}
		prov, err := gmsl.NewAuthEvents(m.list(e.Auth))
		if err != nil {
			panic(err)
		}
		if err := gmsl.Allowed(m.pdus[e.ID], prov, identityQuerier); err != nil {
			return Result{OK: false, NT: nt, Key: fmt.Sprintf("C10/room-event-not-allowed/%s%s", e.Type, m.spellKey()), Want: true, Got: false,
				What: fmt.Sprintf("Room.tla sends event %d (allowed by the specification's rules on auth events %v) but the real Allowed refuses it: %v; room (version %s): %s", e.ID, e.Auth, err, q.Ver, m.describe())}
		}
	}
	// rm: the room as materialised under one realisation of the depth ranks
	checkOne := func(rm *roomM, entry string, auth []int, order []int) *Result {
		var sets [][]gmsl.PDU
		for _, k := range order[:len(q.Sets)] {
			sets = append(sets, rm.list(q.Sets[k]))
		}
		var got []gmsl.PDU
		switch entry {
		case "ResolveConflictsNew":
			r, err := gmsl.ResolveConflictsNew(gmsl.RoomVersion(q.Ver), sets, rm.list(auth), identityQuerier, rm.rejectedFn())
			if err != nil {
				panic(err)
			}
			got = r
		case "ResolveStateConflictsV2New":
			got = gmsl.ResolveStateConflictsV2New(algo, sets, rm.list(auth), identityQuerier, rm.rejectedFn())
		}
		g := rm.idsOf(got)
		if !sameInts(g, want) {
			dk, dw := "", ""
			if rm.dr.f != nil {
				dk = "/depths-" + strings.SplitN(rm.dr.name, "(", 2)[0]
				dw = fmt.Sprintf("; the depth ranks of the model realised as %s, i.e. depths %v", rm.dr.name, rm.depthList())
			}
			return &Result{OK: false, NT: nt, Key: fmt.Sprintf("C10/%s/algo=%d/%s%s%s", entry, algo, m.shapeKey(), m.spellKey(), dk), Want: want, Got: g,
				What: fmt.Sprintf("%s (room version %s): resolved state %v, specification says %v; state sets %v; power order %v%s, others %v, auth difference %v, subgraph %v; room: %s%s",
					entry, q.Ver, g, want, q.Sets, q.Power, m.powerKeys(), q.Others, q.AuthDiff, q.Subgraph, m.describe(), dw)}
		}
		return nil
	}
	check := func(rm *roomM, entry string, auth []int) *Result {
		for _, o := range orders {
			if r := checkOne(rm, entry, auth, o); r != nil {
				return r
			}
		}
		return nil
	}
	if algo == gmsl.StateResV1 {
		if r := check(m, "ResolveConflictsNew", m.v1AuthEvents()); r != nil {
			return *r
		}
		// the definition reads the depths through their order only (V1DepthRankOnly): the same state under every
		// strictly increasing realisation of the ranks, sender-chosen depths more than 2^63 apart included
		for _, dr := range v1DepthReals(&q) {
			rm := materialiseWith(&q, "", dr)
			if r := check(rm, "ResolveConflictsNew", rm.v1AuthEvents()); r != nil {
				return *r
			}
			nt += "|" + strings.SplitN(dr.name, "(", 2)[0]
		}
		return Result{OK: true, NT: nt}
	}
	chain := m.authChain(all)
	for _, auth := range [][]int{chain, unionInts(chain, all)} {
		for _, entry := range []string{"ResolveConflictsNew", "ResolveStateConflictsV2New"} {
			if r := check(m, entry, auth); r != nil {
				return *r
			}
		}
	}
	// v2 / v2.1 do not read the depths: the same state when they run against the DAG
	rm := materialiseWith(&q, "", againstDepths)
	if r := checkOne(rm, "ResolveConflictsNew", unionInts(chain, all), orders[0]); r != nil {
		return *r
	}
	return Result{OK: true, NT: nt}
}

// depthList: the realised depths of the room's events, by model id.
func (m *roomM) depthList() []string {
	var out []string
	for _, e := range m.q.Events {
		out = append(out, fmt.Sprintf("%d:%d", e.ID, m.dr.of(e.Depth)))
	}
	return out
}

// ---------------------------------------------------------------------------------------------- C11

func shuffled[T any](r *rand.Rand, xs []T) []T {
	out := append([]T(nil), xs...)
	r.Shuffle(len(out), func(a, b int) { out[a], out[b] = out[b], out[a] })
	return out
}

// c11Entries are the entry points a query is run through.
func c11Entries(algo gmsl.StateResAlgorithm) []string {
	entries := []string{"ResolveConflictsNew", "ResolveConflicts(deprecated)"}
	if algo != gmsl.StateResV1 {
		return append(entries, "ResolveStateConflictsV2New", "ResolveStateConflictsV2(deprecated)")
	}
	return append(entries, "ResolveStateConflicts")
}

// c11Resolve runs one entry point on the query as given (state sets and auth events in the record's order).
func c11Resolve(m *roomM, entry string, sets [][]int, auth []int) []int {
	q := m.q
	algo := algoOf(q.Ver)
	byID := map[int]roomEvent{}
	for _, e := range q.Events {
		byID[e.ID] = e
	}
	keyOf := func(id int) string { return byID[id].Type + "\x00" + byID[id].SKey }
	var psets [][]gmsl.PDU
	var union []int
	for _, s := range sets {
		psets = append(psets, m.list(s))
		union = append(union, s...)
	}
	uniq := unionInts(union)
	perKey := map[string][]int{}
	for _, x := range uniq {
		perKey[keyOf(x)] = append(perKey[keyOf(x)], x)
	}
	var conflicted, unconflicted []int
	for _, x := range uniq {
		if len(perKey[keyOf(x)]) > 1 {
			conflicted = append(conflicted, x)
		} else {
			unconflicted = append(unconflicted, x)
		}
	}
	var got []gmsl.PDU
	switch entry {
	case "ResolveConflictsNew":
		r, err := gmsl.ResolveConflictsNew(gmsl.RoomVersion(q.Ver), psets, m.list(auth), identityQuerier, m.rejectedFn())
		if err != nil {
			panic(err)
		}
		got = r
	case "ResolveStateConflictsV2New":
		got = gmsl.ResolveStateConflictsV2New(algo, psets, m.list(auth), identityQuerier, m.rejectedFn())
	case "ResolveConflicts(deprecated)":
		r, err := gmsl.ResolveConflicts(gmsl.RoomVersion(q.Ver), m.list(union), m.list(auth), identityQuerier, m.rejectedFn())
		if err != nil {
			panic(err)
		}
		got = r
	case "ResolveStateConflictsV2(deprecated)":
		got = gmsl.ResolveStateConflictsV2(m.list(conflicted), m.list(unconflicted), m.list(auth), identityQuerier, m.rejectedFn())
	case "ResolveStateConflicts":
		got = append(gmsl.ResolveStateConflicts(m.list(conflicted), m.list(auth), identityQuerier), m.list(unconflicted)...)
	}
	return m.idsOf(got)
}

// c11AuthOf is the auth-event list a query is presented with.
func c11AuthOf(m *roomM) []int {
	var all []int
	for _, s := range m.q.Sets {
		all = unionInts(all, s)
	}
	if algoOf(m.q.Ver) == gmsl.StateResV1 {
		return m.v1AuthEvents()
	}
	return unionInts(m.authChain(all), all)
}

// c11History (the second process): the queries of the batch from the last to the first, every entry point once.
func c11History(a *args) error {
	recs, err := readRecords(a.in)
	if err != nil {
		return err
	}
	tw, err := newTraceWriter(a.out)
	if err != nil {
		return err
	}
	// Room versions with sender-chosen event IDs: the first process reuses one set of IDs for the events of all
	// queries (different events under one ID from call to call); this process gives every query IDs of its own
	// (same lexicographic / SHA-1 order), so nothing it has resolved before can be mistaken for an event of the
	// query.  All queries: from the last to the first.
	rest := make([]int, len(recs))
	for i := range rest {
		rest[i] = i
	}
	one := func(i int) {
		out := map[string][]int{}
		func() {
			defer func() { recover() }() // a panic is reported by the first process, with its own key
			var q resQuery
			if json.Unmarshal(recs[i], &q) != nil {
				return
			}
			m := assignIDs(&q, fmt.Sprintf("q%d", i))
			m.build()
			auth := c11AuthOf(m)
			for _, entry := range c11Entries(algoOf(q.Ver)) {
				out[entry] = c11Resolve(m, entry, q.Sets, auth)
			}
		}()
		tw.emit(map[string]interface{}{"i": i, "r": out})
	}
	par := max(1, a.par)
	var wg sync.WaitGroup
	next := int64(len(rest))
	for w := 0; w < par; w++ {
		wg.Add(1)
		go func() {
			defer wg.Done()
			for {
				k := int(atomic.AddInt64(&next, -1))
				if k < 0 {
					return
				}
				one(rest[k])
			}
		}()
	}
	wg.Wait()
	return tw.close()
}

// c11OtherProcess runs c11hist on the same batch in a child process and returns its results per record.
func c11OtherProcess(a *args) (map[int]map[string][]int, error) {
	f, err := os.CreateTemp("", "c11hist_*.ndjson")
	if err != nil {
		return nil, err
	}
	f.Close()
	defer os.Remove(f.Name())
	cmd := exec.Command(os.Args[0], "c11hist", "-in", a.in, "-out", f.Name(), "-seed", fmt.Sprint(a.seed))
	cmd.Stdout = io.Discard // the library prints diagnostics of its own to stdout
	cmd.Stderr = os.Stderr
	if err := cmd.Run(); err != nil {
		return nil, fmt.Errorf("second process (c11hist): %w", err)
	}
	lines, err := readRecords(f.Name())
	if err != nil {
		return nil, err
	}
	out := map[int]map[string][]int{}
	for _, l := range lines {
		var r struct {
			I int              `json:"i"`
			R map[string][]int `json:"r"`
		}
		if err := json.Unmarshal(l, &r); err != nil {
			return nil, err
		}
		out[r.I] = r.R
	}
	return out, nil
}

// c11Suite runs one query, as materialised in rm, through every entry point under the presentation variants of C11.
type c11Suite struct {
	q      *resQuery
	rm     *roomM
	rng    *rand.Rand
	fail   func(entry, kind string, want, got interface{}, what string) Result
	byID   map[int]roomEvent
	auth   []int
	suppl  map[int]bool
	light  bool // fewer variants (the extra realisations / padded rooms of a query)
	refs   map[string][]int
	suffix string // appended to the variant name in disagreement keys
}

func newC11Suite(q *resQuery, rm *roomM, rng *rand.Rand, fail func(entry, kind string, want, got interface{}, what string) Result) *c11Suite {
	t := &c11Suite{q: q, rm: rm, rng: rng, fail: fail, byID: map[int]roomEvent{}, suppl: map[int]bool{}, refs: map[string][]int{}}
	for _, e := range q.Events {
		t.byID[e.ID] = e
	}
	var all []int
	for _, s := range q.Sets {
		all = unionInts(all, s)
	}
	t.auth = unionInts(rm.authChain(all), all)
	if algoOf(q.Ver) == gmsl.StateResV1 {
		t.auth = rm.v1AuthEvents()
	}
	for _, x := range unionInts(all, t.auth) {
		t.suppl[x] = true
	}
	return t
}

func (t *c11Suite) keyOf(id int) string { return t.byID[id].Type + "\x00" + t.byID[id].SKey }

func (t *c11Suite) wellFormed(entry string, res []int) *Result {
	q := t.q
	seen := map[string]int{}
	for _, x := range res {
		if x < 0 || !t.suppl[x] {
			r := t.fail(entry, "not-supplied"+t.suffix, nil, res, fmt.Sprintf("result %v contains an event that was not supplied", res))
			return &r
		}
		if y, dup := seen[t.keyOf(x)]; dup {
			r := t.fail(entry, "two-events-per-key"+t.suffix, nil, res, fmt.Sprintf("result %v has two events (%d, %d) for one (type, state_key)", res, y, x))
			return &r
		}
		seen[t.keyOf(x)] = x
	}
	// keys on which all state sets agree keep exactly that event
	cnt := map[int]int{}
	perKey := map[string]map[int]bool{}
	for _, s := range q.Sets {
		for _, x := range s {
			cnt[x]++
			if perKey[t.keyOf(x)] == nil {
				perKey[t.keyOf(x)] = map[int]bool{}
			}
			perKey[t.keyOf(x)][x] = true
		}
	}
	var agreed []int
	for x, n := range cnt {
		if n == len(q.Sets) && len(perKey[t.keyOf(x)]) == 1 {
			agreed = append(agreed, x)
		}
	}
	sort.Ints(agreed)
	for _, x := range agreed {
		if y, ok := seen[t.keyOf(x)]; !ok || y != x {
			r := t.fail(entry, "agreed-key-changed"+t.suffix, x, res, fmt.Sprintf("all state sets agree on event %d for its key but the result %v does not contain it", x, res))
			return &r
		}
	}
	return nil
}

type c11Variant struct {
	name string
	sets [][]int
	auth []int
}

func (t *c11Suite) variants() []c11Variant {
	q, rng, auth := t.q, t.rng, t.auth
	algo := algoOf(q.Ver)
	vs := []c11Variant{{"baseline", q.Sets, auth}}
	// every other order of the state sets
	perms := [][]int{{1, 0}}
	if len(q.Sets) == 3 {
		perms = [][]int{{0, 2, 1}, {1, 0, 2}, {1, 2, 0}, {2, 0, 1}, {2, 1, 0}}
	}
	if len(q.Sets) <= 3 {
		for _, p := range perms {
			var ss [][]int
			for _, k := range p {
				ss = append(ss, q.Sets[k])
			}
			vs = append(vs, c11Variant{"sets-permuted", ss, auth})
		}
	}
	nShuffles, nRepeats := 3, 4
	if t.light {
		nShuffles, nRepeats = 2, 1
	}
	for k := 0; k < nShuffles; k++ {
		var ss [][]int
		for _, s := range shuffled(rng, q.Sets) {
			ss = append(ss, shuffled(rng, s))
		}
		vs = append(vs, c11Variant{"shuffled", ss, shuffled(rng, auth)})
	}
	if algo != gmsl.StateResV1 && !t.light {
		dup := append(append([]int(nil), auth...), shuffled(rng, auth)[:(len(auth)+1)/2]...)
		vs = append(vs, c11Variant{"auth-duplicated", q.Sets, shuffled(rng, dup)})
	}
	for k := 0; k < nRepeats; k++ {
		vs = append(vs, c11Variant{"repeat", q.Sets, auth})
	}
	return vs
}

// resolve runs one entry point on one variant.
func (t *c11Suite) resolve(entry string, v c11Variant) []int {
	q, m, rng := t.q, t.rm, t.rng
	algo := algoOf(q.Ver)
	var sets [][]gmsl.PDU
	var union []int
	for _, s := range v.sets {
		sets = append(sets, m.list(s))
		union = append(union, s...)
	}
	// the deprecated entry points take the union of the state sets / their own conflicted-unconflicted split
	uniq := unionInts(union)
	perKey := map[string][]int{}
	for _, x := range uniq {
		perKey[t.keyOf(x)] = append(perKey[t.keyOf(x)], x)
	}
	var conflicted, unconflicted []int
	for _, x := range shuffled(rng, uniq) {
		if len(perKey[t.keyOf(x)]) > 1 {
			conflicted = append(conflicted, x)
		} else {
			unconflicted = append(unconflicted, x)
		}
	}
	var got []gmsl.PDU
	switch entry {
	case "ResolveConflictsNew":
		r, err := gmsl.ResolveConflictsNew(gmsl.RoomVersion(q.Ver), sets, m.list(v.auth), identityQuerier, m.rejectedFn())
		if err != nil {
			panic(err)
		}
		got = r
	case "ResolveStateConflictsV2New":
		got = gmsl.ResolveStateConflictsV2New(algo, sets, m.list(v.auth), identityQuerier, m.rejectedFn())
	case "ResolveConflicts(deprecated)":
		r, err := gmsl.ResolveConflicts(gmsl.RoomVersion(q.Ver), m.list(shuffled(rng, union)), m.list(v.auth), identityQuerier, m.rejectedFn())
		if err != nil {
			panic(err)
		}
		got = r
	case "ResolveStateConflictsV2(deprecated)":
		got = gmsl.ResolveStateConflictsV2(m.list(conflicted), m.list(unconflicted), m.list(v.auth), identityQuerier, m.rejectedFn())
	case "ResolveStateConflicts":
		got = append(gmsl.ResolveStateConflicts(m.list(conflicted), m.list(v.auth), identityQuerier), m.list(unconflicted)...)
	}
	return m.idsOf(got)
}

// run: per entry point all variants give one well-formed ID set (kept in t.refs).
func (t *c11Suite) run() *Result {
	for _, entry := range c11Entries(algoOf(t.q.Ver)) {
		var ref []int
		for k, v := range t.variants() {
			g := t.resolve(entry, v)
			if r := t.wellFormed(entry, g); r != nil {
				return r
			}
			if k == 0 {
				ref = g
			} else if !sameInts(g, ref) {
				r := t.fail(entry, v.name+t.suffix, ref, g, fmt.Sprintf("result %v under variant %q differs from the baseline result %v", g, v.name, ref))
				return &r
			}
		}
		t.refs[entry] = ref
	}
	return nil
}

func c11Replay(i int, raw json.RawMessage, seed int, other map[int]map[string][]int) Result {
	// position of the record in the file the second process read (a record re-executed alone is told its
	// position in the original batch through VERIF_INDEX_BASE)
	recIndex := i
	if v, err := strconv.Atoi(os.Getenv("VERIF_INDEX_BASE")); err == nil {
		recIndex = i - v
	}
	var q resQuery
	if err := json.Unmarshal(raw, &q); err != nil {
		panic(err)
	}
	m := materialise(&q)
	// the random choices depend on the record itself (not on its position) so that a fresh-process re-run of
	// one record repeats them
	h := fnv.New64a()
	h.Write(raw)
	rng := rand.New(rand.NewSource(int64(seed)*1000003 + int64(h.Sum64()>>1)))
	algo := algoOf(q.Ver)
	byID := map[int]roomEvent{}
	for _, e := range q.Events {
		byID[e.ID] = e
	}
	shape := m.shapeKey() + m.spellKey()
	nt := fmt.Sprintf("%s|%s", q.Ver, shape)
	descr := m.describe()
	fail := func(entry, kind string, want, got interface{}, what string) Result {
		return Result{OK: false, NT: nt, Key: fmt.Sprintf("C11/%s/%s/algo=%d/%s", entry, kind, algo, shape), Want: want, Got: got,
			What: fmt.Sprintf("%s (room version %s): %s; state sets %v; room: %s", entry, q.Ver, what, q.Sets, descr)}
	}
	base := newC11Suite(&q, m, rng, fail)
	if r := base.run(); r != nil {
		return *r
	}
	for _, entry := range c11Entries(algo) {
		ref := base.refs[entry]
		// ... and on every run of the process: a second process that resolved the batch in the opposite order
		if o, ok := other[recIndex][entry]; ok && !sameInts(o, ref) {
			return fail(entry, "other-process-history", ref, o, fmt.Sprintf("this process returns %v; a second process that resolved the batch in the opposite order (and, in room versions with sender-chosen event IDs, every query under IDs of its own) returns %v: the result depends on what the process resolved earlier", ref, o))
		}
	}
	// Sender-chosen depths.  Algorithm v1 reads them, through their order only (StateRes!V1StrictTotal,
	// V1DepthRankOnly): under every strictly increasing realisation of the model's depth ranks - depths more than
	// 2^63 apart, negative ones included - the conflicted blocks are still totally ordered: all presentations give
	// one state.  v2 / v2.1 never read them: the same state also when the depths run against the DAG.
	reals := []depthReal{againstDepths}
	if algo == gmsl.StateResV1 {
		reals = v1DepthReals(&q)
	}
	for _, dr := range reals {
		short := strings.SplitN(dr.name, "(", 2)[0]
		rm := materialiseWith(&q, "", dr)
		t := newC11Suite(&q, rm, rng, func(entry, kind string, want, got interface{}, what string) Result {
			return fail(entry, kind, want, got, fmt.Sprintf("with the model's depth ranks realised as %s, i.e. depths %v: %s", dr.name, rm.depthList(), what))
		})
		t.light, t.suffix = true, "/depths-"+short
		if algo == gmsl.StateResV1 {
			if r := t.run(); r != nil {
				return *r
			}
		} else {
			for _, entry := range c11Entries(algo) {
				g := t.resolve(entry, c11Variant{"baseline", q.Sets, t.auth})
				if r := t.wellFormed(entry, g); r != nil {
					return *r
				}
				t.refs[entry] = g
			}
		}
		// (that the state is the one of the natural realisation is C10's business: c10Replay compares each with the
		// specified state; here only what C11 states: one state for all presentations, well formed.  v2 / v2.1, which
		// never read a depth, are held to the baseline of the natural depths: the depths are then just one more
		// presentation detail)
		if algo != gmsl.StateResV1 {
			for _, entry := range c11Entries(algo) {
				if !sameInts(t.refs[entry], base.refs[entry]) {
					return fail(entry, "depths-not-read-by-the-algorithm/depths-"+short, base.refs[entry], t.refs[entry],
						fmt.Sprintf("result %v with sender-chosen depths %s (depths %v) differs from the result %v under the natural depths: state resolution v2 / v2.1 does not read depths", t.refs[entry], dr.name, rm.depthList(), base.refs[entry]))
				}
			}
		}
		nt += "|" + short
	}
	// Padding (StateRes!PadNeutral): one more event of a control type under a state key of its own in every state
	// set is an agreed entry of the state map: it is kept, every other key resolves as before.
	// (one of the three types per query, chosen by the query itself: every room shape meets each type many times over)
	for _, typ := range []string{[]string{"create", "pl", "jr"}[h.Sum64()%3]} {
		qp, padID := padded(&q, typ)
		mp := materialise(qp)
		t := newC11Suite(qp, mp, rng, func(entry, kind string, want, got interface{}, what string) Result {
			return fail(entry, kind, want, got, fmt.Sprintf("with event %d - type %s, state key %q, sent by the creator, cited by nothing - added to every state set: %s", padID, typ, "padding", what))
		})
		t.suffix = "/padded-with-" + typ + "@key"
		for _, entry := range c11Entries(algo) {
			var v c11Variant
			for _, x := range t.variants() {
				if x.name == "shuffled" {
					v = x
					break
				}
			}
			g := t.resolve(entry, v)
			if r := t.wellFormed(entry, g); r != nil {
				return *r
			}
			var rest []int
			for _, x := range g {
				if x != padID {
					rest = append(rest, x)
				}
			}
			if !sameInts(rest, base.refs[entry]) {
				return fail(entry, "padding-changes-other-keys"+t.suffix, base.refs[entry], g,
					fmt.Sprintf("with event %d (type %s, state key %q, cited by nothing) added to every state set the result is %v; without it %v: an agreed entry under a key of its own changes what the other keys resolve to", padID, typ, "padding", g, base.refs[entry]))
			}
		}
	}
	// orderings: every ordering returned for this acyclic event set is a permutation of the distinct inputs in
	// which each event comes after all of its referenced ancestors present in the input
	// ancestors of each event through references that can be followed inside the given input
	ancestors := func(edges func(roomEvent) []int, present map[int]bool) map[int]map[int]bool {
		anc := map[int]map[int]bool{}
		var walk func(x int) map[int]bool
		walk = func(x int) map[int]bool {
			if a, ok := anc[x]; ok {
				return a
			}
			a := map[int]bool{}
			anc[x] = a
			for _, p := range edges(byID[x]) {
				if !present[p] {
					continue
				}
				a[p] = true
				for y := range walk(p) {
					a[y] = true
				}
			}
			return a
		}
		for x := range present {
			walk(x)
		}
		return anc
	}
	var everything []int
	for _, e := range q.Events {
		everything = append(everything, e.ID)
	}
	var against *roomM
	for _, ord := range []struct {
		name  string
		order gmsl.TopologicalOrder
		edges func(roomEvent) []int
	}{
		{"by-auth-events", gmsl.TopologicalOrderByAuthEvents, func(e roomEvent) []int { return e.Auth }},
		{"by-prev-events", gmsl.TopologicalOrderByPrevEvents, func(e roomEvent) []int { return e.Prev }},
	} {
		for k := 0; k < 6; k++ {
			// all events, or a subset that keeps the create event, in a random presentation order, sometimes with duplicates;
			// the last two rounds on the room whose sender-chosen depths run against the DAG (no ordering reads them)
			m := m
			if k >= 4 {
				if against == nil {
					against = materialiseWith(&q, "", againstDepths)
				}
				m = against
			}
			input := shuffled(rng, everything)
			if k == 2 || k == 3 {
				var sub []int
				for _, x := range input {
					if byID[x].Type == "create" || rng.Intn(3) > 0 {
						sub = append(sub, x)
					}
				}
				input = sub
			}
			withDup := input
			if k%2 == 1 && len(input) > 1 {
				withDup = append(append([]int(nil), input...), input[rng.Intn(len(input))])
			}
			present := map[int]bool{}
			for _, x := range input {
				present[x] = true
			}
			anc := ancestors(ord.edges, present)
			out := gmsl.ReverseTopologicalOrdering(m.list(withDup), ord.order)
			var seq []int
			for _, p := range out {
				if p == nil {
					seq = append(seq, -1)
				} else {
					seq = append(seq, m.byID[p.EventID()])
				}
			}
			pos := map[int]int{}
			for idx, x := range seq {
				if _, dup := pos[x]; dup || x < 0 {
					return fail("ReverseTopologicalOrdering", ord.name+"/not-a-permutation", unionInts(input), seq, fmt.Sprintf("ordering %v of input %v repeats or invents an event", seq, withDup))
				}
				pos[x] = idx
			}
			if len(pos) != len(unionInts(input)) {
				return fail("ReverseTopologicalOrdering", ord.name+"/not-a-permutation", unionInts(input), seq, fmt.Sprintf("ordering %v of input %v drops an event", seq, withDup))
			}
			for _, x := range seq {
				for a := range anc[x] {
					if pa, ok := pos[a]; ok && pa > pos[x] {
						return fail("ReverseTopologicalOrdering", ord.name+"/ancestor-after-descendant", nil, seq, fmt.Sprintf("ordering %v of input %v puts event %d before its ancestor %d", seq, withDup, x, a))
					}
				}
			}
		}
	}
	// LineariseStateResponse on responses taken from the room as servers would send it (c10lin.go); the variants of a
	// query with a rejected-event oracle share the room of the plain query
	// (every other query: the rooms recur from query to query)
	if len(q.Rejected) == 0 && h.Sum64()%2 == 0 {
		if r := c11Linearise(&q, m, rng, fail); r != nil {
			return *r
		}
	}
	return Result{OK: true, NT: nt}
}
