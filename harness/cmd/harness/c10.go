package main

// C10 / C11 - state resolution.  Records come from spec/Room_gen.tla: a room DAG, two (or more) state sets at
// fork tips and the resolved state + stages that StateRes.tla derives.
//   c10 : ResolveConflictsNew / ResolveStateConflictsV2New / ResolveStateConflicts must return exactly the
//         specified state (ID set), with the auth events presented as the auth chain of the state sets and as
//         the auth chain plus the state events themselves.
//   c11 : the same inputs under permutations of the state sets, shuffles inside every list, duplicated
//         auth-event entries and repeated runs, through the current and the deprecated entry points: per entry
//         point all ID sets coincide; every output is well formed; orderings are topological.

import (
	"crypto/sha1"
	"encoding/json"
	"fmt"
	"hash/fnv"
	"io"
	"math/rand"
	"os"
	"os/exec"
	"sort"
	"strconv"
	"strings"
	"sync"
	"sync/atomic"

	gmsl "github.com/matrix-org/gomatrixserverlib"
)

type roomEvent struct {
	ID         int            `json:"id"`
	Type       string         `json:"type"`
	Sender     string         `json:"sender"`
	SKey       string         `json:"skey"`
	Membership string         `json:"membership"`
	PLU        map[string]int `json:"plu"`
	JR         string         `json:"jr"`
	Prev       []int          `json:"prev"`
	Auth       []int          `json:"auth"`
	Depth      int64          `json:"depth"`
	TS         int64          `json:"ts"`
	IDR        int            `json:"idr"`
	SHA        int            `json:"sha"`
	Addl       []string       `json:"addl"`
	PUD        *int           `json:"pud,omitempty"` // rank of users_default of a power-levels event; nil / -1: key absent
}

// pud returns the rank of users_default (-1: the content has no such key).
func (e roomEvent) pud() int {
	if e.PUD == nil {
		return -1
	}
	return *e.PUD
}

// plContent is the content of a power-levels event of a room model: the users map and, where the model sets it,
// users_default (every other threshold keeps its default).
func (e roomEvent) plContent() map[string]interface{} {
	users := map[string]int64{}
	for u, r := range e.PLU {
		if r >= 0 {
			users[userIDs[u]] = roomLadder[r]
		}
	}
	c := map[string]interface{}{"users": users}
	if r := e.pud(); r >= 0 {
		c["users_default"] = roomLadder[r]
	}
	return c
}

type resQuery struct {
	Ver          string      `json:"ver"`
	Events       []roomEvent `json:"events"`
	Sets         [][]int     `json:"sets"`
	Tips         []int       `json:"tips"`
	Result       []int       `json:"result"`
	Unconflicted []int       `json:"unconflicted"`
	Power        []int       `json:"power"`
	Others       []int       `json:"others"`
	AuthDiff     []int       `json:"authdiff"`
	Subgraph     []int       `json:"subgraph"`
	Rejected     []int       `json:"rejected"`
	Dishonest    bool        `json:"dishonest"`
	SPower       []int       `json:"spower"` // sender-power rank of each event of Power (diagnosis)
}

func init() {
	register("c10", "replay Room_gen.tla resolution queries: resolved state must equal StateRes.tla's", func(a *args) error {
		return replayAll(a, func(i int, raw json.RawMessage) Result { return c10Replay(i, raw, int(a.seed)) })
	})
	register("c11", "order independence / well-formedness / topological orderings on Room_gen.tla queries", func(a *args) error {
		// "the same on every run of the process": a second process resolves the batch in the opposite order (what it
		// has resolved before a given query is what this process resolves after it) and, where event IDs are chosen
		// by the sender, under IDs that no other query of the batch uses; the results must coincide
		other, err := c11OtherProcess(a)
		if err != nil {
			return err
		}
		return replayAll(a, func(i int, raw json.RawMessage) Result { return c11Replay(i, raw, int(a.seed), other) })
	})
	register("c11hist", "(internal) resolve the queries of a batch in reverse order, one result line per query and entry point", func(a *args) error {
		return c11History(a)
	})
}

var roomLadder = [5]int64{-1, 0, 25, 50, 100}

// materialised room
type roomM struct {
	q     *resQuery
	ids   map[int]string
	pdus  map[int]gmsl.PDU
	byID  map[string]int
	types map[int]string
}

// digest identifies the event by its fields and the (already assigned) IDs of the events it references.
func (m *roomM) digest(e roomEvent) string {
	var us []string
	for u, r := range e.PLU {
		us = append(us, fmt.Sprintf("%s=%d", u, r))
	}
	sort.Strings(us)
	ref := func(xs []int) []string {
		var out []string
		for _, x := range xs {
			if id, ok := m.ids[x]; ok {
				out = append(out, id)
			} else {
				out = append(out, fmt.Sprint(x))
			}
		}
		sort.Strings(out)
		return out
	}
	addl := append([]string(nil), e.Addl...)
	sort.Strings(addl)
	h := sha1.Sum([]byte(fmt.Sprint(m.q.Ver, "|", e.Type, "|", e.Sender, "|", e.SKey, "|", e.Membership, "|", us, "|", e.pud(), "|", e.JR,
		"|", e.Depth, "|", e.TS, "|", addl, "|", ref(e.Prev), "|", ref(e.Auth))))
	return fmt.Sprintf("%x", h[:12])
}

// stateKeyOf is the concrete state key of a non-member event: "" or, for the model's "x", a key that is no user ID.
func stateKeyOf(e roomEvent) string {
	if e.SKey == "" {
		return ""
	}
	return "archive"
}

// sha1IDs returns n event IDs whose SHA-1 order realises the given ranks (v1 tie-break).
func sha1IDs(q *resQuery, own string) map[int]string {
	n := len(q.Events)
	type cand struct {
		id  string
		sum [20]byte
	}
	cs := make([]cand, n)
	for i := range cs {
		id := fmt.Sprintf("$ev%02dx%d%s:hs1", i, len(q.Events), own)
		cs[i] = cand{id, sha1.Sum([]byte(id))}
	}
	sort.Slice(cs, func(a, b int) bool { return string(cs[a].sum[:]) < string(cs[b].sum[:]) })
	evs := append([]roomEvent(nil), q.Events...)
	sort.Slice(evs, func(a, b int) bool { return evs[a].SHA < evs[b].SHA })
	out := map[int]string{}
	for k, e := range evs {
		out[e.ID] = cs[k].id
	}
	return out
}

func materialise(q *resQuery) *roomM {
	m := assignIDs(q, "")
	m.build()
	return m
}

// assignIDs chooses the event IDs of a query (no event is built yet).  own: "" or a tag that makes the sender-chosen
// IDs of room versions 1 and 2 the query's own.
func assignIDs(q *resQuery, own string) *roomM {
	m := &roomM{q: q, ids: map[int]string{}, pdus: map[int]gmsl.PDU{}, byID: map[string]int{}, types: map[int]string{}}
	ver := q.Ver
	var v1ids map[int]string
	if ver == "1" {
		v1ids = sha1IDs(q, own)
	}
	// Event IDs.  Room versions 1 and 2: the sender chooses the ID, so different events may carry one ID; the IDs
	// are derived from the model's event number / rank only, and the queries of one batch deliberately reuse them
	// for different events (event 7 of one room and of the next are different power-levels events under one ID):
	// whatever a resolver remembers about an ID from an earlier call must not leak into the next.  Room versions
	// 3+: the ID is a hash of the event, two different events never share one; the IDs are the rank (which fixes
	// the lexicographic order) followed by a digest of the event's fields and of the IDs it references.
	for _, e := range q.Events {
		switch {
		case ver == "1":
			m.ids[e.ID] = v1ids[e.ID]
		case isFormatV1(ver):
			m.ids[e.ID] = fmt.Sprintf("$e%03d%s:hs1", e.IDR, own)
		default:
			m.ids[e.ID] = eventID43(fmt.Sprintf("e%03d_%s", e.IDR, m.digest(e)))
		}
		m.byID[m.ids[e.ID]] = e.ID
	}
	return m
}

// build builds the real events of the query under the assigned IDs.
func (m *roomM) build() {
	q, ver := m.q, m.q.Ver
	room := "!room:hs1"
	createID := ""
	for _, e := range q.Events {
		if e.Type == "create" {
			createID = m.ids[e.ID]
		}
	}
	if isDomainless(ver) {
		room = "!" + createID[1:]
	}
	for _, e := range q.Events {
		es := eventSpec{Ver: ver, ID: m.ids[e.ID], RoomID: room, Sender: userIDs[e.Sender], Depth: e.Depth, TS: e.TS * 1000}
		for _, p := range e.Prev {
			es.Prev = append(es.Prev, m.ids[p])
		}
		for _, a := range e.Auth {
			if isDomainless(ver) && m.ids[a] == createID {
				continue // implied by the room ID
			}
			es.Auth = append(es.Auth, m.ids[a])
		}
		sort.Strings(es.Prev)
		sort.Strings(es.Auth)
		switch e.Type {
		case "create":
			es.Type, es.StateKey = "m.room.create", strp("")
			c := map[string]interface{}{"room_version": ver}
			if !(ver == "11" || isDomainless(ver)) {
				c["creator"] = userIDs[e.Sender]
			}
			if len(e.Addl) > 0 {
				var addl []string
				for _, u := range e.Addl {
					addl = append(addl, userIDs[u])
				}
				c["additional_creators"] = addl
			}
			es.Content = c
			if isDomainless(ver) {
				es.RoomID = ""
			}
		case "member":
			es.Type, es.StateKey = "m.room.member", strp(userIDs[e.SKey])
			es.Content = map[string]interface{}{"membership": e.Membership}
		case "pl":
			es.Type, es.StateKey = "m.room.power_levels", strp(stateKeyOf(e))
			es.Content = e.plContent()
		case "jr":
			es.Type, es.StateKey = "m.room.join_rules", strp(stateKeyOf(e))
			es.Content = map[string]interface{}{"join_rule": e.JR}
		default:
			es.Type, es.StateKey = "m.room.topic", strp("")
			es.Content = map[string]interface{}{"topic": fmt.Sprintf("topic %d", e.ID)}
		}
		m.pdus[e.ID] = es.mustBuild()
		m.types[e.ID] = e.Type
	}
}

func (m *roomM) list(ids []int) []gmsl.PDU {
	out := make([]gmsl.PDU, 0, len(ids))
	for _, i := range ids {
		out = append(out, m.pdus[i])
	}
	return out
}

// authChain returns the auth chain (through the model's auth edges) of the given events.
func (m *roomM) authChain(from []int) []int {
	byID := map[int]roomEvent{}
	for _, e := range m.q.Events {
		byID[e.ID] = e
	}
	seen := map[int]bool{}
	var walk func(i int)
	walk = func(i int) {
		for _, a := range byID[i].Auth {
			if !seen[a] {
				seen[a] = true
				walk(a)
			}
		}
	}
	for _, i := range from {
		walk(i)
	}
	var out []int
	for i := range seen {
		out = append(out, i)
	}
	sort.Ints(out)
	return out
}

func unionInts(xs ...[]int) []int {
	seen := map[int]bool{}
	var out []int
	for _, x := range xs {
		for _, i := range x {
			if !seen[i] {
				seen[i] = true
				out = append(out, i)
			}
		}
	}
	sort.Ints(out)
	return out
}

func (m *roomM) idsOf(ps []gmsl.PDU) []int {
	var out []int
	for _, p := range ps {
		if p == nil {
			out = append(out, -1)
			continue
		}
		out = append(out, m.byID[p.EventID()])
	}
	sort.Ints(out)
	return out
}

func sameInts(a, b []int) bool {
	if len(a) != len(b) {
		return false
	}
	for i := range a {
		if a[i] != b[i] {
			return false
		}
	}
	return true
}

func (m *roomM) rejectedFn() gmsl.IsRejected {
	rej := map[string]bool{}
	for _, i := range m.q.Rejected {
		rej[m.ids[i]] = true
	}
	return func(id string) bool { return rej[id] }
}

func algoOf(ver string) gmsl.StateResAlgorithm {
	return gmsl.MustGetRoomVersion(gmsl.RoomVersion(ver)).StateResAlgorithm()
}

// v1AuthEvents: the v1 resolver documents its auth events as the unconflicted events needed for auth, one per key.
func (m *roomM) v1AuthEvents() []int {
	byID := map[int]roomEvent{}
	for _, e := range m.q.Events {
		byID[e.ID] = e
	}
	perKey := map[string]map[int]bool{}
	for _, s := range m.q.Sets {
		for _, i := range s {
			k := byID[i].Type + "\x00" + byID[i].SKey
			if perKey[k] == nil {
				perKey[k] = map[int]bool{}
			}
			perKey[k][i] = true
		}
	}
	var out []int
	for _, ids := range perKey {
		if len(ids) != 1 {
			continue
		}
		for i := range ids {
			// the events the auth rules read: members and the room's create / power levels / join rules (empty state key)
			switch {
			case m.types[i] == "member", (m.types[i] == "create" || m.types[i] == "pl" || m.types[i] == "jr") && byID[i].SKey == "":
				out = append(out, i)
			}
		}
	}
	sort.Ints(out)
	return out
}

func (m *roomM) describe() string {
	var parts []string
	for _, e := range m.q.Events {
		if e.ID <= 6 {
			continue
		}
		s := fmt.Sprintf("%d:%s(%s", e.ID, e.Type, e.Sender)
		if e.Type != "member" && e.SKey != "" {
			s = fmt.Sprintf("%d:%s[state_key %q](%s", e.ID, e.Type, stateKeyOf(e), e.Sender)
		}
		if e.Type == "member" {
			s += "->" + e.SKey + " " + e.Membership
		}
		if e.Type == "pl" {
			var us []string
			for u, r := range e.PLU {
				if r >= 0 {
					us = append(us, fmt.Sprintf("%s=%d", u, roomLadder[r]))
				}
			}
			sort.Strings(us)
			s += " " + strings.Join(us, ",")
			if r := e.pud(); r >= 0 {
				s += fmt.Sprintf(" users_default=%d", roomLadder[r])
			}
		}
		if e.Type == "jr" {
			s += " " + e.JR
		}
		s += fmt.Sprintf(") prev=%v auth=%v", e.Prev, e.Auth)
		parts = append(parts, s)
	}
	return strings.Join(parts, "; ")
}

// powerKeys describes the keys the specification sorted the power events with: the sender's effective level in the
// power-levels event the event cites (a users entry or users_default), timestamp, event-ID rank.
func (m *roomM) powerKeys() string {
	if len(m.q.SPower) != len(m.q.Power) || len(m.q.Power) == 0 {
		return ""
	}
	byID := map[int]roomEvent{}
	for _, e := range m.q.Events {
		byID[e.ID] = e
	}
	var parts []string
	for k, id := range m.q.Power {
		e := byID[id]
		lvl := "2^53 (creator)"
		if r := m.q.SPower[k]; r >= 0 && r < len(roomLadder) {
			lvl = fmt.Sprint(roomLadder[r])
			for _, a := range e.Auth {
				if pl := byID[a]; pl.Type == "pl" {
					if pl.PLU[e.Sender] < 0 {
						lvl += " via users_default"
					}
					break
				}
			}
		}
		parts = append(parts, fmt.Sprintf("%d: %s power %s ts %d id-rank %d", id, e.Sender, lvl, e.TS, e.IDR))
	}
	return " sorted by (sender power desc, ts, id) with keys [" + strings.Join(parts, "; ") + "]"
}

// shapeKey is the canonical abstract key of a query: the multiset of (type, action) of the events that differ
// between the state sets, by algorithm.
func (m *roomM) shapeKey() string {
	inAll := map[int]int{}
	for _, s := range m.q.Sets {
		for _, i := range s {
			inAll[i]++
		}
	}
	byID := map[int]roomEvent{}
	for _, e := range m.q.Events {
		byID[e.ID] = e
	}
	var parts []string
	for i, n := range inAll {
		if n == len(m.q.Sets) {
			continue
		}
		e := byID[i]
		s := e.Type
		if e.Type != "member" && e.SKey != "" {
			s += "@key"
		}
		if e.Type == "member" {
			if e.Sender == e.SKey {
				s += ":self-" + e.Membership
			} else {
				s += ":other-" + e.Membership
			}
		}
		parts = append(parts, s)
	}
	sort.Strings(parts)
	return strings.Join(parts, "+")
}

func c10Replay(i int, raw json.RawMessage, seed int) Result {
	var q resQuery
	if err := json.Unmarshal(raw, &q); err != nil {
		panic(err)
	}
	m := materialise(&q)
	want := append([]int(nil), q.Result...)
	sort.Ints(want)
	var sets [][]gmsl.PDU
	var all []int
	for _, s := range q.Sets {
		sets = append(sets, m.list(s))
		all = unionInts(all, s)
	}
	// the specified state is a function of the set of state sets: with three sets every presentation order is run
	orders := [][][]gmsl.PDU{sets}
	if len(sets) == 3 {
		for _, p := range [][3]int{{0, 2, 1}, {1, 0, 2}, {1, 2, 0}, {2, 0, 1}, {2, 1, 0}} {
			orders = append(orders, [][]gmsl.PDU{sets[p[0]], sets[p[1]], sets[p[2]]})
		}
	}
	algo := algoOf(q.Ver)
	nt := fmt.Sprintf("%s|%s|rej=%v|res=%v", q.Ver, m.shapeKey(), q.Rejected, want)
	// Room.tla only lets honest servers send what the rules allow on the state they resolved: every event of the
	// room must therefore be allowed by its own auth events (this binds Room!Send's guard to the real Allowed)
	for _, e := range q.Events {
		if e.ID <= 2 || len(q.Rejected) > 0 || q.Dishonest {
			continue
		}
		prov, err := gmsl.NewAuthEvents(m.list(e.Auth))
		if err != nil {
			panic(err)
		}
		if err := gmsl.Allowed(m.pdus[e.ID], prov, identityQuerier); err != nil {
			return Result{OK: false, NT: nt, Key: fmt.Sprintf("C10/room-event-not-allowed/%s", e.Type), Want: true, Got: false,
				What: fmt.Sprintf("Room.tla sends event %d (allowed by the specification's rules on auth events %v) but the real Allowed refuses it: %v; room (version %s): %s", e.ID, e.Auth, err, q.Ver, m.describe())}
		}
	}
	checkOne := func(entry string, auth []int, sets [][]gmsl.PDU) *Result {
		var got []gmsl.PDU
		switch entry {
		case "ResolveConflictsNew":
			r, err := gmsl.ResolveConflictsNew(gmsl.RoomVersion(q.Ver), sets, m.list(auth), identityQuerier, m.rejectedFn())
			if err != nil {
				panic(err)
			}
			got = r
		case "ResolveStateConflictsV2New":
			got = gmsl.ResolveStateConflictsV2New(algo, sets, m.list(auth), identityQuerier, m.rejectedFn())
		}
		g := m.idsOf(got)
		if !sameInts(g, want) {
			return &Result{OK: false, NT: nt, Key: fmt.Sprintf("C10/%s/algo=%d/%s", entry, algo, m.shapeKey()), Want: want, Got: g,
				What: fmt.Sprintf("%s (room version %s): resolved state %v, specification says %v; state sets %v; power order %v%s, others %v, auth difference %v, subgraph %v; room: %s",
					entry, q.Ver, g, want, q.Sets, q.Power, m.powerKeys(), q.Others, q.AuthDiff, q.Subgraph, m.describe())}
		}
		return nil
	}
	check := func(entry string, auth []int) *Result {
		for _, o := range orders {
			if r := checkOne(entry, auth, o); r != nil {
				return r
			}
		}
		return nil
	}
	if algo == gmsl.StateResV1 {
		if r := check("ResolveConflictsNew", m.v1AuthEvents()); r != nil {
			return *r
		}
		return Result{OK: true, NT: nt}
	}
	chain := m.authChain(all)
	for _, auth := range [][]int{chain, unionInts(chain, all)} {
		for _, entry := range []string{"ResolveConflictsNew", "ResolveStateConflictsV2New"} {
			if r := check(entry, auth); r != nil {
				return *r
			}
		}
	}
	return Result{OK: true, NT: nt}
}

// ---------------------------------------------------------------------------------------------- C11

func shuffled[T any](r *rand.Rand, xs []T) []T {
	out := append([]T(nil), xs...)
	r.Shuffle(len(out), func(a, b int) { out[a], out[b] = out[b], out[a] })
	return out
}

// c11Entries are the entry points a query is run through.
func c11Entries(algo gmsl.StateResAlgorithm) []string {
	entries := []string{"ResolveConflictsNew", "ResolveConflicts(deprecated)"}
	if algo != gmsl.StateResV1 {
		return append(entries, "ResolveStateConflictsV2New", "ResolveStateConflictsV2(deprecated)")
	}
	return append(entries, "ResolveStateConflicts")
}

// c11Resolve runs one entry point on the query as given (state sets and auth events in the record's order).
func c11Resolve(m *roomM, entry string, sets [][]int, auth []int) []int {
	q := m.q
	algo := algoOf(q.Ver)
	byID := map[int]roomEvent{}
	for _, e := range q.Events {
		byID[e.ID] = e
	}
	keyOf := func(id int) string { return byID[id].Type + "\x00" + byID[id].SKey }
	var psets [][]gmsl.PDU
	var union []int
	for _, s := range sets {
		psets = append(psets, m.list(s))
		union = append(union, s...)
	}
	uniq := unionInts(union)
	perKey := map[string][]int{}
	for _, x := range uniq {
		perKey[keyOf(x)] = append(perKey[keyOf(x)], x)
	}
	var conflicted, unconflicted []int
	for _, x := range uniq {
		if len(perKey[keyOf(x)]) > 1 {
			conflicted = append(conflicted, x)
		} else {
			unconflicted = append(unconflicted, x)
		}
	}
	var got []gmsl.PDU
	switch entry {
	case "ResolveConflictsNew":
		r, err := gmsl.ResolveConflictsNew(gmsl.RoomVersion(q.Ver), psets, m.list(auth), identityQuerier, m.rejectedFn())
		if err != nil {
			panic(err)
		}
		got = r
	case "ResolveStateConflictsV2New":
		got = gmsl.ResolveStateConflictsV2New(algo, psets, m.list(auth), identityQuerier, m.rejectedFn())
	case "ResolveConflicts(deprecated)":
		r, err := gmsl.ResolveConflicts(gmsl.RoomVersion(q.Ver), m.list(union), m.list(auth), identityQuerier, m.rejectedFn())
		if err != nil {
			panic(err)
		}
		got = r
	case "ResolveStateConflictsV2(deprecated)":
		got = gmsl.ResolveStateConflictsV2(m.list(conflicted), m.list(unconflicted), m.list(auth), identityQuerier, m.rejectedFn())
	case "ResolveStateConflicts":
		got = append(gmsl.ResolveStateConflicts(m.list(conflicted), m.list(auth), identityQuerier), m.list(unconflicted)...)
	}
	return m.idsOf(got)
}

// c11AuthOf is the auth-event list a query is presented with.
func c11AuthOf(m *roomM) []int {
	var all []int
	for _, s := range m.q.Sets {
		all = unionInts(all, s)
	}
	if algoOf(m.q.Ver) == gmsl.StateResV1 {
		return m.v1AuthEvents()
	}
	return unionInts(m.authChain(all), all)
}

// c11History (the second process): the queries of the batch from the last to the first, every entry point once.
func c11History(a *args) error {
	recs, err := readRecords(a.in)
	if err != nil {
		return err
	}
	tw, err := newTraceWriter(a.out)
	if err != nil {
		return err
	}
	// Room versions with sender-chosen event IDs: the first process reuses one set of IDs for the events of all
	// queries (different events under one ID from call to call); this process gives every query IDs of its own
	// (same lexicographic / SHA-1 order), so nothing it has resolved before can be mistaken for an event of the
	// query.  All queries: from the last to the first.
	rest := make([]int, len(recs))
	for i := range rest {
		rest[i] = i
	}
	one := func(i int) {
		out := map[string][]int{}
		func() {
			defer func() { recover() }() // a panic is reported by the first process, with its own key
			var q resQuery
			if json.Unmarshal(recs[i], &q) != nil {
				return
			}
			m := assignIDs(&q, fmt.Sprintf("q%d", i))
			m.build()
			auth := c11AuthOf(m)
			for _, entry := range c11Entries(algoOf(q.Ver)) {
				out[entry] = c11Resolve(m, entry, q.Sets, auth)
			}
		}()
		tw.emit(map[string]interface{}{"i": i, "r": out})
	}
	par := max(1, a.par)
	var wg sync.WaitGroup
	next := int64(len(rest))
	for w := 0; w < par; w++ {
		wg.Add(1)
		go func() {
			defer wg.Done()
			for {
				k := int(atomic.AddInt64(&next, -1))
				if k < 0 {
					return
				}
				one(rest[k])
			}
		}()
	}
	wg.Wait()
	return tw.close()
}

// c11OtherProcess runs c11hist on the same batch in a child process and returns its results per record.
func c11OtherProcess(a *args) (map[int]map[string][]int, error) {
	f, err := os.CreateTemp("", "c11hist_*.ndjson")
	if err != nil {
		return nil, err
	}
	f.Close()
	defer os.Remove(f.Name())
	cmd := exec.Command(os.Args[0], "c11hist", "-in", a.in, "-out", f.Name(), "-seed", fmt.Sprint(a.seed))
	cmd.Stdout = io.Discard // the library prints diagnostics of its own to stdout
	cmd.Stderr = os.Stderr
	if err := cmd.Run(); err != nil {
		return nil, fmt.Errorf("second process (c11hist): %w", err)
	}
	lines, err := readRecords(f.Name())
	if err != nil {
		return nil, err
	}
	out := map[int]map[string][]int{}
	for _, l := range lines {
		var r struct {
			I int              `json:"i"`
			R map[string][]int `json:"r"`
		}
		if err := json.Unmarshal(l, &r); err != nil {
			return nil, err
		}
		out[r.I] = r.R
	}
	return out, nil
}

func c11Replay(i int, raw json.RawMessage, seed int, other map[int]map[string][]int) Result {
	// position of the record in the file the second process read (a record re-executed alone is told its
	// position in the original batch through VERIF_INDEX_BASE)
	recIndex := i
	if v, err := strconv.Atoi(os.Getenv("VERIF_INDEX_BASE")); err == nil {
		recIndex = i - v
	}
	var q resQuery
	if err := json.Unmarshal(raw, &q); err != nil {
		panic(err)
	}
	m := materialise(&q)
	// the random choices depend on the record itself (not on its position) so that a fresh-process re-run of
	// one record repeats them
	h := fnv.New64a()
	h.Write(raw)
	rng := rand.New(rand.NewSource(int64(seed)*1000003 + int64(h.Sum64()>>1)))
	algo := algoOf(q.Ver)
	var all []int
	for _, s := range q.Sets {
		all = unionInts(all, s)
	}
	chain := m.authChain(all)
	auth := unionInts(chain, all)
	if algo == gmsl.StateResV1 {
		auth = m.v1AuthEvents()
	}
	byID := map[int]roomEvent{}
	for _, e := range q.Events {
		byID[e.ID] = e
	}
	keyOf := func(id int) string { return byID[id].Type + "\x00" + byID[id].SKey }
	supplied := map[int]bool{}
	for _, x := range unionInts(all, auth) {
		supplied[x] = true
	}
	shape := m.shapeKey()
	nt := fmt.Sprintf("%s|%s", q.Ver, shape)
	fail := func(entry, kind string, want, got interface{}, what string) Result {
		return Result{OK: false, NT: nt, Key: fmt.Sprintf("C11/%s/%s/algo=%d/%s", entry, kind, algo, shape), Want: want, Got: got,
			What: fmt.Sprintf("%s (room version %s): %s; state sets %v; room: %s", entry, q.Ver, what, q.Sets, m.describe())}
	}
	wellFormed := func(entry string, res []int) *Result {
		seen := map[string]int{}
		for _, x := range res {
			if x < 0 || !supplied[x] {
				r := fail(entry, "not-supplied", nil, res, fmt.Sprintf("result %v contains an event that was not supplied", res))
				return &r
			}
			if y, dup := seen[keyOf(x)]; dup {
				r := fail(entry, "two-events-per-key", nil, res, fmt.Sprintf("result %v has two events (%d, %d) for one (type, state_key)", res, y, x))
				return &r
			}
			seen[keyOf(x)] = x
		}
		// keys on which all state sets agree keep exactly that event
		cnt := map[int]int{}
		perKey := map[string]map[int]bool{}
		for _, s := range q.Sets {
			for _, x := range s {
				cnt[x]++
				if perKey[keyOf(x)] == nil {
					perKey[keyOf(x)] = map[int]bool{}
				}
				perKey[keyOf(x)][x] = true
			}
		}
		for x, n := range cnt {
			if n == len(q.Sets) && len(perKey[keyOf(x)]) == 1 && seen[keyOf(x)] != x {
				r := fail(entry, "agreed-key-changed", x, res, fmt.Sprintf("all state sets agree on event %d for its key but the result %v does not contain it", x, res))
				return &r
			}
		}
		return nil
	}

	type variant struct {
		name string
		sets [][]int
		auth []int
	}
	mkVariants := func() []variant {
		var vs []variant
		vs = append(vs, variant{"baseline", q.Sets, auth})
		rev := make([][]int, len(q.Sets))
		for k := range q.Sets {
			rev[len(q.Sets)-1-k] = q.Sets[k]
		}
		vs = append(vs, variant{"sets-reversed", rev, auth})
		for k := 0; k < 3; k++ {
			var ss [][]int
			for _, s := range shuffled(rng, q.Sets) {
				ss = append(ss, shuffled(rng, s))
			}
			vs = append(vs, variant{"shuffled", ss, shuffled(rng, auth)})
		}
		if algo != gmsl.StateResV1 {
			dup := append(append([]int(nil), auth...), shuffled(rng, auth)[:(len(auth)+1)/2]...)
			vs = append(vs, variant{"auth-duplicated", q.Sets, shuffled(rng, dup)})
		}
		for k := 0; k < 4; k++ {
			vs = append(vs, variant{"repeat", q.Sets, auth})
		}
		return vs
	}
	for _, entry := range c11Entries(algo) {
		var ref []int
		for k, v := range mkVariants() {
			var sets [][]gmsl.PDU
			var union []int
			for _, s := range v.sets {
				sets = append(sets, m.list(s))
				union = append(union, s...)
			}
			// the deprecated entry points take the union of the state sets / their own conflicted-unconflicted split
			uniq := unionInts(union)
			perKey := map[string][]int{}
			for _, x := range uniq {
				perKey[keyOf(x)] = append(perKey[keyOf(x)], x)
			}
			var conflicted, unconflicted []int
			for _, x := range shuffled(rng, uniq) {
				if len(perKey[keyOf(x)]) > 1 {
					conflicted = append(conflicted, x)
				} else {
					unconflicted = append(unconflicted, x)
				}
			}
			var got []gmsl.PDU
			switch entry {
			case "ResolveConflictsNew":
				r, err := gmsl.ResolveConflictsNew(gmsl.RoomVersion(q.Ver), sets, m.list(v.auth), identityQuerier, m.rejectedFn())
				if err != nil {
					panic(err)
				}
				got = r
			case "ResolveStateConflictsV2New":
				got = gmsl.ResolveStateConflictsV2New(algo, sets, m.list(v.auth), identityQuerier, m.rejectedFn())
			case "ResolveConflicts(deprecated)":
				r, err := gmsl.ResolveConflicts(gmsl.RoomVersion(q.Ver), m.list(shuffled(rng, union)), m.list(v.auth), identityQuerier, m.rejectedFn())
				if err != nil {
					panic(err)
				}
				got = r
			case "ResolveStateConflictsV2(deprecated)":
				got = gmsl.ResolveStateConflictsV2(m.list(conflicted), m.list(unconflicted), m.list(v.auth), identityQuerier, m.rejectedFn())
			case "ResolveStateConflicts":
				got = append(gmsl.ResolveStateConflicts(m.list(conflicted), m.list(v.auth), identityQuerier), m.list(unconflicted)...)
			}
			g := m.idsOf(got)
			if r := wellFormed(entry, g); r != nil {
				return *r
			}
			if k == 0 {
				ref = g
			} else if !sameInts(g, ref) {
				return fail(entry, v.name, ref, g, fmt.Sprintf("result %v under variant %q differs from the baseline result %v", g, v.name, ref))
			}
		}
		// ... and on every run of the process: a second process that resolved the batch in the opposite order
		if o, ok := other[recIndex][entry]; ok && !sameInts(o, ref) {
			return fail(entry, "other-process-history", ref, o, fmt.Sprintf("this process returns %v; a second process that resolved the batch in the opposite order (and, in room versions with sender-chosen event IDs, every query under IDs of its own) returns %v: the result depends on what the process resolved earlier", ref, o))
		}
	}
	// orderings: every ordering returned for this acyclic event set is a permutation of the distinct inputs in
	// which each event comes after all of its referenced ancestors present in the input
	// ancestors of each event through references that can be followed inside the given input
	ancestors := func(edges func(roomEvent) []int, present map[int]bool) map[int]map[int]bool {
		anc := map[int]map[int]bool{}
		var walk func(x int) map[int]bool
		walk = func(x int) map[int]bool {
			if a, ok := anc[x]; ok {
				return a
			}
			a := map[int]bool{}
			anc[x] = a
			for _, p := range edges(byID[x]) {
				if !present[p] {
					continue
				}
				a[p] = true
				for y := range walk(p) {
					a[y] = true
				}
			}
			return a
		}
		for x := range present {
			walk(x)
		}
		return anc
	}
	var everything []int
	for _, e := range q.Events {
		everything = append(everything, e.ID)
	}
	for _, ord := range []struct {
		name  string
		order gmsl.TopologicalOrder
		edges func(roomEvent) []int
	}{
		{"by-auth-events", gmsl.TopologicalOrderByAuthEvents, func(e roomEvent) []int { return e.Auth }},
		{"by-prev-events", gmsl.TopologicalOrderByPrevEvents, func(e roomEvent) []int { return e.Prev }},
	} {
		for k := 0; k < 4; k++ {
			// all events, or a subset that keeps the create event, in a random presentation order, sometimes with duplicates
			input := shuffled(rng, everything)
			if k >= 2 {
				var sub []int
				for _, x := range input {
					if byID[x].Type == "create" || rng.Intn(3) > 0 {
						sub = append(sub, x)
					}
				}
				input = sub
			}
			withDup := input
			if k%2 == 1 && len(input) > 1 {
				withDup = append(append([]int(nil), input...), input[rng.Intn(len(input))])
			}
			present := map[int]bool{}
			for _, x := range input {
				present[x] = true
			}
			anc := ancestors(ord.edges, present)
			out := gmsl.ReverseTopologicalOrdering(m.list(withDup), ord.order)
			var seq []int
			for _, p := range out {
				if p == nil {
					seq = append(seq, -1)
				} else {
					seq = append(seq, m.byID[p.EventID()])
				}
			}
			pos := map[int]int{}
			for idx, x := range seq {
				if _, dup := pos[x]; dup || x < 0 {
					return fail("ReverseTopologicalOrdering", ord.name+"/not-a-permutation", unionInts(input), seq, fmt.Sprintf("ordering %v of input %v repeats or invents an event", seq, withDup))
				}
				pos[x] = idx
			}
			if len(pos) != len(unionInts(input)) {
				return fail("ReverseTopologicalOrdering", ord.name+"/not-a-permutation", unionInts(input), seq, fmt.Sprintf("ordering %v of input %v drops an event", seq, withDup))
			}
			for _, x := range seq {
				for a := range anc[x] {
					if pa, ok := pos[a]; ok && pa > pos[x] {
						return fail("ReverseTopologicalOrdering", ord.name+"/ancestor-after-descendant", nil, seq, fmt.Sprintf("ordering %v of input %v puts event %d before its ancestor %d", seq, withDup, x, a))
					}
				}
			}
		}
	}
	return Result{OK: true, NT: nt}
}
