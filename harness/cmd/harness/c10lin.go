package main

// C11 - LineariseStateResponse on the rooms of Room_gen.tla: the events of a query's room are built as a server
// would send them (real EventBuilder: content hash, signature, in room versions 3+ the reference hash as event ID;
// sender-chosen IDs in versions 1 and 2), with sender-chosen depths that run AGAINST the DAG and with the natural
// depths or one depth for all events (the orderings are defined by the auth events alone; depth is whatever the
// sender wrote).  A state
// response is a state set of the query plus its auth chain, in a random presentation order, sometimes with entries
// listed twice; the returned slice must be a permutation of the distinct events of the response in which every
// event comes after all of the auth events it cites that are in the response.

import (
	"crypto/ed25519"
	"crypto/sha256"
	"fmt"
	"math/rand"
	"sort"
	"strings"
	"sync"
	"time"

	gmsl "github.com/matrix-org/gomatrixserverlib"
	"github.com/matrix-org/gomatrixserverlib/spec"
)

var linBaseTime = time.Date(2020, 1, 1, 0, 0, 0, 0, time.UTC)

var linKeys sync.Map // server name -> ed25519.PrivateKey

func linKey(server string) ed25519.PrivateKey {
	if k, ok := linKeys.Load(server); ok {
		return k.(ed25519.PrivateKey)
	}
	h := sha256.Sum256([]byte("c11-linearise-key-" + server))
	k, _ := linKeys.LoadOrStore(server, ed25519.NewKeyFromSeed(h[:]))
	return k.(ed25519.PrivateKey)
}

// identical events recur in thousands of queries: each is built (and signed) once per process
var linCache sync.Map

var linTypeNames = map[string]string{"create": "m.room.create", "member": "m.room.member", "pl": "m.room.power_levels",
	"jr": "m.room.join_rules", "topic": "m.room.topic"}

type linRoom struct {
	ids  map[int]string
	byID map[string]int
	pdus map[int]gmsl.PDU
}

// buildSentRoom builds the events of the query's room in DAG order (model ids increase along the DAG).
func buildSentRoom(q *resQuery, dr depthReal) *linRoom {
	r := &linRoom{ids: map[int]string{}, byID: map[string]int{}, pdus: map[int]gmsl.PDU{}}
	ver := q.Ver
	impl := gmsl.MustGetRoomVersion(gmsl.RoomVersion(ver))
	room := "!room:hs1"
	evs := append([]roomEvent(nil), q.Events...)
	sort.Slice(evs, func(a, b int) bool { return evs[a].ID < evs[b].ID })
	create := 0
	for _, e := range evs {
		if e.Type == "create" && e.SKey == "" {
			create = e.ID
		}
	}
	for _, e := range evs {
		prev, auth := []string{}, []string{}
		for _, p := range e.Prev {
			prev = append(prev, r.ids[p])
		}
		for _, a := range e.Auth {
			if isDomainless(ver) && a == create {
				continue // implied by the room ID
			}
			auth = append(auth, r.ids[a])
		}
		sort.Strings(prev)
		sort.Strings(auth)
		var content interface{}
		var skey string
		switch e.Type {
		case "create":
			c := map[string]interface{}{"room_version": ver}
			if !(ver == "11" || isDomainless(ver)) {
				c["creator"] = userIDs[e.Sender]
			}
			if len(e.Addl) > 0 {
				var addl []string
				for _, u := range e.Addl {
					addl = append(addl, userIDs[u])
				}
				c["additional_creators"] = addl
			}
			content, skey = c, stateKeyOf(e)
		case "member":
			content, skey = map[string]interface{}{"membership": e.Membership}, userIDs[e.SKey]
		case "pl":
			content, skey = e.plContent(), stateKeyOf(e)
		case "jr":
			content, skey = map[string]interface{}{"join_rule": e.JR}, stateKeyOf(e)
		default:
			content, skey = map[string]interface{}{"topic": fmt.Sprintf("topic %d", e.ID)}, ""
		}
		evRoom := room
		if isDomainless(ver) && e.ID == create {
			evRoom = ""
		}
		depth := dr.of(e.Depth)
		key := fmt.Sprint(ver, "|", evRoom, "|", e.ID, "|", e.Type, "|", e.Sender, "|", skey, "|", mustJSON(content), "|", prev, "|", auth, "|", depth, "|", e.TS, "|", e.IDR)
		var p gmsl.PDU
		if c, ok := linCache.Load(key); ok {
			p = c.(gmsl.PDU)
		} else {
			if isFormatV1(ver) {
				// sender-chosen event ID: the event as its JSON says it (the ID realises the model's rank)
				es := eventSpec{Ver: ver, ID: fmt.Sprintf("$l%03dn%d:hs1", e.IDR, e.ID), RoomID: evRoom, Type: linTypeNames[e.Type], StateKey: strp(skey),
					Sender: userIDs[e.Sender], Content: content, Prev: prev, Auth: auth, Depth: depth, TS: e.TS * 1000}
				p = es.mustBuild()
			} else {
				pe := &gmsl.ProtoEvent{SenderID: userIDs[e.Sender], RoomID: evRoom, Type: linTypeNames[e.Type], StateKey: strp(skey),
					PrevEvents: prev, AuthEvents: auth, Depth: depth}
				if err := pe.SetContent(content); err != nil {
					panic(err)
				}
				origin := userIDs[e.Sender][strings.IndexByte(userIDs[e.Sender], ':')+1:]
				// the model's events are distinct events even when two say the same thing on the same predecessors
				now := linBaseTime.Add(time.Duration(e.TS*1000+int64(e.ID)) * time.Millisecond)
				b, err := impl.NewEventBuilderFromProtoEvent(pe).Build(now, spec.ServerName(origin), gmsl.KeyID("ed25519:k1"), linKey(origin))
				if err != nil {
					panic(fmt.Sprintf("c11: cannot build event %d: %v", e.ID, err))
				}
				p = b
			}
			_ = p.EventID() // computed before the event is shared
			if c, loaded := linCache.LoadOrStore(key, p); loaded {
				p = c.(gmsl.PDU)
			}
		}
		if isDomainless(ver) && e.ID == create {
			room = "!" + p.EventID()[1:]
		}
		r.ids[e.ID] = p.EventID()
		r.byID[p.EventID()] = e.ID
		r.pdus[e.ID] = p
	}
	return r
}

// cappedDepths: every event carries the largest depth canonical JSON can express.
var cappedDepths = depthReal{name: "capped(every event at 2^53-1)", f: func(int64) int64 { return 1<<53 - 1 }}

type linResponse struct{ auth, state gmsl.EventJSONs }

func (r *linResponse) GetAuthEvents() gmsl.EventJSONs  { return r.auth }
func (r *linResponse) GetStateEvents() gmsl.EventJSONs { return r.state }

// c11Linearise checks LineariseStateResponse on responses taken from the query's room.
func c11Linearise(q *resQuery, m *roomM, rng *rand.Rand, fail func(entry, kind string, want, got interface{}, what string) Result) *Result {
	byID := map[int]roomEvent{}
	for _, e := range q.Events {
		byID[e.ID] = e
	}
	// depths against the DAG always; and the natural ones or - a room whose depth counter sits at the cap - the same
	// depth on every event
	second := naturalDepths
	if rng.Intn(2) == 0 {
		second = cappedDepths
	}
	for _, dr := range []depthReal{againstDepths, second} {
		room := buildSentRoom(q, dr)
		short := strings.SplitN(dr.name, "(", 2)[0]
		for k, set := range q.Sets {
			chain := m.authChain(set)
			authList, stateList := shuffled(rng, chain), shuffled(rng, set)
			if k%2 == 1 && len(authList) > 1 {
				// auth events listed more than once
				authList = append(authList, authList[0], authList[len(authList)-1])
			}
			js := func(ids []int) gmsl.EventJSONs {
				var out []gmsl.PDU
				for _, i := range ids {
					out = append(out, room.pdus[i])
				}
				return gmsl.NewEventJSONsFromEvents(out)
			}
			want := unionInts(chain, set)
			out := gmsl.LineariseStateResponse(gmsl.RoomVersion(q.Ver), &linResponse{auth: js(authList), state: js(stateList)})
			var seq []int
			pos := map[int]int{}
			bad := ""
			for idx, p := range out {
				x := -1
				if p != nil {
					if i, ok := room.byID[p.EventID()]; ok {
						x = i
					}
				}
				seq = append(seq, x)
				if _, dup := pos[x]; dup || x < 0 {
					bad = "repeats or invents an event"
				}
				pos[x] = idx
			}
			if bad == "" && len(pos) != len(want) {
				bad = "drops an event"
			}
			descr := fmt.Sprintf("response: state %v, auth chain %v (depths of the events %s: %v)", stateList, authList, dr.name, depthsOf(q, dr, want))
			if bad != "" {
				r := fail("LineariseStateResponse", "not-a-permutation/depths-"+short, want, seq, fmt.Sprintf("returned %v: %s; %s", seq, bad, descr))
				return &r
			}
			for _, x := range seq {
				for _, a := range byID[x].Auth {
					if pa, ok := pos[a]; ok && pa > pos[x] {
						r := fail("LineariseStateResponse", "auth-event-after-citing-event/depths-"+short, nil, seq,
							fmt.Sprintf("returned %v: event %d comes before its auth event %d; %s", seq, x, a, descr))
						return &r
					}
				}
			}
		}
	}
	return nil
}

func depthsOf(q *resQuery, dr depthReal, ids []int) []string {
	in := map[int]bool{}
	for _, i := range ids {
		in[i] = true
	}
	var out []string
	for _, e := range q.Events {
		if in[e.ID] {
			out = append(out, fmt.Sprintf("%d:%d", e.ID, dr.of(e.Depth)))
		}
	}
	return out
}
