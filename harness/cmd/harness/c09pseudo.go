package main

// Pseudo-ID realisation of the abstract auth scenarios (room version org.matrix.msc4014): sender IDs, member state
// keys, power-level `users` keys, `creator` and join_authorised_via_users_server are sender keys (unpadded base64
// ed25519 public keys, one per user and room) instead of "@user:domain" IDs, and the user ID behind a sender key
// comes from the UserIDForSender function the caller passes (pseudoQuerier) or, for a join, from the mxid_mapping
// the member event carries.  Every scenario the concretiser builds with user-ID-shaped senders is re-realised here
// event by event: the abstract scenario - and therefore the verdict Auth.tla derives - is unchanged, because the
// rules speak of "the sender", "the target", "the nominated user" and never of the shape of their IDs.

import (
	"bytes"
	"encoding/json"
	"fmt"

	gmsl "github.com/matrix-org/gomatrixserverlib"
	"github.com/matrix-org/gomatrixserverlib/spec"
)

const pseudoIDVersion = "org.matrix.msc4014"

// users of the harness (the four abstract users and the bystanders the padding variants add) -> sender key
var pseudoKeyOf = map[string]string{}

// sender key -> user ID
var pseudoUserOf = map[string]string{}

func init() {
	ids := []string{"@zed:hs3", "@dave:hs1"}
	for _, id := range userIDs {
		ids = append(ids, id)
	}
	for _, id := range ids {
		_, priv := keyFromSeed("pseudo-id " + id)
		k := string(spec.SenderIDFromPseudoIDKey(priv))
		pseudoKeyOf[id] = k
		pseudoUserOf[k] = id
	}
}

// pseudoQuerier is the UserIDForSender of a homeserver that knows the room keys above and nothing else.
func pseudoQuerier(roomID spec.RoomID, senderID spec.SenderID) (*spec.UserID, error) {
	if id, ok := pseudoUserOf[string(senderID)]; ok {
		return spec.NewUserID(id, true)
	}
	return nil, fmt.Errorf("no user is known for sender %q", senderID)
}

// pseudoRealise rebuilds an event of a pseudo-ID room with sender keys in place of user IDs (every JSON string that
// is exactly a known user ID: sender, state_key, content values and `users` keys), under the same event ID.
// withMapping adds the mxid_mapping a join carries in such rooms.
func pseudoRealise(p gmsl.PDU, withMapping bool) gmsl.PDU {
	if string(p.Version()) != pseudoIDVersion {
		panic("pseudo-ID realisation asked for room version " + string(p.Version()))
	}
	j := append([]byte(nil), p.JSON()...)
	for id, k := range pseudoKeyOf {
		j = bytes.ReplaceAll(j, []byte(`"`+id+`"`), []byte(`"`+k+`"`))
	}
	if p.Type() == "m.room.member" {
		var ev map[string]json.RawMessage
		if err := json.Unmarshal(j, &ev); err != nil {
			panic(err)
		}
		var content map[string]json.RawMessage
		if err := json.Unmarshal(ev["content"], &content); err == nil && content != nil {
			changed := false
			// the identity server signed the block naming the invited user: sign the re-realised block likewise
			if rawTPI, ok := content["third_party_invite"]; ok {
				var tpi map[string]json.RawMessage
				if err := json.Unmarshal(rawTPI, &tpi); err == nil && tpi["signed"] != nil {
					var signed map[string]json.RawMessage
					if err := json.Unmarshal(tpi["signed"], &signed); err == nil && signed != nil {
						var sigs map[string]map[string]json.RawMessage
						_ = json.Unmarshal(signed["signatures"], &sigs)
						stray := len(sigs) > 1 || len(sigs["idserver"]) > 1 // signatures that verify under no listed key
						delete(signed, "signatures")
						raw, _ := json.Marshal(signed)
						out, err := gmsl.SignJSON("idserver", "ed25519:0", tpiPriv, raw)
						if err != nil {
							panic(err)
						}
						if stray {
							if out, err = gmsl.SignJSON("another.idserver", "ed25519:0", tpiStrayPriv, out); err != nil {
								panic(err)
							}
						}
						tpi["signed"] = out
						content["third_party_invite"], _ = json.Marshal(tpi)
						changed = true
					}
				}
			}
			var m struct {
				Membership string `json:"membership"`
			}
			_ = json.Unmarshal(ev["content"], &m)
			uid := string(p.SenderID()) // p is the user-ID-shaped realisation
			if key, ok := pseudoKeyOf[uid]; ok && withMapping && m.Membership == "join" {
				mapping := gmsl.MXIDMapping{UserRoomKey: spec.SenderID(key), UserID: uid}
				_, priv := keyFromSeed("pseudo-id-server " + domainOfID(uid))
				if err := mapping.Sign(spec.ServerName(domainOfID(uid)), "ed25519:1", priv); err != nil {
					panic(err)
				}
				content["mxid_mapping"], _ = json.Marshal(mapping)
				changed = true
			}
			if changed {
				ev["content"], _ = json.Marshal(content)
				j, _ = json.Marshal(ev)
			}
		}
	}
	q, err := gmsl.MustGetRoomVersion(p.Version()).NewEventFromTrustedJSONWithEventID(p.EventID(), j, false)
	if err != nil {
		panic(fmt.Sprintf("pseudo-ID realisation of %s: %v: %s", p.EventID(), err, j))
	}
	return q
}

func pseudoRealiseAll(ps []gmsl.PDU, withMapping bool) []gmsl.PDU {
	out := make([]gmsl.PDU, len(ps))
	for i, p := range ps {
		out[i] = pseudoRealise(p, withMapping)
	}
	return out
}
