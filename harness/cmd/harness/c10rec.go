package main

// C10 / C11 code -> spec: a seeded driver grows larger rooms than the exhaustive model contains by really
// building events, really authorising them (honest servers) and really resolving state at forks, then logs
// resolution queries (the room in the abstract vocabulary of StateRes.tla, the state sets, the resolved IDs).
// spec/StateRes_trace.tla recomputes every logged result with StateRes!Resolve.

import (
	"crypto/sha1"
	"fmt"
	"math/rand"
	"sort"

	gmsl "github.com/matrix-org/gomatrixserverlib"
)

func init() {
	register("c10rec", "record resolution queries on randomly grown rooms as an NDJSON trace for StateRes_trace.tla", func(a *args) error {
		tw, err := newTraceWriter(a.out)
		if err != nil {
			return err
		}
		rng := rand.New(rand.NewSource(a.seed))
		vers := []string{"10", "12", "1", "6", "11", "2", "org.matrix.hydra.11"}
		rooms := 0
		for tw.n < a.n {
			ver := vers[rooms%len(vers)]
			rooms++
			r := safely(rooms, func() Result {
				growRoom(rng, ver, rooms, 8+rng.Intn(14), tw, a.n)
				return Result{OK: true}
			})
			if !r.OK {
				r.I = rooms
				fmt.Println(mustJSON(r))
			}
		}
		return tw.close()
	})
}

type grownRoom struct {
	ver    string
	no     int            // number of the room in this run
	events []roomEvent    // abstract, ID = index+1
	pdus   []gmsl.PDU     // real
	after  [][]int        // state after each event (ids)
	anc    []map[int]bool // ancestors through prev events
	idOf   map[string]int // real event ID -> id
	room   string
	create string
}

func (g *grownRoom) list(ids []int) []gmsl.PDU {
	out := make([]gmsl.PDU, 0, len(ids))
	for _, i := range ids {
		out = append(out, g.pdus[i-1])
	}
	return out
}

func (g *grownRoom) chain(from []int) []int {
	seen := map[int]bool{}
	var walk func(i int)
	walk = func(i int) {
		for _, a := range g.events[i-1].Auth {
			if !seen[a] {
				seen[a] = true
				walk(a)
			}
		}
	}
	for _, i := range from {
		walk(i)
	}
	var out []int
	for i := range seen {
		out = append(out, i)
	}
	sort.Ints(out)
	return out
}

// resolve runs the real resolver on the states after the given events.
func (g *grownRoom) resolve(tips []int) []int {
	var sets [][]gmsl.PDU
	var all []int
	for _, t := range tips {
		sets = append(sets, g.list(g.after[t-1]))
		all = unionInts(all, g.after[t-1])
	}
	auth := unionInts(g.chain(all), all)
	if algoOf(g.ver) == gmsl.StateResV1 {
		// the v1 resolver takes the unconflicted auth-type events, one per key
		cnt := map[string][]int{}
		for _, x := range all {
			k := g.events[x-1].Type + "\x00" + g.events[x-1].SKey
			cnt[k] = append(cnt[k], x)
		}
		auth = nil
		for _, xs := range cnt {
			if len(xs) == 1 {
				// members and the room's create / power levels / join rules (empty state key)
				if e := g.events[xs[0]-1]; e.Type == "member" || ((e.Type == "create" || e.Type == "pl" || e.Type == "jr") && e.SKey == "") {
					auth = append(auth, xs[0])
				}
			}
		}
		sort.Ints(auth)
	}
	res, err := gmsl.ResolveConflictsNew(gmsl.RoomVersion(g.ver), sets, g.list(auth), identityQuerier, func(string) bool { return false })
	if err != nil {
		panic(err)
	}
	var out []int
	for _, p := range res {
		out = append(out, g.idOf[p.EventID()])
	}
	sort.Ints(out)
	return out
}

func (g *grownRoom) add(e roomEvent, ts int64, idTag int) bool {
	id := len(g.events) + 1
	e.ID = id
	e.TS = ts
	if e.Addl == nil {
		e.Addl = []string{}
	}
	if e.PUD == nil {
		e.PUD = intp(-1) // always logged: StateRes_trace.tla reads it from every event
	}
	if e.Spell == "" {
		e.Spell = "int" // always logged, too
	}
	var realID string
	switch {
	case isDomainless(g.ver) || !isFormatV1(g.ver):
		// room versions 3+: an ID names one event only - unique over the rooms of the run
		realID = eventID43(fmt.Sprintf("e%04dr%d", idTag, g.no))
	default:
		// room versions 1, 2: sender-chosen IDs, reused from room to room for different events
		realID = fmt.Sprintf("$e%04d:hs1", idTag)
	}
	es := eventSpec{Ver: g.ver, ID: realID, RoomID: g.room, Sender: userIDs[e.Sender], Depth: e.Depth, TS: ts * 1000}
	if e.Type == "create" {
		g.create = realID
		if isDomainless(g.ver) {
			g.room = "!" + realID[1:]
			es.RoomID = ""
		}
	}
	for _, p := range e.Prev {
		es.Prev = append(es.Prev, g.pdus[p-1].EventID())
	}
	for _, a := range e.Auth {
		if isDomainless(g.ver) && g.pdus[a-1].EventID() == g.create {
			continue
		}
		es.Auth = append(es.Auth, g.pdus[a-1].EventID())
	}
	switch e.Type {
	case "create":
		es.Type, es.StateKey = "m.room.create", strp("")
		c := map[string]interface{}{"room_version": g.ver}
		if !(g.ver == "11" || isDomainless(g.ver)) {
			c["creator"] = userIDs[e.Sender]
		}
		if len(e.Addl) > 0 {
			var addl []string
			for _, u := range e.Addl {
				addl = append(addl, userIDs[u])
			}
			c["additional_creators"] = addl
		}
		es.Content = c
	case "member":
		es.Type, es.StateKey = "m.room.member", strp(userIDs[e.SKey])
		es.Content = map[string]interface{}{"membership": e.Membership}
	case "pl":
		es.Type, es.StateKey = "m.room.power_levels", strp(stateKeyOf(e))
		es.Content = e.plContent()
	case "jr":
		es.Type, es.StateKey = "m.room.join_rules", strp(stateKeyOf(e))
		es.Content = map[string]interface{}{"join_rule": e.JR}
	default:
		es.Type, es.StateKey = "m.room.topic", strp("")
		es.Content = map[string]interface{}{"topic": fmt.Sprintf("topic %d", id)}
	}
	pdu := es.mustBuild()
	if id > 1 {
		prov, err := gmsl.NewAuthEvents(g.list(e.Auth))
		if err != nil {
			panic(err)
		}
		if gmsl.Allowed(pdu, prov, identityQuerier) != nil {
			return false // an honest server does not send it
		}
	}
	g.events = append(g.events, e)
	g.pdus = append(g.pdus, pdu)
	g.idOf[realID] = id
	anc := map[int]bool{}
	for _, p := range e.Prev {
		anc[p] = true
		for a := range g.anc[p-1] {
			anc[a] = true
		}
	}
	g.anc = append(g.anc, anc)
	return true
}

func (g *grownRoom) incomparable(a, b int) bool {
	return a != b && !g.anc[a-1][b] && !g.anc[b-1][a]
}

func intp(i int) *int { return &i }

func noUsers() map[string]int {
	return map[string]int{"creator": -1, "alice": -1, "bob": -1, "carol": -1}
}

func growRoom(rng *rand.Rand, ver string, roomNo int, free int, tw *traceWriter, limit int) {
	g := &grownRoom{ver: ver, no: roomNo, idOf: map[string]int{}, room: "!room:hs1"}
	tags := rng.Perm(9000) // random lexicographic order of the event IDs
	tag := func() int { t := tags[0]; tags = tags[1:]; return t }
	initPL := noUsers()
	if !isDomainless(ver) {
		initPL["creator"] = 4
	}
	// how the room's power-levels events write their levels: in room versions 1-9 (which read strings and floats as
	// the integers they spell) half of the rooms have a writer of strings / padded strings / floats; a later
	// power-levels event keeps that spelling or (one in three) is written with integers
	roomSpell := "int"
	if (ver == "1" || ver == "2" || ver == "6") && rng.Intn(2) == 0 {
		roomSpell = []string{"str", "strpad", "float", "frac"}[rng.Intn(4)]
		if ver == "6" {
			roomSpell = []string{"str", "strpad"}[rng.Intn(2)] // canonical JSON (versions 6+) has no floats
		}
	}
	// creation prefix, as in Room.tla
	mustAdd := func(e roomEvent) {
		if !g.add(e, 1, tag()) {
			panic("prefix event refused by the real auth rules")
		}
		id := len(g.events)
		st := []int{}
		if id > 1 {
			st = append(st, g.after[id-2]...)
		}
		g.after = append(g.after, applyState(g, st, id))
	}
	var addl []string
	if isDomainless(ver) && rng.Intn(2) == 0 {
		addl = []string{"alice"} // an additional creator: holds the creators' level without a power-levels entry
	}
	mustAdd(roomEvent{Type: "create", Sender: "creator", PLU: noUsers(), Prev: []int{}, Auth: []int{}, Depth: 1, Addl: addl})
	mustAdd(roomEvent{Type: "member", Sender: "creator", SKey: "creator", Membership: "join", PLU: noUsers(), Prev: []int{1}, Auth: []int{1}, Depth: 2})
	// in two rooms of five the initial power levels set users_default to 50 or 100: users without an entry then
	// hold power (and send power events) through the default only
	initPUD := -1
	switch rng.Intn(5) {
	case 0:
		initPUD = 3
	case 1:
		initPUD = 4
	}
	mustAdd(roomEvent{Type: "pl", Sender: "creator", PLU: initPL, PUD: intp(initPUD), Spell: roomSpell, Prev: []int{2}, Auth: []int{1, 2}, Depth: 3})
	mustAdd(roomEvent{Type: "jr", Sender: "creator", JR: "public", PLU: noUsers(), Prev: []int{3}, Auth: []int{1, 2, 3}, Depth: 4})
	mustAdd(roomEvent{Type: "member", Sender: "alice", SKey: "alice", Membership: "join", PLU: noUsers(), Prev: []int{4}, Auth: []int{1, 3, 4}, Depth: 5})
	mustAdd(roomEvent{Type: "member", Sender: "bob", SKey: "bob", Membership: "join", PLU: noUsers(), Prev: []int{5}, Auth: []int{1, 3, 4}, Depth: 6})

	users := []string{"creator", "alice", "bob", "carol"}
	for tries := 0; len(g.events) < 6+free && tries < free*40; tries++ {
		n := len(g.events)
		// forward extremities: one or two recent incomparable events
		a := n - rng.Intn(min(n-3, 5))
		prevs := []int{a}
		if rng.Intn(3) == 0 {
			b := n - rng.Intn(min(n-3, 6))
			if g.incomparable(a, b) {
				prevs = []int{a, b}
				sort.Ints(prevs)
			}
		}
		var S []int
		if len(prevs) == 1 {
			S = g.after[prevs[0]-1]
		} else {
			S = g.resolve(prevs)
		}
		keyed := map[string]int{}
		for _, x := range S {
			keyed[g.events[x-1].Type+"\x00"+g.events[x-1].SKey] = x
		}
		u := users[rng.Intn(len(users))]
		e := roomEvent{Sender: u, PLU: noUsers(), Prev: prevs}
		depth := int64(0)
		for _, p := range prevs {
			if g.events[p-1].Depth > depth {
				depth = g.events[p-1].Depth
			}
		}
		e.Depth = depth + 1
		needJR := false
		target := ""
		switch rng.Intn(10) {
		case 0:
			e.Type, e.SKey, e.Membership = "member", u, "join"
			needJR = true
		case 1:
			e.Type, e.SKey, e.Membership = "member", u, "leave"
		case 2, 3:
			target = users[rng.Intn(len(users))]
			e.Type, e.SKey, e.Membership = "member", target, []string{"ban", "leave", "invite"}[rng.Intn(3)]
			needJR = e.Membership == "invite"
		case 4, 5, 6:
			e.Type = "pl"
			cur := noUsers()
			pud := -1
			if x, ok := keyed["pl\x00"]; ok {
				for k, v := range g.events[x-1].PLU {
					cur[k] = v
				}
				pud = g.events[x-1].pud()
			}
			if rng.Intn(4) == 0 {
				// change users_default (absent, 0, 25, 50, 100), keep the users map
				pud = []int{-1, 1, 2, 3, 3, 4}[rng.Intn(6)]
			} else {
				t := users[1+rng.Intn(3)]
				cur[t] = []int{1, 3, 4, -1}[rng.Intn(4)]
			}
			e.PLU = cur
			e.PUD = intp(pud)
			e.Spell = roomSpell
			if roomSpell != "int" && rng.Intn(3) == 0 {
				e.Spell = "int"
			}
			if rng.Intn(5) == 0 {
				e.SKey = "x" // a power-levels event under a non-empty state key: an ordinary entry of the state map
			}
		case 7:
			e.Type, e.JR = "jr", []string{"public", "invite"}[rng.Intn(2)]
		case 8:
			e.Type, e.JR, e.SKey = "jr", []string{"public", "invite"}[rng.Intn(2)], "x"
		default:
			e.Type = "topic"
		}
		if target == u {
			continue
		}
		// auth events: what the event needs from the resolved state (as StateNeededForAuth names it)
		need := []string{"create\x00", "pl\x00", "member\x00" + u}
		if e.Type == "member" {
			need = append(need, "member\x00"+e.SKey)
		}
		if needJR {
			need = append(need, "jr\x00")
		}
		seen := map[int]bool{}
		for _, k := range need {
			if x, ok := keyed[k]; ok && !seen[x] {
				seen[x] = true
				e.Auth = append(e.Auth, x)
			}
		}
		sort.Ints(e.Auth)
		if !g.add(e, int64(1+rng.Intn(3)), tag()) {
			continue
		}
		id := len(g.events)
		g.after = append(g.after, applyState(g, S, id))
	}

	// ranks of the event IDs (lexicographic) and of their SHA-1 (v1 tie-break)
	n := len(g.events)
	idx := make([]int, n)
	for i := range idx {
		idx[i] = i
	}
	sort.Slice(idx, func(a, b int) bool { return g.pdus[idx[a]].EventID() < g.pdus[idx[b]].EventID() })
	for r, i := range idx {
		g.events[i].IDR = r + 1
	}
	sort.Slice(idx, func(a, b int) bool {
		x, y := sha1.Sum([]byte(g.pdus[idx[a]].EventID())), sha1.Sum([]byte(g.pdus[idx[b]].EventID()))
		return string(x[:]) < string(y[:])
	})
	for r, i := range idx {
		g.events[i].SHA = r + 1
	}

	// queries: pairs and triples of pairwise incomparable events
	var pairs [][]int
	for a := 1; a <= n; a++ {
		for b := a + 1; b <= n; b++ {
			if g.incomparable(a, b) {
				pairs = append(pairs, []int{a, b})
				for c := b + 1; c <= n; c++ {
					if g.incomparable(a, c) && g.incomparable(b, c) && rng.Intn(3) == 0 {
						pairs = append(pairs, []int{a, b, c})
					}
				}
			}
		}
	}
	rng.Shuffle(len(pairs), func(a, b int) { pairs[a], pairs[b] = pairs[b], pairs[a] })
	if len(pairs) > 12 {
		pairs = pairs[:12]
	}
	for _, tips := range pairs {
		if tw.n >= limit {
			return
		}
		var sets [][]int
		for _, t := range tips {
			sets = append(sets, g.after[t-1])
		}
		tw.emit(map[string]interface{}{"ver": ver, "events": g.events, "sets": sets, "tips": tips, "got": g.resolve(tips)})
	}
}

// applyState returns the state after applying event id on top of state S.
func applyState(g *grownRoom, S []int, id int) []int {
	e := g.events[id-1]
	var out []int
	for _, x := range S {
		if g.events[x-1].Type == e.Type && g.events[x-1].SKey == e.SKey {
			continue
		}
		out = append(out, x)
	}
	out = append(out, id)
	sort.Ints(out)
	return out
}
