// Command harness binds the TLA+ specifications under /verif/spec to the real
// gomatrixserverlib built from /repo's working tree.
//
//	harness <cmd> -in records.ndjson [-seed N] [flags]   spec -> code replay
//	harness <cmd> -out trace.ndjson  [-seed N] [-n N]     code -> spec recording
//
// Every replay command reads one abstract record per line (as emitted by TLC),
// concretises it, runs the real library under recover(), projects the outcome
// back to the abstract vocabulary and writes one result line per record:
//
//	{"i":<index>,"ok":true,"nt":"<nontrivial class>"}
//	{"i":<index>,"ok":false,"key":"<canonical scenario key>","what":"...","want":..,"got":..}
package main

import (
	"bufio"
	"encoding/json"
	"flag"
	"fmt"
	"os"
	"runtime"
	"runtime/debug"
	"sort"
	"strconv"
	"sync"
	"sync/atomic"
	"time"
)

// Result is one line of harness output.
type Result struct {
	I     int         `json:"i"`
	OK    bool        `json:"ok"`
	NT    string      `json:"nt,omitempty"`
	Key   string      `json:"key,omitempty"`
	What  string      `json:"what,omitempty"`
	Want  interface{} `json:"want,omitempty"`
	Got   interface{} `json:"got,omitempty"`
	Panic string      `json:"panic,omitempty"`
	Extra interface{} `json:"extra,omitempty"`
	Skip  bool        `json:"skip,omitempty"`
}

type command struct {
	name string
	help string
	run  func(a *args) error
}

type args struct {
	in   string
	out  string
	seed int64
	n    int
	par  int
	rest []string
	fs   *flag.FlagSet
	opt  map[string]*string
}

var commands = map[string]*command{}

func register(name, help string, run func(a *args) error) {
	commands[name] = &command{name, help, run}
}

func main() {
	if len(os.Args) < 2 {
		usage()
	}
	c, ok := commands[os.Args[1]]
	if !ok {
		usage()
	}
	a := &args{}
	fs := flag.NewFlagSet(c.name, flag.ExitOnError)
	fs.StringVar(&a.in, "in", "", "input NDJSON records")
	fs.StringVar(&a.out, "out", "", "output NDJSON trace")
	fs.Int64Var(&a.seed, "seed", 1, "seed")
	fs.IntVar(&a.n, "n", 1000, "number of cases for recorders")
	fs.IntVar(&a.par, "par", runtime.NumCPU(), "parallelism")
	mode := fs.String("mode", "", "command specific mode")
	a.opt = map[string]*string{"mode": mode}
	_ = fs.Parse(os.Args[2:])
	a.rest = fs.Args()
	a.fs = fs
	if err := c.run(a); err != nil {
		fmt.Fprintln(os.Stderr, "harness:", err)
		os.Exit(3)
	}
}

func usage() {
	fmt.Fprintln(os.Stderr, "usage: harness <cmd> [flags]; commands:")
	var names []string
	for n := range commands {
		names = append(names, n)
	}
	sort.Strings(names)
	for _, n := range names {
		fmt.Fprintf(os.Stderr, "  %-22s %s\n", n, commands[n].help)
	}
	os.Exit(3)
}

// readRecords reads NDJSON lines as raw messages.
func readRecords(path string) ([]json.RawMessage, error) {
	f, err := os.Open(path)
	if err != nil {
		return nil, err
	}
	defer f.Close()
	var out []json.RawMessage
	sc := bufio.NewScanner(f)
	sc.Buffer(make([]byte, 1<<20), 1<<28)
	for sc.Scan() {
		b := sc.Bytes()
		if len(b) == 0 {
			continue
		}
		out = append(out, append(json.RawMessage(nil), b...))
	}
	return out, sc.Err()
}

// replayAll runs fn over all records in parallel (each under recover) and prints results in order.
func replayAll(a *args, fn func(i int, raw json.RawMessage) Result) error {
	recs, err := readRecords(a.in)
	if err != nil {
		return err
	}
	res := make([]Result, len(recs))
	var wg sync.WaitGroup
	sem := make(chan struct{}, max(1, a.par))
	// see hx.ReplayAll: position of a re-executed record in its batch, and a deadline per record
	base := 0
	if v, err := strconv.Atoi(os.Getenv("VERIF_INDEX_BASE")); err == nil {
		base = v
	}
	deadline := 120 * time.Second
	if v, err := strconv.Atoi(os.Getenv("VERIF_RECORD_TIMEOUT")); err == nil && v > 0 {
		deadline = time.Duration(v) * time.Second
	}
	var hung int32
	for i := range recs {
		wg.Add(1)
		sem <- struct{}{}
		go func(i int) {
			defer wg.Done()
			defer func() { <-sem }()
			if atomic.LoadInt32(&hung) >= 3 {
				res[i] = Result{I: i, OK: true, Skip: true, What: "not run: earlier records hung"}
				return
			}
			done := make(chan Result, 1)
			go func() { done <- safely(i, func() Result { return fn(i+base, recs[i]) }) }()
			select {
			case r := <-done:
				res[i] = r
			case <-time.After(deadline):
				atomic.AddInt32(&hung, 1)
				res[i] = Result{I: i, OK: false, Key: "hang", What: fmt.Sprintf("no result within %s: deadlock, livelock or runaway computation", deadline)}
			}
		}(i)
	}
	wg.Wait()
	w := bufio.NewWriterSize(os.Stdout, 1<<20)
	defer w.Flush()
	enc := json.NewEncoder(w)
	for i := range res {
		res[i].I = i
		if err := enc.Encode(&res[i]); err != nil {
			return err
		}
	}
	return nil
}

// safely converts a panic in fn into a failing Result (C18: a panic is never an accepted outcome).
func safely(i int, fn func() Result) (r Result) {
	defer func() {
		if p := recover(); p != nil {
			r = Result{I: i, OK: false, Key: "panic", Panic: fmt.Sprint(p), What: "panic: " + fmt.Sprint(p) + "\n" + firstFrames(string(debug.Stack()))}
		}
	}()
	return fn()
}

func firstFrames(s string) string {
	if len(s) > 1800 {
		return s[:1800]
	}
	return s
}

// traceWriter writes NDJSON trace lines.
type traceWriter struct {
	f  *os.File
	w  *bufio.Writer
	n  int
	mu sync.Mutex
}

func newTraceWriter(path string) (*traceWriter, error) {
	f, err := os.Create(path)
	if err != nil {
		return nil, err
	}
	return &traceWriter{f: f, w: bufio.NewWriterSize(f, 1<<20)}, nil
}

func (t *traceWriter) emit(v interface{}) {
	b, err := json.Marshal(v)
	if err != nil {
		panic(err)
	}
	t.mu.Lock()
	t.w.Write(b)
	t.w.WriteByte('\n')
	t.n++
	t.mu.Unlock()
}

func (t *traceWriter) close() error {
	if err := t.w.Flush(); err != nil {
		return err
	}
	return t.f.Close()
}

func mustJSON(v interface{}) string {
	b, err := json.Marshal(v)
	if err != nil {
		return fmt.Sprint(v)
	}
	return string(b)
}
