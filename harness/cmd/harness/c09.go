package main

// C09 - an auth verdict depends only on the event and the state it needs.
//   c09     : Checker.tla check sequences replayed through ONE real allowerContext (overlay accessor
//             VerifChecker, driven exactly as state resolution drives it) and through fresh Allowed().
//   c09meta : metamorphic variants of single Auth.tla scenarios: provider insertion order, un-needed state
//             added / removed (the needed set is what StateNeededForAuth names), repeated evaluation, and
//             the auth events AddAuthEvents selects for an equivalent new event.

import (
	"encoding/json"
	"fmt"
	"sort"
	"time"

	gmsl "github.com/matrix-org/gomatrixserverlib"
	"github.com/matrix-org/gomatrixserverlib/spec"
)

type c09Step struct {
	N    int      `json:"n"`
	St   absState `json:"st"`
	Ev   absEvent `json:"ev"`
	CTag int      `json:"ctag"`
	PTag int      `json:"ptag"`
	JTag int      `json:"jtag"`
	Want bool     `json:"want"`
}

type c09Seq struct {
	Ver   string    `json:"ver"`
	Steps []c09Step `json:"steps"`
}

func init() {
	register("c09", "replay Checker.tla sequences through one real allowerContext", func(a *args) error {
		return replayAll(a, func(i int, raw json.RawMessage) Result { return c09Replay(i, raw, int(a.seed)) })
	})
	register("c09meta", "metamorphic variants of Auth.tla scenarios (order, padding, needed subset, repeat, AddAuthEvents)", func(a *args) error {
		return replayAll(a, func(i int, raw json.RawMessage) Result { return c09Meta(i, raw, int(a.seed)) })
	})
}

func c09Replay(i int, raw json.RawMessage, seed int) Result {
	var sq c09Seq
	if err := json.Unmarshal(raw, &sq); err != nil {
		panic(err)
	}
	variant := seed + i
	// one object per distinct event (same ID and JSON => same PDU pointer), as resolved state events are
	// the same objects from one check to the next inside state resolution
	objects := map[string]gmsl.PDU{}
	intern := func(p gmsl.PDU) gmsl.PDU {
		k := p.EventID() + "\x00" + string(p.JSON())
		if q, ok := objects[k]; ok {
			return q
		}
		objects[k] = p
		return p
	}
	var checker *gmsl.VerifChecker
	var names []int
	for _, s := range sq.Steps {
		names = append(names, s.N)
	}
	for k, s := range sq.Steps {
		sc := &authScenario{Ver: sq.Ver, St: s.St, Ev: s.Ev, Want: s.Want, CTag: s.CTag, PTag: s.PTag, JTag: s.JTag, Variant: &variant}
		c, err := concretise(sc, variant)
		if err != nil {
			panic(fmt.Sprintf("concretise: %v", err))
		}
		state := make([]gmsl.PDU, len(c.All))
		for j, p := range c.All {
			state[j] = intern(p)
		}
		if checker == nil {
			checker = gmsl.NewVerifChecker(identityQuerier, c.Event.RoomID())
		}
		gotReused := checker.Check(state, c.Event) == nil
		fresh, err := gmsl.NewAuthEvents(state)
		if err != nil {
			panic(err)
		}
		gotFresh := gmsl.Allowed(c.Event, fresh, identityQuerier) == nil
		if gotReused != s.Want || gotFresh != s.Want {
			prev := "first"
			if k > 0 {
				prev = fmt.Sprint(names[:k])
			}
			return Result{OK: false, Key: fmt.Sprintf("C09/sequence/step=%d/model=%v/reused=%v/fresh=%v", s.N, s.Want, gotReused, gotFresh),
				Want: s.Want, Got: map[string]bool{"reused": gotReused, "fresh": gotFresh},
				What: fmt.Sprintf("check sequence %v in room version %s: step %d (pool entry %d, after %s, %s) - specification says allowed=%v, reused checker says %v, fresh Allowed says %v",
					names, sq.Ver, k+1, s.N, prev, scenarioKey(sc), s.Want, gotReused, gotFresh)}
		}
	}
	return Result{OK: true, NT: fmt.Sprintf("%s|%v", sq.Ver, names)}
}

func c09Meta(i int, raw json.RawMessage, seed int) Result {
	var sc authScenario
	if err := json.Unmarshal(raw, &sc); err != nil {
		panic(err)
	}
	variant := seed + i
	c, err := concretise(&sc, variant)
	if err != nil {
		panic(fmt.Sprintf("concretise: %v", err))
	}
	key := scenarioKey(&sc)
	verdict := func(state []gmsl.PDU) bool {
		p, err := gmsl.NewAuthEvents(state)
		if err != nil {
			panic(err)
		}
		return gmsl.Allowed(c.Event, p, identityQuerier) == nil
	}
	fail := func(kind string, got bool) Result {
		return Result{OK: false, Key: fmt.Sprintf("C09/meta/%s/%s/model=%v", kind, key, sc.Want), Want: sc.Want, Got: got,
			What: fmt.Sprintf("Allowed verdict changed under %s: specification says %v, variant says %v (%s, room version %s)", kind, sc.Want, got, key, sc.Ver)}
	}
	// The reference is the code's own verdict on the full state: whether that verdict is the right one is
	// C07's question; C09 asks that no variant below changes it.
	base := verdict(c.All)
	sc.Want = base
	// repeated evaluation
	if g := verdict(c.All); g != sc.Want {
		return fail("repeat", g)
	}
	// insertion order
	rev := make([]gmsl.PDU, len(c.All))
	for j, p := range c.All {
		rev[len(c.All)-1-j] = p
	}
	if g := verdict(rev); g != sc.Want {
		return fail("reversed-insertion", g)
	}
	if !sc.St.MixedRooms {
		// exactly the needed state (as named by StateNeededForAuth)
		needed := map[gmsl.StateKeyTuple]bool{}
		for _, t := range gmsl.StateNeededForAuth([]gmsl.PDU{c.Event}).Tuples() {
			needed[t] = true
		}
		var sub []gmsl.PDU
		for _, p := range c.All {
			if needed[gmsl.StateKeyTuple{EventType: p.Type(), StateKey: *p.StateKey()}] {
				sub = append(sub, p)
			}
		}
		if g := verdict(sub); g != sc.Want {
			return fail("needed-subset", g)
		}
		// un-needed state added (same room as the rest of the provider)
		if len(c.All) > 0 {
			room := c.All[0].RoomID().String()
			ver := sc.Ver
			ids := newAuthIDs(ver, sc.CTag)
			var extra []gmsl.PDU
			for n, spec := range []eventSpec{
				{Type: "m.room.topic", StateKey: strp(""), Sender: userIDs["creator"], Content: map[string]interface{}{"topic": "t"}},
				{Type: "m.room.member", StateKey: strp("@zed:hs3"), Sender: "@zed:hs3", Content: map[string]interface{}{"membership": "ban"}},
				{Type: "m.room.third_party_invite", StateKey: strp("unrelated-token"), Sender: userIDs["creator"], Content: map[string]interface{}{"display_name": "n"}},
				{Type: "org.verif.other", StateKey: strp("k"), Sender: userIDs["creator"], Content: map[string]interface{}{}},
			} {
				spec.Ver, spec.ID, spec.RoomID, spec.Depth, spec.TS = ver, ids.id(fmt.Sprintf("pad%d", n)), room, 30, 30
				spec.Prev = []string{ids.id("someprev")}
				extra = append(extra, spec.mustBuild())
			}
			if g := verdict(append(append([]gmsl.PDU{}, c.All...), extra...)); g != sc.Want {
				return fail("padded", g)
			}
		}
	}
	// a create event names no state at all: whatever the provider holds - another create event of the room
	// included - cannot matter
	if sc.Ev.Type == "create" && !isDomainless(sc.Ver) && !sc.St.MixedRooms {
		ids := newAuthIDs(sc.Ver, sc.CTag)
		var extra []gmsl.PDU
		for n, spec := range []eventSpec{
			{Type: "m.room.create", StateKey: strp(""), Sender: userIDs["creator"], Content: map[string]interface{}{"creator": userIDs["creator"], "room_version": sc.Ver}},
			{Type: "m.room.member", StateKey: strp(userIDs["creator"]), Sender: userIDs["creator"], Content: map[string]interface{}{"membership": "join"}},
		} {
			spec.Ver, spec.ID, spec.RoomID, spec.Depth, spec.TS = sc.Ver, ids.id(fmt.Sprintf("padcreate%d", n)), ids.room, int64(1+n), int64(1+n)
			if n > 0 {
				spec.Prev = []string{ids.id("padcreate0")}
			}
			extra = append(extra, spec.mustBuild())
		}
		if g := verdict(extra); g != sc.Want {
			return fail("padded-with-another-create-event", g)
		}
	}
	// AddAuthEvents: the auth events selected for an equivalent new event suffice
	if sc.Ev.Type != "create" && !sc.St.MixedRooms && sc.St.Create.Present && sc.St.Create.Room == "same" {
		full, err := gmsl.NewAuthEvents(c.All)
		if err != nil {
			panic(err)
		}
		verImpl := gmsl.MustGetRoomVersion(gmsl.RoomVersion(sc.Ver))
		eb := verImpl.NewEventBuilderFromProtoEvent(&gmsl.ProtoEvent{
			SenderID: string(c.Event.SenderID()), RoomID: c.Event.RoomID().String(), Type: c.Event.Type(), StateKey: c.Event.StateKey(),
			PrevEvents: c.Event.PrevEventIDs(), Depth: 20, Content: spec.RawJSON(c.Event.Content()), Redacts: c.Event.Redacts(),
		})
		if err := eb.AddAuthEvents(full); err == nil {
			_, priv := keyFromSeed("c09-builder")
			built, err := eb.Build(time.Unix(1700000000, 0), spec.ServerName(domainOfID(string(c.Event.SenderID()))), "ed25519:1", priv)
			if err == nil {
				want := map[string]bool{}
				for _, id := range built.AuthEventIDs() {
					want[id] = true
				}
				var sel []gmsl.PDU
				for _, p := range c.All {
					if want[p.EventID()] {
						sel = append(sel, p)
					}
				}
				ps, err := gmsl.NewAuthEvents(sel)
				if err != nil {
					panic(err)
				}
				// the built event has the same type, sender, state key, content and prev shape, so the same verdict is specified
				gotSel := gmsl.Allowed(built, ps, identityQuerier) == nil
				gotFull := gmsl.Allowed(built, full, identityQuerier) == nil
				if gotSel != gotFull {
					ids := make([]string, 0, len(want))
					for id := range want {
						ids = append(ids, id)
					}
					sort.Strings(ids)
					return Result{OK: false, Key: fmt.Sprintf("C09/meta/addauthevents/%s", key), Want: gotFull, Got: gotSel,
						What: fmt.Sprintf("an event built with AddAuthEvents is judged %v against its selected auth events %v but %v against the full state (%s, room version %s)", gotSel, ids, gotFull, key, sc.Ver)}
				}
			}
		}
	}
	return Result{OK: true, NT: fmt.Sprintf("%s|%s|%v", sc.Ver, key, sc.Want)}
}

func domainOfID(id string) string {
	for j := 0; j < len(id); j++ {
		if id[j] == ':' {
			return id[j+1:]
		}
	}
	return "hs1"
}
