package main

// C09 - an auth verdict depends only on the event and the state it needs.
//   c09     : Checker.tla check sequences replayed through ONE real allowerContext (overlay accessor
//             VerifChecker, driven exactly as state resolution drives it) and through fresh Allowed().
//             A step's create / power-levels / join-rules event is realised under the event ID its tag gives; where the
//             step says the provider holds the REDACTED copy, the copy is made by the library (RedactEventJSON loaded
//             under the same ID, PDU.Redact() where the ID survives it), so two steps can hold different objects, with
//             different contents, under one event ID.  Realisations: chosen IDs; natural (hash) IDs with PDU.Redact()
//             for room versions 3+; sender keys in the pseudo-ID room version.
//   c09meta : metamorphic variants of single Auth.tla scenarios: provider insertion order, un-needed state
//             added / removed (the needed set is what StateNeededForAuth names), repeated evaluation, and
//             the auth events AddAuthEvents selects for an equivalent new event.  Records marked idmode=pseudo
//             are realised with sender keys and a key -> user mapping (c09pseudo.go).

import (
	"encoding/json"
	"fmt"
	"sort"
	"strings"
	"sync"
	"time"

	gmsl "github.com/matrix-org/gomatrixserverlib"
	"github.com/matrix-org/gomatrixserverlib/spec"
)

type c09Step struct {
	N    int      `json:"n"`
	St   absState `json:"st"`
	Ev   absEvent `json:"ev"`
	CTag int      `json:"ctag"`
	PTag int      `json:"ptag"`
	JTag int      `json:"jtag"`
	CRed bool     `json:"cred"` // the provider holds the redacted copy of the create / power-levels / join-rules event
	PRed bool     `json:"pred"`
	JRed bool     `json:"jred"`
	Want bool     `json:"want"`
}

type c09Seq struct {
	Ver   string    `json:"ver"`
	Steps []c09Step `json:"steps"`
}

func init() {
	register("c09", "replay Checker.tla sequences through one real allowerContext", func(a *args) error {
		return replayAll(a, func(i int, raw json.RawMessage) Result { return c09Replay(i, raw, int(a.seed)) })
	})
	register("c09meta", "metamorphic variants of Auth.tla scenarios (order, padding, needed subset, repeat, AddAuthEvents)", func(a *args) error {
		return replayAll(a, func(i int, raw json.RawMessage) Result { return c09Meta(i, raw, int(a.seed)) })
	})
}

func c09Replay(i int, raw json.RawMessage, seed int) Result {
	var sq c09Seq
	if err := json.Unmarshal(raw, &sq); err != nil {
		panic(err)
	}
	variant := seed + i
	var names []int
	anyRedactedPLJR := false
	for _, s := range sq.Steps {
		names = append(names, s.N)
		anyRedactedPLJR = anyRedactedPLJR || s.PRed || s.JRed
	}
	realisations := []string{"chosen-ids"}
	if anyRedactedPLJR && !isFormatV1(sq.Ver) {
		// the event ID of room versions 3+ is a hash of the redacted form: an event parsed without a given ID and its
		// PDU.Redact() copy share it
		realisations = append(realisations, "natural-ids")
	}
	if sq.Ver == pseudoIDVersion {
		realisations = append(realisations, "pseudo-ids")
	}
	for _, how := range realisations {
		if r := c09ReplayAs(&sq, names, variant, how); !r.OK {
			return r
		}
	}
	return Result{OK: true, NT: fmt.Sprintf("%s|%v|%s", sq.Ver, names, strings.Join(realisations, "+"))}
}

// c09Held gives the events the provider holds in one step: the concretiser's events, with the redacted copies the
// step asks for in place of the originals.
func c09Held(ver string, all []gmsl.PDU, s *c09Step, how string) (state []gmsl.PDU, marks []string) {
	verImpl := gmsl.MustGetRoomVersion(gmsl.RoomVersion(ver))
	for _, p := range all {
		red, cached := false, false
		if p.StateKeyEquals("") {
			switch p.Type() {
			case "m.room.create":
				red, cached = s.CRed, true
			case "m.room.power_levels":
				red, cached = s.PRed, true
			case "m.room.join_rules":
				red, cached = s.JRed, true
			}
		}
		mark := ""
		var err error
		switch {
		case how == "natural-ids" && cached && p.Type() != "m.room.create":
			// (the create event keeps its chosen ID: other events and, in room version 12, the room ID refer to it)
			if p, err = verImpl.NewEventFromTrustedJSON(p.JSON(), false); err != nil {
				panic(err)
			}
			if red {
				p.Redact()
				mark = "redacted"
			}
		case red && isFormatV1(ver):
			// event_id is one of the keys redaction keeps
			if p, err = verImpl.NewEventFromTrustedJSON(p.JSON(), false); err != nil {
				panic(err)
			}
			p.Redact()
			mark = "redacted"
		case red:
			// what a server holds after redacting an event it stores: the redacted JSON under the event's ID
			rj, err := verImpl.RedactEventJSON(p.JSON())
			if err != nil {
				panic(err)
			}
			if p, err = verImpl.NewEventFromTrustedJSONWithEventID(p.EventID(), rj, true); err != nil {
				panic(err)
			}
			mark = "redacted"
		}
		state = append(state, p)
		marks = append(marks, mark)
	}
	return state, marks
}

func c09ReplayAs(sq *c09Seq, names []int, variant int, how string) Result {
	// one object per distinct event (same ID, same redaction state and same JSON => same PDU pointer), as resolved state
	// events are the same objects from one check to the next inside state resolution
	objects := map[string]gmsl.PDU{}
	intern := func(p gmsl.PDU, mark string) gmsl.PDU {
		k := p.EventID() + "\x00" + mark + "\x00" + string(p.JSON())
		if q, ok := objects[k]; ok {
			return q
		}
		objects[k] = p
		return p
	}
	querier := spec.UserIDForSender(identityQuerier)
	if how == "pseudo-ids" {
		querier = pseudoQuerier
	}
	var checker *gmsl.VerifChecker
	for k := range sq.Steps {
		s := &sq.Steps[k]
		sc := &authScenario{Ver: sq.Ver, St: s.St, Ev: s.Ev, Want: s.Want, CTag: s.CTag, PTag: s.PTag, JTag: s.JTag, Variant: &variant}
		c, err := concretise(sc, variant)
		if err != nil {
			panic(fmt.Sprintf("concretise: %v", err))
		}
		all, event := c.All, c.Event
		if how == "pseudo-ids" {
			all, event = pseudoRealiseAll(all, variant%2 == 0), pseudoRealise(event, variant%2 == 0)
		}
		held, marks := c09Held(sq.Ver, all, s, how)
		state := make([]gmsl.PDU, len(held))
		for j, p := range held {
			state[j] = intern(p, marks[j])
		}
		if checker == nil {
			checker = gmsl.NewVerifChecker(querier, event.RoomID())
		}
		gotReused := checker.Check(state, event) == nil
		fresh, err := gmsl.NewAuthEvents(state)
		if err != nil {
			panic(err)
		}
		gotFresh := gmsl.Allowed(event, fresh, querier) == nil
		if gotReused != s.Want || gotFresh != s.Want {
			prev := "first"
			if k > 0 {
				prev = fmt.Sprint(names[:k])
			}
			copies := ""
			for _, f := range []struct {
				on   bool
				name string
			}{{s.CRed, "create"}, {s.PRed, "power-levels"}, {s.JRed, "join-rules"}} {
				if f.on {
					copies += ", the provider holds the redacted copy of the " + f.name + " event"
				}
			}
			return Result{OK: false, Key: fmt.Sprintf("C09/sequence/step=%d/model=%v/reused=%v/fresh=%v", s.N, s.Want, gotReused, gotFresh),
				Want: s.Want, Got: map[string]bool{"reused": gotReused, "fresh": gotFresh},
				What: fmt.Sprintf("check sequence %v in room version %s (%s): step %d (pool entry %d, after %s, %s; event IDs create#%d power-levels#%d join-rules#%d%s) - specification says allowed=%v, reused checker says %v, fresh Allowed says %v",
					names, sq.Ver, how, k+1, s.N, prev, scenarioKey(sc), s.CTag, s.PTag, s.JTag, copies, s.Want, gotReused, gotFresh)}
		}
	}
	return Result{OK: true}
}

func c09Meta(i int, raw json.RawMessage, seed int) Result {
	var sc authScenario
	if err := json.Unmarshal(raw, &sc); err != nil {
		panic(err)
	}
	var mode struct {
		IDMode string `json:"idmode"`
	}
	if err := json.Unmarshal(raw, &mode); err != nil {
		panic(err)
	}
	variant := seed + i
	c, err := concretise(&sc, variant)
	if err != nil {
		panic(fmt.Sprintf("concretise: %v", err))
	}
	// how the abstract users are realised: user IDs with the identity mapping, or (idmode=pseudo) sender keys with a
	// key -> user mapping function and, for half of the records, mxid_mapping on the joins
	querier := spec.UserIDForSender(identityQuerier)
	realise := func(ps []gmsl.PDU) []gmsl.PDU { return ps }
	idShape := "user IDs"
	switch mode.IDMode {
	case "":
	case "pseudo":
		querier = pseudoQuerier
		realise = func(ps []gmsl.PDU) []gmsl.PDU { return pseudoRealiseAll(ps, variant%2 == 0) }
		c.All, c.Event = realise(c.All), pseudoRealise(c.Event, variant%2 == 0)
		idShape = "sender keys (pseudo IDs)"
	default:
		panic("unknown idmode " + mode.IDMode)
	}
	key := scenarioKey(&sc)
	verdict := func(state []gmsl.PDU) bool {
		p, err := gmsl.NewAuthEvents(state)
		if err != nil {
			panic(err)
		}
		return gmsl.Allowed(c.Event, p, querier) == nil
	}
	fail := func(kind string, got bool) Result {
		return Result{OK: false, Key: fmt.Sprintf("C09/meta/%s/%s/model=%v", kind, key, sc.Want), Want: sc.Want, Got: got,
			What: fmt.Sprintf("Allowed verdict changed under %s: specification says %v, variant says %v (%s, room version %s, %s)", kind, sc.Want, got, key, sc.Ver, idShape)}
	}
	// The reference is the code's own verdict on the full state: whether that verdict is the right one is
	// C07's question; C09 asks that no variant below changes it.
	base := verdict(c.All)
	sc.Want = base
	// repeated evaluation
	if g := verdict(c.All); g != sc.Want {
		return fail("repeat", g)
	}
	// insertion order
	rev := make([]gmsl.PDU, len(c.All))
	for j, p := range c.All {
		rev[len(c.All)-1-j] = p
	}
	if g := verdict(rev); g != sc.Want {
		return fail("reversed-insertion", g)
	}
	if !sc.St.MixedRooms {
		// exactly the needed state (as named by StateNeededForAuth)
		needed := map[gmsl.StateKeyTuple]bool{}
		for _, t := range gmsl.StateNeededForAuth([]gmsl.PDU{c.Event}).Tuples() {
			needed[t] = true
		}
		var sub []gmsl.PDU
		for _, p := range c.All {
			if needed[gmsl.StateKeyTuple{EventType: p.Type(), StateKey: *p.StateKey()}] {
				sub = append(sub, p)
			}
		}
		if g := verdict(sub); g != sc.Want {
			return fail("needed-subset", g)
		}
		// un-needed state added (same room as the rest of the provider)
		if len(c.All) > 0 {
			room := c.All[0].RoomID().String()
			ver := sc.Ver
			ids := newAuthIDs(ver, sc.CTag)
			// (the pads are the same events for every record of a room version, room and ID shape: built once)
			extra := c09CachedPads("plain", ver, sc.CTag, room, mode.IDMode, func() []gmsl.PDU {
				var extra []gmsl.PDU
				for n, spec := range []eventSpec{
					{Type: "m.room.topic", StateKey: strp(""), Sender: userIDs["creator"], Content: map[string]interface{}{"topic": "t"}},
					{Type: "m.room.member", StateKey: strp("@zed:hs3"), Sender: "@zed:hs3", Content: map[string]interface{}{"membership": "ban"}},
					{Type: "m.room.third_party_invite", StateKey: strp("unrelated-token"), Sender: userIDs["creator"], Content: map[string]interface{}{"display_name": "n"}},
					{Type: "org.verif.other", StateKey: strp("k"), Sender: userIDs["creator"], Content: map[string]interface{}{}},
				} {
					spec.Ver, spec.ID, spec.RoomID, spec.Depth, spec.TS = ver, ids.id(fmt.Sprintf("pad%d", n)), room, 30, 30
					spec.Prev = []string{ids.id("someprev")}
					extra = append(extra, spec.mustBuild())
				}
				return realise(extra)
			})
			if g := verdict(append(append([]gmsl.PDU{}, c.All...), extra...)); g != sc.Want {
				return fail("padded", g)
			}
			// un-needed state of a TYPE the rules name under ANOTHER state key (a power-levels-typed event keyed "draft"
			// is ordinary room state, not the room's power levels), and kinds that do not cross (a third-party invite
			// keyed by a user ID, a member event keyed by ""), each saying the opposite of the real one: handed to the
			// provider before the real state, after it, or each right after the real event of its type
			odd := c09CachedPads("odd", ver, sc.CTag, room, mode.IDMode, func() []gmsl.PDU { return realise(c09OddPads(ver, ids, room, 40)) })
			var padded []gmsl.PDU
			where := ""
			switch ((variant % 3) + 3) % 3 {
			case 0:
				where = "after"
				padded = append(append(padded, c.All...), odd...)
			case 1:
				where = "before"
				padded = append(append(padded, odd...), c.All...)
			default:
				where = "interleaved"
				for _, p := range c.All {
					padded = append(padded, p)
					for _, o := range odd {
						if o.Type() == p.Type() && p.StateKeyEquals("") {
							padded = append(padded, o)
						}
					}
				}
				for _, o := range odd {
					if o.Type() == "m.room.member" || o.Type() == "m.room.third_party_invite" {
						padded = append(padded, o)
					}
				}
			}
			if g := verdict(padded); g != sc.Want {
				return fail("padded-same-type-other-state-key-"+where, g)
			}
		}
	}
	// a create event names no state at all: whatever the provider holds - another create event of the room
	// included - cannot matter
	if sc.Ev.Type == "create" && !isDomainless(sc.Ver) && !sc.St.MixedRooms {
		ids := newAuthIDs(sc.Ver, sc.CTag)
		var extra []gmsl.PDU
		for n, spec := range []eventSpec{
			{Type: "m.room.create", StateKey: strp(""), Sender: userIDs["creator"], Content: map[string]interface{}{"creator": userIDs["creator"], "room_version": sc.Ver}},
			{Type: "m.room.member", StateKey: strp(userIDs["creator"]), Sender: userIDs["creator"], Content: map[string]interface{}{"membership": "join"}},
		} {
			spec.Ver, spec.ID, spec.RoomID, spec.Depth, spec.TS = sc.Ver, ids.id(fmt.Sprintf("padcreate%d", n)), ids.room, int64(1+n), int64(1+n)
			if n > 0 {
				spec.Prev = []string{ids.id("padcreate0")}
			}
			extra = append(extra, spec.mustBuild())
		}
		if g := verdict(realise(extra)); g != sc.Want {
			return fail("padded-with-another-create-event", g)
		}
	}
	// AddAuthEvents: the auth events selected for an equivalent new event suffice
	if sc.Ev.Type != "create" && !sc.St.MixedRooms && sc.St.Create.Present && sc.St.Create.Room == "same" {
		full, err := gmsl.NewAuthEvents(c.All)
		if err != nil {
			panic(err)
		}
		verImpl := gmsl.MustGetRoomVersion(gmsl.RoomVersion(sc.Ver))
		eb := verImpl.NewEventBuilderFromProtoEvent(&gmsl.ProtoEvent{
			SenderID: string(c.Event.SenderID()), RoomID: c.Event.RoomID().String(), Type: c.Event.Type(), StateKey: c.Event.StateKey(),
			PrevEvents: c.Event.PrevEventIDs(), Depth: 20, Content: spec.RawJSON(c.Event.Content()), Redacts: c.Event.Redacts(),
		})
		// the provider the builder looks the state up in: the whole state, exactly the needed state, or - where the room
		// ID names the create event - the needed state without the create event (as PerformInvite looks it up)
		from, fromName := gmsl.AuthEventProvider(full), "the full state"
		if m := ((variant/3)%3 + 3) % 3; m > 0 {
			needed := map[gmsl.StateKeyTuple]bool{}
			for _, t := range gmsl.StateNeededForAuth([]gmsl.PDU{c.Event}).Tuples() {
				needed[t] = true
			}
			fromName = "exactly the needed state"
			if m == 2 && isDomainless(sc.Ver) {
				delete(needed, gmsl.StateKeyTuple{EventType: "m.room.create", StateKey: ""})
				fromName = "the needed state without the create event"
			}
			var part []gmsl.PDU
			for j := range c.All {
				p := c.All[len(c.All)-1-j]
				if needed[gmsl.StateKeyTuple{EventType: p.Type(), StateKey: *p.StateKey()}] {
					part = append(part, p)
				}
			}
			ap, err := gmsl.NewAuthEvents(part)
			if err != nil {
				panic(err)
			}
			from = ap
		}
		if err := eb.AddAuthEvents(from); err == nil {
			_, priv := keyFromSeed("c09-builder")
			built, err := eb.Build(time.Unix(1700000000, 0), spec.ServerName(domainOfID(string(c.Event.SenderID()))), "ed25519:1", priv)
			if err == nil {
				want := map[string]bool{}
				for _, id := range built.AuthEventIDs() {
					want[id] = true
				}
				var sel []gmsl.PDU
				for _, p := range c.All {
					if want[p.EventID()] {
						sel = append(sel, p)
					}
				}
				ps, err := gmsl.NewAuthEvents(sel)
				if err != nil {
					panic(err)
				}
				// the built event has the same type, sender, state key, content and prev shape, so the same verdict is specified
				gotSel := gmsl.Allowed(built, ps, querier) == nil
				gotFull := gmsl.Allowed(built, full, querier) == nil
				if gotSel != gotFull {
					ids := make([]string, 0, len(want))
					for id := range want {
						ids = append(ids, id)
					}
					sort.Strings(ids)
					return Result{OK: false, Key: fmt.Sprintf("C09/meta/addauthevents/%s", key), Want: gotFull, Got: gotSel,
						What: fmt.Sprintf("an event built with AddAuthEvents over %s is judged %v against its selected auth events %v but %v against the full state (%s, room version %s, %s)", fromName, gotSel, ids, gotFull, key, sc.Ver, idShape)}
				}
			}
		}
	}
	return Result{OK: true, NT: fmt.Sprintf("%s|%s|%v", sc.Ver, key, sc.Want)}
}

func domainOfID(id string) string {
	for j := 0; j < len(id); j++ {
		if id[j] == ':' {
			return id[j+1:]
		}
	}
	return "hs1"
}

// c09OddPads: state events that no accessor of a provider may ever answer with - a type the auth rules name under a
// state key they do not, or a state key an accessor uses under another type - each contradicting the real event.
func c09OddPads(ver string, ids authIDs, room string, depth int64) []gmsl.PDU {
	creator := userIDs["creator"]
	var out []gmsl.PDU
	for n, es := range []eventSpec{
		{Type: "m.room.power_levels", StateKey: strp("draft"), Sender: creator, Content: json.RawMessage(`{"users_default":100,"state_default":0,"events_default":0,"invite":0,"kick":0,"ban":0,"redact":0}`)},
		{Type: "m.room.join_rules", StateKey: strp("proposal"), Sender: creator, Content: map[string]interface{}{"join_rule": "public"}},
		{Type: "m.room.create", StateKey: strp("again"), Sender: "@zed:hs3", Content: map[string]interface{}{"creator": "@zed:hs3", "room_version": ver, "m.federate": false, "additional_creators": []string{userIDs["alice"], userIDs["bob"], userIDs["carol"]}}},
		{Type: "m.room.member", StateKey: strp(""), Sender: creator, Content: map[string]interface{}{"membership": "ban"}},
		{Type: "m.room.third_party_invite", StateKey: strp(userIDs["bob"]), Sender: creator, Content: map[string]interface{}{"display_name": "n"}},
	} {
		es.Ver, es.ID, es.RoomID, es.Depth, es.TS = ver, ids.id(fmt.Sprintf("oddpad%d", n)), room, depth, depth
		es.Prev = []string{ids.id("someprev")}
		out = append(out, es.mustBuild())
	}
	return out
}

var c09PadCache sync.Map

// c09CachedPads builds a list of padding events once per (kind, room version, create tag, room, ID shape).
func c09CachedPads(kind, ver string, ctag int, room, idmode string, build func() []gmsl.PDU) []gmsl.PDU {
	k := fmt.Sprintf("%s|%s|%d|%s|%s", kind, ver, ctag, room, idmode)
	if v, ok := c09PadCache.Load(k); ok {
		return v.([]gmsl.PDU)
	}
	v, _ := c09PadCache.LoadOrStore(k, build())
	return v.([]gmsl.PDU)
}
