package main

// X01 (growth beyond the listed properties) - sticky events: Sticky.tla <-> PDU.IsSticky / StickyEndTime.

import (
	"encoding/json"
	"fmt"
	"time"
)

type stickyRec struct {
	TS       int64 `json:"ts"`
	Stable   int64 `json:"stable"`
	Unstable int64 `json:"unstable"`
	Received int64 `json:"received"`
	Now      int64 `json:"now"`
	Sticky   bool  `json:"sticky"`
	EndTime  int64 `json:"endtime"`
}

func init() {
	register("sticky", "replay Sticky.tla records against PDU.IsSticky / StickyEndTime", func(a *args) error {
		return replayAll(a, func(i int, raw json.RawMessage) Result {
			var r stickyRec
			if err := json.Unmarshal(raw, &r); err != nil {
				panic(err)
			}
			ms := func(x int64) time.Time { return time.UnixMilli(x) }
			for _, ver := range []string{"1", "10", "12"} {
				extra := map[string]interface{}{}
				if r.Stable != 0 {
					extra["sticky"] = map[string]interface{}{"duration_ms": r.Stable}
				}
				if r.Unstable != 0 {
					extra["msc4354_sticky"] = map[string]interface{}{"duration_ms": r.Unstable}
				}
				es := eventSpec{Ver: ver, ID: newAuthIDs(ver, 0).id("sticky"), RoomID: newAuthIDs(ver, 0).room, Type: "m.room.message",
					Sender: userIDs["alice"], Content: map[string]interface{}{"body": "x"}, Prev: []string{newAuthIDs(ver, 0).id("p")}, Depth: 5, Extra: extra}
				es.TS = r.TS
				p := es.mustBuild()
				gotSticky := p.IsSticky(ms(r.Now), ms(r.Received))
				end := p.StickyEndTime(ms(r.Received))
				gotEnd := int64(-1)
				if !end.IsZero() {
					gotEnd = end.UnixMilli()
				}
				if gotSticky != r.Sticky || gotEnd != r.EndTime {
					return Result{OK: false, Key: fmt.Sprintf("X01/sticky/stable=%v/unstable=%v", r.Stable != 0, r.Unstable != 0), Want: []interface{}{r.Sticky, r.EndTime}, Got: []interface{}{gotSticky, gotEnd},
						What: fmt.Sprintf("room version %s: IsSticky=%v StickyEndTime=%d, specification says %v / %d for %+v", ver, gotSticky, gotEnd, r.Sticky, r.EndTime, r)}
				}
			}
			return Result{OK: true, NT: fmt.Sprintf("%v|%v|%v", r.Sticky, r.Stable != 0, r.Unstable != 0)}
		})
	})
}
