package main

// C09 - the reused checker inside state resolution (spec/CheckerBatch.tla).
//   c09batch : a batch of CheckerBatch.tla is realised as real events and driven through the resolver's own
//              authAndApplyEvents (overlay accessor VerifAuthAndApplyBatch: a resolver set up as ResolveStateConflictsV2
//              sets it up, the partial state applied, the batch auth'd and applied in order).
//              The partial state holds the room as the first item sees it WITHOUT the focus component.  Every item is the
//              template's event re-built under its own event ID with auth_events that cite
//                - the partial state's events for the components the partial state has,
//                - for the focus: how=own/alt a usable event of its own (its view's, own ID), nocite nothing, unknown an
//                  event that is not among the known auth events, rejected a known event the server has rejected, wrongkey
//                  a known event of the same type under another state key.
//              (Room versions whose room ID names the create event cite it implicitly: "nocite" of the create event is
//              realised as "unknown" there.)
//              Observed: the partial state after the batch; expected: the partial state with every item applied that the
//              specification allows (BatchCoherent: the verdict on an item is a function of the partial state before it
//              and of its own usable auth events).

import (
	"bytes"
	"encoding/json"
	"fmt"
	"sort"
	"strings"

	gmsl "github.com/matrix-org/gomatrixserverlib"
)

type c09BatchItem struct {
	T    int      `json:"t"`
	How  string   `json:"how"`
	Ev   absEvent `json:"ev"`
	View absState `json:"view"`
}

type c09BatchRec struct {
	Ver   string         `json:"ver"`
	Focus string         `json:"focus"`
	Items []c09BatchItem `json:"items"`
	Want  []bool         `json:"want"`
	PSt   absState       `json:"pst"` // the room as the first item's template sees it
}

func init() {
	register("c09batch", "replay CheckerBatch.tla batches through the state resolver's authAndApplyEvents", func(a *args) error {
		return replayAll(a, func(i int, raw json.RawMessage) Result { return c09BatchReplay(i, raw, int(a.seed)) })
	})
}

var c09TemplateNames = []string{"", "state-by-moderator", "state-by-member", "profile-change", "public-join", "invite", "restricted-join",
	"third-party-invite", "power-levels", "join-rules", "kick", "invited-join"}

// c09Rebuild re-creates an event under another event ID, optionally with other auth_events, timestamp and state key;
// every other member of its JSON is kept literally (numbers included).
func c09Rebuild(ver string, p gmsl.PDU, newID string, auth *[]string, ts int64, stateKey *string) gmsl.PDU {
	dec := json.NewDecoder(bytes.NewReader(p.JSON()))
	dec.UseNumber()
	var m map[string]interface{}
	if err := dec.Decode(&m); err != nil {
		panic(err)
	}
	if auth != nil {
		if isFormatV1(ver) {
			m["auth_events"] = refsV1(*auth)
		} else {
			a := *auth
			if a == nil {
				a = []string{}
			}
			m["auth_events"] = a
		}
	}
	if ts != 0 {
		m["origin_server_ts"] = ts
		m["depth"] = ts
	}
	if stateKey != nil {
		m["state_key"] = *stateKey
	}
	if isFormatV1(ver) {
		m["event_id"] = newID
	}
	b, err := json.Marshal(m)
	if err != nil {
		panic(err)
	}
	q, err := gmsl.MustGetRoomVersion(gmsl.RoomVersion(ver)).NewEventFromTrustedJSONWithEventID(newID, b, false)
	if err != nil {
		panic(fmt.Sprintf("c09batch: cannot rebuild %s as %s: %v", p.EventID(), newID, err))
	}
	return q
}

// c09SubID derives a fresh event ID of the same shape from an event ID.
func c09SubID(old, prefix string) string {
	if j := strings.IndexByte(old, ':'); j >= 0 {
		return "$" + prefix + old[1:]
	}
	return eventID43(prefix + strings.TrimRight(old[1:], "A"))
}

func c09TupleOf(p gmsl.PDU) string { return p.Type() + "\x00" + *p.StateKey() }

func c09BatchReplay(i int, raw json.RawMessage, seed int) Result {
	var rec c09BatchRec
	if err := json.Unmarshal(raw, &rec); err != nil {
		panic(err)
	}
	if len(rec.Items) != len(rec.Want) || len(rec.Items) == 0 {
		panic("c09batch: malformed record")
	}
	variant := seed + i
	ver := rec.Ver
	// ---- the partial state: the first template's room without the focus component
	pc, err := concretise(&authScenario{Ver: ver, St: rec.PSt, Ev: rec.Items[0].Ev, Variant: &variant}, variant)
	if err != nil {
		panic(fmt.Sprintf("concretise: %v", err))
	}
	var partial, known []gmsl.PDU
	partOf := map[string]gmsl.PDU{}
	var roomCreate gmsl.PDU
	for _, p := range pc.All {
		k := c09Component(p)
		if k == "create" {
			roomCreate = p
		}
		if k == rec.Focus {
			continue
		}
		partial = append(partial, p)
		partOf[k] = p
	}
	known = append(known, partial...)
	rejected := map[string]bool{}
	var batch []gmsl.PDU
	var modesUsed []string
	for k := range rec.Items {
		it := &rec.Items[k]
		c, err := concretise(&authScenario{Ver: ver, St: it.View, Ev: it.Ev, Variant: &variant}, variant)
		if err != nil {
			panic(fmt.Sprintf("concretise: %v", err))
		}
		needed := map[string]bool{}
		for _, t := range gmsl.StateNeededForAuth([]gmsl.PDU{c.Event}).Tuples() {
			needed[t.EventType+"\x00"+t.StateKey] = true
		}
		var cites []string
		for _, p := range c.All {
			comp := c09Component(p)
			if !needed[c09TupleOf(p)] {
				continue
			}
			if pp, ok := partOf[comp]; ok {
				cites = append(cites, pp.EventID())
				continue
			}
			how := it.How
			if comp != rec.Focus {
				// a component the partial state has no event for (the first item's room had none): the item's own
				how = "own"
			}
			if comp == "create" && isDomainless(ver) {
				// the room ID names the create event: there is one create event and every event cites it
				if how == "nocite" || how == "wrongkey" {
					how = "unknown"
				}
				modesUsed = append(modesUsed, how)
				switch how {
				case "own":
					known = append(known, p)
				case "rejected":
					known = append(known, p)
					rejected[p.EventID()] = true
				case "unknown":
				default:
					panic("c09batch: " + how + " is not realisable for the create event of room version " + ver)
				}
				continue
			}
			own := c09Rebuild(ver, p, c09SubID(p.EventID(), fmt.Sprintf("v%d_", k+1)), nil, 0, nil)
			if comp == rec.Focus {
				modesUsed = append(modesUsed, how)
			}
			switch how {
			case "own", "alt":
				known = append(known, own)
				cites = append(cites, own.EventID())
			case "nocite":
				if (variant+k)%2 == 0 {
					known = append(known, own) // known to the server, not cited by the event
				}
			case "unknown":
				cites = append(cites, own.EventID())
			case "rejected":
				known = append(known, own)
				rejected[own.EventID()] = true
				cites = append(cites, own.EventID())
			case "wrongkey":
				otherKey := "odd"
				switch p.Type() {
				case "m.room.member":
					otherKey = "@zed:hs3"
				case "m.room.third_party_invite":
					otherKey = "othertoken"
				}
				wk := c09Rebuild(ver, p, c09SubID(p.EventID(), fmt.Sprintf("w%d_", k+1)), nil, 0, &otherKey)
				known = append(known, wk)
				cites = append(cites, wk.EventID())
			default:
				panic("c09batch: unknown how " + how)
			}
		}
		if isDomainless(ver) {
			var c2 []string
			for _, id := range cites {
				if roomCreate == nil || id != roomCreate.EventID() {
					c2 = append(c2, id)
				}
			}
			cites = c2
		}
		if (variant/2+k)%2 == 1 {
			for l, r := 0, len(cites)-1; l < r; l, r = l+1, r-1 {
				cites[l], cites[r] = cites[r], cites[l]
			}
		}
		batch = append(batch, c09Rebuild(ver, c.Event, c09SubID(c.Event.EventID(), fmt.Sprintf("b%d_", k+1)), &cites, int64(100+k), nil))
	}
	roomID := batch[0].RoomID()
	final := gmsl.VerifAuthAndApplyBatch(identityQuerier, roomID, partial, known, batch, func(id string) bool { return rejected[id] })

	// ---- expected: the partial state with every allowed state event of the batch applied in order
	want := map[string]string{}
	for _, p := range partial {
		want[c09TupleOf(p)] = p.EventID()
	}
	for k, p := range batch {
		if rec.Want[k] && p.StateKey() != nil {
			want[c09TupleOf(p)] = p.EventID()
		}
	}
	got := map[string]string{}
	for _, p := range final {
		got[c09TupleOf(p)] = p.EventID()
	}
	same := len(want) == len(got)
	for t, id := range want {
		same = same && got[t] == id
	}
	if same {
		var s []string
		for k := range rec.Items {
			s = append(s, fmt.Sprintf("%d:%s", rec.Items[k].T, rec.Items[k].How))
		}
		return Result{OK: true, NT: fmt.Sprintf("%s|%s|%s|%v", ver, rec.Focus, strings.Join(s, ","), rec.Want)}
	}
	// which item is judged differently?  the first whose event is (is not) in the final state against the specification,
	// looking only at items whose tuple no later allowed item overwrites
	class := func(h string) string {
		if h == "own" || h == "alt" {
			return h
		}
		return "lacking"
	}
	// the verdict the resolver reached on an item shows in the final state unless a later allowed item has the same
	// (type, state_key): from the last item backwards
	culprit, gotVerdict := -1, false
	real := make([]int, len(batch)) // 1 allowed, 0 not allowed, -1 not observable
	for k := len(batch) - 1; k >= 0; k-- {
		p := batch[k]
		real[k] = -1
		if p.StateKey() == nil {
			continue
		}
		hidden := false
		for j := k + 1; j < len(batch); j++ {
			if batch[j].StateKey() != nil && c09TupleOf(batch[j]) == c09TupleOf(p) && real[j] != 0 {
				hidden = true
			}
		}
		if !hidden {
			real[k] = 0
			if got[c09TupleOf(p)] == p.EventID() {
				real[k] = 1
			}
		}
	}
	for k := range batch {
		if real[k] >= 0 && (real[k] == 1) != rec.Want[k] {
			culprit, gotVerdict = k, real[k] == 1
			break
		}
	}
	var desc []string
	for k := range rec.Items {
		desc = append(desc, fmt.Sprintf("%s(%s)", c09TemplateNames[rec.Items[k].T], rec.Items[k].How))
	}
	key := fmt.Sprintf("C09/batch/focus=%s/state-differs", rec.Focus)
	what := ""
	if culprit >= 0 {
		var before []string
		for k := 0; k < culprit; k++ {
			before = append(before, class(rec.Items[k].How))
		}
		key = fmt.Sprintf("C09/batch/focus=%s/%s:%s/after=%s/model=%v", rec.Focus, c09TemplateNames[rec.Items[culprit].T], class(rec.Items[culprit].How),
			strings.Join(append([]string{"start"}, before...), ">"), rec.Want[culprit])
		what = fmt.Sprintf("item %d (%s) is %s by the resolver, the specification says allowed=%v; ", culprit+1, desc[culprit],
			map[bool]string{true: "allowed and applied", false: "not applied"}[gotVerdict], rec.Want[culprit])
	}
	var ws, gs []string
	for t, id := range want {
		ws = append(ws, strings.Replace(t, "\x00", "|", 1)+"="+id)
	}
	for t, id := range got {
		gs = append(gs, strings.Replace(t, "\x00", "|", 1)+"="+id)
	}
	sort.Strings(ws)
	sort.Strings(gs)
	return Result{OK: false, Key: key, Want: ws, Got: gs,
		What: fmt.Sprintf("%sbatch [%s] in room version %s auth'd through authAndApplyEvents over a partial state that lacks %s (modes realised: %v; model verdicts %v): the verdict on an event must be a function of the partial state before it and of its own usable auth events",
			what, strings.Join(desc, ", "), ver, rec.Focus, modesUsed, rec.Want)}
}
