package main

// Concretiser for the abstract auth scenarios of spec/Auth.tla: (ver, st, ev) -> real PDUs and an
// AuthEventProvider.  Used by the C07, C08 and C09 harnesses in both directions.

import (
	"crypto/ed25519"
	"encoding/base64"
	"encoding/json"
	"fmt"
	"sort"
	"strconv"
	"strings"

	gmsl "github.com/matrix-org/gomatrixserverlib"
)

type absPL struct {
	Ban           int            `json:"ban"`
	Kick          int            `json:"kick"`
	Invite        int            `json:"invite"`
	Redact        int            `json:"redact"`
	EventsDefault int            `json:"events_default"`
	StateDefault  int            `json:"state_default"`
	UsersDefault  int            `json:"users_default"`
	Users         map[string]int `json:"users"`
	Events        map[string]int `json:"events"`
	Notif         map[string]int `json:"notif"`
	SpK           string         `json:"spk"`
	SpKind        string         `json:"spkind"`
	BadUser       bool           `json:"baduser"`
}

type absState struct {
	Create struct {
		Present  bool     `json:"present"`
		Room     string   `json:"room"`
		Federate string   `json:"federate"`
		Addl     []string `json:"addl"`
	} `json:"create"`
	PL struct {
		Present bool  `json:"present"`
		C       absPL `json:"c"`
	} `json:"pl"`
	JR         string            `json:"jr"`
	Mem        map[string]string `json:"mem"`
	TPI        string            `json:"tpi"`
	TPISender  string            `json:"tpisender"`
	MixedRooms bool              `json:"mixedrooms"`
}

type absEvent struct {
	Type       string `json:"type"`
	Sender     string `json:"sender"`
	Target     string `json:"target"`
	Membership string `json:"membership"`
	Prev       string `json:"prev"`
	AuthVia    string `json:"authvia"`
	TPI        string `json:"tpi"`
	SKey       string `json:"skey"`
	Redacts    string `json:"redacts"`
	NewPL      absPL  `json:"newpl"`
	CPrevs     bool   `json:"c_prevs"`
	CDomain    string `json:"c_domain"`
	CRoomID    bool   `json:"c_roomid"`
	CRV        string `json:"c_rv"`
	CCreator   bool   `json:"c_creator"`
	CAddl      string `json:"c_addl"`
}

type authScenario struct {
	Ver   string   `json:"ver"`
	St    absState `json:"st"`
	Ev    absEvent `json:"ev"`
	Want  bool     `json:"want"`
	NoEsc bool     `json:"noesc"`
	Fam   string   `json:"fam"`
	// Variant, when present, fixes the concretisation variant (ladder, ID shapes) so that a recorded call
	// can be re-executed identically.
	Variant *int `json:"variant,omitempty"`
	// identity tags of the create / power-levels / join-rules events (C09): different tags give different event IDs
	CTag int `json:"ctag,omitempty"`
	PTag int `json:"ptag,omitempty"`
	JTag int `json:"jtag,omitempty"`
	// Pre, when present with a route other than "none": what the caller does with the public accessors around the
	// check (Auth_gen.tla, action CallerEdit)
	Pre *absPre `json:"pre,omitempty"`
}

// absPre: the caller reads a power-levels content through a public accessor (Route) and edits what it got (Edit),
// before the check ("ec") or between two checks ("cec").
type absPre struct {
	Route string `json:"route"`
	Edit  string `json:"edit"`
	Order string `json:"order"`
}

func (sc *authScenario) hasPre() bool { return sc.Pre != nil && sc.Pre.Route != "" && sc.Pre.Route != "none" }

// ladders realise ranks 0..4 as concrete levels; rank 1 is always 0 and rank 3 always 50.
var ladders = [][5]int64{
	{-1, 0, 49, 50, 51},
	{-9007199254740991, 0, 1, 50, 9007199254740991},
	{-100, 0, 25, 50, 100},
	{-7, 0, 10, 50, 75},
}

var userIDs = map[string]string{
	"creator": "@creator:hs1", "alice": "@alice:hs1", "bob": "@bob:hs2", "carol": "@carol:hs2",
}

var evTypes = map[string]string{
	"pl": "m.room.power_levels", "jr": "m.room.join_rules", "topic": "m.room.topic", "msg": "m.room.message",
	"redaction": "m.room.redaction", "tpi": "m.room.third_party_invite", "custom": "org.verif.custom",
}

// customTypeNames: what the abstract event type "custom" (any type the rules do not name) is called.  The names of
// the power-level thresholds and maps are ordinary event types as far as the rules go: an `events` entry keyed
// "ban" is the level needed to send events of type "ban" and has nothing to do with the ban threshold.
var customTypeNames = []string{"org.verif.custom", "ban", "org.verif.custom", "kick", "invite", "redact", "state_default",
	"events_default", "users_default", "users", "events", "notifications", "room", "m.room.power_level", "m.room.create2"}

func customTypeName(variant int) string {
	v := variant / 4
	if v < 0 {
		v = -v
	}
	return customTypeNames[v%len(customTypeNames)]
}

func evTypeName(k string, variant int) string {
	if k == "custom" {
		return customTypeName(variant)
	}
	return evTypes[k]
}

// collidingName: in the "plnames" family the abstract event type "custom" and the notification key "here" are called
// by the name of the threshold that the record changes (a name is just a name: the entry is that of an ordinary
// event type / notification), or, where no threshold changes, both by one common name.
func collidingName(sc *authScenario) string {
	if sc.Fam != "plnames" {
		return ""
	}
	o, n := &sc.St.PL.C, &sc.Ev.NewPL
	switch {
	case o.Ban != n.Ban:
		return "ban"
	case o.Kick != n.Kick:
		return "kick"
	case o.Invite != n.Invite:
		return "invite"
	case o.Redact != n.Redact:
		return "redact"
	case o.EventsDefault != n.EventsDefault:
		return "events_default"
	case o.StateDefault != n.StateDefault:
		return "state_default"
	case o.UsersDefault != n.UsersDefault:
		return "users_default"
	}
	return "room"
}

// decorateMember adds profile members to a member event's content.  The authorisation rules read none of them, so
// they never change a verdict - also when they have the wrong JSON type (the library parses member contents
// tolerantly on purpose: a mistyped display name must not make the event unparseable, nor hide the members the
// rules do read).
func decorateMember(c map[string]interface{}, variant, salt int) map[string]interface{} {
	v := variant/3 + salt
	if v < 0 {
		v = -v
	}
	switch v % 7 {
	case 1:
		c["displayname"] = "Some One"
		c["avatar_url"] = "mxc://hs1/abc"
	case 2:
		c["displayname"] = false
	case 3:
		c["avatar_url"] = 5
	case 4:
		c["displayname"] = map[string]interface{}{}
		c["is_direct"] = "yes"
	case 5:
		c["reason"] = []interface{}{1}
		c["displayname"] = nil
	}
	return c
}

func domainOf(u string) string {
	id := userIDs[u]
	return id[strings.IndexByte(id, ':')+1:]
}

// third-party-invite keys (deterministic)
var (
	tpiPub, tpiPriv  = keyFromSeed("tpi-identity-server")
	tpiOtherPub, _   = keyFromSeed("tpi-other-key")
	_                = tpiPriv
	_, tpiStrayPriv  = keyFromSeed("tpi-stray-signer")
	tpiUnusedPub, _  = keyFromSeed("tpi-unused-key")
	tpiUnusedPub2, _ = keyFromSeed("tpi-unused-key-2")
)

func keyFromSeed(s string) (ed25519.PublicKey, ed25519.PrivateKey) {
	seed := make([]byte, ed25519.SeedSize)
	copy(seed, []byte(s))
	priv := ed25519.NewKeyFromSeed(seed)
	return priv.Public().(ed25519.PublicKey), priv
}

// plJSON renders an abstract power-levels content.
func plJSON(c *absPL, lad [5]int64, variant int, colliding string) json.RawMessage {
	lv := func(path string, r int) string {
		var v int64
		if r == 8 {
			v = 1<<53 - 1 // rank NoPLCreator: the implicit level of the create sender while there is no power-levels event
		} else {
			v = lad[r]
		}
		if c.SpK != path || c.SpKind == "int" || c.SpKind == "" {
			return strconv.FormatInt(v, 10)
		}
		switch c.SpKind {
		case "str":
			return `"` + strconv.FormatInt(v, 10) + `"`
		case "strpad":
			return `"  ` + strconv.FormatInt(v, 10) + ` "`
		case "float":
			return strconv.FormatInt(v, 10) + ".0"
		case "frac":
			if v > 1<<50 || v < -(1<<50) {
				return strconv.FormatInt(v, 10) + ".0"
			}
			if v >= 0 {
				return strconv.FormatInt(v, 10) + ".5"
			}
			return strconv.FormatInt(v, 10) + ".5" // -1.5 truncates towards zero to -1
		case "badstr":
			return `"abc"`
		}
		panic("unknown spelling " + c.SpKind)
	}
	var parts []string
	add := func(k string, r int) {
		if r >= 0 {
			parts = append(parts, fmt.Sprintf("%q:%s", k, lv(k, r)))
		}
	}
	add("ban", c.Ban)
	add("kick", c.Kick)
	add("invite", c.Invite)
	add("redact", c.Redact)
	add("events_default", c.EventsDefault)
	add("state_default", c.StateDefault)
	add("users_default", c.UsersDefault)
	obj := func(name, prefix string, m map[string]int, keyOf func(string) string, extra string) {
		var ks []string
		for k, r := range m {
			if r >= 0 {
				ks = append(ks, k)
			}
		}
		sort.Strings(ks)
		var es []string
		for _, k := range ks {
			es = append(es, fmt.Sprintf("%q:%s", keyOf(k), lv(prefix+k, m[k])))
		}
		if extra != "" {
			es = append(es, extra)
		}
		if len(es) > 0 {
			parts = append(parts, fmt.Sprintf("%q:{%s}", name, strings.Join(es, ",")))
		}
	}
	bad := ""
	if c.BadUser {
		bad = `"not-a-user-id":0`
	}
	obj("users", "users.", c.Users, func(k string) string { return userIDs[k] }, bad)
	obj("events", "events.", c.Events, func(k string) string {
		if k == "custom" && colliding != "" {
			return colliding
		}
		return evTypeName(k, variant)
	}, "")
	obj("notifications", "notif.", c.Notif, func(k string) string {
		if k == "here" && colliding != "" {
			return colliding
		}
		return k
	}, "")
	return json.RawMessage("{" + strings.Join(parts, ",") + "}")
}

// concreteAuth is the realisation of one scenario.
type concreteAuth struct {
	Event    gmsl.PDU
	Provider *gmsl.AuthEvents
	All      []gmsl.PDU // the provider's events
	ByKey    map[string]gmsl.PDU
	Lad      [5]int64 // the ladder the ranks were realised with
	Variant  int
}

type authIDs struct {
	ver         string
	room        string
	otherRoom   string
	createID    string
	otherCreate string
}

func newAuthIDs(ver string, ctag int) authIDs {
	a := authIDs{ver: ver}
	if ctag > 1 {
		// another create event: in versions with domainless room IDs that is another room
		if isDomainless(ver) {
			a.createID = eventID43(fmt.Sprintf("create%d", ctag))
			a.otherCreate = a.createID
			a.room = "!" + eventID43("create")[1:]
			a.otherRoom = "!" + a.otherCreate[1:]
		} else {
			a.createID = fmt.Sprintf("$create%d:hs1", ctag)
			a.otherCreate = "$othercreate:hs1"
			a.room = "!room:hs1"
			a.otherRoom = "!other:hs1"
		}
		return a
	}
	if isDomainless(ver) {
		a.createID = eventID43("create")
		a.otherCreate = eventID43("othercreate")
		a.room = "!" + a.createID[1:]
		a.otherRoom = "!" + a.otherCreate[1:]
	} else {
		a.createID = "$create:hs1"
		a.otherCreate = "$othercreate:hs1"
		a.room = "!room:hs1"
		a.otherRoom = "!other:hs1"
	}
	return a
}

func (a authIDs) id(tag string) string {
	if isDomainless(a.ver) || (!isFormatV1(a.ver) && len(tag)%2 == 0) {
		return eventID43(tag)
	}
	return "$" + tag + ":hs1"
}

// concretise builds the provider events and the judged event.
func concretise(sc *authScenario, variant int) (*concreteAuth, error) {
	ver := sc.Ver
	if sc.Variant != nil {
		variant = *sc.Variant
	}
	lad := ladders[((variant%len(ladders))+len(ladders))%len(ladders)]
	if !sc.St.PL.Present && lad[4] == 9007199254740991 {
		// without a power_levels event the create sender implicitly holds 2^53-1 (departure A2); keep the
		// ladder's top rank distinct from that level so that ranks stay faithful
		lad[4] = 9007199254740990
	}
	ids := newAuthIDs(ver, sc.CTag)
	var events []gmsl.PDU
	st := &sc.St
	ev := &sc.Ev

	createContent := func(includeCreator bool, rv string, addl []string) map[string]interface{} {
		c := map[string]interface{}{}
		if includeCreator {
			c["creator"] = userIDs["creator"]
		}
		switch rv {
		case "own":
			c["room_version"] = ver
		case "unknown":
			c["room_version"] = "99.verif.unknown"
		}
		switch st.Create.Federate {
		case "true":
			c["m.federate"] = true
		case "false":
			c["m.federate"] = false
		}
		if len(addl) > 0 {
			c["additional_creators"] = addl
		}
		return c
	}

	createID := ids.createID
	createRoom := ids.room
	if st.Create.Room == "other" {
		createID, createRoom = ids.otherCreate, ids.otherRoom
	}
	if st.Create.Present {
		var addl []string
		for _, u := range st.Create.Addl {
			addl = append(addl, userIDs[u])
		}
		rv := "own"
		if ver == "1" && variant%2 == 1 {
			rv = "absent" // "Should be treated as 1 when the key doesn't exist"
		}
		if !isDomainless(ver) && len(addl) == 0 && variant%5 == 4 {
			// additional_creators has no meaning before the privileged-creator versions: naming ordinary users there
			// must not change any verdict
			addl = []string{userIDs["alice"], userIDs["bob"]}
		}
		es := eventSpec{Ver: ver, ID: createID, RoomID: createRoom, Type: "m.room.create", StateKey: strp(""),
			Sender: userIDs["creator"], Content: createContent(!(ver == "11" || isDomainless(ver)), rv, addl), Depth: 1, TS: 1}
		if isDomainless(ver) {
			es.RoomID = ""
		}
		p, err := es.build()
		if err != nil {
			return nil, err
		}
		events = append(events, p)
	}
	// auth events other than create live in the create event's room (a provider is one room's state)
	stateRoom := createRoom
	authBase := []string{createID}
	if isDomainless(ver) {
		authBase = nil
	}
	depth := int64(2)
	addState := func(tag, typ, skey, sender string, content interface{}) error {
		depth++
		es := eventSpec{Ver: ver, ID: ids.id(tag), RoomID: stateRoom, Type: typ, StateKey: strp(skey), Sender: sender,
			Content: content, Prev: []string{createID}, Auth: authBase, Depth: depth, TS: depth}
		p, err := es.build()
		if err != nil {
			return err
		}
		events = append(events, p)
		return nil
	}
	if st.PL.Present {
		if err := addState(fmt.Sprintf("pl%d", sc.PTag), "m.room.power_levels", "", userIDs["creator"], plJSON(&st.PL.C, lad, variant, collidingName(sc))); err != nil {
			return nil, err
		}
	}
	switch st.JR {
	case "absent":
	case "nokey":
		if err := addState(fmt.Sprintf("jr%d", sc.JTag), "m.room.join_rules", "", userIDs["creator"], map[string]interface{}{}); err != nil {
			return nil, err
		}
	default:
		if err := addState(fmt.Sprintf("jr%d", sc.JTag), "m.room.join_rules", "", userIDs["creator"], map[string]interface{}{"join_rule": st.JR}); err != nil {
			return nil, err
		}
	}
	var memUsers []string
	for u := range st.Mem {
		memUsers = append(memUsers, u)
	}
	sort.Strings(memUsers)
	for _, u := range memUsers {
		m := st.Mem[u]
		if m == "absent" {
			continue
		}
		if err := addState("mem_"+u, "m.room.member", userIDs[u], userIDs[u], decorateMember(map[string]interface{}{"membership": m}, variant, len(u))); err != nil {
			return nil, err
		}
	}
	if st.TPI != "absent" {
		pub := tpiPub
		if st.TPI == "nomatch" {
			pub = tpiOtherPub
		}
		keys := []interface{}{map[string]interface{}{"public_key": base64.RawStdEncoding.EncodeToString(pub)}}
		if variant%3 == 2 {
			// ... and listed keys under which nothing is signed do not change it either
			keys = []interface{}{map[string]interface{}{"public_key": base64.RawStdEncoding.EncodeToString(tpiUnusedPub)}, keys[0],
				map[string]interface{}{"public_key": base64.RawStdEncoding.EncodeToString(tpiUnusedPub2)}}
		}
		content := map[string]interface{}{
			"display_name": "someone",
			"public_keys":  keys,
		}
		if err := addState("tpi", "m.room.third_party_invite", "tok1", userIDs[st.TPISender], content); err != nil {
			return nil, err
		}
	}
	if st.MixedRooms {
		es := eventSpec{Ver: ver, ID: ids.id("stray"), RoomID: "!third:hs1", Type: "m.room.member", StateKey: strp("@dave:hs1"),
			Sender: "@dave:hs1", Content: map[string]interface{}{"membership": "join"}, Prev: []string{createID}, Auth: authBase, Depth: 9, TS: 9}
		if isDomainless(ver) {
			es.RoomID = "!" + eventID43("thirdroom")[1:]
		}
		p, err := es.build()
		if err != nil {
			return nil, err
		}
		events = append(events, p)
	}

	// ---- the judged event --------------------------------------------------------------
	sender := userIDs[ev.Sender]
	je := eventSpec{Ver: ver, ID: ids.id("judged"), RoomID: ids.room, Sender: sender, Depth: 20, TS: 20,
		Prev: []string{ids.id("someprev")}, Auth: authBase}
	skeyOf := func(k string) *string {
		switch k {
		case "none":
			return nil
		case "empty":
			return strp("")
		case "self":
			return strp(sender)
		case "other_user":
			// the class is "starts with '@' and is not the sender": a full user ID of somebody else, and strings
			// that are no user IDs at all (the rule speaks of the first character only)
			switch variant % 4 {
			case 1:
				return strp("@carolx")
			case 2:
				return strp("@")
			case 3:
				return strp(sender + "x")
			}
			if ev.Sender == "carol" {
				return strp(userIDs["bob"])
			}
			return strp(userIDs["carol"])
		case "server_self":
			return strp(domainOf(ev.Sender))
		case "server_other":
			return strp("hs9")
		case "token":
			return strp("tok1")
		}
		return strp(k)
	}
	switch ev.Type {
	case "create":
		je.Type = "m.room.create"
		je.StateKey = skeyOf(ev.SKey)
		je.ID = ids.createID
		je.Prev = nil
		if ev.CPrevs {
			je.Prev = []string{ids.id("someprev")}
		}
		je.Auth = nil
		var addl []string
		switch ev.CAddl {
		case "valid":
			addl = []string{userIDs["alice"]}
		case "invalid":
			addl = []string{"not-a-user-id"}
		}
		je.Content = createContent(ev.CCreator, ev.CRV, addl)
		if isDomainless(ver) {
			je.RoomID = ""
			if ev.CRoomID {
				je.RoomID = "!" + eventID43("explicitroom")[1:]
			}
		} else {
			je.RoomID = "!room:hs1"
			if ev.CDomain == "mismatch" {
				je.RoomID = "!room:hs9"
			}
		}
	case "member":
		je.Type = "m.room.member"
		if ev.SKey != "none" {
			je.StateKey = strp(userIDs[ev.Target])
		}
		c := map[string]interface{}{}
		switch ev.Membership {
		case "missing":
		default:
			c["membership"] = ev.Membership
		}
		switch ev.AuthVia {
		case "none":
		case "invalid":
			c["join_authorised_via_users_server"] = "not-a-user-id"
		default:
			c["join_authorised_via_users_server"] = userIDs[ev.AuthVia]
		}
		if ev.TPI != "none" {
			signed := map[string]interface{}{"mxid": userIDs[ev.Target]}
			if ev.TPI == "mxid_mismatch" {
				signed["mxid"] = userIDs["carol"]
			}
			if ev.TPI != "notoken" {
				signed["token"] = "tok1"
			}
			raw, _ := json.Marshal(signed)
			signedJSON, err := gmsl.SignJSON("idserver", "ed25519:0", tpiPriv, raw)
			if err != nil {
				return nil, err
			}
			if variant%3 != 0 {
				// the rule is "any signature matches any listed key": signatures that verify under no listed key (a
				// second key ID of the same server, another server) never change the verdict, whatever order they
				// are looked at in
				if signedJSON, err = gmsl.SignJSON("idserver", "ed25519:zz", tpiStrayPriv, signedJSON); err != nil {
					return nil, err
				}
				if signedJSON, err = gmsl.SignJSON("idserver", "ed25519:aa", tpiStrayPriv, signedJSON); err != nil {
					return nil, err
				}
				if signedJSON, err = gmsl.SignJSON("another.idserver", "ed25519:0", tpiStrayPriv, signedJSON); err != nil {
					return nil, err
				}
			}
			c["third_party_invite"] = map[string]interface{}{"display_name": "someone", "signed": json.RawMessage(signedJSON)}
		}
		je.Content = decorateMember(c, variant, 3)
		switch ev.Prev {
		case "create_only":
			je.Prev = []string{createID}
		case "two":
			je.Prev = []string{createID, ids.id("someprev")}
		case "none":
			je.Prev = nil
		}
	case "pl":
		je.Type = "m.room.power_levels"
		je.StateKey = skeyOf(ev.SKey)
		je.Content = plJSON(&ev.NewPL, lad, variant, collidingName(sc))
	case "redaction":
		je.Type = "m.room.redaction"
		je.StateKey = skeyOf(ev.SKey)
		switch ev.Redacts {
		case "own_domain":
			je.Redacts = "$redacted:" + domainOf(ev.Sender)
		case "other_domain":
			je.Redacts = "$redacted:hs7"
		case "nocolon":
			je.Redacts = "$redactedNoColon"
		}
		je.Content = map[string]interface{}{"reason": "x"}
	case "aliases":
		je.Type = "m.room.aliases"
		je.StateKey = skeyOf(ev.SKey)
		je.Content = map[string]interface{}{"aliases": []string{}}
	case "jr":
		je.Type = "m.room.join_rules"
		je.StateKey = skeyOf(ev.SKey)
		je.Content = map[string]interface{}{"join_rule": "public"}
	case "topic", "msg", "tpi":
		je.Type = evTypes[ev.Type]
		je.StateKey = skeyOf(ev.SKey)
		je.Content = map[string]interface{}{"body": "x"}
	case "at_state":
		je.Type = customTypeName(variant)
		je.StateKey = skeyOf(ev.SKey)
		je.Content = map[string]interface{}{"body": "x"}
	default:
		return nil, fmt.Errorf("unknown abstract event type %q", ev.Type)
	}
	judged, err := je.build()
	if err != nil {
		return nil, err
	}
	prov, err := gmsl.NewAuthEvents(events)
	if err != nil {
		return nil, err
	}
	return &concreteAuth{Event: judged, Provider: prov, All: events, Lad: lad, Variant: variant}, nil
}

// callerEdit performs the caller's part of a scenario with a pre-step: a power-levels content is read through the
// public accessor named by pre.Route and the value obtained - the caller's own copy - is edited IN PLACE (its fields
// and the maps it carries).  Returns a description of what was done ("" if the accessor gave nothing to edit).
func callerEdit(sc *authScenario, c *concreteAuth) string {
	pre := sc.Pre
	var cur gmsl.PDU
	for _, p := range c.All {
		if p.Type() == "m.room.power_levels" && p.StateKeyEquals("") {
			cur = p
		}
	}
	var pl *gmsl.PowerLevelContent
	var target *absPL // what "to_other" turns the copy into
	switch pre.Route {
	case "state.PowerLevels":
		if cur == nil {
			return ""
		}
		pl, _ = cur.PowerLevels()
		target = &sc.Ev.NewPL
	case "state.FromEvent":
		if cur == nil {
			return ""
		}
		if v, err := gmsl.NewPowerLevelContentFromEvent(cur); err == nil {
			pl = &v
		}
		target = &sc.Ev.NewPL
	case "state.FromAuthEvents":
		if v, err := gmsl.NewPowerLevelContentFromAuthEvents(c.Provider, userIDs["creator"]); err == nil {
			pl = &v
		}
		target = &sc.Ev.NewPL
	case "event.PowerLevels":
		if c.Event.Type() != "m.room.power_levels" || !c.Event.StateKeyEquals("") {
			return ""
		}
		pl, _ = c.Event.PowerLevels()
		target = &sc.St.PL.C
	case "event.FromEvent":
		if c.Event.Type() != "m.room.power_levels" {
			return ""
		}
		if v, err := gmsl.NewPowerLevelContentFromEvent(c.Event); err == nil {
			pl = &v
		}
		target = &sc.St.PL.C
	default:
		panic("unknown accessor route " + pre.Route)
	}
	if pl == nil {
		return "" // the content does not parse: nothing was handed out
	}
	level := func(r int, dflt int64) int64 {
		switch {
		case r < 0:
			return dflt
		case r == 8:
			return 1<<53 - 1
		}
		return c.Lad[r]
	}
	wipe := func(m map[string]int64) {
		for k := range m {
			delete(m, k)
		}
	}
	fill := func(mp *map[string]int64, src map[string]int, keyOf func(string) string) {
		wipe(*mp)
		for k, r := range src {
			if r >= 0 {
				if *mp == nil {
					*mp = map[string]int64{}
				}
				(*mp)[keyOf(k)] = level(r, 0)
			}
		}
	}
	switch pre.Edit {
	case "to_other":
		t := target
		pl.Ban, pl.Kick, pl.Invite, pl.Redact = level(t.Ban, 50), level(t.Kick, 50), level(t.Invite, 0), level(t.Redact, 50)
		pl.EventsDefault, pl.StateDefault, pl.UsersDefault = level(t.EventsDefault, 0), level(t.StateDefault, 50), level(t.UsersDefault, 0)
		colliding := collidingName(sc)
		fill(&pl.Users, t.Users, func(k string) string { return userIDs[k] })
		fill(&pl.Events, t.Events, func(k string) string {
			if k == "custom" && colliding != "" {
				return colliding
			}
			return evTypeName(k, c.Variant)
		})
		fill(&pl.Notifications, t.Notif, func(k string) string {
			if k == "here" && colliding != "" {
				return colliding
			}
			return k
		})
	case "wipe", "lift":
		wipe(pl.Users)
		wipe(pl.Events)
		wipe(pl.Notifications)
		pl.Ban, pl.Kick, pl.Invite, pl.Redact, pl.EventsDefault, pl.StateDefault, pl.UsersDefault = 0, 0, 0, 0, 0, 0, 0
		if pre.Edit == "lift" {
			if pl.Users == nil {
				pl.Users = map[string]int64{}
			}
			pl.Users[userIDs[sc.Ev.Sender]] = 1<<53 - 1
		}
	default:
		panic("unknown edit " + pre.Edit)
	}
	return fmt.Sprintf("the caller read a power-levels content through %s and edited the value it got (%s)", pre.Route, pre.Edit)
}

// scenarioKey is the canonical abstract key of a scenario (for known findings and grouping).
func scenarioKey(sc *authScenario) string {
	ev, st := &sc.Ev, &sc.St
	oldOf := func(u string) string { return st.Mem[u] }
	switch ev.Type {
	case "member":
		kind := "other"
		if ev.TPI != "none" && ev.Membership == "invite" {
			kind = "tpi"
		} else if ev.Sender == ev.Target {
			kind = "self"
		}
		s := fmt.Sprintf("member/%s/to=%s/old=%s/jr=%s", kind, ev.Membership, oldOf(ev.Target), st.JR)
		if kind != "self" {
			s += "/sender=" + oldOf(ev.Sender)
		}
		if kind == "tpi" {
			s += fmt.Sprintf("/evtpi=%s/sttpi=%s/tpisender=%v", ev.TPI, st.TPI, st.TPISender == ev.Sender)
		} else if ev.TPI != "none" {
			s += "/with-tpi-block"
		}
		if ev.AuthVia != "none" {
			s += "/via=" + ev.AuthVia
		}
		if ev.Prev != "other" {
			s += "/prev=" + ev.Prev
		}
		return s
	case "pl":
		return "pl/" + plDiffKey(st, ev)
	case "create":
		return fmt.Sprintf("create/prevs=%v/domain=%s/roomid=%v/rv=%s/creator=%v/addl=%s/skey=%s", ev.CPrevs, ev.CDomain, ev.CRoomID, ev.CRV, ev.CCreator, ev.CAddl, ev.SKey)
	default:
		return fmt.Sprintf("%s/skey=%s/sender=%s/fed=%s/pl=%v", ev.Type, ev.SKey, oldOf(ev.Sender), st.Create.Federate, st.PL.Present)
	}
}

// plDiffKey names the keys that differ between the old and new power-level contents and how they relate to
// the sender's level.
func plDiffKey(st *absState, ev *absEvent) string {
	old, nw := st.PL.C, ev.NewPL
	s := -1
	if st.PL.Present {
		if v, ok := old.Users[ev.Sender]; ok && v >= 0 {
			s = v
		} else if old.UsersDefault >= 0 {
			s = old.UsersDefault
		} else {
			s = 1
		}
	}
	rel := func(x int) string {
		switch {
		case x < 0:
			return "absent"
		case !st.PL.Present:
			return "set"
		case x < s:
			return "<s"
		case x == s:
			return "=s"
		}
		return ">s"
	}
	var parts []string
	cmp := func(name string, o, n int) {
		if !st.PL.Present {
			o = -1
		}
		if o != n {
			parts = append(parts, fmt.Sprintf("%s:%s->%s", name, rel(o), rel(n)))
		}
	}
	cmp("ban", old.Ban, nw.Ban)
	cmp("kick", old.Kick, nw.Kick)
	cmp("invite", old.Invite, nw.Invite)
	cmp("redact", old.Redact, nw.Redact)
	cmp("events_default", old.EventsDefault, nw.EventsDefault)
	cmp("state_default", old.StateDefault, nw.StateDefault)
	cmp("users_default", old.UsersDefault, nw.UsersDefault)
	maps := func(prefix string, o, n map[string]int) {
		var ks []string
		for k := range n {
			ks = append(ks, k)
		}
		sort.Strings(ks)
		for _, k := range ks {
			ov := -1
			if v, ok := o[k]; ok {
				ov = v
			}
			name := prefix + k
			if prefix == "users." {
				if k == ev.Sender {
					name = "users.SENDER"
				} else {
					name = "users.OTHER"
				}
			}
			cmp(name, ov, n[k])
		}
	}
	maps("events.", old.Events, nw.Events)
	maps("notif.", old.Notif, nw.Notif)
	maps("users.", old.Users, nw.Users)
	if nw.SpKind != "int" && nw.SpKind != "" {
		parts = append(parts, "spelling="+nw.SpKind)
	}
	if nw.BadUser {
		parts = append(parts, "baduser")
	}
	if !st.PL.Present {
		parts = append(parts, "nopl")
	}
	if len(st.Create.Addl) > 0 {
		parts = append(parts, "addl-creators")
	}
	parts = append(parts, "sender="+ev.Sender)
	return strings.Join(parts, ",")
}
