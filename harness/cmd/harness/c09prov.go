package main

// C09 - the auth event provider as a history of public operations (spec/CheckerProv.tla).
//   c09prov : every operation history (NewAuthEvents(list) / AddEvent / Clear) emitted by CheckerProv_gen.tla is driven
//             through ONE real AuthEvents; after every operation
//               * Create() / JoinRules() / PowerLevels() / Member(u1) / Member(u2) / ThirdPartyInvite(tok) / Valid() must
//                 answer with the very event object the specification names (ReadsLastAdd, ValidHeld), and
//               * the verdict of Allowed() for three fixed events over the real provider must be the verdict over a fresh
//                 provider that holds exactly the events the specification's view names (the verdict is a function of
//                 the view: no event of the same type under another state key, no replaced or cleared event shows).
//             The events of the universe are chosen so that every confusion changes a verdict: the power-levels-typed
//             state under the key "draft" makes everybody an admin, the join-rules-typed state under "proposal" says
//             public, the create-typed state under "again" forbids federation.

import (
	"encoding/base64"
	"encoding/json"
	"fmt"
	"strings"

	gmsl "github.com/matrix-org/gomatrixserverlib"
	"github.com/matrix-org/gomatrixserverlib/spec"
)

type c09ProvView struct {
	Create int  `json:"create"`
	PL     int  `json:"pl"`
	JR     int  `json:"jr"`
	M1     int  `json:"m1"`
	M2     int  `json:"m2"`
	TPI    int  `json:"tpi"`
	Valid  bool `json:"valid"`
}

type c09ProvRec struct {
	Ops   []int         `json:"ops"`
	Views []c09ProvView `json:"views"`
}

func init() {
	register("c09prov", "replay CheckerProv.tla operation histories through one real AuthEvents provider", func(a *args) error {
		return replayAll(a, func(i int, raw json.RawMessage) Result { return c09ProvReplay(i, raw, int(a.seed)) })
	})
}

var c09ProvVersions = []string{"10", "12", "1", "6", "11", "org.matrix.hydra.11", "4", "9"}

// names of the universe entries of CheckerProv.tla (index 0: Clear)
var c09ProvNames = []string{"clear", "create:empty#1", "pl:empty#2", "pl:empty#3", "jr:empty#4", "member:u1#5", "member:u1#6",
	"member:u2#7", "member:u2@otherroom#8", "tpi:tok#9", "pl:odd#10", "jr:odd#11", "create:odd#12", "member:empty#13",
	"tpi:u1#14", "member:tok#15", "other:empty#16", "other:u2#17"}

type c09ProvWorld struct {
	ver    string
	u      []gmsl.PDU // universe, 1-based
	judged []gmsl.PDU
	names  []string
}

func c09ProvBuild(ver string) *c09ProvWorld {
	ids := newAuthIDs(ver, 1)
	u1, u2 := userIDs["bob"], userIDs["carol"]
	creator := userIDs["creator"]
	w := &c09ProvWorld{ver: ver, u: make([]gmsl.PDU, 18)}
	authBase := []string{ids.createID}
	if isDomainless(ver) {
		authBase = nil
	}
	n := int64(1)
	st := func(tag, room, typ, skey, sender string, content interface{}) gmsl.PDU {
		n++
		es := eventSpec{Ver: ver, ID: ids.id(tag), RoomID: room, Type: typ, StateKey: strp(skey), Sender: sender, Content: content,
			Prev: []string{ids.createID}, Auth: authBase, Depth: n, TS: n}
		return es.mustBuild()
	}
	cc := map[string]interface{}{"room_version": ver}
	if !(ver == "11" || isDomainless(ver)) {
		cc["creator"] = creator
	}
	ce := eventSpec{Ver: ver, ID: ids.createID, RoomID: ids.room, Type: "m.room.create", StateKey: strp(""), Sender: creator, Content: cc, Depth: 1, TS: 1}
	if isDomainless(ver) {
		ce.RoomID = ""
	}
	w.u[1] = ce.mustBuild()
	w.u[2] = st("plA", ids.room, "m.room.power_levels", "", creator, json.RawMessage(fmt.Sprintf(`{"users":{%q:50},"users_default":0,"state_default":50,"events_default":0,"invite":50}`, u1)))
	w.u[3] = st("plB", ids.room, "m.room.power_levels", "", creator, json.RawMessage(`{"users":{},"users_default":0,"state_default":50,"events_default":0,"invite":50}`))
	w.u[4] = st("jr", ids.room, "m.room.join_rules", "", creator, map[string]interface{}{"join_rule": "invite"})
	w.u[5] = st("m1join", ids.room, "m.room.member", u1, u1, map[string]interface{}{"membership": "join"})
	w.u[6] = st("m1leave", ids.room, "m.room.member", u1, u1, map[string]interface{}{"membership": "leave"})
	w.u[7] = st("m2leave", ids.room, "m.room.member", u2, u2, map[string]interface{}{"membership": "leave"})
	w.u[8] = st("m2other", ids.otherRoom, "m.room.member", u2, creator, map[string]interface{}{"membership": "invite"})
	tpi := map[string]interface{}{"display_name": "someone",
		"public_keys": []interface{}{map[string]interface{}{"public_key": base64.RawStdEncoding.EncodeToString(tpiPub)}}}
	w.u[9] = st("tpi", ids.room, "m.room.third_party_invite", "tok1", u1, tpi)
	w.u[10] = st("plodd", ids.room, "m.room.power_levels", "draft", creator, json.RawMessage(`{"users_default":100,"state_default":0,"events_default":0,"invite":0}`))
	w.u[11] = st("jrodd", ids.room, "m.room.join_rules", "proposal", creator, map[string]interface{}{"join_rule": "public"})
	w.u[12] = st("createodd", ids.room, "m.room.create", "again", "@mallory:hs9", map[string]interface{}{"creator": "@mallory:hs9", "room_version": ver, "m.federate": false})
	w.u[13] = st("memempty", ids.room, "m.room.member", "", u1, map[string]interface{}{"membership": "join"})
	w.u[14] = st("tpiu1", ids.room, "m.room.third_party_invite", u1, u1, tpi)
	w.u[15] = st("memtok", ids.room, "m.room.member", "tok1", u1, map[string]interface{}{"membership": "join"})
	w.u[16] = st("topic", ids.room, "m.room.topic", "", creator, map[string]interface{}{"topic": "t"})
	w.u[17] = st("otheru2", ids.room, "org.verif.other", u2, creator, map[string]interface{}{"membership": "join", "join_rule": "public"})

	judge := func(tag, typ, skey, sender string, content interface{}) gmsl.PDU {
		es := eventSpec{Ver: ver, ID: ids.id(tag), RoomID: ids.room, Type: typ, StateKey: strp(skey), Sender: sender, Content: content,
			Prev: []string{ids.id("someprev")}, Auth: authBase, Depth: 20, TS: 20}
		return es.mustBuild()
	}
	signed, _ := json.Marshal(map[string]interface{}{"mxid": u2, "token": "tok1"})
	signedJSON, err := gmsl.SignJSON("idserver", "ed25519:0", tpiPriv, signed)
	if err != nil {
		panic(err)
	}
	w.judged = []gmsl.PDU{
		judge("jname", "m.room.name", "", u1, map[string]interface{}{"name": "n"}),
		judge("jjoin", "m.room.member", u2, u2, map[string]interface{}{"membership": "join"}),
		judge("jtpi", "m.room.member", u2, u1, map[string]interface{}{"membership": "invite",
			"third_party_invite": map[string]interface{}{"display_name": "someone", "signed": json.RawMessage(signedJSON)}}),
	}
	w.names = []string{"state-event-by-u1", "join-by-u2", "third-party-invite-of-u2-by-u1"}
	return w
}

func c09ProvReplay(i int, raw json.RawMessage, seed int) Result {
	var rec c09ProvRec
	if err := json.Unmarshal(raw, &rec); err != nil {
		panic(err)
	}
	if len(rec.Ops) != len(rec.Views) {
		panic("c09prov: ops and views differ in length")
	}
	variant := seed + i
	if variant < 0 {
		variant = -variant
	}
	ver := c09ProvVersions[variant%len(c09ProvVersions)]
	w := c09ProvBuild(ver)
	u1, u2 := userIDs["bob"], userIDs["carol"]

	// the first `first` operations (no Clear among them) are the list given to NewAuthEvents
	first := (variant / len(c09ProvVersions)) % (len(rec.Ops) + 1)
	for j := 0; j < first; j++ {
		if rec.Ops[j] == 0 {
			first = j
			break
		}
	}
	var list []gmsl.PDU
	for _, op := range rec.Ops[:first] {
		list = append(list, w.u[op])
	}
	prov, err := gmsl.NewAuthEvents(list)
	if err != nil {
		panic(err)
	}
	hist := func(n int) string {
		var s []string
		for _, op := range rec.Ops[:n] {
			s = append(s, c09ProvNames[op])
		}
		h := strings.Join(s, " > ")
		if first > 0 {
			h += fmt.Sprintf(" (the first %d given to NewAuthEvents)", first)
		}
		return h
	}
	indexOf := func(p gmsl.PDU) int {
		if p == nil {
			return 0
		}
		for j := 1; j < len(w.u); j++ {
			if w.u[j] == p {
				return j
			}
		}
		return -1
	}
	name := func(j int) string {
		if j < 0 {
			return "an-unknown-event"
		}
		if j == 0 {
			return "none"
		}
		return c09ProvNames[j]
	}
	for n := 1; n <= len(rec.Ops); n++ {
		if n > first {
			if op := rec.Ops[n-1]; op == 0 {
				prov.Clear()
			} else if err := prov.AddEvent(w.u[op]); err != nil {
				panic(err)
			}
		} else if n < first {
			continue // inside the NewAuthEvents list: nothing to observe yet
		}
		v := rec.Views[n-1]
		cr, _ := prov.Create()
		pl, _ := prov.PowerLevels()
		jr, _ := prov.JoinRules()
		m1, _ := prov.Member(spec.SenderID(u1))
		m2, _ := prov.Member(spec.SenderID(u2))
		tp, _ := prov.ThirdPartyInvite("tok1")
		for _, a := range []struct {
			acc  string
			want int
			got  gmsl.PDU
		}{{"Create", v.Create, cr}, {"PowerLevels", v.PL, pl}, {"JoinRules", v.JR, jr}, {"Member(u1)", v.M1, m1}, {"Member(u2)", v.M2, m2}, {"ThirdPartyInvite(tok)", v.TPI, tp}} {
			if g := indexOf(a.got); g != a.want {
				return Result{OK: false, Key: fmt.Sprintf("C09/provider/%s/spec=%s/got=%s", a.acc, name(a.want), name(g)), Want: name(a.want), Got: name(g),
					What: fmt.Sprintf("AuthEvents.%s() after the operations [%s] (room version %s) answers %s; the specification (the last event added under exactly that type and state key since the last Clear) says %s",
						a.acc, hist(n), ver, name(g), name(a.want))}
			}
		}
		if g := prov.Valid(); g != v.Valid {
			return Result{OK: false, Key: fmt.Sprintf("C09/provider/Valid/spec=%v/got=%v", v.Valid, g), Want: v.Valid, Got: g,
				What: fmt.Sprintf("AuthEvents.Valid() after the operations [%s] (room version %s) says %v; the events held now are of %s, the specification says %v",
					hist(n), ver, g, map[bool]string{true: "one room", false: "two rooms"}[v.Valid], v.Valid)}
		}
		// the verdict is a function of the view
		var exact []gmsl.PDU
		for _, j := range []int{v.Create, v.PL, v.JR, v.M1, v.M2, v.TPI} {
			if j != 0 {
				exact = append(exact, w.u[j])
			}
		}
		ep, err := gmsl.NewAuthEvents(exact)
		if err != nil {
			panic(err)
		}
		for k, ev := range w.judged {
			want := gmsl.Allowed(ev, ep, identityQuerier) == nil
			got := gmsl.Allowed(ev, prov, identityQuerier) == nil
			if want != got {
				return Result{OK: false, Key: fmt.Sprintf("C09/provider/verdict/%s/view=%v/got=%v", w.names[k], want, got), Want: want, Got: got,
					What: fmt.Sprintf("Allowed(%s) over the provider after the operations [%s] (room version %s) says %v, over a fresh provider holding exactly what the accessors must answer (create=%s power-levels=%s join-rules=%s u1=%s u2=%s token=%s) it says %v",
						w.names[k], hist(n), ver, got, name(v.Create), name(v.PL), name(v.JR), name(v.M1), name(v.M2), name(v.TPI), want)}
			}
		}
	}
	var s []string
	for _, op := range rec.Ops {
		s = append(s, c09ProvNames[op])
	}
	return Result{OK: true, NT: strings.Join(s, ">")}
}
