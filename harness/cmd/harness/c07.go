package main

// C07 / C08 - replay of Auth.tla scenarios against the real Allowed().

import (
	"encoding/json"
	"fmt"
	"strings"
	"sync"

	gmsl "github.com/matrix-org/gomatrixserverlib"
	"github.com/matrix-org/gomatrixserverlib/spec"
)

func init() {
	register("c07", "replay Auth.tla scenarios: Allowed() verdict must equal the model's", func(a *args) error {
		return replayAll(a, func(i int, raw json.RawMessage) Result { return authReplay(i, raw, int(a.seed), "c07") })
	})
	register("c07prov", "replay AuthProv.tla behaviours of the AuthEvents provider (New / AddEvent / Clear, then Allowed)", func(a *args) error {
		return replayAll(a, func(i int, raw json.RawMessage) Result { return provReplay(i, raw, int(a.seed)) })
	})
	register("c08", "replay Auth.tla power-level scenarios: accepted => NoEsc", func(a *args) error {
		return replayAll(a, func(i int, raw json.RawMessage) Result { return authReplay(i, raw, int(a.seed), "c08") })
	})
}

func runAllowed(c *concreteAuth) (ok bool, msg string) {
	err := gmsl.Allowed(c.Event, c.Provider, identityQuerier)
	if err == nil {
		return true, ""
	}
	return false, err.Error()
}

func authReplay(i int, raw json.RawMessage, seed int, mode string) Result {
	var sc authScenario
	if err := json.Unmarshal(raw, &sc); err != nil {
		panic(err)
	}
	variant := seed + i
	c, err := concretise(&sc, variant)
	if err != nil {
		panic(fmt.Sprintf("concretise: %v", err))
	}
	got, msg := runAllowed(c)
	key := scenarioKey(&sc)
	nt := fmt.Sprintf("%s|%s|%s|%v", sc.Fam, sc.Ver, key, sc.Want)
	judge := func(c *concreteAuth, got bool, msg, k07, k08, note string) *Result {
		switch mode {
		case "c07":
			if got != sc.Want {
				return &Result{OK: false, NT: nt, Key: k07, Want: sc.Want, Got: got,
					What:  fmt.Sprintf("Allowed: rules say allowed=%v, code says allowed=%v (%s) for %s in room version %s%s", sc.Want, got, msg, key, sc.Ver, note),
					Extra: map[string]interface{}{"event": json.RawMessage(c.Event.JSON()), "auth": pdusJSON(c.All)}}
			}
		case "c08":
			if sc.Ev.Type == "pl" && got && !sc.NoEsc {
				return &Result{OK: false, NT: nt, Key: k08, Want: "rejected (escalation)", Got: "accepted",
					What:  fmt.Sprintf("power-levels event accepted although it escalates privilege: %s in room version %s%s", key, sc.Ver, note),
					Extra: map[string]interface{}{"event": json.RawMessage(c.Event.JSON()), "auth": pdusJSON(c.All)}}
			}
		}
		return nil
	}
	if r := judge(c, got, msg, fmt.Sprintf("C07/%s/model=%v", key, sc.Want), "C08/"+key, ""); r != nil {
		return *r
	}
	if sc.hasPre() {
		// the same scenario on objects of its own, with the caller's accessor-and-edit step: neither the verdict nor
		// what it implies may differ.  (The plain run above stands for the check before the edit of order "cec" too:
		// there it is repeated on the very objects that are edited afterwards.)
		nt += "|" + sc.Pre.Route + "|" + sc.Pre.Edit + "|" + sc.Pre.Order
		c2, err := concretise(&sc, variant)
		if err != nil {
			panic(fmt.Sprintf("concretise: %v", err))
		}
		// canonical key of such a failure: the route and the edit (the scenario's own key does not matter to it)
		ak := fmt.Sprintf("accessor-edit/route=%s/edit=%s", sc.Pre.Route, sc.Pre.Edit)
		k07, k08 := fmt.Sprintf("C07/%s/model=%v", ak, sc.Want), "C08/"+ak
		if sc.Pre.Order == "cec" {
			got0, msg0 := runAllowed(c2)
			if r := judge(c2, got0, msg0, k07+"/before", k08+"/before", " [first check, before the caller's edit]"); r != nil {
				return *r
			}
		}
		if did := callerEdit(&sc, c2); did != "" {
			got2, msg2 := runAllowed(c2)
			if r := judge(c2, got2, msg2, k07, k08, " - after "+did+"; without that step the verdict is the specification's"); r != nil {
				r.NT = nt
				return *r
			}
		}
	}
	return Result{OK: true, NT: nt}
}

func pdusJSON(ps []gmsl.PDU) []json.RawMessage {
	var out []json.RawMessage
	for _, p := range ps {
		out = append(out, json.RawMessage(p.JSON()))
	}
	return out
}

// ---------------------------------------------------------------------------------------------------------------
// C07 - the provider state machine (spec/AuthProv.tla): New(list) / AddEvent / Clear, then Allowed.
// ---------------------------------------------------------------------------------------------------------------

type provSnap struct {
	H     []string `json:"h"` // create, pl, alice, bob: the code of the event held or "none"
	Valid bool     `json:"valid"`
}

type provRecord struct {
	Ver  string          `json:"ver"`
	List []string        `json:"list"`
	Ops  []string        `json:"ops"`
	Hist []provSnap      `json:"hist"`
	Want map[string]bool `json:"want"`
	Fam  string          `json:"fam"`
}

// provEvents are the concrete events of the entries of AuthProv.tla for one room version; swap exchanges the concrete
// rooms that play A and B.
type provEvents struct {
	byCode map[string]gmsl.PDU
	msg    map[string]gmsl.PDU // judged message of alice in room "A" / "B"
}

var provCache sync.Map // ver/swap -> *provEvents

func provEventsOf(ver string, swap bool) *provEvents {
	key := fmt.Sprintf("%s/%v", ver, swap)
	if v, ok := provCache.Load(key); ok {
		return v.(*provEvents)
	}
	ids := newAuthIDs(ver, 0)
	rooms := map[string][2]string{"A": {ids.room, ids.createID}, "B": {ids.otherRoom, ids.otherCreate}}
	if swap {
		rooms["A"], rooms["B"] = rooms["B"], rooms["A"]
	}
	pe := &provEvents{byCode: map[string]gmsl.PDU{}, msg: map[string]gmsl.PDU{}}
	depth := int64(1)
	for _, r := range []string{"A", "B"} {
		room, createID := rooms[r][0], rooms[r][1]
		cc := map[string]interface{}{"room_version": ver}
		if !(ver == "11" || isDomainless(ver)) {
			cc["creator"] = userIDs["creator"]
		}
		ce := eventSpec{Ver: ver, ID: createID, RoomID: room, Type: "m.room.create", StateKey: strp(""), Sender: userIDs["creator"], Content: cc, Depth: 1, TS: 1}
		if isDomainless(ver) {
			ce.RoomID = ""
		}
		pe.byCode["c"+r] = ce.mustBuild()
		authBase := []string{createID}
		if isDomainless(ver) {
			authBase = nil
		}
		st := func(tag, typ, skey, sender string, content interface{}) gmsl.PDU {
			depth++
			es := eventSpec{Ver: ver, ID: ids.id(tag + r), RoomID: room, Type: typ, StateKey: strp(skey), Sender: sender, Content: content,
				Prev: []string{createID}, Auth: authBase, Depth: depth, TS: depth}
			return es.mustBuild()
		}
		pe.byCode["p"+r] = st("provpl", "m.room.power_levels", "", userIDs["creator"], map[string]interface{}{"events_default": 25})
		pe.byCode["a"+r+"j"] = st("provaj", "m.room.member", userIDs["alice"], userIDs["alice"], map[string]interface{}{"membership": "join"})
		pe.byCode["a"+r+"l"] = st("proval", "m.room.member", userIDs["alice"], userIDs["alice"], map[string]interface{}{"membership": "leave"})
		pe.byCode["b"+r+"j"] = st("provbj", "m.room.member", userIDs["bob"], userIDs["bob"], map[string]interface{}{"membership": "join"})
		me := eventSpec{Ver: ver, ID: ids.id("provmsg" + r), RoomID: room, Type: "m.room.message", Sender: userIDs["alice"], Content: map[string]interface{}{"body": "x"},
			Prev: []string{ids.id("someprev")}, Auth: authBase, Depth: 30, TS: 30}
		pe.msg[r] = me.mustBuild()
	}
	for _, p := range pe.byCode { // fill the lazily computed parts before the events are shared between goroutines
		_, _ = p.EventID(), p.RoomID()
	}
	for _, p := range pe.msg {
		_, _ = p.EventID(), p.RoomID()
	}
	v, _ := provCache.LoadOrStore(key, pe)
	return v.(*provEvents)
}

var provSlots = []string{"create", "pl", "alice", "bob"}

func provReplay(i int, raw json.RawMessage, seed int) Result {
	var rec provRecord
	if err := json.Unmarshal(raw, &rec); err != nil {
		panic(err)
	}
	variant := seed + i
	pe := provEventsOf(rec.Ver, variant%2 != 0)
	nt := fmt.Sprintf("provider|%s|%s|%s|%v%v", rec.Ver, strings.Join(rec.List, ","), strings.Join(rec.Ops, ","), rec.Want["A"], rec.Want["B"])
	extra := func() map[string]interface{} {
		m := map[string]interface{}{"rooms_swapped": variant%2 != 0}
		ev := map[string]json.RawMessage{}
		for _, c := range append(append([]string{}, rec.List...), rec.Ops...) {
			if p, ok := pe.byCode[c]; ok {
				ev[c] = json.RawMessage(p.JSON())
			}
		}
		m["events"] = ev
		return m
	}
	fail := func(key, what string, want, got interface{}) Result {
		return Result{OK: false, NT: nt, Key: key, Want: want, Got: got, Extra: extra(),
			What: fmt.Sprintf("%s [NewAuthEvents(%v), then %v; room version %s]", what, rec.List, rec.Ops, rec.Ver)}
	}
	var listEvents []gmsl.PDU
	for _, c := range rec.List {
		listEvents = append(listEvents, pe.byCode[c])
	}
	prov, err := gmsl.NewAuthEvents(listEvents)
	if err != nil {
		panic(err)
	}
	// what was given so far since the last Clear, to name how a room got lost or stuck
	type given struct {
		code string
		how  string
	}
	var since []given
	for _, c := range rec.List {
		since = append(since, given{c, "list"})
	}
	cleared := false
	served := func(slot string) gmsl.PDU {
		var p gmsl.PDU
		switch slot {
		case "create":
			p, _ = prov.Create()
		case "pl":
			p, _ = prov.PowerLevels()
		case "alice":
			p, _ = prov.Member(spec.SenderID(userIDs["alice"]))
		case "bob":
			p, _ = prov.Member(spec.SenderID(userIDs["bob"]))
		}
		return p
	}
	check := func(step int) *Result {
		snap := rec.Hist[step]
		for k, slot := range provSlots {
			want := snap.H[k]
			p := served(slot)
			got := "none"
			if p != nil {
				got = "?"
				for c, q := range pe.byCode {
					if q == p {
						got = c
					}
				}
			}
			if got != want {
				r := fail(fmt.Sprintf("C07/provider/serves-wrong-event/slot=%s", slot),
					fmt.Sprintf("after step %d the provider serves %s for slot %s, the last event given for it is %s", step, got, slot, want), want, got)
				return &r
			}
		}
		if got := prov.Valid(); got != snap.Valid {
			if snap.Valid {
				stale := "replaced"
				if cleared {
					stale = "cleared"
				}
				r := fail("C07/provider/one-room-held-but-invalid/stale="+stale,
					fmt.Sprintf("after step %d every event the provider holds %v is of one room, yet Valid() is false (Allowed refuses everything): "+
						"an event that is no longer held (%s) still counts", step, snap.H, stale), true, false)
				return &r
			}
			// which replacement lost the room
			via := "add"
			seen := map[byte]string{}
			for _, g := range since {
				if _, ok := seen[g.code[0]]; ok {
					via = g.how
				}
				seen[g.code[0]] = g.how
			}
			r := fail("C07/provider/two-rooms-held-but-valid/replaced-via="+via,
				fmt.Sprintf("after step %d the provider holds events of two rooms %v, yet Valid() is true", step, snap.H), false, true)
			return &r
		}
		return nil
	}
	if r := check(0); r != nil {
		return *r
	}
	for k, c := range rec.Ops {
		if c == "clr" {
			prov.Clear()
			since = nil
			cleared = true
		} else {
			if err := prov.AddEvent(pe.byCode[c]); err != nil {
				panic(err)
			}
			since = append(since, given{c, "add"})
		}
		if r := check(k + 1); r != nil {
			return *r
		}
	}
	last := rec.Hist[len(rec.Hist)-1]
	for _, r := range []string{"A", "B"} {
		err := gmsl.Allowed(pe.msg[r], prov, identityQuerier)
		if got := err == nil; got != rec.Want[r] {
			msg := ""
			if err != nil {
				msg = err.Error()
			}
			rooms := "one-room"
			if !last.Valid {
				rooms = "two-rooms"
			}
			return fail(fmt.Sprintf("C07/provider/allowed/held=%s/model=%v", rooms, rec.Want[r]),
				fmt.Sprintf("Allowed(message of alice in room %s) with a provider holding %v: rules say allowed=%v, code says allowed=%v (%s)", r, last.H, rec.Want[r], got, msg),
				rec.Want[r], got)
		}
	}
	return Result{OK: true, NT: nt}
}
