package main

// C07 / C08 - replay of Auth.tla scenarios against the real Allowed().

import (
	"encoding/json"
	"fmt"

	gmsl "github.com/matrix-org/gomatrixserverlib"
)

func init() {
	register("c07", "replay Auth.tla scenarios: Allowed() verdict must equal the model's", func(a *args) error {
		return replayAll(a, func(i int, raw json.RawMessage) Result { return authReplay(i, raw, int(a.seed), "c07") })
	})
	register("c08", "replay Auth.tla power-level scenarios: accepted => NoEsc", func(a *args) error {
		return replayAll(a, func(i int, raw json.RawMessage) Result { return authReplay(i, raw, int(a.seed), "c08") })
	})
}

func runAllowed(c *concreteAuth) (ok bool, msg string) {
	err := gmsl.Allowed(c.Event, c.Provider, identityQuerier)
	if err == nil {
		return true, ""
	}
	return false, err.Error()
}

func authReplay(i int, raw json.RawMessage, seed int, mode string) Result {
	var sc authScenario
	if err := json.Unmarshal(raw, &sc); err != nil {
		panic(err)
	}
	variant := seed + i
	c, err := concretise(&sc, variant)
	if err != nil {
		panic(fmt.Sprintf("concretise: %v", err))
	}
	got, msg := runAllowed(c)
	key := scenarioKey(&sc)
	nt := fmt.Sprintf("%s|%s|%s|%v", sc.Fam, sc.Ver, key, sc.Want)
	switch mode {
	case "c07":
		if got != sc.Want {
			return Result{OK: false, NT: nt, Key: fmt.Sprintf("C07/%s/model=%v", key, sc.Want), Want: sc.Want, Got: got,
				What:  fmt.Sprintf("Allowed: rules say allowed=%v, code says allowed=%v (%s) for %s in room version %s", sc.Want, got, msg, key, sc.Ver),
				Extra: map[string]interface{}{"event": json.RawMessage(c.Event.JSON()), "auth": pdusJSON(c.All)}}
		}
	case "c08":
		if sc.Ev.Type == "pl" && got && !sc.NoEsc {
			return Result{OK: false, NT: nt, Key: fmt.Sprintf("C08/%s", key), Want: "rejected (escalation)", Got: "accepted",
				What:  fmt.Sprintf("power-levels event accepted although it escalates privilege: %s in room version %s", key, sc.Ver),
				Extra: map[string]interface{}{"event": json.RawMessage(c.Event.JSON()), "auth": pdusJSON(c.All)}}
		}
	}
	return Result{OK: true, NT: nt}
}

func pdusJSON(ps []gmsl.PDU) []json.RawMessage {
	var out []json.RawMessage
	for _, p := range ps {
		out = append(out, json.RawMessage(p.JSON()))
	}
	return out
}
