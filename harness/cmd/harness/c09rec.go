package main

// C09 code -> spec: a seeded driver runs LONG sessions of checks (8-40) through ONE reused allowerContext per room,
// driven as state resolution drives it (one provider, cleared and refilled before every check).  A session stays in
// one room version; every step either re-draws the judged event over the state of the step before, or swaps some
// components of that state (create, power levels, join rules, memberships, third-party invite) for freshly drawn
// ones.  Event objects are interned per session by their JSON, so an unchanged component is the SAME object as in
// the step before (the cache hits) and a changed one is another object - possibly under the same event ID.
// Every line logs the abstract scenario, the verdict of the reused checker and the verdict of a fresh Allowed();
// spec/Checker_trace.tla re-derives the verdict from the line ALONE (that is the property: no history).

import (
	"encoding/json"
	"fmt"
	"math/rand"

	gmsl "github.com/matrix-org/gomatrixserverlib"
)

func init() {
	register("c09rec", "record sessions of checks through one reused checker as an NDJSON trace for Checker_trace.tla", func(a *args) error {
		tw, err := newTraceWriter(a.out)
		if err != nil {
			return err
		}
		rng := rand.New(rand.NewSource(a.seed))
		line := 0
		for session := 0; line < a.n; session++ {
			ver := pick(rng, AllVersions...)
			variant := int(a.seed) + session
			checkers := map[string]*gmsl.VerifChecker{}
			objects := map[string]gmsl.PDU{}
			internJSON := func(p gmsl.PDU) gmsl.PDU {
				k := p.EventID() + "\x00" + string(p.JSON())
				if q, ok := objects[k]; ok {
					return q
				}
				objects[k] = p
				return p
			}
			cur := randomScenarioOf(rng, ver)
			c09OneRoom(cur)
			steps := 8 + rng.Intn(33)
			for step := 0; step < steps && line < a.n; step++ {
				if step > 0 {
					cur = c09NextScenario(rng, cur)
				}
				sc := cur
				v := variant
				sc.Variant = &v
				var fresh, sub bool
				r := safely(line, func() Result {
					c, err := concretise(sc, variant)
					if err != nil {
						panic(fmt.Sprintf("concretise: %v", err))
					}
					state := make([]gmsl.PDU, len(c.All))
					for j, p := range c.All {
						state[j] = internJSON(p)
					}
					room := c.Event.RoomID().String()
					ch := checkers[room]
					if ch == nil {
						ch = gmsl.NewVerifChecker(identityQuerier, c.Event.RoomID())
						checkers[room] = ch
					}
					got := ch.Check(state, c.Event) == nil
					fresh, _ = runAllowed(c)
					// a fresh Allowed over exactly the state StateNeededForAuth names for the event
					needed := map[gmsl.StateKeyTuple]bool{}
					for _, t := range gmsl.StateNeededForAuth([]gmsl.PDU{c.Event}).Tuples() {
						needed[t] = true
					}
					var only []gmsl.PDU
					for _, p := range c.All {
						if needed[gmsl.StateKeyTuple{EventType: p.Type(), StateKey: *p.StateKey()}] {
							only = append(only, p)
						}
					}
					prov, err := gmsl.NewAuthEvents(only)
					if err != nil {
						panic(err)
					}
					sub = gmsl.Allowed(c.Event, prov, identityQuerier) == nil
					return Result{OK: true, Got: got}
				})
				if !r.OK {
					r.I = line
					r.Extra = sc
					b, _ := json.Marshal(r)
					fmt.Println(string(b))
					// the checker may be left half-updated by the panic: the session ends here
					break
				}
				tw.emit(map[string]interface{}{"ver": sc.Ver, "st": sc.St, "ev": sc.Ev, "got": r.Got, "fresh": fresh, "sub": sub,
					"variant": variant, "session": session, "step": step, "key": scenarioKey(sc)})
				line++
			}
		}
		return tw.close()
	})
}

func cloneScenario(sc *authScenario) *authScenario {
	b, err := json.Marshal(sc)
	if err != nil {
		panic(err)
	}
	var d authScenario
	if err := json.Unmarshal(b, &d); err != nil {
		panic(err)
	}
	return &d
}

// c09NextScenario derives the next step of a session from the current one.
func c09NextScenario(r *rand.Rand, cur *authScenario) *authScenario {
	nw := randomScenarioOf(r, cur.Ver)
	sc := cloneScenario(cur)
	sc.Variant = nil
	sc.Ev = nw.Ev
	if r.Float64() < 0.55 {
		// change the state too: some components are swapped for the freshly drawn ones
		if r.Float64() < 0.12 {
			sc.St.Create = nw.St.Create
		}
		if r.Float64() < 0.35 {
			sc.St.PL = nw.St.PL
		}
		if r.Float64() < 0.35 {
			sc.St.JR = nw.St.JR
		}
		if r.Float64() < 0.5 {
			for _, u := range absUsers {
				if r.Float64() < 0.5 {
					sc.St.Mem[u] = nw.St.Mem[u]
				}
			}
		}
		if r.Float64() < 0.3 {
			sc.St.TPI, sc.St.TPISender = nw.St.TPI, nw.St.TPISender
		}
	}
	c09OneRoom(sc)
	if sc.Ev.Type == "create" {
		sc.St.Create.Present = false
	} else if !cur.St.Create.Present && cur.Ev.Type == "create" {
		// the step before judged a create event (no create event in the state): back to the drawn create component
		sc.St.Create = nw.St.Create
	}
	if isDomainless(sc.Ver) {
		// privileged creators are never listed in the users map of the state's power levels
		sc.St.PL.C.Users["creator"] = -1
		for _, u := range sc.St.Create.Addl {
			sc.St.PL.C.Users[u] = -1
		}
	}
	return sc
}

// c09OneRoom: the reused checker is reached through state resolution, which works on the events of one room; the
// guard against auth events of several rooms is Allowed()'s own first step (C07's subject, family structure).
func c09OneRoom(sc *authScenario) {
	sc.St.MixedRooms = false
	sc.St.Create.Room = "same"
}
