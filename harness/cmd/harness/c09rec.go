package main

// C09 code -> spec: a seeded driver runs LONG sessions of checks (8-40) through ONE reused allowerContext per room,
// driven as state resolution drives it (one provider, cleared and refilled before every check).  A session stays in
// one room version; every step either re-draws the judged event over the state of the step before, or swaps some
// components of that state (create, power levels, join rules, memberships, third-party invite) for freshly drawn
// ones.  Event objects are interned per session by their JSON, so an unchanged component is the SAME object as in
// the step before (the cache hits) and a changed one is another object - possibly under the same event ID.
// Every line logs the abstract scenario, the verdict of the reused checker and the verdict of a fresh Allowed();
// spec/Checker_trace.tla re-derives the verdict from the line ALONE (that is the property: no history).

import (
	"encoding/json"
	"fmt"
	"math/rand"
	"time"

	gmsl "github.com/matrix-org/gomatrixserverlib"
	"github.com/matrix-org/gomatrixserverlib/spec"
)

func init() {
	register("c09rec", "record sessions of checks through one reused checker as an NDJSON trace for Checker_trace.tla", func(a *args) error {
		tw, err := newTraceWriter(a.out)
		if err != nil {
			return err
		}
		rng := rand.New(rand.NewSource(a.seed))
		line := 0
		for session := 0; line < a.n; session++ {
			ver := pick(rng, AllVersions...)
			variant := int(a.seed) + session
			checkers := map[string]*gmsl.VerifChecker{}
			objects := map[string]gmsl.PDU{}
			internJSON := func(p gmsl.PDU) gmsl.PDU {
				k := p.EventID() + "\x00" + string(p.JSON())
				if q, ok := objects[k]; ok {
					return q
				}
				objects[k] = p
				return p
			}
			cur := randomScenarioOf(rng, ver)
			c09OneRoom(cur)
			steps := 8 + rng.Intn(33)
			// how the caller treats the provider and the events in this session (drawn once per session, so that the
			// random stream of the scenarios does not depend on it)
			padMode := []string{"none", "none", "after", "interleaved", "before"}[rng.Intn(5)]
			editing := rng.Intn(2) == 1
			// the caller uses the provider incrementally: no Clear between two checks whenever the next state names every
			// (type, state_key) pair the provider holds (AddEvent replaces the entries one by one)
			incremental := rng.Intn(2) == 1
			heldPairs := map[string]map[string]bool{}
			for step := 0; step < steps && line < a.n; step++ {
				if step > 0 {
					cur = c09NextScenario(rng, cur)
				}
				sc := cur
				v := variant
				sc.Variant = &v
				var fresh, sub, sel, keep bool
				selFrom := "n/a"
				r := safely(line, func() Result {
					c, err := concretise(sc, variant)
					if err != nil {
						panic(fmt.Sprintf("concretise: %v", err))
					}
					state := make([]gmsl.PDU, len(c.All))
					for j, p := range c.All {
						state[j] = internJSON(p)
					}
					room := c.Event.RoomID().String()
					if padMode != "none" && len(state) > 0 {
						// the caller hands the provider more than the needed state: state events of the types the rules name
						// under other state keys (and kinds that do not cross), each contradicting the real one
						odd := c09OddPads(sc.Ver, newAuthIDs(sc.Ver, sc.CTag), state[0].RoomID().String(), 40)
						for j := range odd {
							odd[j] = internJSON(odd[j])
						}
						var padded []gmsl.PDU
						switch padMode {
						case "after":
							padded = append(append(padded, state...), odd...)
						case "before":
							padded = append(append(padded, odd...), state...)
						default:
							for _, p := range state {
								padded = append(padded, p)
								for _, o := range odd {
									if o.Type() == p.Type() && p.StateKeyEquals("") {
										padded = append(padded, o)
									}
								}
							}
							padded = append(padded, odd[3:]...)
						}
						state = padded
					}
					ch := checkers[room]
					if ch == nil {
						ch = gmsl.NewVerifChecker(identityQuerier, c.Event.RoomID())
						checkers[room] = ch
					}
					pairs := map[string]bool{}
					for _, p := range state {
						pairs[p.Type()+"\x00"+*p.StateKey()] = true
					}
					keep = incremental && heldPairs[room] != nil
					for t := range heldPairs[room] {
						keep = keep && pairs[t]
					}
					heldPairs[room] = pairs
					var got bool
					if keep {
						got = ch.CheckKeeping(state, c.Event) == nil
					} else {
						got = ch.Check(state, c.Event) == nil
					}
					fresh, _ = runAllowed(c)
					// a fresh Allowed over exactly the state StateNeededForAuth names for the event
					needed := map[gmsl.StateKeyTuple]bool{}
					for _, t := range gmsl.StateNeededForAuth([]gmsl.PDU{c.Event}).Tuples() {
						needed[t] = true
					}
					var only []gmsl.PDU
					for _, p := range c.All {
						if needed[gmsl.StateKeyTuple{EventType: p.Type(), StateKey: *p.StateKey()}] {
							only = append(only, p)
						}
					}
					prov, err := gmsl.NewAuthEvents(only)
					if err != nil {
						panic(err)
					}
					sub = gmsl.Allowed(c.Event, prov, identityQuerier) == nil
					sel, selFrom = c09SelVerdict(sc, c, only, got, step)
					if editing {
						// between two checks the caller reads the contents of the state events through the public accessors
						// and edits what it got: its copies are its own
						c09EditAccessorResults(state)
					}
					return Result{OK: true, Got: got}
				})
				if !r.OK {
					r.I = line
					r.Extra = sc
					b, _ := json.Marshal(r)
					fmt.Println(string(b))
					// the checker may be left half-updated by the panic: the session ends here
					break
				}
				tw.emit(map[string]interface{}{"ver": sc.Ver, "st": sc.St, "ev": sc.Ev, "got": r.Got, "fresh": fresh, "sub": sub, "sel": sel,
					"selfrom": selFrom, "pad": padMode, "editing": editing, "keep": keep,
					"variant": variant, "session": session, "step": step, "key": scenarioKey(sc)})
				line++
			}
		}
		return tw.close()
	})
}

func cloneScenario(sc *authScenario) *authScenario {
	b, err := json.Marshal(sc)
	if err != nil {
		panic(err)
	}
	var d authScenario
	if err := json.Unmarshal(b, &d); err != nil {
		panic(err)
	}
	return &d
}

// c09NextScenario derives the next step of a session from the current one.
func c09NextScenario(r *rand.Rand, cur *authScenario) *authScenario {
	nw := randomScenarioOf(r, cur.Ver)
	sc := cloneScenario(cur)
	sc.Variant = nil
	sc.Ev = nw.Ev
	if r.Float64() < 0.55 {
		// change the state too: some components are swapped for the freshly drawn ones
		if r.Float64() < 0.12 {
			sc.St.Create = nw.St.Create
		}
		if r.Float64() < 0.35 {
			sc.St.PL = nw.St.PL
		}
		if r.Float64() < 0.35 {
			sc.St.JR = nw.St.JR
		}
		if r.Float64() < 0.5 {
			for _, u := range absUsers {
				if r.Float64() < 0.5 {
					sc.St.Mem[u] = nw.St.Mem[u]
				}
			}
		}
		if r.Float64() < 0.3 {
			sc.St.TPI, sc.St.TPISender = nw.St.TPI, nw.St.TPISender
		}
	}
	c09OneRoom(sc)
	if sc.Ev.Type == "create" {
		sc.St.Create.Present = false
	} else if !cur.St.Create.Present && cur.Ev.Type == "create" {
		// the step before judged a create event (no create event in the state): back to the drawn create component
		sc.St.Create = nw.St.Create
	}
	if isDomainless(sc.Ver) {
		// privileged creators are never listed in the users map of the state's power levels
		sc.St.PL.C.Users["creator"] = -1
		for _, u := range sc.St.Create.Addl {
			sc.St.PL.C.Users[u] = -1
		}
	}
	return sc
}

// c09OneRoom: the reused checker is reached through state resolution, which works on the events of one room; the
// guard against auth events of several rooms is Allowed()'s own first step (C07's subject, family structure).
func c09OneRoom(sc *authScenario) {
	sc.St.MixedRooms = false
	sc.St.Create.Room = "same"
}


// c09SelVerdict: an equivalent new event is built with AddAuthEvents over the needed state (every other step: without the
// create event where the room ID names it, as callers look the state up there) and judged, as another server would,
// against the auth events it lists.  Where no such event can be built the verdict of the line is returned.
func c09SelVerdict(sc *authScenario, c *concreteAuth, only []gmsl.PDU, got bool, step int) (bool, string) {
	if sc.Ev.Type == "create" || !sc.St.Create.Present || sc.St.Create.Room != "same" {
		return got, "n/a"
	}
	from := "the needed state"
	held := only
	if isDomainless(sc.Ver) && step%2 == 1 {
		from = "the needed state without the create event"
		held = nil
		for _, p := range only {
			if !(p.Type() == "m.room.create" && p.StateKeyEquals("")) {
				held = append(held, p)
			}
		}
	}
	prov, err := gmsl.NewAuthEvents(held)
	if err != nil {
		panic(err)
	}
	verImpl := gmsl.MustGetRoomVersion(gmsl.RoomVersion(sc.Ver))
	eb := verImpl.NewEventBuilderFromProtoEvent(&gmsl.ProtoEvent{
		SenderID: string(c.Event.SenderID()), RoomID: c.Event.RoomID().String(), Type: c.Event.Type(), StateKey: c.Event.StateKey(),
		PrevEvents: c.Event.PrevEventIDs(), Depth: 20, Content: spec.RawJSON(c.Event.Content()), Redacts: c.Event.Redacts(),
	})
	if err := eb.AddAuthEvents(prov); err != nil {
		return got, "n/a"
	}
	_, priv := keyFromSeed("c09-builder")
	built, err := eb.Build(time.Unix(1700000000, 0), spec.ServerName(domainOfID(string(c.Event.SenderID()))), "ed25519:1", priv)
	if err != nil {
		return got, "n/a"
	}
	listed := map[string]bool{}
	for _, id := range built.AuthEventIDs() { // (names the implied create event as well)
		listed[id] = true
	}
	var sel []gmsl.PDU
	for _, p := range only {
		if listed[p.EventID()] {
			sel = append(sel, p)
		}
	}
	sp, err := gmsl.NewAuthEvents(sel)
	if err != nil {
		panic(err)
	}
	return gmsl.Allowed(built, sp, identityQuerier) == nil, from
}

// c09EditAccessorResults reads the state events through the public content accessors and overwrites what they return.
func c09EditAccessorResults(state []gmsl.PDU) {
	for _, p := range state {
		if !p.StateKeyEquals("") {
			if p.Type() == "m.room.member" {
				_, _ = p.Membership()
			}
			continue
		}
		switch p.Type() {
		case "m.room.power_levels":
			for _, get := range []func() (*gmsl.PowerLevelContent, error){p.PowerLevels, func() (*gmsl.PowerLevelContent, error) {
				c, err := gmsl.NewPowerLevelContentFromEvent(p)
				return &c, err
			}} {
				c, err := get()
				if err != nil || c == nil {
					continue
				}
				c.Ban, c.Invite, c.Kick, c.Redact, c.UsersDefault, c.EventsDefault, c.StateDefault = 0, 0, 0, 0, 100, 0, 0
				for _, m := range []map[string]int64{c.Users, c.Events, c.Notifications} {
					for k := range m {
						m[k] = 0
					}
				}
				if c.Users != nil {
					for _, u := range userIDs {
						c.Users[u] = 100
					}
				}
			}
		case "m.room.join_rules":
			_, _ = p.JoinRule()
		}
	}
}
