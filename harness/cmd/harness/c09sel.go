package main

// C09 - the auth events AddAuthEvents selects (spec/CheckerSel.tla).
//   c09sel : a scenario (state, event) of the CheckerSel pool is realised; a provider is filled with the components the
//            record says the builder HOLDS (the whole state, exactly the needed state, the needed state without the create
//            event as callers look it up in room versions with an implied create event, or less); an equivalent new event
//            is built with EventBuilder.AddAuthEvents over it.  Compared with the specification:
//              * the auth events listed (Exactly), and
//              * the verdict another server reaches against the listed events plus - in room versions whose room ID names
//                the create event - that create event (Sufficient), and the verdict against what the builder held.

import (
	"encoding/json"
	"fmt"
	"sort"
	"strings"
	"time"

	gmsl "github.com/matrix-org/gomatrixserverlib"
	"github.com/matrix-org/gomatrixserverlib/spec"
)

type c09SelRec struct {
	Ver  string   `json:"ver"`
	N    int      `json:"n"`
	Have []string `json:"have"`
	Sel  []string `json:"sel"`
	Want bool     `json:"want"`
	// joined in by checks/c09.py from the pool record of the version
	St absState `json:"st"`
	Ev absEvent `json:"ev"`
}

func init() {
	register("c09sel", "replay CheckerSel.tla: the auth events AddAuthEvents lists over providers holding part of the state", func(a *args) error {
		return replayAll(a, func(i int, raw json.RawMessage) Result { return c09SelReplay(i, raw, int(a.seed)) })
	})
}

var c09AbstractUser = func() map[string]string {
	m := map[string]string{}
	for k, v := range userIDs {
		m[v] = k
	}
	return m
}()

// c09Component names the auth-state component an event of a concretised state is ("" if none).
func c09Component(p gmsl.PDU) string {
	if p.StateKey() == nil {
		return ""
	}
	switch p.Type() {
	case "m.room.create":
		if p.StateKeyEquals("") {
			return "create"
		}
	case "m.room.power_levels":
		if p.StateKeyEquals("") {
			return "pl"
		}
	case "m.room.join_rules":
		if p.StateKeyEquals("") {
			return "jr"
		}
	case "m.room.third_party_invite":
		return "tpi"
	case "m.room.member":
		if u, ok := c09AbstractUser[*p.StateKey()]; ok {
			return "m_" + u
		}
	}
	return ""
}

func c09SelReplay(i int, raw json.RawMessage, seed int) Result {
	var rec c09SelRec
	if err := json.Unmarshal(raw, &rec); err != nil {
		panic(err)
	}
	variant := seed + i
	sc := &authScenario{Ver: rec.Ver, St: rec.St, Ev: rec.Ev, Variant: &variant}
	c, err := concretise(sc, variant)
	if err != nil {
		panic(fmt.Sprintf("concretise: %v", err))
	}
	have := map[string]bool{}
	for _, h := range rec.Have {
		have[h] = true
	}
	byComp := map[string]gmsl.PDU{}
	compOfID := map[string]string{}
	var held []gmsl.PDU
	for _, p := range c.All {
		k := c09Component(p)
		if k == "" {
			panic("c09sel: state event without a component: " + p.Type())
		}
		byComp[k] = p
		compOfID[p.EventID()] = k
		if have[k] {
			held = append(held, p)
		}
	}
	// the order in which the provider was filled does not matter either
	if variant%2 == 1 {
		for l, r := 0, len(held)-1; l < r; l, r = l+1, r-1 {
			held[l], held[r] = held[r], held[l]
		}
	}
	prov, err := gmsl.NewAuthEvents(held)
	if err != nil {
		panic(err)
	}
	verImpl := gmsl.MustGetRoomVersion(gmsl.RoomVersion(rec.Ver))
	eb := verImpl.NewEventBuilderFromProtoEvent(&gmsl.ProtoEvent{
		SenderID: string(c.Event.SenderID()), RoomID: c.Event.RoomID().String(), Type: c.Event.Type(), StateKey: c.Event.StateKey(),
		PrevEvents: c.Event.PrevEventIDs(), Depth: 20, Content: spec.RawJSON(c.Event.Content()), Redacts: c.Event.Redacts(),
	})
	key := scenarioKey(sc)
	neededTuple := map[gmsl.StateKeyTuple]bool{}
	for _, t := range gmsl.StateNeededForAuth([]gmsl.PDU{c.Event}).Tuples() {
		neededTuple[t] = true
	}
	// the NEEDED components the room has and the provider lacks (what else it lacks or holds cannot matter)
	lacks := func() string {
		var l []string
		for _, t := range []string{"create", "jr", "pl", "m_alice", "m_bob", "m_carol", "m_creator", "tpi"} {
			if p := byComp[t]; !have[t] && p != nil && neededTuple[gmsl.StateKeyTuple{EventType: p.Type(), StateKey: *p.StateKey()}] {
				l = append(l, t)
			}
		}
		if len(l) == 0 {
			return "nothing"
		}
		return strings.Join(l, "+")
	}()
	if err := eb.AddAuthEvents(prov); err != nil {
		return Result{OK: false, Key: fmt.Sprintf("C09/select/error/%s", key), What: fmt.Sprintf("AddAuthEvents fails for %s in room version %s over a provider lacking %s: %v", key, rec.Ver, lacks, err)}
	}
	_, priv := keyFromSeed("c09-builder")
	built, err := eb.Build(time.Unix(1700000000, 0), spec.ServerName(domainOfID(string(c.Event.SenderID()))), "ed25519:1", priv)
	if err != nil {
		panic(fmt.Sprintf("c09sel: Build: %v", err))
	}
	// what the built event lists, as written into its JSON (AuthEventIDs() adds the implied create event again)
	var fields struct {
		AuthEvents []json.RawMessage `json:"auth_events"`
	}
	if err := json.Unmarshal(built.JSON(), &fields); err != nil {
		panic(err)
	}
	var listed []string
	for _, r := range fields.AuthEvents {
		var id string
		if json.Unmarshal(r, &id) != nil {
			var pair []json.RawMessage
			if json.Unmarshal(r, &pair) != nil || len(pair) == 0 || json.Unmarshal(pair[0], &id) != nil {
				panic("c09sel: auth_events entry of unknown form: " + string(r))
			}
		}
		k, ok := compOfID[id]
		if !ok {
			k = "unknown:" + id
		}
		listed = append(listed, k)
	}
	got := append([]string{}, listed...)
	want := append([]string{}, rec.Sel...)
	sort.Strings(got)
	sort.Strings(want)
	if strings.Join(got, ",") != strings.Join(want, ",") {
		diff := func(a, b []string) string {
			in := map[string]bool{}
			for _, x := range b {
				in[x] = true
			}
			var d []string
			for _, x := range a {
				if !in[x] {
					d = append(d, x)
				}
			}
			if len(d) == 0 {
				return "nothing"
			}
			return strings.Join(d, "+")
		}
		return Result{OK: false, Key: fmt.Sprintf("C09/select/listed/%s/provider-lacks=%s/lost=%s/extra=%s", key, lacks, diff(want, got), diff(got, want)),
			Want: want, Got: got,
			What: fmt.Sprintf("AddAuthEvents for %s in room version %s over a provider that, of the needed state, lacks %s lists %v; the specification (the held events for the needed (type, state_key) pairs, without the create event where the room ID implies it) says %v",
				key, rec.Ver, lacks, listed, rec.Sel)}
	}
	// the verdict of another server: the listed events plus the create event the room ID implies
	var other []gmsl.PDU
	if isDomainless(rec.Ver) && byComp["create"] != nil {
		other = append(other, byComp["create"])
	}
	local := append([]gmsl.PDU{}, other...)
	for _, k := range listed {
		if p := byComp[k]; p != nil && !(isDomainless(rec.Ver) && k == "create") {
			other = append(other, p)
		}
	}
	for _, p := range held {
		if !(isDomainless(rec.Ver) && compOfID[p.EventID()] == "create") {
			local = append(local, p)
		}
	}
	for _, v := range []struct {
		who   string
		state []gmsl.PDU
	}{{"another server (the listed auth events)", other}, {"the building server (what its provider held)", local}} {
		p, err := gmsl.NewAuthEvents(v.state)
		if err != nil {
			panic(err)
		}
		if g := gmsl.Allowed(built, p, identityQuerier) == nil; g != rec.Want {
			return Result{OK: false, Key: fmt.Sprintf("C09/select/verdict/%s/provider-lacks=%s/model=%v", key, lacks, rec.Want), Want: rec.Want, Got: g,
				What: fmt.Sprintf("event built with AddAuthEvents (%s, room version %s, provider lacking %s, listed %v): %s says allowed=%v, the specification says %v",
					key, rec.Ver, lacks, listed, v.who, g, rec.Want)}
		}
	}
	return Result{OK: true, NT: fmt.Sprintf("%s|%d|lacks=%s", rec.Ver, rec.N, lacks)}
}
