package main

// Shared helpers to build real PDUs with freely chosen event IDs in every room version
// (IRoomVersion.NewEventFromTrustedJSONWithEventID), used by the auth, checker and
// state-resolution harnesses.

import (
	"encoding/json"
	"fmt"
	"strings"

	gmsl "github.com/matrix-org/gomatrixserverlib"
	"github.com/matrix-org/gomatrixserverlib/spec"
)

// AllVersions lists every room version identifier registered in eventversion.go.
var AllVersions = []string{"1", "2", "3", "4", "5", "6", "7", "8", "9", "10", "11", "12",
	"org.matrix.msc3667", "org.matrix.msc3787", "org.matrix.msc4014", "org.matrix.hydra.11"}

func isDomainless(ver string) bool { return ver == "12" || ver == "org.matrix.hydra.11" }
func isFormatV1(ver string) bool   { return ver == "1" || ver == "2" }

// eventSpec describes one concrete event.
type eventSpec struct {
	Ver      string
	ID       string // full event ID including sigil
	RoomID   string // "" => omit room_id (v12 create)
	Type     string
	StateKey *string
	Sender   string
	Content  interface{} // marshalled with encoding/json unless json.RawMessage
	Prev     []string
	Auth     []string
	Depth    int64
	TS       int64
	Redacts  string
	Extra    map[string]interface{}
}

func strp(s string) *string { return &s }

func (e *eventSpec) json() []byte {
	m := map[string]interface{}{
		"type":             e.Type,
		"sender":           e.Sender,
		"content":          e.Content,
		"depth":            e.Depth,
		"origin_server_ts": e.TS,
	}
	if e.RoomID != "" {
		m["room_id"] = e.RoomID
	}
	if e.StateKey != nil {
		m["state_key"] = *e.StateKey
	}
	if e.Redacts != "" {
		m["redacts"] = e.Redacts
	}
	if e.Content == nil {
		m["content"] = map[string]interface{}{}
	}
	prev := e.Prev
	if prev == nil {
		prev = []string{}
	}
	auth := e.Auth
	if auth == nil {
		auth = []string{}
	}
	if isFormatV1(e.Ver) {
		m["event_id"] = e.ID
		m["prev_events"] = refsV1(prev)
		m["auth_events"] = refsV1(auth)
	} else {
		m["prev_events"] = prev
		m["auth_events"] = auth
	}
	for k, v := range e.Extra {
		m[k] = v
	}
	b, err := json.Marshal(m)
	if err != nil {
		panic(err)
	}
	return b
}

func refsV1(ids []string) []interface{} {
	out := make([]interface{}, 0, len(ids))
	for _, id := range ids {
		out = append(out, []interface{}{id, map[string]string{}})
	}
	return out
}

// build parses the event as trusted JSON with the chosen event ID.
func (e *eventSpec) build() (gmsl.PDU, error) {
	v, err := gmsl.GetRoomVersion(gmsl.RoomVersion(e.Ver))
	if err != nil {
		return nil, err
	}
	return v.NewEventFromTrustedJSONWithEventID(e.ID, e.json(), false)
}

func (e *eventSpec) mustBuild() gmsl.PDU {
	p, err := e.build()
	if err != nil {
		panic(fmt.Sprintf("harness: cannot build event %s: %v: %s", e.ID, err, e.json()))
	}
	return p
}

// eventID43 builds a "$"+43 URL-safe characters ID from a short tag (needed for v12 room IDs).
func eventID43(tag string) string {
	t := strings.Map(func(r rune) rune {
		switch {
		case r >= 'a' && r <= 'z', r >= 'A' && r <= 'Z', r >= '0' && r <= '9', r == '_', r == '-':
			return r
		}
		return '_'
	}, tag)
	if len(t) > 43 {
		t = t[:43]
	}
	return "$" + t + strings.Repeat("A", 43-len(t))
}

// identityQuerier maps a sender ID that is a user ID to that user ID (as the library's own tests do).
func identityQuerier(roomID spec.RoomID, senderID spec.SenderID) (*spec.UserID, error) {
	return spec.NewUserID(string(senderID), true)
}
