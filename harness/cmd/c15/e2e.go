package main

// End-to-end handshakes: J's real PerformJoin wired to R's real HandleMakeJoin / HandleSendJoin through an
// in-process FederatedJoinClient that plays the adversarial network of Handshake.tla (Forge actions, chosen by
// TLC or by a seeded generator).  make_leave and invite handshakes are request / response pairs against the
// real HandleMakeLeave / HandleInvite.  Every message and every handler outcome is logged as one trace line
// per action of the specification.

import (
	"context"
	"encoding/json"
	"errors"
	"fmt"
	"math/rand"
	"strings"
	"time"

	gmsl "github.com/matrix-org/gomatrixserverlib"
	"github.com/matrix-org/gomatrixserverlib/fclient"
	"github.com/matrix-org/gomatrixserverlib/spec"
	"github.com/tidwall/gjson"
	"github.com/tidwall/sjson"
)

// Forge is one adversary action.
type Forge struct {
	At     string `json:"at"`
	F      string `json:"f"`
	V      string `json:"v"`
	Resign bool   `json:"resign"`
}

// Plan is one behaviour to run: scenario and the forgeries in order.  With Rng set the forgeries are chosen
// on the fly (and recorded in Forges).
type Plan struct {
	Run    int     `json:"run"`
	Flow   string  `json:"flow"`
	Sc     Sc      `json:"sc"`
	Forges []Forge `json:"forges"`
}

type line map[string]interface{}

type step struct {
	A     string
	O     outcome
	Built bool
}

type runner struct {
	plan      Plan
	w         *world
	rng       *rand.Rand // nil: planned forgeries
	maxF      int
	done      map[string]bool // at.f already forged
	next      int             // next planned forgery
	lines     []line
	steps     []step
	sent      bool // SendJoin was called
	made      bool // MakeJoin was called
	quiet     bool // the adversary leaves the rest of the run alone (the retry)
	unreached string
}

func (r *runner) log(a string, kv ...interface{}) {
	l := line{"run": r.plan.Run, "a": a}
	for i := 0; i+1 < len(kv); i += 2 {
		l[kv[i].(string)] = kv[i+1]
	}
	r.lines = append(r.lines, l)
}

// forgeTable mirrors ForgeTable of Handshake.tla (the trace specification rejects anything else).
var forgeTable = map[string][][2]string{
	"mjreq": {{"origin", "X"}, {"usrv", "X"}, {"usrv", "R"}, {"vers", "lacks"}, {"vers", "none"}, {"room", "other"}},
	"mjresp": {{"res", "ok"}, {"ver", "unknown"}, {"t_type", "other"}, {"t_mship", "leave"}, {"t_ssrv", "X"}, {"t_room", "other"},
		{"t_via", "remote"}, {"t_via", "none"}, {"t_via", "local"}, {"t_auth", "nocreate"}},
	"sjreq": {{"origin", "X"}, {"room", "other"}, {"eid", "other"}, {"e_type", "other"}, {"e_mship", "leave"}, {"e_skey", "other"},
		{"e_ssrv", "X"}, {"e_room", "other"}, {"e_via", "remote"}, {"e_via", "local"}, {"e_sig", "none"}, {"e_sig", "wrongkey"}, {"e_sig", "other"}},
	"sjresp": {{"create", "missing"}, {"create", "unknownver"}, {"create", "badsig"}, {"create", "nochain"}, {"st", "dup"}, {"st", "dupmem"},
		{"st", "nokey"}, {"st", "nocreate"}, {"jrsig", "bad"}, {"ban", "yes"}, {"jret", "absent"}, {"jret", "notjoin"}, {"jret", "malformed"}},
	"mlreq": {{"origin", "X"}, {"usrv", "X"}, {"room", "other"}},
	"invreq": {{"room", "other"}, {"e_type", "other"}, {"e_mship", "join"}, {"e_skey", "otherlocal"}, {"e_skey", "sender"}, {"e_ssrv", "R"},
		{"e_room", "other"}, {"e_sig", "none"}, {"e_sig", "wrongkey"}, {"e_sig", "other"}},
}

func resignable(f string) bool {
	switch f {
	case "e_type", "e_mship", "e_skey", "e_ssrv", "e_room", "e_via":
		return true
	}
	return false
}

func viaSigned(ver string) bool {
	switch ver {
	case "9", "10", "11", "12", "org.matrix.msc3787", "org.matrix.msc4014", "org.matrix.hydra.11":
		return true
	}
	return false
}

func currentValue(m *Msg, f string) string {
	switch f {
	case "origin":
		return m.Origin
	case "usrv":
		return m.Usrv
	case "vers":
		return m.Vers
	case "room":
		return m.Room
	case "eid":
		return m.Eid
	case "res":
		return m.Res
	case "ver":
		return m.Ver
	case "create":
		return m.Create
	case "st":
		return m.St
	case "jrsig":
		return m.Jrsig
	case "ban":
		return m.Ban
	case "jret":
		return m.Jret
	}
	var e *AbsEv
	if strings.HasPrefix(f, "t_") {
		e = m.Tmpl
	} else {
		e = m.Ev
	}
	if e == nil {
		return ""
	}
	switch f[2:] {
	case "type":
		return e.Type
	case "mship":
		return e.Mship
	case "skey":
		return e.Skey
	case "ssrv":
		return e.Ssrv
	case "room":
		return e.Room
	case "via":
		return e.Via
	case "sig":
		return e.Sig
	case "auth":
		return e.Auth
	}
	return ""
}

// forgeable mirrors Forgeable / the guard of Forge in Handshake.tla.
func (r *runner) forgeable(m *Msg, f, v string, resign bool) bool {
	if r.done[m.K+"."+f] || currentValue(m, f) == v {
		return false
	}
	if (f == "e_mship" || f == "e_via") && !resign && m.Ev.Type != "member" {
		return false // content keys are covered by the signatures of membership events only
	}
	if m.K == "mjreq" && (f == "origin" || f == "usrv") {
		o, u := m.Origin, m.Usrv
		if f == "origin" {
			o = v
		} else {
			u = v
		}
		if o == u && u != "J" {
			return false // another server's own handshake: see ForgeGuard
		}
	}
	switch f {
	case "t_type", "t_mship", "t_ssrv", "t_room", "t_via", "ver", "create", "st", "ban", "jret":
		return m.Res == "ok"
	case "t_auth":
		return m.Res == "ok" && !domainless(r.plan.Sc.Ver)
	case "res":
		return m.Res == "refused"
	case "jrsig":
		return m.Res == "ok" && r.plan.Sc.JR != "none"
	case "e_via":
		return viaSigned(r.plan.Sc.Ver)
	}
	return true
}

// forgeries returns the forgeries to apply to the message in flight now.
func (r *runner) forgeries(m *Msg) []Forge {
	var out []Forge
	if r.quiet {
		return nil
	}
	if r.rng == nil {
		for r.next < len(r.plan.Forges) && r.plan.Forges[r.next].At == m.K {
			out = append(out, r.plan.Forges[r.next])
			r.next++
		}
		return out
	}
	return nil // random mode picks one at a time: see pick
}

// pick chooses one more random forgery for the message as it is now (nil: stop).
func (r *runner) pick(m *Msg) *Forge {
	if r.rng == nil || r.quiet || len(r.plan.Forges) >= r.maxF || len(r.plan.Forges) >= r.plan.Sc.FB || r.rng.Intn(100) >= 35 {
		return nil
	}
	var cands []Forge
	for _, fv := range forgeTable[m.K] {
		rs := []bool{false}
		if resignable(fv[0]) {
			rs = []bool{false, true}
		}
		for _, resign := range rs {
			if r.forgeable(m, fv[0], fv[1], resign) {
				cands = append(cands, Forge{At: m.K, F: fv[0], V: fv[1], Resign: resign})
			}
		}
	}
	if len(cands) == 0 {
		return nil
	}
	f := &cands[r.rng.Intn(len(cands))]
	r.plan.Forges = append(r.plan.Forges, *f)
	return f
}

// adversary runs all forgeries on the message in flight; apply does the concrete rewriting and returns the
// message as it can be observed afterwards.
func (r *runner) adversary(m *Msg, apply func(f Forge) *Msg) *Msg {
	do := func(f Forge) {
		r.done[m.K+"."+f.F] = true
		m = apply(f)
		r.log("Forge", "at", f.At, "f", f.F, "v", f.V, "resign", f.Resign, "msg", m)
	}
	for _, f := range r.forgeries(m) {
		do(f)
	}
	for {
		f := r.pick(m)
		if f == nil {
			break
		}
		do(*f)
	}
	return m
}

// ---------------------------------------------------------------------------------------------------
// join: the FederatedJoinClient

type netError struct{ what string }

func (e netError) Error() string { return "c15 remote refused: " + e.what }

func (r *runner) MakeJoin(ctx context.Context, origin, s spec.ServerName, roomID, userID string) (gmsl.MakeJoinResponse, error) {
	if r.made {
		panic("c15: MakeJoin called twice")
	}
	r.made = true
	w := r.w
	req := &Msg{K: "mjreq", Origin: serverClass(origin), Usrv: serverClass(spec.ServerName(domainOf(userID))), Vers: "has", Room: w.roomClass(roomID)}
	if s != servers["R"].name || userID != userOf(req.Usrv) {
		panic("c15: unexpected make_join target")
	}
	r.log("MakeJoinReq", "msg", req)
	req = r.adversary(req, func(f Forge) *Msg {
		q := *req
		switch f.F {
		case "origin":
			q.Origin = f.V
		case "usrv":
			q.Usrv = f.V
		case "vers":
			q.Vers = f.V
		case "room":
			q.Room = f.V
		}
		req = &q
		return req
	})
	// R handles the request as it arrives (facts about the user asked for)
	rw := w
	if userOf(req.Usrv) != w.user {
		rw = newWorld(w.sc, userOf(req.Usrv))
	}
	o := rw.callMakeJoin(req)
	r.steps = append(r.steps, step{A: "MakeJoinResp", O: o})
	tmpl := &AbsEv{Type: "none"}
	if o.Res == "ok" {
		tmpl = o.Tmpl
	}
	r.log("MakeJoinResp", "res", o.Res, "code", o.Code, "tmpl", tmpl, "note", o.Note)

	resp := &Msg{K: "mjresp", Res: o.Res, Ver: "same", Tmpl: tmpl}
	var wire fclient.RespMakeJoin
	if o.Res == "ok" {
		wire = fclient.RespMakeJoin{JoinEvent: o.Extra["proto"].(gmsl.ProtoEvent), RoomVersion: w.ver}
	}
	resp = r.adversary(resp, func(f Forge) *Msg {
		m := *resp
		switch f.F {
		case "res":
			// a fabricated acceptance: a plain join template of U over the current state
			u := userOf("J")
			wire = fclient.RespMakeJoin{RoomVersion: w.ver, JoinEvent: gmsl.ProtoEvent{SenderID: u, RoomID: w.room, Type: spec.MRoomMember,
				StateKey: strp(u), Content: []byte(`{"membership":"join"}`), Depth: w.depth + 1, PrevEvents: []string{w.last},
				AuthEvents: w.authFor(w.create, w.pl, w.jr, w.members[u])}}
			m.Res = "ok"
		case "ver":
			wire.RoomVersion = "c15.unknown.version"
			m.Ver = "unknown"
		case "t_type":
			wire.JoinEvent.Type = otherType
		case "t_mship":
			wire.JoinEvent.Content = mustSet(wire.JoinEvent.Content, "membership", f.V)
		case "t_ssrv":
			wire.JoinEvent.SenderID = userOf(f.V)
			wire.JoinEvent.StateKey = strp(userOf(f.V))
		case "t_room":
			wire.JoinEvent.RoomID = w.roomID(f.V)
		case "t_via":
			if f.V == "none" {
				c, err := sjson.DeleteBytes(wire.JoinEvent.Content, "join_authorised_via_users_server")
				if err != nil {
					panic(err)
				}
				wire.JoinEvent.Content = c
			} else {
				wire.JoinEvent.Content = mustSet(wire.JoinEvent.Content, "join_authorised_via_users_server", viaUser(f.V))
			}
		case "t_auth":
			wire.JoinEvent.AuthEvents = dropID(wire.JoinEvent.AuthEvents, w.create.EventID())
		}
		if m.Res == "ok" {
			t := w.projectTemplate(wire.JoinEvent)
			m.Tmpl = &t
		}
		resp = &m
		return resp
	})
	if resp.Res != "ok" {
		return nil, netError{o.Code}
	}
	// over the wire
	b, err := json.Marshal(wire)
	if err != nil {
		panic(err)
	}
	var got fclient.RespMakeJoin
	if err := json.Unmarshal(b, &got); err != nil {
		panic(err)
	}
	return &got, nil
}

func mustSet(content []byte, key string, v interface{}) []byte {
	if len(content) == 0 {
		content = []byte(`{}`)
	}
	c, err := sjson.SetBytes(content, key, v)
	if err != nil {
		panic(err)
	}
	return c
}

// dropID removes an event ID from an auth_events value ([]string, []interface{} or event references).
func dropID(auth interface{}, id string) interface{} {
	b, err := json.Marshal(auth)
	if err != nil {
		panic(err)
	}
	out := []json.RawMessage{}
	gjson.ParseBytes(b).ForEach(func(_, v gjson.Result) bool {
		got := v.String()
		if v.IsArray() && len(v.Array()) > 0 {
			got = v.Array()[0].String()
		}
		if got != id {
			out = append(out, json.RawMessage(v.Raw))
		}
		return true
	})
	var res []interface{}
	if err := json.Unmarshal(mustJSON(out), &res); err != nil {
		panic(err)
	}
	if res == nil {
		res = []interface{}{}
	}
	return res
}

func (r *runner) SendJoin(ctx context.Context, origin, s spec.ServerName, event gmsl.PDU) (gmsl.SendJoinResponse, error) {
	if r.sent {
		panic("c15: SendJoin called twice")
	}
	r.sent = true
	w := r.w
	built := w.projectEvent(event.JSON(), "join")
	r.steps = append(r.steps, step{A: "BuildJoin", Built: true})
	r.log("BuildJoin", "built", true, "ev", built)

	// the request as the federation client composes it: path room and event ID are the event's own
	call := sendJoinCall{origin: origin, room: event.RoomID().String(), eventID: event.EventID(), event: event.JSON()}
	project := func() *Msg {
		e := w.projectEvent(call.event, "join")
		eid := "other"
		if call.eventID == w.eventIDOf(call.event) {
			eid = "match"
		}
		return &Msg{K: "sjreq", Origin: serverClass(call.origin), Room: w.roomClass(call.room), Eid: eid, Ev: &e}
	}
	req := project()
	r.log("SendJoinReq", "msg", req)
	req = r.adversary(req, func(f Forge) *Msg {
		switch f.F {
		case "origin":
			call.origin = servers[f.V].name
		case "room":
			call.room = w.roomID(f.V)
		case "eid":
			call.eventID = w.anotherEventID()
		default:
			follows := call.eventID == w.eventIDOf(call.event)
			call.event = w.forgeEvent(call.event, f, "join")
			if f.Resign && follows {
				call.eventID = w.eventIDOf(call.event)
			}
		}
		return project()
	})
	rw := w
	if u := gjson.GetBytes(call.event, "sender").String(); u != w.user && domainOf(u) != "" {
		if _, ok := servers[serverClass(spec.ServerName(domainOf(u)))]; ok && u == userOf(serverClass(spec.ServerName(domainOf(u)))) {
			rw = newWorld(w.sc, u)
		}
	}
	o := rw.callSendJoin(call)
	r.steps = append(r.steps, step{A: "SendJoinResp", O: o})
	r.log("SendJoinResp", "res", o.Res, "code", o.Code, "rsig", o.RSig, "same", o.Same, "note", o.Note)

	resp := &Msg{K: "sjresp", Res: o.Res, Jret: "absent", Create: "ok", St: "ok", Jrsig: "ok", Ban: "no"}
	var wire fclient.RespSendJoin
	if o.Res == "ok" {
		resp.Jret = "signed"
		wire = fclient.RespSendJoin{Origin: servers["R"].name, Event: []byte(o.Extra["returned"].(json.RawMessage))}
		for _, e := range w.state(true) {
			wire.StateEvents = append(wire.StateEvents, e.JSON())
			wire.AuthEvents = append(wire.AuthEvents, e.JSON())
		}
		for _, e := range w.extraAuth {
			wire.AuthEvents = append(wire.AuthEvents, e.JSON())
		}
	}
	resp = r.adversary(resp, func(f Forge) *Msg {
		m := *resp
		w.forgeSendJoinResp(&wire, f)
		switch f.F {
		case "create":
			m.Create = f.V
		case "st":
			m.St = f.V
		case "jrsig":
			m.Jrsig = f.V
		case "ban":
			m.Ban = f.V
		case "jret":
			m.Jret = f.V
		}
		resp = &m
		return resp
	})
	if resp.Res != "ok" {
		return nil, netError{o.Code}
	}
	b, err := json.Marshal(wire)
	if err != nil {
		panic(err)
	}
	var got fclient.RespSendJoin
	if err := json.Unmarshal(b, &got); err != nil {
		panic(err)
	}
	return &got, nil
}

// forgeEvent rewrites one field of an event in flight.  resign: the event is rebuilt and signed by the server of
// its (new) sender; otherwise the JSON is edited in place and the signatures are left as they are.
func (w *world) forgeEvent(js []byte, f Forge, kind string) []byte {
	var err error
	sender := gjson.GetBytes(js, "sender").String()
	if f.F == "e_sig" {
		S := serverOfUser(sender)
		switch f.V {
		case "none":
			js, err = sjson.SetRawBytes(js, "signatures", []byte(`{}`))
			if err != nil {
				panic(err)
			}
			return js
		case "wrongkey":
			ev, err := w.impl.NewEventFromTrustedJSON(js, false)
			if err != nil {
				panic(err)
			}
			return ev.Sign(string(S.name), S.keyID, S.wrong).JSON()
		case "other":
			js, err = sjson.SetRawBytes(js, "signatures", []byte(`{}`))
			if err != nil {
				panic(err)
			}
			ev, err := w.impl.NewEventFromTrustedJSON(js, false)
			if err != nil {
				panic(err)
			}
			o := servers["X"]
			if S == o {
				o = servers["J"]
			}
			return ev.Sign(string(o.name), o.keyID, o.priv).JSON()
		}
		panic("c15: unknown signature forgery " + f.V)
	}
	if f.Resign {
		abs := w.projectEvent(js, kind)
		switch f.F {
		case "e_type":
			abs.Type = f.V
		case "e_mship":
			abs.Mship = f.V
		case "e_skey":
			abs.Skey = f.V
		case "e_ssrv":
			abs.Ssrv = f.V
		case "e_room":
			abs.Room = f.V
		case "e_via":
			abs.Via = f.V
		}
		abs.Sig = "valid"
		return w.concreteEvent(abs, time.Now())
	}
	switch f.F {
	case "e_type":
		js, err = sjson.SetBytes(js, "type", otherType)
	case "e_mship":
		js, err = sjson.SetBytes(js, "content.membership", f.V)
	case "e_skey":
		js, err = sjson.SetBytes(js, "state_key", *stateKeyFor(f.V, sender))
	case "e_ssrv":
		if gjson.GetBytes(js, "state_key").String() == sender {
			if js, err = sjson.SetBytes(js, "state_key", userOf(f.V)); err != nil {
				panic(err)
			}
		}
		js, err = sjson.SetBytes(js, "sender", userOf(f.V))
	case "e_room":
		js, err = sjson.SetBytes(js, "room_id", w.roomID(f.V))
	case "e_via":
		js, err = sjson.SetBytes(js, "content.join_authorised_via_users_server", viaUser(f.V))
	default:
		panic("c15: unknown event forgery " + f.F)
	}
	if err != nil {
		panic(err)
	}
	return js
}

func (w *world) indexOf(list gmsl.EventJSONs, id string) int {
	for i, js := range list {
		if w.eventIDOf(js) == id {
			return i
		}
	}
	return -1
}

func (w *world) corruptSig(js []byte) []byte {
	ev, err := w.impl.NewEventFromTrustedJSON(js, false)
	if err != nil {
		panic(err)
	}
	R := servers["R"]
	return ev.Sign(string(R.name), R.keyID, R.wrong).JSON()
}

// forgeSendJoinResp rewrites the send_join response on the wire.
func (w *world) forgeSendJoinResp(wire *fclient.RespSendJoin, f Forge) {
	R := servers["R"]
	mc := w.members[userC]
	replaceBoth := func(id string, with []byte) {
		if i := w.indexOf(wire.AuthEvents, id); i >= 0 {
			wire.AuthEvents[i] = with
		}
		if i := w.indexOf(wire.StateEvents, id); i >= 0 {
			wire.StateEvents[i] = with
		}
	}
	switch f.F + "=" + f.V {
	case "create=missing":
		if i := w.indexOf(wire.AuthEvents, w.create.EventID()); i >= 0 {
			wire.AuthEvents = append(wire.AuthEvents[:i:i], wire.AuthEvents[i+1:]...)
		}
	case "create=unknownver":
		room := w.room
		if domainless(string(w.ver)) {
			room = ""
		}
		fake, err := w.buildEvent(room, spec.MRoomCreate, strp(""), userC, map[string]interface{}{"creator": userC, "room_version": "c15.unknown.version"},
			nil, nil, 1, t0, R, R.priv)
		if err != nil {
			panic(err)
		}
		replaceBoth(w.create.EventID(), fake.JSON())
	case "create=badsig":
		replaceBoth(w.create.EventID(), w.corruptSig(w.create.JSON()))
	case "st=dup":
		dup, err := w.buildEvent(w.room, spec.MRoomPowerLevels, strp(""), userC, json.RawMessage(w.pl.Content()), w.authFor(w.create, w.pl, mc),
			[]string{w.last}, w.depth+2, t0.Add(time.Hour), R, R.priv)
		if err != nil {
			panic(err)
		}
		wire.StateEvents = append(wire.StateEvents, dup.JSON())
	case "st=dupmem": // two membership events of the joining user
		u := userOf("J")
		n := 1
		if w.members[u] == nil || w.indexOf(wire.StateEvents, w.members[u].EventID()) < 0 {
			n = 2
		}
		for i := 0; i < n; i++ {
			lv, err := w.buildEvent(w.room, spec.MRoomMember, strp(u), u, map[string]string{"membership": "leave"}, w.authFor(w.create, w.pl, w.jr),
				[]string{w.last}, w.depth+2+int64(i), t0.Add(time.Hour), servers["J"], servers["J"].priv)
			if err != nil {
				panic(err)
			}
			wire.StateEvents = append(wire.StateEvents, lv.JSON())
		}
	case "st=nocreate": // the state list (not the auth chain) lacks the create event
		if i := w.indexOf(wire.StateEvents, w.create.EventID()); i >= 0 {
			wire.StateEvents = append(wire.StateEvents[:i:i], wire.StateEvents[i+1:]...)
		}
	case "create=nochain":
		wire.AuthEvents = nil
	case "jret=malformed":
		wire.Event = []byte(`{"type":"m.room.member","content":"c15","state_key":5}`)
	case "st=nokey":
		msg, err := w.buildEvent(w.room, "m.room.message", nil, userC, map[string]string{"msgtype": "m.text", "body": "c15"}, w.authFor(w.create, w.pl, mc),
			[]string{w.last}, w.depth+2, t0.Add(time.Hour), R, R.priv)
		if err != nil {
			panic(err)
		}
		wire.StateEvents = append(wire.StateEvents, msg.JSON())
	case "jrsig=bad":
		replaceBoth(w.jr.EventID(), w.corruptSig(w.jr.JSON()))
	case "ban=yes":
		u := userOf("J")
		ban, err := w.buildEvent(w.room, spec.MRoomMember, strp(u), userC, map[string]string{"membership": "ban"}, w.authFor(w.create, w.pl, mc),
			[]string{w.last}, w.depth+2, t0.Add(time.Hour), R, R.priv)
		if err != nil {
			panic(err)
		}
		if cur := w.members[u]; cur != nil {
			if i := w.indexOf(wire.StateEvents, cur.EventID()); i >= 0 {
				wire.StateEvents[i] = ban.JSON()
				return
			}
		}
		wire.StateEvents = append(wire.StateEvents, ban.JSON())
	case "jret=absent":
		wire.Event = nil
	case "jret=notjoin":
		u := userOf("J")
		lv, err := w.buildEvent(w.room, spec.MRoomMember, strp(u), u, map[string]string{"membership": "leave"}, w.authFor(w.create, w.pl, w.jr),
			[]string{w.last}, w.depth+2, t0.Add(time.Hour), servers["J"], servers["J"].priv)
		if err != nil {
			panic(err)
		}
		wire.Event = lv.JSON()
	default:
		panic("c15: unknown response forgery " + f.F + "=" + f.V)
	}
}

// ---------------------------------------------------------------------------------------------------
// the three flows

func (r *runner) runJoin() {
	J := servers["J"]
	uid := mustUserID(userOf("J"))
	rid := mustRoomID(r.w.room)
	in := gmsl.PerformJoinInput{
		UserID:        &uid,
		RoomID:        &rid,
		ServerName:    servers["R"].name,
		PrivateKey:    J.priv,
		KeyID:         J.keyID,
		KeyRing:       keyRing(nil),
		EventProvider: func(roomVer gmsl.RoomVersion, eventIDs []string) ([]gmsl.PDU, error) { return nil, nil },
		UserIDQuerier: userIDQuerier("ok"),
		GetOrCreateSenderID: func(ctx context.Context, userID spec.UserID, roomID spec.RoomID, roomVersion string) (spec.SenderID, ed25519PrivateKey, error) {
			return "", nil, errors.New("c15: no pseudo IDs here")
		},
		StoreSenderIDFromPublicID: func(ctx context.Context, senderID spec.SenderID, userID string, id spec.RoomID) error { return nil },
	}
	for attempt := 0; ; attempt++ {
		if r.joinOnce(in) != "refused" || !r.plan.Sc.Retry || attempt > 0 {
			return
		}
		// the same input again; the network leaves the second attempt alone
		r.log("Retry")
		r.made, r.sent, r.quiet = false, false, true
	}
}

func (r *runner) joinOnce(in gmsl.PerformJoinInput) string {
	res, ferr := gmsl.PerformJoin(context.Background(), r, in)
	o := outcome{Res: "ok"}
	if ferr != nil {
		o = outcome{Res: "refused", Code: "error", Err: ferr.Error()}
	} else if res == nil || res.JoinEvent == nil {
		o = outcome{Res: "refused", Code: "nil", Err: "nil response without error"}
	} else {
		m, _ := res.JoinEvent.Membership()
		if m != spec.Join || !res.JoinEvent.StateKeyEquals(userOf("J")) {
			o.Note = fmt.Sprintf("PerformJoin returned a %q event for %v", m, res.JoinEvent.StateKey())
		}
	}
	if !r.sent {
		r.steps = append(r.steps, step{A: "BuildJoin", Built: false, O: o})
		r.log("BuildJoin", "built", false, "ev", AbsEv{Type: "none"}, "pj", o.Res)
		return o.Res
	}
	r.steps = append(r.steps, step{A: "JoinDone", O: o})
	r.log("JoinDone", "res", o.Res, "err", o.Err, "note", o.Note)
	return o.Res
}

func (r *runner) runLeave() {
	w := r.w
	req := &Msg{K: "mlreq", Origin: "J", Usrv: "J", Room: "main"}
	r.log("MakeLeaveReq", "msg", req)
	req = r.adversary(req, func(f Forge) *Msg {
		q := *req
		switch f.F {
		case "origin":
			q.Origin = f.V
		case "usrv":
			q.Usrv = f.V
		case "room":
			q.Room = f.V
		}
		req = &q
		return req
	})
	rw := w
	if userOf(req.Usrv) != w.user {
		rw = newWorld(w.sc, userOf(req.Usrv))
	}
	o := rw.callMakeLeave(req)
	r.steps = append(r.steps, step{A: "MakeLeaveResp", O: o})
	tmpl := &AbsEv{Type: "none"}
	if o.Res == "ok" {
		tmpl = o.Tmpl
	}
	r.log("MakeLeaveResp", "res", o.Res, "code", o.Code, "tmpl", tmpl, "note", o.Note)
}

// runInvite: J's real PerformInvite (its user P, joined and entitled, invites a user of R) sends the invite through
// this runner to R's real HandleInvite.
func (r *runner) runInvite() {
	sc := r.plan.Sc
	sc.Mem = "none" // J's view of the room: the invited user is not a member (R's own view is the scenario's)
	jw := newWorld(sc, userInvitee)
	J := servers["J"]
	in := gmsl.PerformInviteInput{
		RoomID:        mustRoomID(jw.room),
		RoomVersion:   jw.ver,
		Inviter:       mustUserID(userP),
		Invitee:       mustUserID(userInvitee),
		IsTargetLocal: false,
		EventTemplate: gmsl.ProtoEvent{SenderID: userP, RoomID: jw.room, Type: spec.MRoomMember, StateKey: strp(userInvitee),
			Content: []byte(`{"membership":"invite"}`)},
		StrippedState:     []gmsl.InviteStrippedState{gmsl.NewInviteStrippedState(jw.create)},
		KeyID:             J.keyID,
		SigningKey:        J.priv,
		EventTime:         time.Now(),
		MembershipQuerier: membershipQuerier{mem: "none"},
		StateQuerier:      stateQuerier{jw},
		UserIDQuerier:     userIDQuerier("ok"),
		SenderIDQuerier: func(roomID spec.RoomID, userID spec.UserID) (*spec.SenderID, error) {
			s := spec.SenderID(userID.String())
			return &s, nil
		},
		SenderIDCreator: func(ctx context.Context, userID spec.UserID, roomID spec.RoomID, roomVersion string) (spec.SenderID, ed25519PrivateKey, error) {
			return "", nil, errors.New("c15: no pseudo IDs here")
		},
		EventQuerier: func(ctx context.Context, roomID spec.RoomID, needed []gmsl.StateKeyTuple) (gmsl.LatestEvents, error) {
			le := gmsl.LatestEvents{RoomExists: true, PrevEventIDs: []string{jw.last}, Depth: jw.depth + 1}
			for _, e := range jw.state(true) {
				for _, t := range needed {
					if e.Type() == t.EventType && e.StateKeyEquals(t.StateKey) {
						le.StateEvents = append(le.StateEvents, e)
					}
				}
			}
			return le, nil
		},
		StoreSenderIDFromPublicID: func(ctx context.Context, senderID spec.SenderID, userID string, id spec.RoomID) error { return nil },
	}
	ev, err := gmsl.PerformInvite(context.Background(), in, r)
	if !r.sent {
		panic(fmt.Sprintf("c15: PerformInvite did not send the invite: %v", err))
	}
	last := r.steps[len(r.steps)-1].O
	if (err == nil) != (last.Res == "ok") || (err == nil && ev == nil) {
		panic(fmt.Sprintf("c15: PerformInvite returned (%v, %v) after the invited server answered %q", ev != nil, err, last.Res))
	}
}

// SendInviteV3 is the pseudo-ID variant: not part of these runs.
func (r *runner) SendInviteV3(ctx context.Context, event gmsl.ProtoEvent, userID spec.UserID, roomVersion gmsl.RoomVersion, strippedState []gmsl.InviteStrippedState) (gmsl.PDU, error) {
	panic("c15: SendInviteV3 in a room whose sender IDs are user IDs")
}

// SendInvite is the federation client of PerformInvite: the adversary, then R's HandleInvite.
func (r *runner) SendInvite(ctx context.Context, event gmsl.PDU, strippedState []gmsl.InviteStrippedState) (gmsl.PDU, error) {
	if r.sent {
		panic("c15: SendInvite called twice")
	}
	r.sent = true
	w := r.w
	call := inviteCall{room: event.RoomID().String(), event: event.JSON()}
	project := func() *Msg {
		e := w.projectEvent(call.event, "invite")
		return &Msg{K: "invreq", Room: w.roomClass(call.room), Ev: &e}
	}
	req := project()
	r.log("InviteReq", "msg", req)
	r.adversary(req, func(f Forge) *Msg {
		if f.F == "room" {
			call.room = w.roomID(f.V)
		} else {
			call.event = w.forgeEvent(call.event, f, "invite")
		}
		return project()
	})
	o := w.callInvite(call)
	r.steps = append(r.steps, step{A: "InviteResp", O: o})
	r.log("InviteResp", "res", o.Res, "code", o.Code, "rsig", o.RSig, "same", o.Same, "note", o.Note)
	if o.Res != "ok" {
		return nil, netError{o.Code}
	}
	return w.impl.NewEventFromTrustedJSON([]byte(o.Extra["returned"].(json.RawMessage)), false)
}

// runPlan executes one behaviour; the first trace line describes it.
func runPlan(p Plan, rng *rand.Rand, maxF int) *runner {
	user := userOf("J")
	if p.Flow == "invite" {
		user = userInvitee
	}
	r := &runner{plan: p, w: newWorld(p.Sc, user), rng: rng, maxF: maxF, done: map[string]bool{}}
	if rng != nil {
		r.plan.Forges = nil
	}
	switch p.Flow {
	case "join":
		r.runJoin()
	case "leave":
		r.runLeave()
	case "invite":
		r.runInvite()
	default:
		panic("c15: unknown flow " + p.Flow)
	}
	if rng == nil && r.next != len(p.Forges) {
		// the real run left the path the specification derived: the comparison names the step where it did
		r.unreached = fmt.Sprintf("planned forgery %+v was never reached", p.Forges[r.next])
	}
	forges := r.plan.Forges
	if forges == nil {
		forges = []Forge{}
	}
	begin := line{"run": p.Run, "a": "begin", "flow": p.Flow, "sc": p.Sc, "forges": forges}
	r.lines = append([]line{begin}, r.lines...)
	return r
}
