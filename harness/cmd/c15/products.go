package main

// spec -> code, guard products: every record of the Handshake_gen.tla product families is one handler call.
// The request and the facts are concretised (real events, real ed25519 keys, a real KeyRing over a scripted key
// database, scripted queriers), the real handler runs, and the outcome class, the template resp. the
// counter-signed event are compared with what the specification derives.

import (
	"context"
	"crypto/ed25519"
	"crypto/sha256"
	"encoding/json"
	"fmt"
	"sort"
	"strings"
	"time"

	gmsl "github.com/matrix-org/gomatrixserverlib"
	"github.com/matrix-org/gomatrixserverlib/spec"
	"github.com/tidwall/gjson"

	"verifharness/hx"
)

// Msg is any message record of Handshake.tla (fields by kind).
type Msg struct {
	K      string `json:"k"`
	Origin string `json:"origin,omitempty"`
	Usrv   string `json:"usrv,omitempty"`
	Vers   string `json:"vers,omitempty"`
	Room   string `json:"room,omitempty"`
	Eid    string `json:"eid,omitempty"`
	Proom  string `json:"proom,omitempty"`
	Ev     *AbsEv `json:"ev,omitempty"`
	// mjresp
	Res  string `json:"res,omitempty"`
	Ver  string `json:"ver,omitempty"`
	Tmpl *AbsEv `json:"tmpl,omitempty"`
	// sjresp
	Jret   string `json:"jret,omitempty"`
	Create string `json:"create,omitempty"`
	St     string `json:"st,omitempty"`
	Jrsig  string `json:"jrsig,omitempty"`
	Ban    string `json:"ban,omitempty"`
}

// Hist is one history entry of a behaviour.
type Hist struct {
	A      string   `json:"a"`
	Msg    *Msg     `json:"msg,omitempty"`
	Req    *Msg     `json:"req,omitempty"`
	Resp   *Msg     `json:"resp,omitempty"`
	Res    string   `json:"res,omitempty"`
	Code   string   `json:"code,omitempty"`
	Why    []string `json:"why,omitempty"`
	Tmpl   *AbsEv   `json:"tmpl,omitempty"`
	Ev     *AbsEv   `json:"ev,omitempty"`
	Built  bool     `json:"built,omitempty"`
	At     string   `json:"at,omitempty"`
	F      string   `json:"f,omitempty"`
	V      string   `json:"v,omitempty"`
	Resign bool     `json:"resign,omitempty"`
}

// Rec is one emitted behaviour.
type Rec struct {
	Fam  string `json:"fam"`
	Flow string `json:"flow"`
	Sc   Sc     `json:"sc"`
	Hist []Hist `json:"hist"`
	PJ   string `json:"pj"`
}

// outcome of one real handler call, in the vocabulary of the specification
type outcome struct {
	Res   string // "ok" | "refused"
	Code  string // error class when refused
	Tmpl  *AbsEv // make_join / make_leave: projected template
	RSig  bool   // send_join / invite: R's signature verifies on the returned event
	Same  bool   // ... and the returned event is the submitted one apart from signatures / unsigned
	Note  string // what was wrong with the returned object, if anything
	Again string // how a second call with the very same input objects differed, if it did
	// tables of R the handler asked under another identity than the member's sender ID ("membership:uid", ...)
	WrongKey []string
	Err   string
	Extra map[string]interface{}
}

// codes a refusal may carry when exactly one conjunct fails (only where the Matrix specification / the
// property names the class; everything else: any refusal)
var codeSets = map[string]map[string][]string{
	"MakeJoinResp": {
		"ver":        {"M_INCOMPATIBLE_ROOM_VERSION"},
		"user":       {"M_FORBIDDEN"},
		"inroom":     {"M_NOT_FOUND"},
		"restricted": {"M_FORBIDDEN", "M_UNABLE_TO_AUTHORISE_JOIN", "internal"},
		"auth":       {"M_FORBIDDEN"},
	},
	"MakeLeaveResp": {
		"user":   {"M_FORBIDDEN"},
		"inroom": {"M_NOT_FOUND"},
		"auth":   {"M_FORBIDDEN"},
	},
}

func remoteVersions(cls string, ver gmsl.RoomVersion) []gmsl.RoomVersion {
	switch cls {
	case "has":
		return []gmsl.RoomVersion{"1", ver, "9"}
	case "lacks":
		// other versions, and names that merely contain the room's version
		out := []gmsl.RoomVersion{ver + ".1", "x" + ver, ""}
		for _, v := range []gmsl.RoomVersion{"1", "2", "5"} {
			if v != ver {
				out = append(out, v)
			}
		}
		return out
	case "empty":
		return []gmsl.RoomVersion{}
	}
	return nil // "none": no list at all
}

// ---------------------------------------------------------------------------------------------------
// the four handler calls

func (w *world) callMakeJoin(q *Msg) outcome {
	user := userOf(q.Usrv)
	asks := &askLog{key: w.sid(user), user: user}
	in := gmsl.HandleMakeJoinInput{
		Context:            context.Background(),
		UserID:             mustUserID(user),
		SenderID:           spec.SenderID(w.sid(user)),
		RoomID:             mustRoomID(w.roomID(q.Room)),
		RoomVersion:        w.ver,
		RemoteVersions:     remoteVersions(q.Vers, w.ver),
		RequestOrigin:      servers[q.Origin].name,
		LocalServerName:    servers["R"].name,
		LocalServerInRoom:  w.sc.InRoom && q.Room == "main",
		RoomQuerier:        restrictedQuerier{w, asks},
		UserIDQuerier:      w.uidQuerier("ok"),
		BuildEventTemplate: w.templateBuilder(),
	}
	resp, err := gmsl.HandleMakeJoin(in)
	_, err2 := gmsl.HandleMakeJoin(in)
	again := sameAgain(err, err2)
	if err != nil {
		return outcome{Res: "refused", Code: errClass(err), Err: err.Error(), Again: again, WrongKey: asks.wrongKeys()}
	}
	if resp == nil {
		return outcome{Res: "refused", Code: "nil", Err: "nil response without error"}
	}
	o := outcome{Res: "ok", Again: again, WrongKey: asks.wrongKeys()}
	t := w.projectTemplate(resp.JoinTemplateEvent)
	o.Tmpl = &t
	if resp.RoomVersion != w.ver {
		o.Note = fmt.Sprintf("response names room version %q, the room has %q", resp.RoomVersion, w.ver)
	}
	o.Extra = map[string]interface{}{"proto": resp.JoinTemplateEvent}
	return o
}

func (w *world) callMakeLeave(q *Msg) outcome {
	user := userOf(q.Usrv)
	in := gmsl.HandleMakeLeaveInput{
		UserID:            mustUserID(user),
		SenderID:          spec.SenderID(w.sid(user)),
		RoomID:            mustRoomID(w.roomID(q.Room)),
		RoomVersion:       w.ver,
		RequestOrigin:     servers[q.Origin].name,
		LocalServerName:   servers["R"].name,
		LocalServerInRoom: w.sc.InRoom && q.Room == "main",
		UserIDQuerier:     w.uidQuerier("ok"),
		BuildEventTemplate: func(p *gmsl.ProtoEvent) (gmsl.PDU, []gmsl.PDU, error) {
			p.Version = w.impl // make_leave leaves the version to the builder
			return w.templateBuilder()(p)
		},
	}
	resp, err := gmsl.HandleMakeLeave(in)
	_, err2 := gmsl.HandleMakeLeave(in)
	again := sameAgain(err, err2)
	if err != nil {
		return outcome{Res: "refused", Code: errClass(err), Err: err.Error(), Again: again}
	}
	if resp == nil {
		return outcome{Res: "refused", Code: "nil", Err: "nil response without error"}
	}
	o := outcome{Res: "ok", Again: again}
	t := w.projectTemplate(resp.LeaveTemplateEvent)
	o.Tmpl = &t
	if resp.RoomVersion != w.ver {
		o.Note = fmt.Sprintf("response names room version %q, the room has %q", resp.RoomVersion, w.ver)
	}
	return o
}

// projectTemplate reads the abstract template off a ProtoEvent.
func (w *world) projectTemplate(p gmsl.ProtoEvent) AbsEv {
	m := map[string]interface{}{"type": p.Type, "sender": p.SenderID, "room_id": p.RoomID, "content": json.RawMessage(p.Content),
		"auth_events": p.AuthEvents}
	if p.StateKey != nil {
		m["state_key"] = *p.StateKey
	}
	if len(p.Content) == 0 {
		m["content"] = map[string]string{}
	}
	e := w.projectEvent(mustJSON(m), "join")
	e.Sig = ""
	return e
}

// sendJoinCall is the concrete send_join request.
type sendJoinCall struct {
	origin  spec.ServerName
	room    string
	eventID string
	event   []byte
	expired map[string]string // servers whose key the key database reports as no longer valid: "expired" | "revoked"
}

func (w *world) concreteSendJoin(q *Msg) sendJoinCall {
	js := w.concreteEvent(*q.Ev, t0.Add(2*time.Hour))
	c := sendJoinCall{origin: servers[q.Origin].name, room: w.roomID(q.Room), event: js}
	c.eventID = w.eventIDOf(js)
	if q.Eid != "match" {
		c.eventID = w.anotherEventID()
	}
	if keyClasses[q.Ev.Sig] {
		c.expired = map[string]string{q.Ev.Ssrv: q.Ev.Sig}
	}
	return c
}

// eventIDOf computes the ID the event has for a receiver (trusted parse: no content-hash side effects).
func (w *world) eventIDOf(js []byte) string {
	ev, err := w.impl.NewEventFromTrustedJSON(js, false)
	if err != nil {
		panic(fmt.Sprintf("c15: cannot parse own event: %v", err))
	}
	return ev.EventID()
}

func (w *world) anotherEventID() string {
	if formatV1(string(w.ver)) {
		return "$somethingelse:j.test"
	}
	return "$" + strings.Repeat("C", 43)
}

func (w *world) callSendJoin(c sendJoinCall) outcome {
	rv := w.ver
	if w.sc.RV != "known" {
		rv = "c15.unknown.version"
	}
	R := servers["R"]
	// the member the request is about: the join's sender (= its state key), whatever its user ID is
	member := gjson.GetBytes(c.event, "sender").String()
	asks := &askLog{key: member, user: w.userOfSender(member)}
	in := gmsl.HandleSendJoinInput{
		Context:           context.Background(),
		RoomID:            mustRoomID(c.room),
		EventID:           c.eventID,
		JoinEvent:         c.event,
		RoomVersion:       rv,
		RequestOrigin:     c.origin,
		LocalServerName:   R.name,
		KeyID:             R.keyID,
		PrivateKey:        R.priv,
		Verifier:          keyRingFor(w.sc, c.expired),
		MembershipQuerier: membershipQuerier{w.sc.Mem, w.sc.Oth, w.sc.Env == "memq_err", asks},
		UserIDQuerier:     userIDQuerier(w.sc.UQ),
		StoreSenderIDFromPublicID: func(ctx context.Context, senderID spec.SenderID, userID string, id spec.RoomID) error {
			return nil
		},
	}
	if w.pseudo() {
		// the resident server answers user queries from the mappings it stored
		st := &pseudoStore{m: map[string]string{}}
		in.StoreSenderIDFromPublicID = st.store
		if w.sc.UQ == "ok" {
			in.UserIDQuerier = st.query
		}
	}
	resp, err := gmsl.HandleSendJoin(in)
	_, err2 := gmsl.HandleSendJoin(in) // the second send_join of the same user with the same request
	again := sameAgain(err, err2)
	if err != nil {
		return outcome{Res: "refused", Code: errClass(err), Err: err.Error(), Again: again, WrongKey: asks.wrongKeys()}
	}
	if resp == nil || resp.JoinEvent == nil {
		return outcome{Res: "refused", Code: "nil", Err: "nil response without error"}
	}
	o := outcome{Res: "ok", Again: again, WrongKey: asks.wrongKeys()}
	w.judgeReturned(&o, c.event, resp.JoinEvent.JSON())
	o.Extra = map[string]interface{}{"returned": json.RawMessage(resp.JoinEvent.JSON())}
	return o
}

// judgeReturned: R's signature verifies over the returned event, which is the submitted one apart from
// signatures / unsigned.
func (w *world) judgeReturned(o *outcome, submitted, returned []byte) {
	o.RSig = validSigBy(w.impl, returned, servers["R"])
	if !o.RSig {
		o.Note = "the returned event carries no valid signature of the local server"
	}
	same, why := sameSignedPart(submitted, returned)
	o.Same = same
	if !same {
		o.Note = strings.TrimSpace(o.Note + " " + why)
	}
}

type inviteCall struct {
	room    string
	event   []byte
	expired map[string]string
}

func (w *world) concreteInvite(q *Msg) inviteCall {
	c := inviteCall{room: w.roomID(q.Room), event: w.concreteEvent(*q.Ev, t0.Add(2*time.Hour))}
	if keyClasses[q.Ev.Sig] {
		c.expired = map[string]string{q.Ev.Ssrv: q.Ev.Sig}
	}
	return c
}

func (w *world) callInvite(c inviteCall) outcome {
	rv := w.ver
	if w.sc.RV != "known" {
		rv = "c15.unknown.version"
	}
	// the federation layer parses the body with the room version the request names
	parseImpl := w.impl
	ev, err := parseImpl.NewEventFromUntrustedJSON(c.event)
	if err != nil {
		return outcome{Res: "refused", Code: "parse", Err: err.Error()}
	}
	R := servers["R"]
	asks := &askLog{key: userInvitee, user: userInvitee}
	in := gmsl.HandleInviteInput{
		RoomID:            mustRoomID(c.room),
		RoomVersion:       rv,
		InvitedUser:       mustUserID(userInvitee),
		InvitedSenderID:   spec.SenderID(userInvitee),
		InviteEvent:       ev,
		KeyID:             R.keyID,
		PrivateKey:        R.priv,
		Verifier:          keyRingFor(w.sc, c.expired),
		RoomQuerier:       roomQuerier{w.sc.Known, w.sc.Env == "rq_err"},
		MembershipQuerier: membershipQuerier{w.sc.Mem, w.sc.Oth, w.sc.Env == "memq_err", asks},
		StateQuerier:      stateQuerier{w},
		UserIDQuerier:     userIDQuerier(w.sc.UQ),
		StrippedState:     w.strippedState(),
	}
	out, err := gmsl.HandleInvite(context.Background(), in)
	_, err2 := gmsl.HandleInvite(context.Background(), in) // the same invite delivered again (same event object)
	again := sameAgain(err, err2)
	if err != nil {
		return outcome{Res: "refused", Code: errClass(err), Err: err.Error(), Again: again, WrongKey: asks.wrongKeys()}
	}
	if out == nil {
		return outcome{Res: "refused", Code: "nil", Err: "nil event without error"}
	}
	o := outcome{Res: "ok", Again: again, WrongKey: asks.wrongKeys()}
	w.judgeReturned(&o, ev.JSON(), out.JSON())
	o.Extra = map[string]interface{}{"returned": json.RawMessage(out.JSON())}
	return o
}

// strippedState is the invite_room_state of the request ("given": what an inviting server attaches).
func (w *world) strippedState() []gmsl.InviteStrippedState {
	switch w.sc.Stripped {
	case "empty":
		return []gmsl.InviteStrippedState{} // an empty list, as opposed to no list
	case "given":
	default:
		return nil
	}
	out := []gmsl.InviteStrippedState{gmsl.NewInviteStrippedState(w.create)}
	if w.jr != nil {
		out = append(out, gmsl.NewInviteStrippedState(w.jr))
	}
	return out
}

// callInviteV3: the v3 endpoint of pseudo-ID rooms.  The local server completes the template with the invited
// user's room key and signs it with that key; it shares the room / membership checks of HandleInvite.
func (w *world) callInviteV3(q *Msg) outcome {
	rv := w.ver
	if w.sc.RV != "known" {
		rv = "c15.unknown.version"
	}
	R := servers["R"]
	seed := sha256.Sum256([]byte("c15-roomkey-invitee"))
	userKey := ed25519.NewKeyFromSeed(seed[:])
	invitedSender := spec.SenderIDFromPseudoIDKey(userKey)
	seed2 := sha256.Sum256([]byte("c15-roomkey-inviter"))
	inviter := spec.SenderIDFromPseudoIDKey(ed25519.NewKeyFromSeed(seed2[:]))
	if string(w.ver) != "org.matrix.msc4014" {
		// room versions whose sender IDs are user IDs: the endpoint still completes and signs the template
		invitedSender, inviter = spec.SenderID(userInvitee), spec.SenderID(userOf("J"))
	}
	asks := &askLog{key: string(invitedSender), user: userInvitee}
	proto := gmsl.ProtoEvent{SenderID: string(inviter), RoomID: w.roomID(q.Proom), Type: spec.MRoomMember, StateKey: strp(""),
		PrevEvents: []string{w.last}, AuthEvents: w.authFor(w.create, w.pl, w.jr), Depth: w.depth + 1, Content: []byte(`{"membership":"invite"}`)}
	in := gmsl.HandleInviteV3Input{
		HandleInviteInput: gmsl.HandleInviteInput{
			RoomID:            mustRoomID(w.roomID(q.Room)),
			RoomVersion:       rv,
			InvitedUser:       mustUserID(userInvitee),
			InvitedSenderID:   invitedSender,
			KeyID:             R.keyID,
			PrivateKey:        R.priv,
			Verifier:          keyRing(nil),
			RoomQuerier:       roomQuerier{w.sc.Known, w.sc.Env == "rq_err"},
			MembershipQuerier: membershipQuerier{w.sc.Mem, w.sc.Oth, w.sc.Env == "memq_err", asks},
			StateQuerier:      stateQuerier{w},
			UserIDQuerier:     userIDQuerier(w.sc.UQ),
			StrippedState:     w.strippedState(),
		},
		InviteProtoEvent: proto,
		GetOrCreateSenderID: func(ctx context.Context, userID spec.UserID, roomID spec.RoomID, roomVersion string) (spec.SenderID, ed25519.PrivateKey, error) {
			return invitedSender, userKey, nil
		},
	}
	out, err := gmsl.HandleInviteV3(context.Background(), in)
	if err != nil {
		return outcome{Res: "refused", Code: errClass(err), Err: err.Error(), WrongKey: asks.wrongKeys()}
	}
	if out == nil {
		return outcome{Res: "refused", Code: "nil", Err: "nil event without error"}
	}
	o := outcome{Res: "ok", RSig: true, Same: true, WrongKey: asks.wrongKeys()}
	// the completed event is the template for the invited user's room key, signed with that key
	m, _ := out.Membership()
	switch {
	case out.Type() != spec.MRoomMember || m != spec.Invite || !out.StateKeyEquals(string(invitedSender)) ||
		out.RoomID().String() != proto.RoomID || string(out.SenderID()) != proto.SenderID:
		o.Same, o.Note = false, "the returned event is not the template completed for the invited user"
	case !validSigBy(w.impl, out.JSON(), &server{name: spec.ServerName(invitedSender), keyID: "ed25519:1", pub: userKey.Public().(ed25519.PublicKey)}):
		o.RSig, o.Note = false, "the returned event carries no valid signature of the invited user's room key"
	}
	o.Extra = map[string]interface{}{"returned": json.RawMessage(out.JSON())}
	return o
}

// sameAgain compares the outcomes of two calls with the very same input objects.
func sameAgain(err1, err2 error) string {
	if (err1 == nil) != (err2 == nil) || errClass(err1) != errClass(err2) {
		return fmt.Sprintf("first call: %q, second call with the same input: %q", errClass(err1), errClass(err2))
	}
	return ""
}

// ---------------------------------------------------------------------------------------------------
// comparison

func scKey(sc Sc) string {
	return fmt.Sprintf("jr=%s/mem=%s", sc.JR, sc.Mem)
}

func whyKey(why []string) string {
	w := append([]string(nil), why...)
	sort.Strings(w)
	if len(w) == 0 {
		return "none"
	}
	return strings.Join(w, "+")
}

// compareStep compares one handler outcome with the history entry the specification derived.
// Returns "" when they agree, otherwise (key suffix, explanation).
func compareStep(h *Hist, o outcome) (string, string) {
	k, what := compareStep0(h, o)
	if k != "" && len(o.WrongKey) > 0 && !strings.HasSuffix(k, "second-call-with-the-same-input-differs") {
		// the tables of the resident server are keyed by sender ID: a question put under another identity of the
		// member (its user ID in a pseudo-ID room) or under another member gets that row's answer
		k += "/asked-under=" + strings.Join(o.WrongKey, "+")
		what += fmt.Sprintf("; the handler asked %v - the table(s) under an identity other than the sender ID of the member the request is about "+
			"(uid: the member's user ID, peer: another member)", o.WrongKey)
	}
	return k, what
}

func compareStep0(h *Hist, o outcome) (string, string) {
	if o.Again != "" {
		return h.A + "/second-call-with-the-same-input-differs", h.A + ": " + o.Again
	}
	if o.Res != h.Res {
		if h.Res == "refused" {
			return fmt.Sprintf("%s/accepted-but-must-refuse/failing=%s", h.A, whyKey(h.Why)),
				fmt.Sprintf("%s: the request fails %v and must be refused; the library accepted it", h.A, h.Why)
		}
		return fmt.Sprintf("%s/refused-but-every-conjunct-holds/%s", h.A, o.Code),
			fmt.Sprintf("%s: every conjunct holds, the library refused with %s (%s)", h.A, o.Code, o.Err)
	}
	if h.Res == "refused" {
		if len(h.Why) == 1 {
			if want, ok := codeSets[h.A][h.Why[0]]; ok {
				found := false
				for _, c := range want {
					found = found || c == o.Code
				}
				if !found {
					return fmt.Sprintf("%s/error-class/failing=%s/got=%s", h.A, h.Why[0], o.Code),
						fmt.Sprintf("%s: only %q fails: the refusal should be one of %v, got %s (%s)", h.A, h.Why[0], want, o.Code, o.Err)
				}
			}
		}
		return "", ""
	}
	// accepted: the returned object
	switch h.A {
	case "MakeJoinResp", "MakeLeaveResp":
		if o.Note != "" {
			return h.A + "/template/room-version", o.Note
		}
		want := *h.Tmpl
		got := *o.Tmpl
		got.Sig, want.Sig = "", ""
		if got != want {
			return fmt.Sprintf("%s/template/shape", h.A), fmt.Sprintf("%s: template %+v, expected %+v", h.A, got, want)
		}
	case "SendJoinResp", "InviteResp", "InviteV3Resp":
		if !o.RSig {
			return h.A + "/returned/no-valid-local-signature", h.A + ": " + o.Note
		}
		if !o.Same {
			return h.A + "/returned/event-modified", h.A + ": " + o.Note
		}
	}
	return "", ""
}

func ntOf(h *Hist, o outcome) string {
	return fmt.Sprintf("%s|%s|%s|%s", h.A, h.Res, whyKey(h.Why), o.Code)
}

// replayProduct handles one product record.
func replayProduct(raw json.RawMessage) hx.Result {
	var r Rec
	if err := json.Unmarshal(raw, &r); err != nil {
		panic(err)
	}
	if len(r.Hist) != 1 {
		panic(fmt.Sprintf("c15: product record with %d history entries", len(r.Hist)))
	}
	h := &r.Hist[0]
	var o outcome
	base := "C15/" + r.Fam + "/"
	res := hx.Safely(0, func() hx.Result {
		switch h.A {
		case "MakeJoinResp":
			w := newWorld(r.Sc, userOf(h.Req.Usrv))
			o = w.callMakeJoin(h.Req)
		case "MakeLeaveResp":
			w := newWorld(r.Sc, userOf(h.Req.Usrv))
			o = w.callMakeLeave(h.Req)
		case "SendJoinResp":
			w := newWorld(r.Sc, userOf(h.Req.Ev.Ssrv))
			if w.pseudo() {
				o = w.callSendJoin(w.concretePseudoSendJoin(h.Req))
			} else {
				o = w.callSendJoin(w.concreteSendJoin(h.Req))
			}
		case "InviteResp":
			w := newWorld(r.Sc, userInvitee)
			o = w.callInvite(w.concreteInvite(h.Req))
		case "InviteV3Resp":
			w := newWorld(r.Sc, userInvitee)
			o = w.callInviteV3(h.Req)
		default:
			panic("c15: unknown handler " + h.A)
		}
		return hx.Result{OK: true}
	})
	if !res.OK {
		// a panic inside the handler: never an accepted outcome
		res.Key = base + h.A + "/panic/" + panicClass(r.Sc, h)
		res.Want = h.Res
		return res
	}
	if k, what := compareStep(h, o); k != "" {
		return hx.Result{OK: false, Key: base + k, What: what, Want: map[string]interface{}{"res": h.Res, "why": h.Why, "code": h.Code},
			Got: map[string]interface{}{"res": o.Res, "code": o.Code, "err": o.Err, "note": o.Note, "asked_under_other_identity": o.WrongKey}, Extra: o.Extra}
	}
	return hx.Result{OK: true, NT: ntOf(h, o)}
}

func panicClass(sc Sc, h *Hist) string {
	if sc.UQ != "ok" {
		return "uq=" + sc.UQ
	}
	return "failing=" + whyKey(h.Why)
}
