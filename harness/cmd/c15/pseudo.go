package main

// Pseudo-ID rooms (org.matrix.msc4014): senders are per-room ed25519 public keys; a join carries an mxid_mapping
// (room key -> user ID) signed by the user's server.  The room state of the product worlds is built with
// pseudo-ID senders (mustBuild translates), so that HandleMakeJoin / HandleMakeLeave run their real auth check;
// send_join requests are built here (family sj_pseudo).  PerformJoin end to end is not driven for this version.

import (
	"context"
	"crypto/ed25519"
	"crypto/sha256"
	"encoding/json"
	"fmt"
	"strings"
	"sync"

	gmsl "github.com/matrix-org/gomatrixserverlib"
	"github.com/matrix-org/gomatrixserverlib/spec"
	"github.com/tidwall/sjson"
)

const pseudoVersion = "org.matrix.msc4014"

var (
	roomKeyMu sync.Mutex
	roomKeys  = map[string]ed25519.PrivateKey{}
	sidToUser = map[string]string{}
)

// roomKey is the user's key in "the" room (one room per world: deterministic per user).
func roomKey(user string) ed25519.PrivateKey {
	roomKeyMu.Lock()
	defer roomKeyMu.Unlock()
	k, ok := roomKeys[user]
	if !ok {
		seed := sha256.Sum256([]byte("c15-roomkey-" + user))
		k = ed25519.NewKeyFromSeed(seed[:])
		roomKeys[user] = k
		sidToUser[string(spec.SenderIDFromPseudoIDKey(k))] = user
	}
	return k
}

func pseudoSID(user string) string { return string(spec.SenderIDFromPseudoIDKey(roomKey(user))) }

func userOfSID(sid string) (string, bool) {
	roomKeyMu.Lock()
	defer roomKeyMu.Unlock()
	u, ok := sidToUser[sid]
	return u, ok
}

func (w *world) pseudo() bool { return string(w.ver) == pseudoVersion }

// sid is the sender ID of a user in this world's room.
func (w *world) sid(user string) string {
	if w.pseudo() && strings.HasPrefix(user, "@") {
		return pseudoSID(user)
	}
	return user
}

// userOfSender maps a sender ID of this world back to the user ID.
func (w *world) userOfSender(sender string) string {
	if w.pseudo() {
		if u, ok := userOfSID(sender); ok {
			return u
		}
	}
	return sender
}

func pseudoSigner(user string) *server {
	k := roomKey(user)
	return &server{cls: "?", name: spec.ServerName(pseudoSID(user)), keyID: "ed25519:1", priv: k, pub: k.Public().(ed25519.PublicKey), wrong: k}
}

// mapping builds the mxid_mapping of a user; class: ok | unsigned | wrongkey | other
func mapping(user, class string) *gmsl.MXIDMapping {
	m := &gmsl.MXIDMapping{UserRoomKey: spec.SenderID(pseudoSID(user)), UserID: user}
	S := serverOfUser(user)
	switch class {
	case "ok":
		if err := m.Sign(S.name, S.keyID, S.priv); err != nil {
			panic(err)
		}
	case "wrongkey":
		if err := m.Sign(S.name, S.keyID, S.wrong); err != nil {
			panic(err)
		}
	case "other":
		O := servers["X"]
		if O == S {
			O = servers["J"]
		}
		if err := m.Sign(O.name, O.keyID, O.priv); err != nil {
			panic(err)
		}
	}
	return m
}

// pseudoTranslate rewrites sender, state key and content of a state event of the product worlds for a pseudo-ID room.
func (w *world) pseudoTranslate(typ string, skey *string, sender string, content interface{}) (*string, string, interface{}, *server) {
	signer := pseudoSigner(sender)
	target := ""
	if skey != nil && strings.HasPrefix(*skey, "@") {
		target = *skey
		skey = strp(pseudoSID(*skey))
	}
	b, err := json.Marshal(content)
	if err != nil {
		panic(err)
	}
	switch typ {
	case spec.MRoomCreate:
		b, _ = sjson.SetBytes(b, "creator", pseudoSID(userC))
	case spec.MRoomPowerLevels:
		var pl map[string]interface{}
		_ = json.Unmarshal(b, &pl)
		if users, ok := pl["users"].(map[string]interface{}); ok {
			tr := map[string]interface{}{}
			for u, l := range users {
				tr[pseudoSID(u)] = l
			}
			pl["users"] = tr
		}
		b, _ = json.Marshal(pl)
	case spec.MRoomMember:
		var mc map[string]interface{}
		_ = json.Unmarshal(b, &mc)
		if mc["membership"] == "join" && target != "" {
			mc["mxid_mapping"] = mapping(target, "ok")
			b, _ = json.Marshal(mc)
		}
	}
	return skey, pseudoSID(sender), json.RawMessage(b), signer
}

// uidQuerier is the UserIDForSender of this world.
func (w *world) uidQuerier(mode string) spec.UserIDForSender {
	if !w.pseudo() {
		return userIDQuerier(mode)
	}
	return func(roomID spec.RoomID, senderID spec.SenderID) (*spec.UserID, error) {
		switch mode {
		case "err":
			return nil, fmt.Errorf("c15: no user for this sender")
		case "nil":
			return nil, nil
		}
		if u, ok := userOfSID(string(senderID)); ok {
			return spec.NewUserID(u, true)
		}
		return nil, nil
	}
}

// ---------------------------------------------------------------------------------------------------
// send_join in a pseudo-ID room

// concretePseudoSendJoin: the join of the user of q.Ev.Ssrv with the mapping class sc.Map and the event signature
// class q.Ev.Sig (relative to the room key): valid | none | tampered.
func (w *world) concretePseudoSendJoin(q *Msg) sendJoinCall {
	user := userOf(q.Ev.Ssrv)
	sid := pseudoSID(user)
	content := map[string]interface{}{"membership": q.Ev.Mship}
	if w.sc.Map != "missing" {
		content["mxid_mapping"] = mapping(user, w.sc.Map)
	}
	signer := pseudoSigner(user)
	ev, err := w.buildEvent(w.roomID(q.Ev.Room), spec.MRoomMember, strp(sid), sid, content, w.authFor(w.create, w.pl, w.jr),
		[]string{w.last}, w.depth+1, te, signer, signer.priv)
	if err != nil {
		panic(fmt.Sprintf("c15: cannot build pseudo-ID join: %v", err))
	}
	js := ev.JSON()
	switch q.Ev.Sig {
	case "none":
		js, err = sjson.SetRawBytes(js, "signatures", []byte(`{}`))
	case "tampered":
		js, err = sjson.SetBytes(js, "depth", w.depth+7)
	}
	if err != nil {
		panic(err)
	}
	c := sendJoinCall{origin: servers[q.Origin].name, room: w.roomID(q.Room), event: js, eventID: w.eventIDOf(js)}
	if q.Eid != "match" {
		c.eventID = w.anotherEventID()
	}
	return c
}

// pseudoStore is the StoreSenderIDFromPublicID / UserIDForSender pair of the resident server: what a mapping that
// passed the handler's check was stored as is what the user querier answers afterwards.
type pseudoStore struct {
	mu sync.Mutex
	m  map[string]string
}

func (p *pseudoStore) store(ctx context.Context, senderID spec.SenderID, userID string, id spec.RoomID) error {
	p.mu.Lock()
	defer p.mu.Unlock()
	p.m[string(senderID)] = userID
	return nil
}

func (p *pseudoStore) query(roomID spec.RoomID, senderID spec.SenderID) (*spec.UserID, error) {
	p.mu.Lock()
	u, ok := p.m[string(senderID)]
	p.mu.Unlock()
	if !ok {
		return nil, nil
	}
	return spec.NewUserID(u, true)
}
