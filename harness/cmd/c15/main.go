// Command c15 binds spec/Handshake.tla (C15: join, leave and invite handshakes admit only well-formed,
// authorised requests) to the real HandleMakeJoin / HandleSendJoin / HandleMakeLeave / HandleInvite / PerformJoin.
//
//	c15 c15prod -in records.ndjson                 spec -> code: guard-product records, one handler call each
//	c15 c15e2e  -in records.ndjson [-out trace]    spec -> code: end-to-end behaviours with Forge actions chosen by TLC;
//	                                               with -out the runs are also recorded (one line per action)
//	c15 c15rec  -out trace.ndjson -n N -seed S     code -> spec: seeded random scenarios and forgeries, recorded
//	c15 c15rec  -in plans.ndjson -out trace.ndjson re-execute recorded plans (fresh-process reproduction)
package main

import (
	"crypto/ed25519"
	"encoding/json"
	"fmt"
	"io"
	"math/rand"
	"strings"

	"github.com/sirupsen/logrus"

	"verifharness/hx"
)

type ed25519PrivateKey = ed25519.PrivateKey

func main() {
	logrus.SetOutput(io.Discard) // the handlers log every refusal
	hx.Register("c15prod", "replay Handshake_gen.tla guard-product records against the handlers", func(a *hx.Args) error {
		return hx.ReplayAll(a, func(i int, raw json.RawMessage) hx.Result { return replayProduct(raw) })
	})
	hx.Register("c15e2e", "replay Handshake_gen.tla end-to-end behaviours (PerformJoin <-> handlers, forged messages)", replayE2E)
	hx.Register("c15rec", "record seeded random handshakes with forgeries as a trace", record)
	hx.Main()
}

func planOf(r *Rec, run int) Plan {
	p := Plan{Run: run, Flow: r.Flow, Sc: r.Sc}
	for _, h := range r.Hist {
		if h.A == "Forge" {
			p.Forges = append(p.Forges, Forge{At: h.At, F: h.F, V: h.V, Resign: h.Resign})
		}
	}
	return p
}

func forgeKey(fs []Forge) string {
	if len(fs) == 0 {
		return "unforged"
	}
	var parts []string
	for _, f := range fs {
		s := f.At + "." + f.F + "=" + f.V
		if f.Resign {
			s += "(resigned)"
		}
		parts = append(parts, s)
	}
	return strings.Join(parts, ",")
}

// compareE2E walks the history the specification derived and the steps observed.
func compareE2E(rec *Rec, r *runner) (string, string) {
	var want []Hist
	for _, h := range rec.Hist {
		switch h.A {
		case "MakeJoinResp", "SendJoinResp", "MakeLeaveResp", "InviteResp", "BuildJoin", "JoinDone":
			want = append(want, h)
		}
	}
	for i := range want {
		h := &want[i]
		if i >= len(r.steps) {
			return h.A + "/missing", fmt.Sprintf("the specification continues with %s, the real run stopped after %d steps", h.A, len(r.steps))
		}
		s := r.steps[i]
		if s.A != h.A {
			return h.A + "/order", fmt.Sprintf("step %d: specification %s, real run %s", i, h.A, s.A)
		}
		switch h.A {
		case "BuildJoin":
			if s.Built != h.Built {
				return fmt.Sprintf("BuildJoin/model=%v/real=%v", h.Built, s.Built),
					fmt.Sprintf("PerformJoin went on to send_join: %v, the specification says %v (%s)", s.Built, h.Built, s.O.Err)
			}
			if !h.Built && s.O.Res != "refused" {
				return "BuildJoin/join-returned-without-send_join", "PerformJoin returned a join although it never sent one"
			}
		case "JoinDone":
			if s.O.Res != h.Res {
				if h.Res == "refused" {
					return "JoinDone/accepted-but-must-refuse/failing=" + whyKey(h.Why),
						fmt.Sprintf("PerformJoin returned a join although the response fails %v", h.Why)
				}
				return "JoinDone/refused-but-checks-pass", "PerformJoin refused a response that passes every check: " + s.O.Err
			}
			if s.O.Note != "" {
				return "JoinDone/returned-event", s.O.Note
			}
		default:
			if k, what := compareStep(h, s.O); k != "" {
				return k, what
			}
		}
	}
	if r.unreached != "" {
		return "diverged", r.unreached
	}
	if len(r.steps) != len(want) {
		return "extra-steps", fmt.Sprintf("the real run has %d steps, the specification %d", len(r.steps), len(want))
	}
	if rec.Flow == "join" {
		last := r.steps[len(r.steps)-1]
		if last.O.Res != rec.PJ {
			return "PerformJoin/model=" + rec.PJ + "/real=" + last.O.Res, "outcome of PerformJoin differs: " + last.O.Err
		}
	}
	return "", ""
}

func replayE2E(a *hx.Args) error {
	recs, err := hx.ReadRecords(a.In)
	if err != nil {
		return err
	}
	// a single record is a fresh-process reproduction: it must not overwrite the trace of the run it reproduces
	var tw *hx.TraceWriter
	if a.Out != "" && len(recs) > 1 {
		if tw, err = hx.NewTraceWriter(a.Out); err != nil {
			return err
		}
		defer tw.Close()
	}
	runners := make([]*runner, len(recs))
	err = hx.ReplayAll(a, func(i int, raw json.RawMessage) hx.Result {
		var rec Rec
		if err := json.Unmarshal(raw, &rec); err != nil {
			panic(err)
		}
		p := planOf(&rec, i+1)
		key := "C15/e2e/" + rec.Flow + "/"
		where := " [" + scKey(rec.Sc) + "; forged: " + forgeKey(p.Forges) + "]"
		var r *runner
		res := hx.Safely(i, func() hx.Result { r = runPlan(p, nil, 0); return hx.Result{OK: true} })
		if !res.OK {
			res.Key = key + "panic"
			res.What += where
			return res
		}
		runners[i] = r
		if k, what := compareE2E(&rec, r); k != "" {
			return hx.Result{OK: false, Key: key + k, What: what + where, Extra: r.lines}
		}
		nt := rec.Flow + "|" + forgeKey(p.Forges)
		for _, s := range r.steps {
			nt += "|" + s.A + ":" + s.O.Res
		}
		return hx.Result{OK: true, NT: nt}
	})
	every := 1
	if a.Mode != "" {
		fmt.Sscanf(a.Mode, "%d", &every)
	}
	if tw != nil {
		for i, r := range runners {
			if r != nil && i%every == 0 {
				for _, l := range r.lines {
					tw.Emit(l)
				}
			}
		}
	}
	return err
}

// ---------------------------------------------------------------------------------------------------
// code -> spec recorder: wider scenarios and more forgeries than the TLC configurations enumerate

var recVersions = []string{"1", "2", "3", "4", "5", "6", "7", "8", "9", "10", "11", "12", "org.matrix.msc3667", "org.matrix.msc3787", "org.matrix.hydra.11"}

func pickS(rng *rand.Rand, xs ...string) string { return xs[rng.Intn(len(xs))] }

func randomPlan(rng *rand.Rand, run int) Plan {
	sc := Sc{Ver: recVersions[rng.Intn(len(recVersions))], RV: "known", InRoom: rng.Intn(5) != 0, JR: "public", Mem: "none", Allow: []string{},
		APL: "ok", AHere: true, TB: "ok", QErr: "none", Known: true, UQ: "ok", Stripped: "none", Extra: "none", Env: "ok", Oth: "none", FB: 9}
	// rows of R's tables under the identities that are not the member's sender ID: never the handlers' business
	sc.Oth = pickS(rng, "none", "none", "ban", "invite", "join")
	flow := pickS(rng, "join", "join", "join", "leave", "invite")
	switch flow {
	case "join":
		jrs := []string{"public", "invite", "none", "knock"}
		if restrictedSupported(sc.Ver) {
			jrs = append(jrs, "restricted", "restricted", "knock_restricted")
		}
		sc.JR = jrs[rng.Intn(len(jrs))]
		sc.Mem = pickS(rng, "none", "none", "leave", "invite", "join", "ban")
		sc.Retry = rng.Intn(3) == 0
		sc.Pending = sc.Mem == "invite"
		if sc.JR == "restricted" || sc.JR == "knock_restricted" {
			classes := []string{"nonres", "info_err", "nouser", "empty", "listedB", "listed", "listed", "listed2", "othertype", "badid"}
			for n := rng.Intn(3); n > 0; n-- {
				sc.Allow = append(sc.Allow, classes[rng.Intn(len(classes))])
			}
			sc.APL = pickS(rng, "ok", "ok", "low")
			if sc.Ver == "12" && rng.Intn(3) == 0 {
				sc.APL = "creator"
			}
			sc.AHere = rng.Intn(4) != 0
		}
	case "leave":
		sc.Mem = pickS(rng, "join", "invite", "ban", "leave", "none")
	case "invite":
		sc.Stripped = pickS(rng, "none", "given", "empty")
		sc.Known = rng.Intn(2) == 0
		if sc.Known {
			sc.Mem = pickS(rng, "none", "leave", "invite", "join", "ban")
		}
	}
	return Plan{Run: run, Flow: flow, Sc: sc}
}

func record(a *hx.Args) error {
	tw, err := hx.NewTraceWriter(a.Out)
	if err != nil {
		return err
	}
	defer tw.Close()
	emit := func(r *runner) {
		for _, l := range r.lines {
			tw.Emit(l)
		}
	}
	if a.In != "" { // re-execute plans (begin lines)
		recs, err := hx.ReadRecords(a.In)
		if err != nil {
			return err
		}
		for i, raw := range recs {
			var p Plan
			if err := json.Unmarshal(raw, &p); err != nil {
				return err
			}
			p.Run = i + 1
			res := hx.Safely(i, func() hx.Result { emit(runPlan(p, nil, 0)); return hx.Result{OK: true} })
			if !res.OK {
				res.Extra = p
				b, _ := json.Marshal(res)
				fmt.Println(string(b))
			}
		}
		return nil
	}
	rng := rand.New(rand.NewSource(a.Seed*7919 + 15))
	for i := 0; i < a.N; i++ {
		p := randomPlan(rng, i+1)
		sub := rand.New(rand.NewSource(rng.Int63()))
		res := hx.Safely(i, func() hx.Result { emit(runPlan(p, sub, 4)); return hx.Result{OK: true} })
		if !res.OK {
			res.Key = "C15/rec/" + p.Flow + "/panic"
			res.Extra = p
			b, _ := json.Marshal(res)
			fmt.Println(string(b))
		}
	}
	return nil
}
