package main

// The concrete world behind the abstract vocabulary of spec/Handshake.tla: three servers with real
// ed25519 keys, the users, a room with real signed state events built from the scenario facts `sc`,
// a real KeyRing over a scripted key database, and the scripted queriers the handlers take.

import (
	"context"
	"crypto/ed25519"
	"crypto/sha256"
	"encoding/base64"
	"encoding/json"
	"errors"
	"fmt"
	"strings"
	"sync"
	"time"

	gmsl "github.com/matrix-org/gomatrixserverlib"
	"github.com/matrix-org/gomatrixserverlib/spec"
)

// Sc is the facts record of Handshake.tla.
type Sc struct {
	Ver     string   `json:"ver"`
	RV      string   `json:"rv"`
	InRoom  bool     `json:"inRoom"`
	JR      string   `json:"jr"`
	Mem     string   `json:"mem"`
	Pending bool     `json:"pending"`
	Allow   []string `json:"allow"`
	APL     string   `json:"apl"`
	AHere   bool     `json:"aHere"`
	TB      string   `json:"tb"`
	QErr    string   `json:"qerr"`
	Known   bool     `json:"known"`
	UQ      string   `json:"uq"`
	// pseudo-ID rooms: the mxid_mapping of the join: ok | missing | unsigned | wrongkey
	Map string `json:"map"`
	// invite: the request carries invite_room_state ("given") or not ("none")
	Stripped string `json:"stripped"`
	Fam      string `json:"fam,omitempty"`
	// content the event carries besides what the handshake needs: none | tpi | unknown | unsigned
	Extra string `json:"extra"`
	// failing environment: ok | kr_err (key ring) | memq_err (membership querier) | rq_err (room querier)
	Env string `json:"env"`
	// what R's tables (membership, pending invites, membership of the allowed rooms) hold under every identity other
	// than the sender ID of the member the request is about: none | ban | invite | join (Handshake!View)
	Oth string `json:"oth"`
	// forgery budget of the scenario and whether J retries after a refused attempt (end-to-end runs)
	FB    int  `json:"fb"`
	Retry bool `json:"retry"`
}

type server struct {
	cls   string // "R" "J" "X"
	name  spec.ServerName
	keyID gmsl.KeyID
	priv  ed25519.PrivateKey
	pub   ed25519.PublicKey
	wrong ed25519.PrivateKey // another private key used under this server's name ("wrongkey")
}

func mkServer(cls, name string) *server {
	seed := sha256.Sum256([]byte("c15-key-" + name))
	priv := ed25519.NewKeyFromSeed(seed[:])
	seed2 := sha256.Sum256([]byte("c15-wrong-" + name))
	return &server{cls: cls, name: spec.ServerName(name), keyID: "ed25519:c15", priv: priv,
		pub: priv.Public().(ed25519.PublicKey), wrong: ed25519.NewKeyFromSeed(seed2[:])}
}

var servers = map[string]*server{
	"R": mkServer("R", "r.test"),
	"J": mkServer("J", "j.test"),
	"X": mkServer("X", "x.test"),
	// near-coincidences of J's name: J's name is a prefix resp. a suffix of theirs
	"N": mkServer("N", "j.test.evil"),
	"M": mkServer("M", "evil-j.test"),
	// J's name in another letter case: another server, with its own keys (Handshake!Ownership "casevar")
	"K": mkServer("K", "J.TEST"),
}

// casePartner: the server whose name is this one's in another letter case (Handshake!CasePartner).
func casePartner(cls string) *server {
	switch cls {
	case "J":
		return servers["K"]
	case "K":
		return servers["J"]
	}
	panic("c15: server class " + cls + " has no case partner")
}

func serverClass(name spec.ServerName) string {
	for c, s := range servers {
		if s.name == name {
			return c
		}
	}
	return "?"
}

// fixed instants for harness-built events (no dependence on the real clock beyond "the past")
var t0 = time.Unix(1700000000, 0)

func userOf(cls string) string  { return "@u:" + string(servers[cls].name) }
func otherOf(cls string) string { return "@v:" + string(servers[cls].name) }
func domainOf(user string) string {
	if i := strings.IndexByte(user, ':'); i >= 0 {
		return user[i+1:]
	}
	return ""
}

const (
	userA       = "@a:r.test" // candidate authoriser / inviter
	userB       = "@b:r.test" // second local user, never entitled
	userC       = "@c:r.test" // creator
	userInvitee = "@i:r.test"
	userP       = "@p:j.test" // J's inviting user: joined, entitled to invite (only in the worlds of the invite flow)
	userOtherLo = "@o:r.test"
	userRemoteA = "@a:x.test"
)

func mustUserID(s string) spec.UserID {
	u, err := spec.NewUserID(s, true)
	if err != nil {
		panic(err)
	}
	return *u
}

func mustRoomID(s string) spec.RoomID {
	r, err := spec.NewRoomID(s)
	if err != nil {
		panic(fmt.Sprintf("room id %q: %v", s, err))
	}
	return *r
}

func domainless(ver string) bool { return ver == "12" || ver == "org.matrix.hydra.11" }
func formatV1(ver string) bool   { return ver == "1" || ver == "2" }
func restrictedSupported(ver string) bool {
	switch ver {
	case "8", "9", "10", "11", "12", "org.matrix.msc3787", "org.matrix.msc4014", "org.matrix.hydra.11":
		return true
	}
	return false
}

// world is one room as R sees it.
type world struct {
	sc          Sc
	ver         gmsl.RoomVersion
	impl        gmsl.IRoomVersion
	user        string // the joining / leaving user the membership fact `mem` is about
	room        string
	other       string // another well-formed room ID
	create      gmsl.PDU
	pl          gmsl.PDU
	jr          gmsl.PDU // nil when sc.jr = "none"
	members     map[string]gmsl.PDU
	listA       gmsl.PDU // join events of A and B as listed by RestrictedRoomJoinInfo
	listB       gmsl.PDU
	creatorJoin gmsl.PDU
	extraAuth   []gmsl.PDU // events of the auth chain that are no longer current state (superseded invites)
	depth       int64
	last        string // latest event ID (prev_events of new events)
}

func strp(s string) *string { return &s }

// buildEvent makes a real, signed event in the world's room version.
func (w *world) buildEvent(room, typ string, skey *string, sender string, content interface{}, auth, prev []string,
	depth int64, ts time.Time, signer *server, key ed25519.PrivateKey) (gmsl.PDU, error) {
	cb, err := json.Marshal(content)
	if err != nil {
		return nil, err
	}
	if auth == nil {
		auth = []string{}
	}
	if prev == nil {
		prev = []string{}
	}
	proto := gmsl.ProtoEvent{SenderID: sender, RoomID: room, Type: typ, StateKey: skey, PrevEvents: prev, AuthEvents: auth,
		Depth: depth, Content: cb}
	eb := w.impl.NewEventBuilderFromProtoEvent(&proto)
	return eb.Build(ts, signer.name, signer.keyID, key)
}

func (w *world) mustBuild(room, typ string, skey *string, sender string, content interface{}, auth []string, signer *server) gmsl.PDU {
	if w.pseudo() {
		skey, sender, content, signer = w.pseudoTranslate(typ, skey, sender, content)
	}
	w.depth++
	var prev []string
	if w.last != "" {
		prev = []string{w.last}
	}
	ev, err := w.buildEvent(room, typ, skey, sender, content, auth, prev, w.depth, t0.Add(time.Duration(w.depth)*time.Second), signer, signer.priv)
	if err != nil {
		panic(fmt.Sprintf("c15: cannot build %s event (v%s): %v", typ, w.ver, err))
	}
	w.last = ev.EventID()
	return ev
}

// authFor lists the auth event IDs of a new event given the events that authorise it (create omitted in v12).
func (w *world) authFor(evs ...gmsl.PDU) []string {
	out := []string{}
	for _, e := range evs {
		if e == nil {
			continue
		}
		if domainless(string(w.ver)) && e.Type() == spec.MRoomCreate {
			continue
		}
		out = append(out, e.EventID())
	}
	return out
}

var (
	cacheMu    sync.Mutex
	baseCache  = map[string]*world{} // immutable after construction
	worldCache = map[string]*world{}
)

// newWorld builds (or fetches) the room for the facts sc and the user the membership fact is about.  All worlds
// of the same room facts share the same base events (create, power levels, join rules, A, B), so that events
// built against one of them are recognised by the others.
func newWorld(sc Sc, user string) *world {
	bkey := fmt.Sprintf("%s|%s|%v|%s|%v", sc.Ver, sc.JR, sc.Allow, sc.APL, sc.AHere)
	ukey := bkey + "|" + user + "|" + sc.Mem
	cacheMu.Lock()
	defer cacheMu.Unlock()
	w, ok := worldCache[ukey]
	if !ok {
		base, ok := baseCache[bkey]
		if !ok {
			base = buildBase(sc)
			baseCache[bkey] = base
		}
		w = base.withUser(user, sc.Mem)
		worldCache[ukey] = w
	}
	cp := *w
	cp.sc = sc
	return &cp
}

func buildBase(sc Sc) *world {
	w := &world{sc: sc, ver: gmsl.RoomVersion(sc.Ver), members: map[string]gmsl.PDU{}}
	impl, err := gmsl.GetRoomVersion(w.ver)
	if err != nil {
		panic(err)
	}
	w.impl = impl
	R := servers["R"]

	// create
	cc := map[string]interface{}{"room_version": sc.Ver}
	if !domainless(sc.Ver) {
		cc["creator"] = userC
		w.room = "!main:r.test"
		w.other = "!other:r.test"
	} else {
		if sc.APL == "creator" {
			cc["additional_creators"] = []string{userA}
		}
		w.other = "!" + strings.Repeat("B", 43)
	}
	if domainless(sc.Ver) {
		w.create = w.mustBuild("", spec.MRoomCreate, strp(""), userC, cc, nil, R)
		w.room = "!" + w.create.EventID()[1:]
	} else {
		w.create = w.mustBuild(w.room, spec.MRoomCreate, strp(""), userC, cc, nil, R)
	}
	// creator joins
	mc := w.mustBuild(w.room, spec.MRoomMember, strp(userC), userC, map[string]string{"membership": "join"}, w.authFor(w.create), R)
	w.members[userC] = mc
	// power levels: invite needs 50
	users := map[string]int{}
	if !domainless(sc.Ver) {
		users[userC] = 100
	}
	users[userP] = 50
	switch sc.APL {
	case "ok":
		users[userA] = 50 // exactly the invite level
	case "low":
		users[userA] = 49 // one below
	}
	w.pl = w.mustBuild(w.room, spec.MRoomPowerLevels, strp(""), userC,
		map[string]interface{}{"users": users, "users_default": 0, "invite": 50, "state_default": 50, "events_default": 0,
			"ban": 50, "kick": 50, "redact": 50},
		w.authFor(w.create, mc), R)
	// join rules
	if sc.JR != "none" {
		jc := map[string]interface{}{"join_rule": sc.JR}
		if sc.JR == "restricted" || sc.JR == "knock_restricted" {
			allow := []map[string]string{}
			for i, cls := range sc.Allow {
				switch cls {
				case "othertype":
					allow = append(allow, map[string]string{"type": "org.example.other", "room_id": allowedRoom(i)})
				case "badid":
					allow = append(allow, map[string]string{"type": "m.room_membership", "room_id": "not-a-room-id"})
				default:
					allow = append(allow, map[string]string{"type": "m.room_membership", "room_id": allowedRoom(i)})
				}
			}
			jc["allow"] = allow
		}
		w.jr = w.mustBuild(w.room, spec.MRoomJoinRules, strp(""), userC, jc, w.authFor(w.create, w.pl, mc), R)
	}
	// A and B: invited by the creator, then joined (so that every event is allowed by its own auth events)
	aJoin := w.inviteThenJoin(userA, mc)
	w.members[userA] = aJoin
	if !sc.AHere {
		w.extraAuth = append(w.extraAuth, aJoin)
		w.members[userA] = w.mustBuild(w.room, spec.MRoomMember, strp(userA), userA, map[string]string{"membership": "leave"},
			w.authFor(w.create, w.pl, aJoin), R)
	}
	w.members[userB] = w.inviteThenJoin(userB, mc)
	// the events RestrictedRoomJoinInfo lists (joined local users of the allowed room)
	w.listA = aJoin
	w.listB = w.members[userB]
	w.creatorJoin = mc
	return w
}

// withUser adds the membership of the user the scenario is about to a copy of the base room.
func (b *world) withUser(user, mem string) *world {
	cp := *b
	w := &cp
	w.user = user
	w.members = map[string]gmsl.PDU{}
	for k, v := range b.members {
		w.members[k] = v
	}
	w.extraAuth = append([]gmsl.PDU(nil), b.extraAuth...)
	if _, isBase := b.members[user]; isBase {
		return w // A, B or the creator: their membership is part of the base facts
	}
	mc := w.creatorJoin
	us := serverOfUser(user)
	if user == userInvitee {
		w.members[userP] = w.inviteThenJoin(userP, mc)
	}
	switch mem {
	case "none":
	case "join":
		w.members[user] = w.inviteThenJoin(user, mc)
	case "leave":
		w.members[user] = w.mustBuild(w.room, spec.MRoomMember, strp(user), user, map[string]string{"membership": "leave"},
			w.authFor(w.create, w.pl, w.jr), us)
	case "invite":
		w.members[user] = w.invite(user, mc)
	case "ban":
		w.members[user] = w.mustBuild(w.room, spec.MRoomMember, strp(user), userC, map[string]string{"membership": "ban"},
			w.authFor(w.create, w.pl, mc), servers["R"])
	default:
		panic("c15: unknown membership class " + mem)
	}
	return w
}

// invite builds an invite of user by the creator, signed by R and by the invited user's server.
func (w *world) invite(user string, creatorJoin gmsl.PDU) gmsl.PDU {
	R := servers["R"]
	ev := w.mustBuild(w.room, spec.MRoomMember, strp(user), userC, map[string]string{"membership": "invite"},
		w.authFor(w.create, w.pl, w.jr, creatorJoin), R)
	if w.pseudo() { // the invited user's room key signs
		ps := pseudoSigner(user)
		return ev.Sign(string(ps.name), ps.keyID, ps.priv)
	}
	if us := serverOfUser(user); us != R {
		ev = ev.Sign(string(us.name), us.keyID, us.priv)
	}
	return ev
}

// inviteThenJoin: the invite goes to the auth chain, the join (citing it) is returned.
func (w *world) inviteThenJoin(user string, creatorJoin gmsl.PDU) gmsl.PDU {
	inv := w.invite(user, creatorJoin)
	w.extraAuth = append(w.extraAuth, inv)
	return w.mustBuild(w.room, spec.MRoomMember, strp(user), user, map[string]string{"membership": "join"},
		w.authFor(w.create, w.pl, w.jr, inv), serverOfUser(user))
}

func allowedRoom(i int) string { return fmt.Sprintf("!allowed%d:r.test", i) }

func serverOfUser(user string) *server {
	d := domainOf(user)
	for _, s := range servers {
		if string(s.name) == d {
			return s
		}
	}
	panic("c15: no server for " + user)
}

// state is the current room state (what R would return from send_join and what authorises new events).
func (w *world) state(withCreate bool) []gmsl.PDU {
	out := []gmsl.PDU{}
	if withCreate {
		out = append(out, w.create)
	}
	out = append(out, w.pl)
	if w.jr != nil {
		out = append(out, w.jr)
	}
	for _, u := range []string{userC, userA, userB, userP, w.user} {
		if e := w.members[u]; e != nil {
			out = append(out, e)
		}
	}
	return out
}

func (w *world) roomID(cls string) string {
	if cls == "other" {
		return w.other
	}
	return w.room
}

func (w *world) roomClass(id string) string {
	if id == w.room {
		return "main"
	}
	return "other"
}

// ---------------------------------------------------------------------------------------------------
// keys: a real KeyRing over a scripted key database

type keyDB struct {
	// server class -> key-validity class relative to the event time te = t0 + 2 h of the product events:
	// expired (valid_until_ts long before) | vu_eq (= te) | vu_p1 (= te - 1 ms) | revoked (expired_ts long before) |
	// ex_eq (expired_ts = te) | ex_m1 (expired_ts = te + 1 ms)
	faults map[string]string
	fail   bool // the database itself fails
}

// te is the origin_server_ts of the events the product families build
var te = t0.Add(2 * time.Hour)

func (db *keyDB) FetcherName() string { return "c15db" }

func (db *keyDB) FetchKeys(ctx context.Context, reqs map[gmsl.PublicKeyLookupRequest]spec.Timestamp) (map[gmsl.PublicKeyLookupRequest]gmsl.PublicKeyLookupResult, error) {
	out := map[gmsl.PublicKeyLookupRequest]gmsl.PublicKeyLookupResult{}
	if db.fail {
		return nil, errors.New("c15: key database unavailable")
	}
	for req := range reqs {
		for cls, s := range servers {
			if req.ServerName == s.name && req.KeyID == s.keyID {
				vu := spec.AsTimestamp(time.Now().Add(48 * time.Hour))
				ex := gmsl.PublicKeyNotExpired
				switch db.faults[cls] {
				case "expired":
					vu = spec.AsTimestamp(t0.Add(-time.Hour))
				case "vu_eq":
					vu = spec.AsTimestamp(te)
				case "vu_p1":
					vu = spec.AsTimestamp(te) - 1
				case "revoked":
					vu = gmsl.PublicKeyNotValid
					ex = spec.AsTimestamp(t0.Add(-time.Hour))
				case "ex_eq":
					vu = gmsl.PublicKeyNotValid
					ex = spec.AsTimestamp(te)
				case "ex_m1":
					vu = gmsl.PublicKeyNotValid
					ex = spec.AsTimestamp(te) + 1
				}
				out[req] = gmsl.PublicKeyLookupResult{VerifyKey: gmsl.VerifyKey{Key: spec.Base64Bytes(s.pub)},
					ExpiredTS: ex, ValidUntilTS: vu}
			}
		}
	}
	return out, nil
}

func (db *keyDB) StoreKeys(ctx context.Context, r map[gmsl.PublicKeyLookupRequest]gmsl.PublicKeyLookupResult) error {
	return nil
}

var keyClasses = map[string]bool{"expired": true, "vu_eq": true, "vu_p1": true, "revoked": true, "ex_eq": true, "ex_m1": true}

func keyRingFor(sc Sc, faults map[string]string) *gmsl.KeyRing {
	r := keyRing(faults)
	r.KeyDatabase.(*keyDB).fail = sc.Env == "kr_err"
	return r
}

func keyRing(faults map[string]string) *gmsl.KeyRing {
	db := &keyDB{faults: faults}
	return &gmsl.KeyRing{KeyFetchers: []gmsl.KeyFetcher{}, KeyDatabase: db}
}

// ---------------------------------------------------------------------------------------------------
// independent signature check: ed25519 over the canonical redacted event without signatures / unsigned

func validSigBy(impl gmsl.IRoomVersion, eventJSON []byte, s *server) bool {
	red, err := impl.RedactEventJSON(eventJSON)
	if err != nil {
		return false
	}
	var m map[string]json.RawMessage
	if err := json.Unmarshal(red, &m); err != nil {
		return false
	}
	var sigs map[string]map[string]string
	if raw, ok := m["signatures"]; ok {
		if err := json.Unmarshal(raw, &sigs); err != nil {
			return false
		}
	}
	delete(m, "signatures")
	delete(m, "unsigned")
	b, err := json.Marshal(m)
	if err != nil {
		return false
	}
	canon, err := gmsl.CanonicalJSON(b)
	if err != nil {
		return false
	}
	sig, ok := sigs[string(s.name)][string(s.keyID)]
	if !ok {
		return false
	}
	raw, err := base64.RawStdEncoding.DecodeString(sig)
	if err != nil {
		return false
	}
	return ed25519.Verify(s.pub, canon, raw)
}

// sameSignedPart: the two event JSONs are equal apart from "signatures" and "unsigned", and every signature
// of the first is still in the second.
func sameSignedPart(before, after []byte) (bool, string) {
	var a, b map[string]json.RawMessage
	if err := json.Unmarshal(before, &a); err != nil {
		return false, "submitted event unparsable"
	}
	if err := json.Unmarshal(after, &b); err != nil {
		return false, "returned event unparsable"
	}
	var sa, sb map[string]map[string]string
	_ = json.Unmarshal(a["signatures"], &sa)
	_ = json.Unmarshal(b["signatures"], &sb)
	for srv, ks := range sa {
		if srv == string(servers["R"].name) {
			continue // the local server signs afresh: whatever stood under its name may be replaced
		}
		for k, v := range ks {
			if sb[srv][k] != v {
				return false, fmt.Sprintf("signature %s/%s of the submitted event is missing or changed", srv, k)
			}
		}
	}
	for _, k := range []string{"signatures", "unsigned"} {
		delete(a, k)
		delete(b, k)
	}
	ca, err1 := json.Marshal(a)
	cb, err2 := json.Marshal(b)
	if err1 != nil || err2 != nil {
		return false, "marshal"
	}
	ca, err1 = gmsl.CanonicalJSON(ca)
	cb, err2 = gmsl.CanonicalJSON(cb)
	if err1 != nil || err2 != nil {
		return false, "canonical"
	}
	if string(ca) != string(cb) {
		return false, "the returned event differs from the submitted one in a signed field"
	}
	return true, ""
}

// ---------------------------------------------------------------------------------------------------
// error classes

func errClass(err error) string {
	if err == nil {
		return ""
	}
	var ir spec.IncompatibleRoomVersionError
	if errors.As(err, &ir) {
		return string(ir.ErrCode)
	}
	var me spec.MatrixError
	if errors.As(err, &me) {
		return string(me.ErrCode)
	}
	var ie spec.InternalServerError
	if errors.As(err, &ie) {
		return "internal"
	}
	return "error"
}

// ---------------------------------------------------------------------------------------------------
// queriers

func userIDQuerier(mode string) spec.UserIDForSender {
	return func(roomID spec.RoomID, senderID spec.SenderID) (*spec.UserID, error) {
		switch mode {
		case "err":
			return nil, errors.New("c15: no user for this sender")
		case "nil":
			return nil, nil
		}
		return spec.NewUserID(string(senderID), true)
	}
}

// R's tables are keyed by the identity a member has in the room, its sender ID (Handshake.tla, "Who a fact is
// about"): the facts mem / pending / allow of the scenario are the rows under the sender ID of the member the request
// is about, sc.Oth is the row under every other key (the member's user ID where that is another string, any other
// member).  askLog notes the keys the handler asked under, for the disagreement message.
type askLog struct {
	mu    sync.Mutex
	key   string // the member's sender ID in the room
	user  string // the member's user ID
	asked []string
}

func (a *askLog) about(table string, senderID spec.SenderID) bool {
	if a == nil {
		return true
	}
	a.mu.Lock()
	defer a.mu.Unlock()
	cls := "peer"
	switch string(senderID) {
	case a.key:
		cls = "sid"
	case a.user:
		cls = "uid"
	}
	entry := table + ":" + cls
	for _, e := range a.asked {
		if e == entry {
			return cls == "sid"
		}
	}
	a.asked = append(a.asked, entry)
	return cls == "sid"
}

// wrongKeys: the tables that were asked under another key than the member's sender ID.
func (a *askLog) wrongKeys() []string {
	if a == nil {
		return nil
	}
	a.mu.Lock()
	defer a.mu.Unlock()
	var out []string
	for _, e := range a.asked {
		if !strings.HasSuffix(e, ":sid") {
			out = append(out, e)
		}
	}
	return out
}

func othMembership(oth string) string {
	if oth == "none" {
		return ""
	}
	return oth
}

type membershipQuerier struct {
	mem  string // the row under the member's sender ID
	oth  string // the row under every other key
	fail bool
	log  *askLog // nil: a table with one row for everybody (the requesting side's own view)
}

func (m membershipQuerier) CurrentMembership(ctx context.Context, roomID spec.RoomID, senderID spec.SenderID) (string, error) {
	mine := m.log.about("membership", senderID)
	if m.fail {
		return "", errors.New("c15: membership unavailable")
	}
	if !mine {
		return othMembership(m.oth), nil
	}
	if m.mem == "none" {
		return "", nil
	}
	return m.mem, nil
}

type restrictedQuerier struct {
	w   *world
	log *askLog
}

func (q restrictedQuerier) CurrentStateEvent(ctx context.Context, roomID spec.RoomID, eventType string, stateKey string) (gmsl.PDU, error) {
	w := q.w
	switch eventType {
	case spec.MRoomJoinRules:
		if w.sc.QErr == "jr_err" {
			return nil, errors.New("c15: join rules unavailable")
		}
		if w.jr == nil {
			return nil, nil
		}
		return w.jr, nil
	case spec.MRoomPowerLevels:
		if w.sc.QErr == "pl_missing" {
			return nil, nil
		}
		if w.sc.QErr == "pl_err" {
			return nil, errors.New("c15: power levels unavailable")
		}
		return w.pl, nil
	case spec.MRoomCreate:
		if w.sc.QErr == "create_nil" {
			return nil, nil
		}
		if w.sc.QErr == "create_err" {
			return nil, errors.New("c15: create event unavailable")
		}
		return w.create, nil
	}
	return nil, nil
}

func (q restrictedQuerier) InvitePending(ctx context.Context, roomID spec.RoomID, senderID spec.SenderID) (bool, error) {
	mine := q.log.about("pending", senderID)
	if q.w.sc.QErr == "pending_err" {
		return false, errors.New("c15: pending invites unavailable")
	}
	if !mine {
		return q.w.sc.Oth == "invite", nil
	}
	return q.w.sc.Pending, nil
}

func (q restrictedQuerier) RestrictedRoomJoinInfo(ctx context.Context, roomID spec.RoomID, senderID spec.SenderID, localServerName spec.ServerName) (*gmsl.RestrictedRoomJoinInfo, error) {
	w := q.w
	mine := q.log.about("allowed-room", senderID)
	for i, cls := range w.sc.Allow {
		if roomID.String() != allowedRoom(i) {
			continue
		}
		if !mine { // the row of another identity (Handshake!OthAllow)
			in := w.sc.Oth == "invite" || w.sc.Oth == "join"
			switch cls {
			case "nouser":
				if in {
					cls = "listed"
				}
			case "empty", "listedB", "listed", "listed2":
				if !in {
					cls = "nouser"
				}
			}
		}
		switch cls {
		case "nonres":
			return &gmsl.RestrictedRoomJoinInfo{LocalServerInRoom: false}, nil
		case "info_err":
			return nil, errors.New("c15: room info unavailable")
		case "info_nil":
			return nil, nil
		case "nouser":
			return &gmsl.RestrictedRoomJoinInfo{LocalServerInRoom: true, UserJoinedToRoom: false, JoinedUsers: []gmsl.PDU{w.listA}}, nil
		case "empty":
			return &gmsl.RestrictedRoomJoinInfo{LocalServerInRoom: true, UserJoinedToRoom: true, JoinedUsers: []gmsl.PDU{}}, nil
		case "listedB":
			return &gmsl.RestrictedRoomJoinInfo{LocalServerInRoom: true, UserJoinedToRoom: true, JoinedUsers: []gmsl.PDU{w.listB}}, nil
		case "listed":
			return &gmsl.RestrictedRoomJoinInfo{LocalServerInRoom: true, UserJoinedToRoom: true, JoinedUsers: []gmsl.PDU{w.listA}}, nil
		case "listed2":
			return &gmsl.RestrictedRoomJoinInfo{LocalServerInRoom: true, UserJoinedToRoom: true, JoinedUsers: []gmsl.PDU{w.listB, w.listA}}, nil
		}
	}
	// a room the join rule does not name (or a class that never reaches the querier)
	return &gmsl.RestrictedRoomJoinInfo{LocalServerInRoom: false}, nil
}

type roomQuerier struct {
	known bool
	fail  bool
}

func (r roomQuerier) IsKnownRoom(ctx context.Context, roomID spec.RoomID) (bool, error) {
	if r.fail {
		return false, errors.New("c15: room information unavailable")
	}
	return r.known, nil
}

type stateQuerier struct{ w *world }

func (s stateQuerier) GetAuthEvents(ctx context.Context, event gmsl.PDU) (gmsl.AuthEventProvider, error) {
	return gmsl.NewAuthEvents(s.w.state(true))
}

func (s stateQuerier) GetState(ctx context.Context, roomID spec.RoomID, wanted []gmsl.StateKeyTuple) ([]gmsl.PDU, error) {
	out := []gmsl.PDU{}
	for _, e := range s.w.state(true) {
		for _, t := range wanted {
			if e.Type() == t.EventType && e.StateKeyEquals(t.StateKey) {
				out = append(out, e)
			}
		}
	}
	return out, nil
}

// templateBuilder is the caller-supplied BuildEventTemplate: fills auth / prev events in from the current state
// and builds a full event (signed by R, as a real server does to run the auth check).
func (w *world) templateBuilder() func(*gmsl.ProtoEvent) (gmsl.PDU, []gmsl.PDU, error) {
	return func(proto *gmsl.ProtoEvent) (gmsl.PDU, []gmsl.PDU, error) {
		tb := w.sc.TB
		if tb == "err" {
			return nil, nil, spec.InternalServerError{Err: "c15: template builder failed"}
		}
		state := w.state(tb != "nocreate")
		provider, err := gmsl.NewAuthEvents(state)
		if err != nil {
			return nil, nil, err
		}
		needed, err := gmsl.StateNeededForProtoEvent(proto)
		if err != nil {
			return nil, nil, err
		}
		refs, err := needed.AuthEventReferences(provider)
		if err != nil {
			return nil, nil, err
		}
		if domainless(string(w.ver)) {
			kept := refs[:0]
			for _, id := range refs {
				if id != w.create.EventID() {
					kept = append(kept, id)
				}
			}
			refs = kept
		}
		proto.AuthEvents = refs
		proto.PrevEvents = []string{w.last}
		proto.Depth = w.depth + 1
		if tb == "wrongtype" {
			cp := *proto
			cp.Type = "m.room.message"
			cp.StateKey = nil
			ev, err := w.impl.NewEventBuilderFromProtoEvent(&cp).Build(t0.Add(time.Hour), servers["R"].name, servers["R"].keyID, servers["R"].priv)
			if err != nil {
				return nil, nil, err
			}
			return ev, state, nil
		}
		ev, err := w.impl.NewEventBuilderFromProtoEvent(proto).Build(t0.Add(time.Hour), servers["R"].name, servers["R"].keyID, servers["R"].priv)
		if err != nil {
			return nil, nil, err
		}
		switch tb {
		case "nilev":
			return nil, state, nil
		case "nilstate":
			return ev, nil, nil
		}
		return ev, state, nil
	}
}
