package main

// Abstract events of Handshake.tla <-> real event JSON: concretisation (abstract -> signed JSON) and
// projection (JSON as seen at a call boundary -> abstract classes).

import (
	"encoding/json"
	"fmt"
	"strings"
	"time"

	gmsl "github.com/matrix-org/gomatrixserverlib"
	"github.com/matrix-org/gomatrixserverlib/spec"
	"github.com/tidwall/gjson"
	"github.com/tidwall/sjson"
)

// AbsEv is the abstract event record of Handshake.tla.
type AbsEv struct {
	Type  string `json:"type"`
	Mship string `json:"mship,omitempty"`
	Ssrv  string `json:"ssrv,omitempty"`
	Skey  string `json:"skey,omitempty"`
	Room  string `json:"room,omitempty"`
	Via   string `json:"via,omitempty"`
	Sig   string `json:"sig,omitempty"`
	Auth  string `json:"auth,omitempty"`
}

const otherType = "org.example.c15.other"

func viaUser(cls string) string {
	switch cls {
	case "local":
		return userA
	case "remote":
		return userRemoteA
	case "invalid":
		return "not-a-user-id"
	}
	return ""
}

// stateKeyFor realises the state-key class relative to the sender.
func stateKeyFor(cls, sender string) *string {
	switch cls {
	case "sender":
		return strp(sender)
	case "other":
		return strp(otherOf(serverClass(spec.ServerName(domainOf(sender)))))
	case "empty":
		return strp("")
	case "invitee":
		return strp(userInvitee)
	case "otherlocal":
		return strp(userOtherLo)
	case "absent":
		return nil
	}
	panic("c15: unknown state key class " + cls)
}

// concreteEvent builds the real event for an abstract one.  The signature class decides who signs:
//
//	valid     the sender's server, with its real key
//	none      signatures emptied
//	wrongkey  under the sender's server name and key ID, with another private key
//	other     only by another server (really signed)
//	casevar   only by the server named like the sender's server in another letter case (really signed, its own key)
//	tampered  really signed, then a signed field (depth) changed
//	expired / revoked   really signed; the key database says valid_until_ts / expired_ts lies before the event's time
func (w *world) concreteEvent(e AbsEv, ts time.Time) []byte {
	sender := userOf(e.Ssrv)
	typ := spec.MRoomMember
	if e.Type != "member" {
		typ = otherType
	}
	content := map[string]interface{}{}
	if e.Mship != "missing" {
		content["membership"] = e.Mship
	}
	if v := viaUser(e.Via); v != "" {
		content["join_authorised_via_users_server"] = v
	}
	// content that must have no effect on the handshake
	switch w.sc.Extra {
	case "tpi":
		content["third_party_invite"] = map[string]interface{}{"display_name": "c15",
			"signed": map[string]interface{}{"mxid": sender, "token": "c15token", "signatures": map[string]interface{}{}}}
	case "unknown":
		content["org.example.c15"] = map[string]interface{}{"membership": "ban", "n": 1}
		content["displayname"] = "c15"
	}
	skey := stateKeyFor(e.Skey, sender)
	var authEvs []gmsl.PDU
	if e.Auth != "nocreate" {
		authEvs = append(authEvs, w.create)
	}
	authEvs = append(authEvs, w.pl, w.jr, w.members[sender])
	if e.Via == "local" {
		authEvs = append(authEvs, w.members[userA])
	}
	if e.Mship == "invite" {
		authEvs = append(authEvs, w.members[userC])
	}
	S := servers[e.Ssrv]
	signer, key := S, S.priv
	switch e.Sig {
	case "wrongkey":
		key = S.wrong
	case "other":
		signer = servers["X"]
		if e.Ssrv == "X" {
			signer = servers["J"]
		}
		key = signer.priv
	case "casevar": // only signed by the server whose name is the sender's server's in another letter case
		signer = casePartner(e.Ssrv)
		key = signer.priv
	}
	ev, err := w.buildEvent(w.roomID(e.Room), typ, skey, sender, content, w.authFor(authEvs...), []string{w.last}, w.depth+1, ts, signer, key)
	if err != nil {
		panic(fmt.Sprintf("c15: cannot build abstract event %+v: %v", e, err))
	}
	js := ev.JSON()
	R, O := servers["R"], servers["X"]
	if S == O {
		O = servers["J"]
	}
	switch e.Sig {
	case "none":
		js, err = sjson.SetRawBytes(js, "signatures", []byte(`{}`))
	case "tampered":
		js, err = sjson.SetBytes(js, "depth", w.depth+7)
	case "two_keys": // a second key ID of the same server with a signature that verifies under no key
		js, err = sjson.SetBytes(js, "signatures."+escapeDots(string(S.name))+".ed25519:c15old", strings.Repeat("A", 86))
	case "plus_other":
		js = ev.Sign(string(O.name), O.keyID, O.priv).JSON()
	case "presigned":
		js = ev.Sign(string(R.name), R.keyID, R.priv).JSON()
	case "presigned_bad":
		js = ev.Sign(string(R.name), R.keyID, R.wrong).JSON()
	}
	if err != nil {
		panic(err)
	}
	if w.sc.Extra == "unsigned" {
		if js, err = sjson.SetRawBytes(js, "unsigned", []byte(`{"age":1234,"membership":"ban","prev_content":{"membership":"ban"}}`)); err != nil {
			panic(err)
		}
	}
	return js
}

// projectEvent reads the abstract classes off a real event JSON (independent of the library's PDU type).
// claimed is the server the signature class is judged against (the sender's server).
func (w *world) projectEvent(js []byte, kind string) AbsEv {
	var e AbsEv
	typ := gjson.GetBytes(js, "type").String()
	if typ == spec.MRoomMember {
		e.Type = "member"
	} else {
		e.Type = "other"
	}
	if m := gjson.GetBytes(js, "content.membership"); m.Exists() {
		e.Mship = m.String()
	} else {
		e.Mship = "missing"
	}
	sender := gjson.GetBytes(js, "sender").String()
	e.Ssrv = serverClass(spec.ServerName(domainOf(w.userOfSender(sender))))
	sk := gjson.GetBytes(js, "state_key")
	switch {
	case !sk.Exists():
		e.Skey = "absent"
	case kind == "invite" && sk.String() == userInvitee:
		e.Skey = "invitee"
	case kind == "invite" && sk.String() == userOtherLo:
		e.Skey = "otherlocal"
	case sk.String() == sender:
		e.Skey = "sender"
	case sk.String() == "":
		e.Skey = "empty"
	default:
		e.Skey = "other"
	}
	e.Room = w.roomClass(gjson.GetBytes(js, "room_id").String())
	via := gjson.GetBytes(js, "content.join_authorised_via_users_server")
	switch {
	case !via.Exists() || via.String() == "":
		e.Via = "none"
	case via.String() == w.sid(userA):
		e.Via = "local"
	case domainOf(w.userOfSender(via.String())) == "":
		e.Via = "invalid"
	default:
		e.Via = "remote"
	}
	e.Sig = "invalid"
	if s, ok := servers[e.Ssrv]; ok && validSigBy(w.impl, js, s) {
		e.Sig = "valid"
	}
	// what the event's own auth_events cover: "full" create and A's membership, "base" create only, "nocreate"
	hasCreate, hasA := domainless(string(w.ver)), false
	gjson.GetBytes(js, "auth_events").ForEach(func(_, v gjson.Result) bool {
		id := v.String()
		if v.IsArray() && len(v.Array()) > 0 {
			id = v.Array()[0].String()
		}
		if id == w.create.EventID() {
			hasCreate = true
		}
		if a := w.members[userA]; a != nil && id == a.EventID() {
			hasA = true
		}
		return true
	})
	switch {
	case !hasCreate:
		e.Auth = "nocreate"
	case hasA:
		e.Auth = "full"
	default:
		e.Auth = "base"
	}
	return e
}

func escapeDots(s string) string { return strings.ReplaceAll(s, ".", `\.`) }

func mustJSON(v interface{}) json.RawMessage {
	b, err := json.Marshal(v)
	if err != nil {
		panic(err)
	}
	return b
}
