package main

// code -> spec for the header grammar.  Seeded random Authorization header strings are built from tokens
// (the alphabet of spec/FedHeader.tla), given to the real fclient.ParseAuthorization and logged with the
// parsed fields; spec/FedRequest_trace.tla re-derives every logged result from the tokens.
//
// Generated: any order of parameters, repeated and unknown names, quoted / bare values of every server
// name shape, optional whitespace (spaces, tabs) between list tokens, empty list elements, one or more
// spaces after the scheme, and the malformations: other / missing scheme, missing space, and per element
// a missing name, "=", value, or "=" and value.
// Not generated (the grammars in circulation disagree or the value alphabet excludes it): values with
// comma, quote or backslash, unbalanced quotes, upper-case parameter names, missing commas.

import (
	"encoding/json"
	"fmt"
	"math/rand"
	"strings"

	"github.com/matrix-org/gomatrixserverlib/fclient"

	"verifharness/hx"
)

type tok struct {
	K string `json:"k"`
	S string `json:"s"`
}

type parsed struct {
	Scheme      string `json:"scheme"`
	Origin      string `json:"origin"`
	Destination string `json:"destination"`
	Key         string `json:"key"`
	Sig         string `json:"sig"`
}

type hdrLine struct {
	Toks []tok  `json:"toks"`
	Text string `json:"text"`
	Got  parsed `json:"got"`
}

func renderToks(ts []tok) string {
	var b strings.Builder
	for _, t := range ts {
		if t.K == "q" {
			b.WriteString(`"` + t.S + `"`)
		} else {
			b.WriteString(t.S)
		}
	}
	return b.String()
}

func parseReal(text string) parsed {
	scheme, origin, destination, key, sig := fclient.ParseAuthorization(text)
	return parsed{scheme, string(origin), string(destination), string(key), sig}
}

var recNames = []string{
	"origin.example.org", "localhost:8800", "203.0.113.7", "203.0.113.7:8448", "[2001:db8::7]:8448", "[::1]",
	"dest.example.com", "alt.example.com:443", "origin_bad.example.org", "bad name.example.org", "[2001:db8::7",
	"a", "exämple.org", "origin.example.org:8448:1",
	"Origin.Example.ORG:8448", "[2001:DB8::1]:8448", "Matrix.Me.Example", "LOCALHOST",
}
var recKeys = []string{"ed25519:1", "ed25519:a_Obwu", "ed25519:auto", "ed25519:k1", "curve25519:x"}
var recSigs = []string{
	"7vt4vP/w8zYB3Zg77nuTPwie3TxEy2OHZQMsSa4nsXZzL4/qw+DguXbyMy3BF77XvSJmBt+Gw+fU6T4HId7fBg",
	"+hmW6UjEXx7vMt2+MXO/EImSfdEYdBsZEOmpiz3evYktAgGNpGuNMBYXIA969WGubmceREKA/r1phasUFHBpDg",
	"c2ln", "c2lnbg==", "sig", "AAAA-_AA",
}
var recUnknownNames = []string{"foo", "x-extra", "origins", "dest", "signature", "realm"}
var recOws = []string{" ", "\t", "  ", " \t"}

func genHeader(r *rand.Rand) []tok {
	var ts []tok
	// scheme
	switch x := r.Intn(20); {
	case x < 15:
		ts = append(ts, tok{"scheme", "X-Matrix"})
	case x < 19:
		ts = append(ts, tok{"scheme", []string{"Bearer", "X-Matri", "X-Matrix2", "Basic", "XMatrix", "Matrix", "X-Matrix,"}[r.Intn(7)]})
	default:
		// no scheme at all
	}
	// separating space(s)
	switch x := r.Intn(20); {
	case x < 15:
		ts = append(ts, tok{"sp", " "})
	case x < 18:
		ts = append(ts, tok{"sp", strings.Repeat(" ", 2+r.Intn(3))})
	default:
		// missing
	}
	ows := func(p int) {
		if r.Intn(100) < p {
			ts = append(ts, tok{"ows", recOws[r.Intn(len(recOws))]})
		}
	}
	// the parameter names of this header
	var names []string
	for _, n := range []string{"origin", "key", "sig", "destination"} {
		if r.Intn(10) < 9 || (n == "destination" && r.Intn(2) == 0) {
			names = append(names, n)
		}
	}
	for r.Intn(4) == 0 {
		names = append(names, recUnknownNames[r.Intn(len(recUnknownNames))])
	}
	for r.Intn(6) == 0 {
		names = append(names, []string{"origin", "key", "sig", "destination"}[r.Intn(4)]) // repeated name
	}
	for r.Intn(5) == 0 {
		names = append(names, "") // empty list element
	}
	r.Shuffle(len(names), func(i, j int) { names[i], names[j] = names[j], names[i] })
	wsP := []int{0, 0, 25, 60}[r.Intn(4)]
	for i, n := range names {
		if i > 0 {
			ows(wsP)
			ts = append(ts, tok{"comma", ","})
		}
		ows(wsP)
		if n == "" {
			continue
		}
		var v string
		switch n {
		case "origin", "destination":
			v = recNames[r.Intn(len(recNames))]
		case "key":
			v = recKeys[r.Intn(len(recKeys))]
		case "sig":
			v = recSigs[r.Intn(len(recSigs))]
		default:
			v = []string{"1", "x", "origin.example.org", "a b"}[r.Intn(4)]
		}
		if r.Intn(25) == 0 {
			v = "" // empty quoted value
		}
		kind := "q"
		if isTokenish(v) && r.Intn(3) == 0 {
			kind = "b"
		}
		mal := 0
		if r.Intn(12) == 0 {
			mal = 1 + r.Intn(4)
		}
		if mal != 1 { // 1: name missing
			ts = append(ts, tok{"name", n})
			ows(wsP)
		}
		if mal != 2 && mal != 4 { // 2: "=" missing, 4: "=" and value missing
			ts = append(ts, tok{"eq", "="})
			ows(wsP)
		}
		if mal != 3 && mal != 4 { // 3: value missing
			ts = append(ts, tok{kind, v})
		}
		ows(wsP / 2)
	}
	return retokenise(ts)
}

// retokenise makes the token sequence the unique reading of its text: spaces that directly follow the
// scheme are the separating space (sp), whatever the generator meant them to be.
func retokenise(ts []tok) []tok {
	if len(ts) < 2 || ts[0].K != "scheme" || ts[1].K != "ows" || !strings.HasPrefix(ts[1].S, " ") {
		return ts
	}
	sp := ts[1].S[:len(ts[1].S)-len(strings.TrimLeft(ts[1].S, " "))]
	rest := ts[1].S[len(sp):]
	out := []tok{ts[0], {"sp", sp}}
	if rest != "" {
		out = append(out, tok{"ows", rest})
	}
	return append(out, ts[2:]...)
}

func record(a *hx.Args) error {
	tw, err := hx.NewTraceWriter(a.Out)
	if err != nil {
		return err
	}
	r := rand.New(rand.NewSource(a.Seed*7919 + 13))
	// the five strings of the repository's own test first
	for i := 0; i < a.N; i++ {
		ts := genHeader(r)
		text := renderToks(ts)
		var got parsed
		res := hx.Safely(i, func() hx.Result { got = parseReal(text); return hx.Result{OK: true} })
		if !res.OK {
			res.Key = "C13/header-grammar/panic"
			res.Extra = hdrLine{Toks: ts, Text: text}
			b, _ := json.Marshal(res)
			fmt.Println(string(b))
			continue
		}
		tw.Emit(hdrLine{Toks: ts, Text: text, Got: got})
	}
	return tw.Close()
}

// rehdr re-executes one logged line: ok=false iff the real parser gives the logged result again
// (the result the specification rejected).
func rehdr(raw json.RawMessage) hx.Result {
	var l hdrLine
	if err := json.Unmarshal(raw, &l); err != nil {
		machinery(err.Error())
	}
	text := renderToks(l.Toks)
	got := parseReal(text)
	if got != l.Got || text != l.Text {
		return hx.Result{OK: true, NT: "not-reproduced", Got: got}
	}
	var kinds []string
	for _, t := range l.Toks {
		if t.K != "ows" {
			kinds = append(kinds, t.K)
		}
	}
	return hx.Result{OK: false, Key: "C13/header-grammar/" + strings.Join(kinds, "."),
		What: fmt.Sprintf("ParseAuthorization(%q) = %+v, which the header grammar (spec/FedHeader.tla) does not allow for the tokens %v", text, got, l.Toks),
		Got:  got}
}
