package main

// The transmitted request as text: what HTTPRequest() wrote on the wire, taken apart so that the
// tamperings of FedRequest.tla can be applied to the text, and put back together for http.ReadRequest.

import (
	"bufio"
	"bytes"
	"fmt"
	"net/http"
	"regexp"
	"strconv"
	"strings"
)

type hline struct{ name, value string }

type wireReq struct {
	method, uri, proto string
	headers            []hline
	body               []byte
}

func parseWire(b []byte) (*wireReq, error) {
	i := bytes.Index(b, []byte("\r\n\r\n"))
	if i < 0 {
		return nil, fmt.Errorf("no header terminator")
	}
	lines := strings.Split(string(b[:i]), "\r\n")
	rl := strings.SplitN(lines[0], " ", 3)
	if len(rl) != 3 {
		return nil, fmt.Errorf("bad request line %q", lines[0])
	}
	w := &wireReq{method: rl[0], uri: rl[1], proto: rl[2], body: append([]byte(nil), b[i+4:]...)}
	for _, l := range lines[1:] {
		j := strings.Index(l, ": ")
		if j < 0 {
			return nil, fmt.Errorf("bad header line %q", l)
		}
		w.headers = append(w.headers, hline{l[:j], l[j+2:]})
	}
	return w, nil
}

func (w *wireReq) get(name string) (string, bool) {
	for _, h := range w.headers {
		if strings.EqualFold(h.name, name) {
			return h.value, true
		}
	}
	return "", false
}

func (w *wireReq) getAll(name string) []string {
	var out []string
	for _, h := range w.headers {
		if strings.EqualFold(h.name, name) {
			out = append(out, h.value)
		}
	}
	return out
}

func (w *wireReq) del(name string) {
	var out []hline
	for _, h := range w.headers {
		if !strings.EqualFold(h.name, name) {
			out = append(out, h)
		}
	}
	w.headers = out
}

func (w *wireReq) set(name, value string) {
	for i, h := range w.headers {
		if strings.EqualFold(h.name, name) {
			w.headers[i].value = value
			return
		}
	}
	w.headers = append(w.headers, hline{name, value})
}

// bytes re-assembles the message; Content-Length follows the body (as any intermediary would do).
func (w *wireReq) bytes() []byte {
	w.del("Content-Length")
	var b bytes.Buffer
	fmt.Fprintf(&b, "%s %s %s\r\n", w.method, w.uri, w.proto)
	for _, h := range w.headers {
		fmt.Fprintf(&b, "%s: %s\r\n", h.name, h.value)
	}
	if len(w.body) > 0 {
		fmt.Fprintf(&b, "Content-Length: %s\r\n", strconv.Itoa(len(w.body)))
	}
	b.WriteString("\r\n")
	b.Write(w.body)
	return b.Bytes()
}

// serverRequest is the *http.Request a Go HTTP server hands to its handler for this message.
func (w *wireReq) serverRequest() (*http.Request, error) {
	return http.ReadRequest(bufio.NewReader(bytes.NewReader(w.bytes())))
}

// ---- the Authorization header ------------------------------------------------------------

var canonHdr = regexp.MustCompile(`^X-Matrix origin="([^"]*)",key="([^"]*)",sig="([^"]*)",destination="([^"]*)"$`)

// xmatrix is the header of HTTPRequest() taken apart; a nil pointer is a dropped parameter.
type xmatrix struct {
	scheme                 string
	origin, key, sig, dest *string
}

func parseCanon(v string) (*xmatrix, error) {
	m := canonHdr.FindStringSubmatch(v)
	if m == nil {
		return nil, fmt.Errorf("Authorization header not in the form HTTPRequest writes: %q", v)
	}
	return &xmatrix{"X-Matrix", &m[1], &m[2], &m[3], &m[4]}, nil
}

func isTokenish(s string) bool {
	if s == "" {
		return false
	}
	for i := 0; i < len(s); i++ {
		c := s[i]
		switch {
		case c >= 'a' && c <= 'z', c >= 'A' && c <= 'Z', c >= '0' && c <= '9':
		case strings.IndexByte("!#$%&'*+-.^_`|~:", c) >= 0:
		default:
			return false
		}
	}
	return true
}

// render writes the header in one of the styles of FedRequest.tla (Emit).
func (x *xmatrix) render(style string) string {
	type kv struct {
		n string
		v *string
	}
	ps := []kv{{"origin", x.origin}, {"key", x.key}, {"sig", x.sig}, {"destination", x.dest}}
	if style == "reorder" {
		ps = []kv{{"destination", x.dest}, {"sig", x.sig}, {"key", x.key}, {"origin", x.origin}}
	}
	eq, comma, sp := "=", ",", " "
	switch style {
	case "spaces":
		eq, comma, sp = " = ", " , ", "  "
	case "empties":
		comma = ",,"
	}
	var parts []string
	for _, p := range ps {
		if p.v == nil {
			continue
		}
		val := `"` + *p.v + `"`
		if style == "bare" && p.n != "sig" && isTokenish(*p.v) {
			val = *p.v
		}
		parts = append(parts, p.n+eq+val)
	}
	return x.scheme + sp + strings.Join(parts, comma)
}
