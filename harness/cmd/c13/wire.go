package main

// The transmitted request as text: what HTTPRequest() wrote on the wire, taken apart so that the
// tamperings of FedRequest.tla can be applied to the text, and put back together for http.ReadRequest.

import (
	"bufio"
	"bytes"
	"fmt"
	"net/http"
	"regexp"
	"strconv"
	"strings"
)

type hline struct{ name, value string }

type wireReq struct {
	method, uri, proto string
	headers            []hline
	body               []byte
}

func parseWire(b []byte) (*wireReq, error) {
	i := bytes.Index(b, []byte("\r\n\r\n"))
	if i < 0 {
		return nil, fmt.Errorf("no header terminator")
	}
	lines := strings.Split(string(b[:i]), "\r\n")
	rl := strings.SplitN(lines[0], " ", 3)
	if len(rl) != 3 {
		return nil, fmt.Errorf("bad request line %q", lines[0])
	}
	w := &wireReq{method: rl[0], uri: rl[1], proto: rl[2], body: append([]byte(nil), b[i+4:]...)}
	for _, l := range lines[1:] {
		j := strings.Index(l, ": ")
		if j < 0 {
			return nil, fmt.Errorf("bad header line %q", l)
		}
		w.headers = append(w.headers, hline{l[:j], l[j+2:]})
	}
	return w, nil
}

func (w *wireReq) get(name string) (string, bool) {
	for _, h := range w.headers {
		if strings.EqualFold(h.name, name) {
			return h.value, true
		}
	}
	return "", false
}

func (w *wireReq) getAll(name string) []string {
	var out []string
	for _, h := range w.headers {
		if strings.EqualFold(h.name, name) {
			out = append(out, h.value)
		}
	}
	return out
}

func (w *wireReq) del(name string) {
	var out []hline
	for _, h := range w.headers {
		if !strings.EqualFold(h.name, name) {
			out = append(out, h)
		}
	}
	w.headers = out
}

func (w *wireReq) set(name, value string) {
	for i, h := range w.headers {
		if strings.EqualFold(h.name, name) {
			w.headers[i].value = value
			return
		}
	}
	w.headers = append(w.headers, hline{name, value})
}

// bytes re-assembles the message; Content-Length follows the body (as any intermediary would do).
func (w *wireReq) bytes() []byte {
	w.del("Content-Length")
	var b bytes.Buffer
	fmt.Fprintf(&b, "%s %s %s\r\n", w.method, w.uri, w.proto)
	for _, h := range w.headers {
		fmt.Fprintf(&b, "%s: %s\r\n", h.name, h.value)
	}
	if len(w.body) > 0 {
		fmt.Fprintf(&b, "Content-Length: %s\r\n", strconv.Itoa(len(w.body)))
	}
	b.WriteString("\r\n")
	b.Write(w.body)
	return b.Bytes()
}

// serverRequest is the *http.Request a Go HTTP server hands to its handler for this message.
func (w *wireReq) serverRequest() (*http.Request, error) {
	return http.ReadRequest(bufio.NewReader(bytes.NewReader(w.bytes())))
}

// ---- the Authorization header ------------------------------------------------------------

var canonHdr = regexp.MustCompile(`^X-Matrix origin="([^"]*)",key="([^"]*)",sig="([^"]*)",destination="([^"]*)"$`)

// xmatrix is the header of HTTPRequest() taken apart; a nil pointer is a dropped parameter.
type xmatrix struct {
	scheme                 string
	origin, key, sig, dest *string
}

func parseCanon(v string) (*xmatrix, error) {
	m := canonHdr.FindStringSubmatch(v)
	if m == nil {
		return nil, fmt.Errorf("Authorization header not in the form HTTPRequest writes: %q", v)
	}
	return &xmatrix{"X-Matrix", &m[1], &m[2], &m[3], &m[4]}, nil
}

func isTokenish(s string) bool {
	if s == "" {
		return false
	}
	for i := 0; i < len(s); i++ {
		c := s[i]
		switch {
		case c >= 'a' && c <= 'z', c >= 'A' && c <= 'Z', c >= '0' && c <= '9':
		case strings.IndexByte("!#$%&'*+-.^_`|~:", c) >= 0:
		default:
			return false
		}
	}
	return true
}

// render writes the header in one of the styles of FedRequest.tla (Emit).
func (x *xmatrix) render(style string) string {
	type kv struct {
		n string
		v *string
	}
	ps := []kv{{"origin", x.origin}, {"key", x.key}, {"sig", x.sig}, {"destination", x.dest}}
	if style == "reorder" {
		ps = []kv{{"destination", x.dest}, {"sig", x.sig}, {"key", x.key}, {"origin", x.origin}}
	}
	eq, comma, sp := "=", ",", " "
	switch style {
	case "spaces":
		eq, comma, sp = " = ", " , ", "  "
	case "empties":
		comma = ",,"
	}
	var parts []string
	for _, p := range ps {
		if p.v == nil {
			continue
		}
		val := `"` + *p.v + `"`
		if style == "bare" && p.n != "sig" && isTokenish(*p.v) {
			val = *p.v
		}
		parts = append(parts, p.n+eq+val)
	}
	if style == "extra" { // parameters no receiver knows
		parts = append(append([]string{"foo=bar"}, parts...), `realm=""`)
	}
	return x.scheme + sp + strings.Join(parts, comma)
}

// renderSplit is the header cut at the comma after its second parameter into two field lines.
func (x *xmatrix) renderSplit(style string) []string {
	whole := *x
	first, rest := whole, whole
	names := []**string{&first.origin, &first.key, &first.sig, &first.dest}
	order := []int{0, 1, 2, 3}
	if style == "reorder" {
		order = []int{3, 2, 1, 0}
	}
	restNames := []**string{&rest.origin, &rest.key, &rest.sig, &rest.dest}
	for i, idx := range order {
		if i < 2 {
			*restNames[idx] = nil
		} else {
			*names[idx] = nil
		}
	}
	if style == "extra" {
		style = "canon"
	}
	l2 := rest.render(style)
	l2 = strings.TrimLeft(strings.TrimPrefix(l2, rest.scheme), " ")
	return []string{first.render(style), l2}
}

// sameMessage compares two messages written by HTTPRequest() + Write: request line, body and the set of header lines
// (with two signatures the order of the Authorization headers is not fixed).
func sameMessage(a, b []byte) bool {
	wa, e1 := parseWire(a)
	wb, e2 := parseWire(b)
	if e1 != nil || e2 != nil || wa.method != wb.method || wa.uri != wb.uri || !bytes.Equal(wa.body, wb.body) || len(wa.headers) != len(wb.headers) {
		return false
	}
	set := map[hline]int{}
	for _, h := range wa.headers {
		set[h]++
	}
	for _, h := range wb.headers {
		set[h]--
	}
	for _, n := range set {
		if n != 0 {
			return false
		}
	}
	return true
}
