package main

// (h) sibling entry point: the same kind of request sent by a FederationClient method instead of by calling
// NewFederationRequest / SetContent / Sign / HTTPRequest directly.  The client signs with its signing identity
// and hands the *http.Request to its transport; the transport here writes the message out (what would go on
// the wire) and answers 200 {}.

import (
	"bytes"
	"context"
	"crypto/ed25519"
	"encoding/json"
	"fmt"
	"io"
	"net/http"
	"strings"

	gmsl "github.com/matrix-org/gomatrixserverlib"
	"github.com/matrix-org/gomatrixserverlib/fclient"
	"github.com/matrix-org/gomatrixserverlib/spec"
)

type captureTransport struct {
	wire []byte
	err  error
}

func (c *captureTransport) RoundTrip(req *http.Request) (*http.Response, error) {
	var buf bytes.Buffer
	if err := req.Write(&buf); err != nil {
		c.err = err
		return nil, err
	}
	c.wire = buf.Bytes()
	return &http.Response{StatusCode: 200, Status: "200 OK", Proto: "HTTP/1.1", ProtoMajor: 1, ProtoMinor: 1,
		Header: http.Header{"Content-Type": {"application/json"}}, Body: io.NopCloser(strings.NewReader("{}")), Request: req}, nil
}

// sendViaClient returns the message written, the request URI the method was to produce and the JSON body it was
// to send ("" = none).
func sendViaClient(p *picker, method, uclass, origin, dest, keyID string, priv ed25519.PrivateKey) (wire []byte, uri, body string, err error) {
	ct := &captureTransport{}
	fc := fclient.NewFederationClient(
		[]*fclient.SigningIdentity{{ServerName: spec.ServerName(origin), KeyID: gmsl.KeyID(keyID), PrivateKey: priv}},
		fclient.WithTransport(ct),
	)
	ctx := context.Background()
	o, d := spec.ServerName(origin), spec.ServerName(dest)
	switch {
	case method == "PUT":
		txn := gmsl.Transaction{
			TransactionID:  gmsl.TransactionID(pick(p, "txn", []string{"1493385816575", "txn-a_b.c~d", "0"})),
			Origin:         o,
			Destination:    d,
			OriginServerTS: 1493385822396,
			PDUs:           []json.RawMessage{json.RawMessage(`{"type":"m.room.message","content":{"body":"héllo"}}`)},
		}
		var want []byte
		if want, err = json.Marshal(txn); err != nil {
			return
		}
		uri, body = "/_matrix/federation/v1/send/"+string(txn.TransactionID), string(want)
		_, err = fc.SendTransaction(ctx, txn)
	case uclass == "plain":
		uri = "/_matrix/federation/v1/event/$abcDEF123"
		_, err = fc.GetEvent(ctx, o, d, "$abcDEF123")
	case uclass == "query":
		uri = "/_matrix/federation/v1/query/directory?room_alias=%23test%3Alocalhost%3A44033"
		_, err = fc.LookupRoomAlias(ctx, o, d, "#test:localhost:44033")
	case uclass == "escape":
		uri = "" // the version list in the query is the library's business: taken from the message below
		_, err = fc.MakeJoin(ctx, o, d, "!room/with slash:example.org", "@ü ser:example.org")
	default:
		err = fmt.Errorf("no client method for %s %s", method, uclass)
		machinery(err.Error())
	}
	if err == nil && ct.wire == nil {
		err = fmt.Errorf("the client reported success without using its transport")
	}
	if err != nil {
		return
	}
	wire = ct.wire
	if uri == "" {
		w, perr := parseWire(wire)
		if perr != nil {
			machinery(perr.Error())
		}
		uri = w.uri
		if !strings.HasPrefix(uri, "/_matrix/federation/v1/make_join/%21room%2Fwith%20slash:example.org/@%C3%BC%20ser:example.org?ver=") {
			err = fmt.Errorf("MakeJoin sent request target %q", uri)
		}
	}
	return
}
