package main

// spec -> code for FedName.tla: one record = one server name as a sequence of token kinds with the grammar's
// verdict.  The name is given a text, a request is really signed under that name (role "origin": X-Matrix origin,
// key on file under exactly that name) and handed to the real VerifyHTTPRequest: it is accepted iff the grammar
// calls the name a server name, and then reported as spelled.  A name the grammar accepts is also used as the
// destination (the receiver's own name): sendable, accepted, reported as spelled.

import (
	"bytes"
	"encoding/json"
	"fmt"
	"runtime/debug"
	"strings"
	"time"

	gmsl "github.com/matrix-org/gomatrixserverlib"
	"github.com/matrix-org/gomatrixserverlib/fclient"
	"github.com/matrix-org/gomatrixserverlib/spec"

	"verifharness/hx"
)

type nameRecord struct {
	Name  []string `json:"name"`
	Valid bool     `json:"valid"`
	Fam   string   `json:"fam"`
	D     string   `json:"d"`
	Br    string   `json:"br"`
	Pt    string   `json:"pt"`
}

var tokenTexts = map[string][]string{
	"lb":   {"["},
	"rb":   {"]"},
	"c":    {":"},
	"h":    {"0", "1", "7", "a", "db8", "fe80", "2001", "FFFF", "0000", "00a", "Ab", "9"},
	"v4":   {"203.0.113.7", "1.2.3.4", "0.0.0.0", "255.255.255.255"},
	"h5":   {"12345", "00000", "fffff", "0000001"},
	"x":    {"g", "1g", "12_", "xyz", "-1", "0x1"},
	"zone": {"%eth0", "%1", "%25eth0", "%en0", "%", "%0"},
	"dns":  {"origin.example.org", "matrix.org", "a-b.c-d.example", "localhost", "1.2.3", "256.1.1.1"},
	"port": {"8448", "443", "1", "65535", "0"},
}

// nameText concatenates the texts of the kinds; which text a kind gets depends on (seed, record, position).
func nameText(p *picker, kinds []string) string {
	var b strings.Builder
	for i, k := range kinds {
		ts := tokenTexts[k]
		if ts == nil {
			machinery("unknown name token kind " + k)
		}
		b.WriteString(ts[p.n(fmt.Sprintf("tok%d", i), len(ts))])
	}
	return b.String()
}

// shapeKey is the name as its token kinds.
func shapeKey(kinds []string) string {
	return strings.Join(kinds, " ")
}

func replayName(seed int64, raw json.RawMessage) (res hx.Result) {
	var r nameRecord
	if err := json.Unmarshal(raw, &r); err != nil {
		machinery(err.Error())
	}
	p := newPicker(seed, raw)
	name := nameText(p, r.Name)
	nt := fmt.Sprintf("name|%s|%s|%s|%s|groups=%d|%v", r.Fam, r.D, r.Br, r.Pt, strings.Count(" "+shapeKey(r.Name)+" ", " h "), r.Valid)
	// the canonical abstract name: how it was built; the number of groups only where nothing else is wrong with it
	key := func(stage string) string {
		k := "C13/" + stage + "/name=" + r.Fam
		if r.Fam == "simple" {
			return k + "/" + shapeKey(r.Name)
		}
		k += fmt.Sprintf("/defect=%s/brackets=%s/after=%s", r.D, r.Br, r.Pt)
		if r.D == "none" && r.Br == "both" && (r.Pt == "none" || r.Pt == "port") {
			sk := " " + shapeKey(r.Name) + " "
			k += fmt.Sprintf("/groups=%d", strings.Count(sk, " h ")+2*strings.Count(sk, " v4 "))
			if strings.Contains(sk, " c c ") {
				k += "+ellipsis"
			}
			if strings.Contains(sk, " v4 ") {
				k += "+quad"
			}
		}
		return k
	}
	defer func() {
		if x := recover(); x != nil {
			st := string(debug.Stack())
			if len(st) > 2400 {
				st = st[:2400]
			}
			res = hx.Result{OK: false, NT: nt, Key: key("panic"), Panic: fmt.Sprint(x), What: fmt.Sprintf("panic: %v (server name %q)\n%s", x, name, st)}
		}
	}()
	pub, priv := keyFrom("origin")
	keyID := pick(p, "keyid", keyIDs)
	now := time.Now()

	// one request from origin to dest (the receiver's only name), the key on file under the origin's name as spelled
	try := func(role, origin, dest string) *hx.Result {
		method, uri, body := "PUT", "/_matrix/federation/v1/send/1493385816575", `{"pdus":[],"edus":[]}`
		if p.n("get"+role, 2) == 0 {
			method, uri, body = "GET", "/_matrix/federation/v1/version", ""
		}
		fr := fclient.NewFederationRequest(method, spec.ServerName(origin), spec.ServerName(dest), uri)
		var err error
		if body != "" {
			err = fr.SetContent(spec.RawJSON(body))
		}
		if err == nil {
			err = fr.Sign(spec.ServerName(origin), gmsl.KeyID(keyID), priv)
		}
		var buf bytes.Buffer
		if err == nil {
			hr, herr := fr.HTTPRequest()
			if err = herr; err == nil {
				err = hr.Write(&buf)
			}
		}
		if err != nil {
			if r.Valid {
				return &hx.Result{OK: false, NT: nt, Key: key("send-" + role), Want: "sent", Got: err.Error(),
					What: fmt.Sprintf("%q is a server name, but a request with it as %s cannot be sent: %v", name, role, err)}
			}
			return &hx.Result{OK: true, NT: nt + "|unsendable"}
		}
		w, err := parseWire(buf.Bytes())
		if err != nil {
			machinery(err.Error())
		}
		w.del("User-Agent")
		sreq, err := w.serverRequest()
		if err != nil {
			machinery(fmt.Sprintf("http.ReadRequest rejects the transmitted text: %v\n%q", err, w.bytes()))
		}
		db := &memDB{m: map[gmsl.PublicKeyLookupRequest]gmsl.PublicKeyLookupResult{
			{ServerName: spec.ServerName(origin), KeyID: gmsl.KeyID(keyID)}: {
				VerifyKey: gmsl.VerifyKey{Key: spec.Base64Bytes(pub)}, ValidUntilTS: spec.AsTimestamp(now.Add(2 * time.Hour))},
		}}
		got, resp := fclient.VerifyHTTPRequest(sreq, now, spec.ServerName(dest), nil, gmsl.KeyRing{KeyDatabase: db})
		accepted := resp.Code == 200 && got != nil
		if accepted != r.Valid {
			stage := map[bool]string{true: "refused-by-spec-accepted-by-code", false: "accepted-by-spec-refused-by-code"}[accepted]
			return &hx.Result{OK: false, NT: nt, Key: key(stage + "-" + role), Want: r.Valid, Got: accepted,
				What: fmt.Sprintf("%s %q (tokens %s): the server-name grammar says valid=%v, VerifyHTTPRequest answered %d (%v) to a request validly signed under origin %q for destination %q, key %s on file; transmitted %q",
					role, name, shapeKey(r.Name), r.Valid, resp.Code, resp.JSON, origin, dest, keyID, clip(string(w.bytes())))}
		}
		if accepted && (string(got.Origin()) != origin || string(got.Destination()) != dest || got.Method() != method || got.RequestURI() != uri) {
			return &hx.Result{OK: false, NT: nt, Key: key("reported-" + role), Want: []string{method, uri, origin, dest},
				Got:  []string{got.Method(), got.RequestURI(), string(got.Origin()), string(got.Destination())},
				What: fmt.Sprintf("%s %q: accepted, but reports method %q uri %q origin %q destination %q; signed %s %s origin %q destination %q", role, name, got.Method(), got.RequestURI(), got.Origin(), got.Destination(), method, uri, origin, dest)}
		}
		return nil
	}
	if bad := try("origin", name, "dest.example.com"); bad != nil {
		return *bad
	}
	if r.Valid {
		if bad := try("destination", "origin.example.org", name); bad != nil {
			return *bad
		}
	}
	return hx.Result{OK: true, NT: nt}
}
