package main

// Concretisation of the abstract classes of FedRequest.tla.  Every class has several concrete
// representatives; which one is used is a pure function of (seed, record), so that a record
// re-executed alone in a fresh process is realised identically.

import (
	"bytes"
	"crypto/ed25519"
	"crypto/sha256"
	"encoding/binary"
	"encoding/json"
	"strconv"
	"strings"
)

type picker struct{ h uint64 }

func newPicker(seed int64, raw []byte) *picker {
	s := sha256.Sum256(append([]byte{byte(seed), byte(seed >> 8), byte(seed >> 16), byte(seed >> 24)}, raw...))
	return &picker{binary.LittleEndian.Uint64(s[:8])}
}

// n returns a number in [0,k) for the named choice.
func (p *picker) n(name string, k int) int {
	s := sha256.Sum256([]byte(name))
	x := p.h ^ binary.LittleEndian.Uint64(s[:8])
	x ^= x >> 33
	x *= 0xff51afd7ed558ccd
	x ^= x >> 33
	return int(x % uint64(k))
}

func pick(p *picker, name string, xs []string) string { return xs[p.n(name, len(xs))] }

var originNames = map[string][]string{
	"dns":  {"origin.example.org", "matrix.org", "a-b.c-d.example", "localhost"},
	"port": {"origin.example.org:8448", "localhost:8800", "matrix.org:443"},
	"ipv4": {"203.0.113.7", "203.0.113.7:8448", "[::1]"}, // literals without letters: one spelling only
	"ipv6": {"[2001:db8::7]:8448", "[fe80::1]", "[2001:db8:0:0:0:0:0:7]:443", "[::ffff:203.0.113.7]:8448", "[2001:db8:1:2:3:4:5::]", "[fe80::]"},
	// one grammar violation each (FedRequest.tla ExtraInvalidOrigins)
	"inv_brk4":       {"[10.1.2.3]"},
	"inv_brk4port":   {"[10.1.2.3]:8800"},
	"inv_portbig":    {"origin.example.org:65536", "origin.example.org:99999"},
	"inv_port6":      {"origin.example.org:000080", "origin.example.org:123456"},
	"inv_portneg":    {"origin.example.org:-1"},
	"inv_portplus":   {"origin.example.org:+80"},
	"inv_emptyhost":  {":8448"},
	"inv_underscore": {"origin_bad.example.org", "_origin.example.org:8448"},
	"inv_space":      {"bad name.example.org", "origin.example.org :8448"},
	"inv_slash":      {"origin.example.org/x", "origin.example.org/:8448"},
	"inv_bracket":    {"[2001:db8::7", "2001:db8::7]", "[2001:db8::7:8448"},
	"inv_quote":      {"origin\".example.org", "origin.example.org\",key=\"ed25519:x"},
	"inv_backslash":  {"origin\\.example.org", "origin.example.org\\"},
	"inv_zone":       {"[fe80::1%eth0]", "[fe80::1%1]", "[fe80::1%25eth0]", "[fe80::%lo]", "[::1%0]"},
	"inv_zoneport":   {"[fe80::1%eth0]:8448", "[fe80::1%1]:8448", "[fe80::1%25eth0]:8448", "[2001:db8::7%en0]:443"},
	"inv_v6groups":   {"[1:2:3:4:5:6:7:8:9]", "[1:2:3:4:5:6:7]:8448", "[1:2:3:4:5:6:7:8::]", "[1:2:3:4:5:6:7:1.2.3.4]"},
	"inv_v6dcolon":   {"[2001::db8::7]", "[::1::]:8448", "[1:::2]"},
	"inv_v6hex":      {"[2001:db8::g]", "[12345::1]:8448", "[fe80::1.2.3]", "[::ffff:01.2.3.4]"},
	"inv_v6empty":    {"[]", "[]:8448", "[:]"},
	"inv_v6trail":    {"[2001:db8::7]8448", "[2001:db8::7]:", "[2001:db8::7]x", "[2001:db8::7]:8448]"},
	"inv_long":       {strings.Repeat("a123456789.", 23) + "abc", strings.Repeat("a123456789.", 23) + "abc:8448"},
	"invalid":        {"origin_bad.example.org", "bad name.example.org", "[2001:db8::7", "origin.example.org:8448:1", "exämple.org", "origin.example.org/x"},
}

const otherOriginName = "other.example.net"

func pubOtherOf() ed25519.PublicKey { pub, _ := keyFrom("other"); return pub }

// portVariant is the name with a port suffix added (or, if it has one, removed): a different server name that
// coincides with the original up to the suffix.
func portVariant(name string) string {
	i := strings.LastIndex(name, ":")
	if i > 0 && !strings.Contains(name[i:], "]") {
		return name[:i]
	}
	return name + ":8448"
}

// mixedCase is the "mixed" spelling of a lower-case name: upper-case hex digits in an IPv6 literal,
// alternating letter case in a DNS name (Origin.Example.ORG style names are spelled like this in the wild).
func mixedCase(name string) string {
	if strings.HasPrefix(name, "[") {
		return strings.ToUpper(name)
	}
	b := []byte(name)
	up := true
	for i, c := range b {
		if c >= 'a' && c <= 'z' {
			if up {
				b[i] = c - 'a' + 'A'
			}
			up = !up
		}
	}
	return string(b)
}

func spell(name, spelling string) string {
	if spelling == "mixed" {
		return mixedCase(name)
	}
	return name
}

// caseVariant is the same name in another letter case (the name itself if it has no letters).
func caseVariant(name string) string {
	if l := strings.ToLower(name); l != name {
		return l
	}
	return mixedCase(name)
}

var destP = map[string]string{"dns": "dest.example.com", "port": "dest.example.com:8448", "ipv4": "198.51.100.9", "ipv6": "[2001:db8::9]:8448", "invalid": "dest.example.com"}
var destS = map[string]string{"dns": "alt.example.com", "port": "alt.example.com:443", "ipv4": "198.51.100.10:8448", "ipv6": "[2001:db8::a]", "invalid": "alt.example.com"}
var destF = map[string][]string{
	"dns":     {"foreign.example.org", "dest.example.com.evil.example", "xdest.example.com"},
	"port":    {"foreign.example.org:8448", "dest.example.com:8449"},
	"ipv4":    {"192.0.2.55", "198.51.100.9:1"},
	"ipv6":    {"[2001:db8::f00]:8448", "[2001:db8::9]:8449"},
	"invalid": {"dest_bad.example.com", "dest.example.com:8448:1", "[fe80::9%eth0]:8448", "[fe80::9%1]", "[2001:db8::9]8448"},
}

const destF2 = "elsewhere.example.org"

// further local names of a multi-homed receiver
var extraLocal = []string{"alt2.example.com", "[2001:db8::b]:8448", "198.51.100.11", "alt3.example.com:8448"}

var uris = map[string][]string{
	"plain":   {"/_matrix/federation/v1/send/1493385816575/", "/_matrix/federation/v1/version", "/"},
	"query":   {"/_matrix/federation/v1/query/directory?room_alias=%23test%3Alocalhost%3A44033", "/_matrix/federation/v1/backfill/!r:example.org?v=$e1&v=$e2&limit=10", "/_matrix/key/v2/query?a=1&a=2&b="},
	"escape":  {"/_matrix/federation/v1/event/%24abc%2Fdef%3Aexample.org", "/_matrix/federation/v1/state/%21room%3Aexample.org/a%20b", "/_matrix/federation/v2/invite/!r:e.org/$ev%2fx"},
	"emptyq":  {"/_matrix/federation/v1/version?", "/?"},
	"dslash":  {"//_matrix//federation/v1/../x", "/_matrix/./federation//"},
	"unicode": {"/_matrix/%E2%9C%93/x?y=%E2%9C%93&z=a+b", "/_matrix/federation/v1/user/@%C3%BC:example.org"},
	"long": {"/_matrix/federation/v1/send/" + strings.Repeat("a1", 600) + "?x=" + strings.Repeat("%41", 300),
		"/_matrix/federation/v1/state_ids/" + strings.Repeat("%21r%2F", 1000) + "?event_id=" + strings.Repeat("%24e", 2000)},
}

// tamperURI returns a request URI textually different from u (and still a valid request target).
func tamperURI(p *picker, u string) string {
	switch p.n("uri2", 6) {
	case 5:
		// an escaped slash unescaped (another path), or a plain slash escaped
		if i := strings.Index(strings.ToUpper(u), "%2F"); i >= 0 {
			return u[:i] + "/" + u[i+3:]
		}
		if i := strings.LastIndex(u, "/"); i > 0 && !strings.Contains(u[:i], "?") {
			return u[:i] + "%2F" + u[i+1:]
		}
		return u + "%2F"
	case 0:
		if strings.Contains(u, "?") {
			return u + "&x=1"
		}
		return u + "?x=1"
	case 1:
		if i := strings.Index(u, "?"); i >= 0 {
			return u[:i] + "x" + u[i:]
		}
		return u + "x"
	case 2:
		if i := strings.Index(u, "?"); i >= 0 && i+1 < len(u) {
			return u[:i] // query dropped
		}
		return "/x" + u
	case 3:
		// re-encode one escape: %XX upper <-> lower hex, or escape a plain letter
		for i := 0; i+2 < len(u); i++ {
			if u[i] == '%' {
				hexs := u[i+1 : i+3]
				alt := strings.ToLower(hexs)
				if alt == hexs {
					alt = strings.ToUpper(hexs)
				}
				if alt != hexs {
					return u[:i+1] + alt + u[i+3:]
				}
			}
		}
		return u + "%41"
	default:
		if strings.HasSuffix(u, "/") && len(u) > 1 {
			return u[:len(u)-1]
		}
		return u + "/"
	}
}

var bodiesObj = []string{
	`{"pdus":[],"edus":[{"edu_type":"m.presence","content":{"push":[]}}],"origin":"origin.example.org","origin_server_ts":1493385822396}`,
	`{"a":"ü✓ 😀","b":{"c":[1,2,3],"d":null},"e":true}`,
	`{}`,
	`{"z":1,"a":{"y":"2","b":[]},"m":"x"}`,
}

func init() {
	// a body far larger than a usual transaction
	var b strings.Builder
	b.WriteString(`{"pdus":[`)
	for i := 0; i < 700; i++ {
		if i > 0 {
			b.WriteByte(',')
		}
		b.WriteString(`{"type":"m.room.message","content":{"body":"` + strings.Repeat("x", 60) + `"},"depth":` + strconv.Itoa(i) + `}`)
	}
	b.WriteString(`],"origin":"origin.example.org"}`)
	bodiesObj = append(bodiesObj, b.String())
}

var bodiesArr = []string{`[1,"two",{"three":3}]`, `[]`, `[[],{}]`}

const bodyNonUTF8 = "{\"a\":\"\xff\xfe\"}"
const bodyNonUTF8b = "{\"k\":\"\xc3\x28\",\"pdus\":[]}"

// tamperJSON returns a JSON text whose value differs from that of b ("" = no body).
func tamperJSON(p *picker, b string) string {
	if b == "" {
		return []string{`{"added":true}`, `{}`, `[]`, `null`}[p.n("body2", 4)]
	}
	var v interface{}
	if err := json.Unmarshal([]byte(b), &v); err != nil {
		return `{"replaced":true}` // the signed body was not JSON (non-UTF-8 class): any JSON differs
	}
	switch t := v.(type) {
	case map[string]interface{}:
		switch p.n("body2", 3) {
		case 0:
			t["x"] = 1.0
		case 1:
			if len(t) > 0 {
				for k := range t {
					delete(t, k)
					break
				}
			} else {
				t["x"] = "y"
			}
		default:
			if _, ok := t["origin_server_ts"]; ok {
				t["origin_server_ts"] = 1493385822397.0
			} else {
				t["a"] = "changed"
			}
		}
		out, _ := json.Marshal(t)
		return string(out)
	case []interface{}:
		out, _ := json.Marshal(append(t, "x"))
		return string(out)
	}
	return `{"replaced":true}`
}

// respace returns another JSON text with the same value as b.
func respace(b string) string {
	var buf bytes.Buffer
	if json.Indent(&buf, []byte(b), " ", "\t") != nil {
		return b
	}
	return buf.String()
}

var keyIDs = []string{"ed25519:k1", "ed25519:a_Obwu", "ed25519:1", "ed25519:auto"}

const otherKeyID = "ed25519:other"
const nextKeyID = "ed25519:next" // the second key ID of an origin that signs with two

func keyFrom(label string) (ed25519.PublicKey, ed25519.PrivateKey) {
	s := sha256.Sum256([]byte("c13 key " + label))
	priv := ed25519.NewKeyFromSeed(s[:])
	return priv.Public().(ed25519.PublicKey), priv
}

func sameJSON(a, b []byte) bool {
	var x, y interface{}
	da := json.NewDecoder(bytes.NewReader(a))
	da.UseNumber()
	db := json.NewDecoder(bytes.NewReader(b))
	db.UseNumber()
	if da.Decode(&x) != nil || db.Decode(&y) != nil {
		return bytes.Equal(a, b)
	}
	ja, _ := json.Marshal(x)
	jb, _ := json.Marshal(y)
	return bytes.Equal(ja, jb)
}

// methodSpelling is the method word m in another letter case.
func methodSpelling(m string, k int) string {
	up, lo := strings.ToUpper(m), strings.ToLower(m)
	switch k {
	case 0:
		return lo
	case 1:
		return up[:1] + lo[1:]
	case 2:
		return lo[:1] + up[1:]
	}
	return lo[:1] + up[1:2] + lo[2:]
}

// letterPositions are the ASCII letters of a request target outside its %XX escapes.
func letterPositions(u string) []int {
	var out []int
	for i := 0; i < len(u); i++ {
		if u[i] == '%' {
			i += 2
			continue
		}
		if c := u[i] | 0x20; c >= 'a' && c <= 'z' {
			out = append(out, i)
		}
	}
	return out
}

// flipLetter is the target with one letter (the k-th, modulo) in the other case.
func flipLetter(u string, k int) (string, bool) {
	ps := letterPositions(u)
	if len(ps) == 0 {
		return u, false
	}
	b := []byte(u)
	b[ps[k%len(ps)]] ^= 0x20
	return string(b), true
}

func withLetters(us []string) []string {
	var out []string
	for _, u := range us {
		if len(letterPositions(u)) > 0 {
			out = append(out, u)
		}
	}
	return out
}
