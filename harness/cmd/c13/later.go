package main

// Later (FedRequest.tla): the requests the receiver goes on to handle after it accepted one.  They are real
// signed requests of the same origin (whether they are accepted is not the point: their bodies are read).

import (
	"bytes"
	"crypto/ed25519"
	"strings"

	gmsl "github.com/matrix-org/gomatrixserverlib"
	"github.com/matrix-org/gomatrixserverlib/fclient"
	"github.com/matrix-org/gomatrixserverlib/spec"
)

// jsonOfLen is a JSON text of exactly n bytes (n >= 2: a string; n = 1: a digit) that Sign leaves as it is.
func jsonOfLen(n int) string {
	if n < 2 {
		return "7"
	}
	return `"` + strings.Repeat("L", n-2) + `"`
}

// laterMessages returns the transmitted text of the later requests: first the one of the class (body of the same
// length as the accepted request's n bytes / shorter / longer / no body), then a fixed small transaction.
func laterMessages(class string, n int, origin, dest, keyID string, priv ed25519.PrivateKey) [][]byte {
	var first string
	switch class {
	case "same":
		if n == 0 {
			first = `{"l":1}`
		} else {
			first = jsonOfLen(n)
		}
	case "shorter":
		first = jsonOfLen(n / 2)
	case "longer":
		first = jsonOfLen(2*n + 64)
	case "nobody":
	default:
		machinery("unknown class of later requests " + class)
	}
	var out [][]byte
	for i, body := range []string{first, `{"edus":[],"origin":"later.example.org","pdus":[{"later":2}]}`} {
		method := "PUT"
		if body == "" {
			method = "GET"
		}
		fr := fclient.NewFederationRequest(method, spec.ServerName(origin), spec.ServerName(dest), "/_matrix/federation/v1/send/later"+string(rune('1'+i)))
		if body != "" {
			if err := fr.SetContent(spec.RawJSON(body)); err != nil {
				machinery("later request: " + err.Error())
			}
		}
		if err := fr.Sign(spec.ServerName(origin), gmsl.KeyID(keyID), priv); err != nil {
			machinery("later request: " + err.Error())
		}
		hr, err := fr.HTTPRequest()
		if err != nil {
			machinery("later request: " + err.Error())
		}
		var buf bytes.Buffer
		if err := hr.Write(&buf); err != nil {
			machinery("later request: " + err.Error())
		}
		out = append(out, buf.Bytes())
	}
	return out
}
