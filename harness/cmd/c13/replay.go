package main

// spec -> code.  One FedRequest_gen.tla record = one request: composed and signed with the real
// FederationRequest.Sign (real ed25519 key), written with HTTPRequest() + Request.Write, tampered with
// as text, read back with http.ReadRequest (what a Go server hands to a handler) and given to the real
// VerifyHTTPRequest with a real KeyRing over an in-memory key database.

import (
	"bufio"
	"bytes"
	"context"
	"encoding/base64"
	"encoding/json"
	"fmt"
	"io"
	"net/http"
	"runtime/debug"
	"sort"
	"strings"
	"time"

	gmsl "github.com/matrix-org/gomatrixserverlib"
	"github.com/matrix-org/gomatrixserverlib/fclient"
	"github.com/matrix-org/gomatrixserverlib/spec"

	"verifharness/hx"
)

type scenario struct {
	M       string   `json:"m"`
	U       string   `json:"u"`
	OS      string   `json:"os"`
	OSP     string   `json:"osp"`
	DS      string   `json:"ds"`
	DSP     string   `json:"dsp"`
	Down    string   `json:"down"`
	Body    string   `json:"body"`
	Entry   string   `json:"entry"`
	Open    bool     `json:"open"`
	Style   string   `json:"style"`
	Cfg     string   `json:"cfg"`
	KV      string   `json:"kv"`
	NK      int      `json:"nk"`
	Known   string   `json:"known"`
	Tampers []string `json:"tampers"`
	Later   string   `json:"later"`
	Accept  bool     `json:"accept"`
	Lenient bool     `json:"lenient"`
	Rep     struct {
		M, U, O, D, B string
	} `json:"rep"`
}

type memDB struct {
	m   map[gmsl.PublicKeyLookupRequest]gmsl.PublicKeyLookupResult
	err error // the database (or fetcher) fails
}

func (d *memDB) FetcherName() string { return "memDB" }
func (d *memDB) FetchKeys(_ context.Context, reqs map[gmsl.PublicKeyLookupRequest]spec.Timestamp) (map[gmsl.PublicKeyLookupRequest]gmsl.PublicKeyLookupResult, error) {
	if d.err != nil {
		return nil, d.err
	}
	out := map[gmsl.PublicKeyLookupRequest]gmsl.PublicKeyLookupResult{}
	for r := range reqs {
		if v, ok := d.m[r]; ok {
			out[r] = v
		}
	}
	return out, nil
}
func (d *memDB) StoreKeys(_ context.Context, res map[gmsl.PublicKeyLookupRequest]gmsl.PublicKeyLookupResult) error {
	return nil // the database content is the scenario; nothing is fetched
}

func (s *scenario) has(k string) bool {
	for _, t := range s.Tampers {
		if t == k {
			return true
		}
	}
	return false
}

// scenarioKey is the canonical abstract scenario of a disagreement: the dimensions the verdict depends on.
func (s *scenario) scenarioKey() string {
	ts := append([]string(nil), s.Tampers...)
	sort.Strings(ts)
	k := fmt.Sprintf("t=%s/body=%s/dest=%s/cfg=%s/kv=%s", strings.Join(ts, "+"), s.Body, s.Down, s.Cfg, s.KV)
	if strings.HasPrefix(s.OS, "inv") {
		k += "/origin=" + s.OS
	}
	if s.DS == "invalid" {
		k += "/destname=invalid"
	}
	if s.NK == 2 {
		k += "/keys=2/known=" + s.Known
	}
	if s.Entry != "direct" {
		k += "/entry=" + s.Entry
	}
	if s.DS == "origin" {
		k += "/receiver=origin"
	}
	if s.OSP == "mixed" {
		k += "/originspelling=mixed"
	}
	if s.DSP == "mixed" {
		k += "/destspelling=mixed"
	}
	if s.Style != "canon" {
		k += "/style=" + s.Style
	}
	if s.Later != "-" && s.Later != "same" && s.Later != "" {
		k += "/later=" + s.Later
	}
	return k
}

var methods = []string{"GET", "PUT", "POST", "DELETE"}

func replay(seed int64, raw json.RawMessage) (res hx.Result) {
	var s scenario
	if err := json.Unmarshal(raw, &s); err != nil {
		machinery(err.Error())
	}
	p := newPicker(seed, raw)
	sort.Strings(s.Tampers)
	nt := fmt.Sprintf("%s|%s|%s|%s|%s|"+s.Entry+"|nk=%d/%s|os=%s/%s|ds=%s/%s|%s|%v", strings.Join(s.Tampers, "+"), s.Body, s.Down, s.Cfg, s.KV, s.NK, s.Known, s.OS, s.OSP, s.DS, s.DSP, s.Style, s.Accept)
	if s.Later != "-" && s.Later != "same" {
		nt += "|later=" + s.Later
	}
	fail := func(stage, what string, want, got interface{}) hx.Result {
		return hx.Result{OK: false, NT: nt, Key: "C13/" + stage + "/" + s.scenarioKey(), What: what, Want: want, Got: got}
	}
	// a panic of the library is a verdict (refusal must not be a crash); give it the scenario as its key
	defer func() {
		if r := recover(); r != nil {
			st := string(debug.Stack())
			if len(st) > 2400 {
				st = st[:2400]
			}
			res = hx.Result{OK: false, NT: nt, Key: "C13/panic/" + s.scenarioKey(), Panic: fmt.Sprint(r),
				What: fmt.Sprintf("panic: %v (tamperings %v)\n%s", r, s.Tampers, st)}
		}
	}()

	// ---- concrete values of the abstract classes
	origin := spell(pick(p, "origin", originNames[s.OS]), s.OSP)
	dshape := s.DS
	if dshape == "origin" {
		dshape = "dns"
	}
	primary := spell(destP[dshape], s.DSP)
	secondary := spell(destS[dshape], s.DSP)
	foreign := spell(pick(p, "foreign", destF[dshape]), s.DSP)
	if s.DS == "origin" {
		primary = origin // the receiver is the origin itself
	}
	// "O2", the other server a tampered header may name: an unrelated known server, or (f) a near coincidence:
	// the origin's own name with / without a port suffix, whose key record holds the origin's very key
	otherOrigin, pubO2 := otherOriginName, pubOtherOf()
	if !strings.HasPrefix(s.OS, "inv") && p.n("o2near", 2) == 0 {
		otherOrigin, pubO2 = portVariant(origin), nil
	}
	dest := map[string]string{"P": primary, "S": secondary, "F": foreign}[s.Down]
	uri := pick(p, "uri", uris[s.U])
	if s.has("uri_case") {
		uri = pick(p, "uri", withLetters(uris[s.U])) // a target that has another spelling
	}
	keyID := pick(p, "keyid", keyIDs)
	var body string
	switch s.Body {
	case "obj":
		body = pick(p, "body", bodiesObj)
	case "arr":
		body = pick(p, "body", bodiesArr)
	case "nonutf8":
		body = bodyNonUTF8
	case "emptyobj":
		body = "{}"
	case "null":
		body = "null"
	}
	pub, priv := keyFrom("origin")
	if pubO2 == nil {
		pubO2 = pub
	}
	pubB, privB := keyFrom("origin next") // the origin's second key (key rotation)
	pubOther, privOther := keyFrom("other")
	sendable := s.Body != "nonutf8" && !strings.HasPrefix(s.OS, "inv") && s.DS != "invalid"
	unsendable := hx.Result{OK: true, NT: "unsendable|" + s.Body + "|" + s.OS + "|" + s.DS + "|" + s.Entry}

	sendDirect := func() ([]byte, *hx.Result) {
		method := s.M
		if p.n("lower", 4) == 0 {
			method = strings.ToLower(method) // NewFederationRequest upper-cases
		}
		fr := fclient.NewFederationRequest(method, spec.ServerName(origin), spec.ServerName(dest), uri)
		if body != "" {
			var content interface{} = spec.RawJSON(body)
			switch s.Body { // content boundaries through SetContent's own encoding
			case "emptyobj":
				content = struct{}{}
			case "null":
				content = nil
			}
			if err := fr.SetContent(content); err != nil {
				if sendable {
					r := fail("send", "SetContent failed: "+err.Error(), "sent", err.Error())
					return nil, &r
				}
				r := unsendable
				return nil, &r
			}
		}
		if err := fr.Sign(spec.ServerName(origin), gmsl.KeyID(keyID), priv); err != nil {
			if sendable {
				r := fail("send", "Sign failed: "+err.Error(), "sent", err.Error())
				return nil, &r
			}
			r := unsendable
			return nil, &r
		}
		if s.NK == 2 {
			if err := fr.Sign(spec.ServerName(origin), gmsl.KeyID(nextKeyID), privB); err != nil {
				if sendable {
					r := fail("send", "second Sign failed: "+err.Error(), "sent", err.Error())
					return nil, &r
				}
				r := unsendable
				return nil, &r
			}
		}
		hr, err := fr.HTTPRequest()
		if err != nil {
			if sendable {
				r := fail("send", fmt.Sprintf("HTTPRequest failed for %s %q origin %q destination %q: %v", s.M, uri, origin, dest, err), "sent", err.Error())
				return nil, &r
			}
			r := unsendable
			return nil, &r
		}
		var buf bytes.Buffer
		if err := hr.Write(&buf); err != nil {
			if sendable {
				r := fail("send", "Request.Write failed: "+err.Error(), "sent", err.Error())
				return nil, &r
			}
			r := unsendable
			return nil, &r
		}
		// (d) the request object is reusable: a second HTTPRequest() writes the same message
		var buf2 bytes.Buffer
		if hr2, err2 := fr.HTTPRequest(); err2 != nil || hr2.Write(&buf2) != nil || !sameMessage(buf.Bytes(), buf2.Bytes()) {
			r := fail("send-twice", fmt.Sprintf("a second HTTPRequest() on the same signed request differs from the first (error %v): %q then %q", err2, clip(buf.String()), clip(buf2.String())), "same message", "different")
			return nil, &r
		}
		return buf.Bytes(), nil
	}
	// ---- Compose, Sign, Emit: the real sender
	var wireBytes []byte
	if s.Entry == "client" {
		wb, u, b, err := sendViaClient(p, s.M, s.U, origin, dest, keyID, priv)
		if err != nil {
			if sendable {
				return fail("send", fmt.Sprintf("FederationClient could not send %s %s from %q to %q: %v", s.M, s.U, origin, dest, err), "sent", err.Error())
			}
			return unsendable
		}
		wireBytes, uri, body = wb, u, b
	} else {
		wb, r := sendDirect()
		if r != nil {
			return *r
		}
		wireBytes = wb
	}
	w, err := parseWire(wireBytes)
	if err != nil {
		machinery(err.Error())
	}
	// every signature goes on the wire: one X-Matrix header per key ID the origin signed with
	auths := w.getAll("Authorization")
	if len(auths) != s.NK {
		return fail("send-headers", fmt.Sprintf("the origin signed with %d key ID(s) but HTTPRequest wrote %d Authorization header(s): %q", s.NK, len(auths), auths), s.NK, len(auths))
	}
	var x, xb *xmatrix // the header of the first key and of the second key
	for _, a := range auths {
		h, err := parseCanon(a)
		if err != nil {
			if sendable {
				return fail("send", err.Error(), "canonical header", a)
			}
			return unsendable
		}
		switch *h.key {
		case keyID:
			x = h
		case nextKeyID:
			xb = h
		}
	}
	if x == nil || (s.NK == 2) != (xb != nil) {
		return fail("send-headers", fmt.Sprintf("signed with key IDs %s%s but the Authorization headers are %q", keyID, map[bool]string{true: " and " + nextKeyID}[s.NK == 2], auths), s.NK, auths)
	}
	signedBody := append([]byte(nil), w.body...)

	// ---- Tamper: on the transmitted text
	second := false
	secondCase := false
	dup := false
	bearer := false
	nohdr := false
	split := false
	readErr := false
	keyOtherKnown := false
	for _, t := range s.Tampers {
		switch t {
		case "method":
			for i, m := range methods {
				if m == w.method {
					w.method = methods[(i+1+p.n("method2", 3))%4]
					break
				}
			}
		case "method_same":
			w.method = strings.ToUpper(s.M)
		case "method_case":
			// the same word in another letter case (get, Get, gET, gEt): not the method that was signed
			w.method = methodSpelling(w.method, p.n("methodcase", 4))
		case "uri_case":
			v, ok := flipLetter(w.uri, p.n("uricase", 1<<16))
			if !ok {
				machinery("no other spelling of request target " + w.uri)
			}
			w.uri = v
		case "uri":
			w.uri = tamperURI(p, w.uri)
		case "origin":
			v := otherOrigin
			x.origin = &v
		case "origin_case":
			v := caseVariant(origin)
			if v == origin {
				machinery("no other spelling of origin " + origin)
			}
			x.origin = &v
		case "dest_case":
			v := caseVariant(*x.dest)
			if v == *x.dest {
				machinery("no other spelling of destination " + v)
			}
			x.dest = &v
		case "second_case":
			if caseVariant(origin) == origin {
				machinery("no other spelling of origin " + origin)
			}
			secondCase = true
		case "drop_origin":
			x.origin = nil
		case "dest_local":
			v := primary
			if s.Down == "P" {
				v = secondary
			}
			x.dest = &v
		case "dest_foreign":
			v := destF2
			x.dest = &v
		case "drop_dest":
			x.dest = nil
		case "body":
			w.body = []byte(tamperJSON(p, string(w.body)))
		case "body_ws":
			if len(w.body) > 0 {
				w.body = []byte(respace(string(w.body)))
			}
		case "body_drop":
			w.body = nil
		case "nonutf8":
			w.body = []byte(bodyNonUTF8b)
		case "ctype_text":
			w.set("Content-Type", pick(p, "ctype", []string{"text/plain", "application/x-www-form-urlencoded", "application/jsonx", "text/json; charset=utf-8", "application/octet-stream"}))
		case "ctype_none":
			w.del("Content-Type")
		case "ctype_param":
			if _, ok := w.get("Content-Type"); ok {
				w.set("Content-Type", pick(p, "ctype", []string{"application/json; charset=utf-8", "application/json;charset=UTF-8", "Application/JSON"}))
			}
		case "sig_flip":
			sg := []byte(*x.sig)
			if p.n("sigkind", 2) == 0 {
				// a valid signature by the same key over another request
				o2 := fclient.NewFederationRequest(s.M, spec.ServerName(origin), spec.ServerName(dest), uri+"/other")
				if o2.Sign(spec.ServerName(origin), gmsl.KeyID(keyID), priv) == nil {
					if h2, err := o2.HTTPRequest(); err == nil {
						if x2, err := parseCanon(h2.Header.Get("Authorization")); err == nil {
							sg = []byte(*x2.sig)
						}
					}
				}
			}
			if string(sg) == *x.sig {
				i := len(sg) / 2
				if sg[i] == 'A' {
					sg[i] = 'B'
				} else {
					sg[i] = 'A'
				}
			}
			v := string(sg)
			x.sig = &v
		case "drop_sig":
			x.sig = nil
		case "key_other":
			v := otherKeyID
			x.key = &v
			keyOtherKnown = p.n("keyother", 2) == 0
		case "drop_key":
			x.key = nil
		case "scheme":
			x.scheme = pick(p, "scheme", []string{"X-Matrix2", "Bearer", "Basic", "X-Matri", "XMatrix"})
		case "split_header":
			split = true
		case "scheme_case":
			x.scheme = pick(p, "schemecase", []string{"X-MATRIX", "x-matrix", "X-matrix"})
		case "sig_respell":
			// the same signature bytes in padded or URL-safe base64
			raw, err := base64.RawStdEncoding.DecodeString(*x.sig)
			if err != nil {
				return fail("send", "the sig parameter written by HTTPRequest is not unpadded base64: "+*x.sig, "base64", *x.sig)
			}
			v := base64.StdEncoding.EncodeToString(raw)
			if u := base64.RawURLEncoding.EncodeToString(raw); u != *x.sig && p.n("respell", 2) == 0 {
				v = u
			}
			x.sig = &v
		case "body_notjson":
			w.body = []byte(pick(p, "notjson", []string{`{"a":1,}`, `hello`, `{"a":1} x`, `{'a':1}`, `{"a":1`}))
			if _, ok := w.get("Content-Type"); !ok {
				w.set("Content-Type", "application/json")
			}
		case "body_readerr":
			readErr = true
		case "dup_header":
			dup = true
		case "second_origin":
			second = true
		case "no_header":
			nohdr = true
		case "extra_bearer":
			bearer = true
		default:
			machinery("unknown tampering " + t)
		}
	}
	if xb != nil {
		// scheme, origin and destination tamperings rewrite every X-Matrix header; key / signature tamperings the first
		xb.scheme, xb.origin, xb.dest = x.scheme, x.origin, x.dest
	}
	w.del("Authorization")
	w.del("User-Agent")
	bearerLast := bearer && p.n("bearerpos", 2) == 0
	if bearer && !bearerLast {
		w.headers = append(w.headers, hline{"Authorization", "Bearer c2VjcmV0"})
	}
	if !nohdr {
		if xb != nil && p.n("hdrorder", 2) == 0 {
			w.headers = append(w.headers, hline{"Authorization", xb.render(s.Style)})
			xb = nil
		}
		if split {
			for _, l := range x.renderSplit(s.Style) {
				w.headers = append(w.headers, hline{"Authorization", l})
			}
		} else {
			w.headers = append(w.headers, hline{"Authorization", x.render(s.Style)})
		}
		if dup {
			w.headers = append(w.headers, hline{"Authorization", x.render(s.Style)})
		}
		if xb != nil {
			w.headers = append(w.headers, hline{"Authorization", xb.render(s.Style)})
		}
		if second {
			y := *x
			v := otherOrigin
			y.origin = &v
			w.headers = append(w.headers, hline{"Authorization", y.render(s.Style)})
		}
		if secondCase {
			y := *x
			v := caseVariant(origin)
			y.origin = &v
			w.headers = append(w.headers, hline{"Authorization", y.render(s.Style)})
		}
	}
	if bearerLast {
		w.headers = append(w.headers, hline{"Authorization", "Bearer c2VjcmV0"})
	}
	serverRequest := func() *http.Request {
		sreq, err := w.serverRequest()
		if err != nil {
			// the tampered text is not HTTP any more: a harness matter, never a verdict
			machinery(fmt.Sprintf("http.ReadRequest rejects the transmitted text: %v\n%q", err, w.bytes()))
		}
		if readErr {
			// the connection breaks while the body is read
			sreq.Body = io.NopCloser(io.MultiReader(bytes.NewReader(w.body[:len(w.body)/2]), failingReader{}))
		}
		return sreq
	}
	sreq := serverRequest()

	// ---- Receive: the real receiver
	now := time.Now()
	hour := time.Hour
	db := &memDB{m: map[gmsl.PublicKeyLookupRequest]gmsl.PublicKeyLookupResult{}}
	put := func(name, id string, key []byte, validUntil, expired time.Time) {
		if name == origin && caseVariant(origin) != origin {
			// the origin's key is also filed under the other spelling of its name: a header that spells the
			// origin differently is refused by the signature, not by a missing key
			defer func(v string) {
				db.m[gmsl.PublicKeyLookupRequest{ServerName: spec.ServerName(v), KeyID: gmsl.KeyID(id)}] =
					db.m[gmsl.PublicKeyLookupRequest{ServerName: spec.ServerName(name), KeyID: gmsl.KeyID(id)}]
			}(caseVariant(origin))
		}
		r := gmsl.PublicKeyLookupResult{VerifyKey: gmsl.VerifyKey{Key: spec.Base64Bytes(key)}}
		if !validUntil.IsZero() {
			r.ValidUntilTS = spec.AsTimestamp(validUntil)
		}
		if !expired.IsZero() {
			r.ExpiredTS = spec.AsTimestamp(expired)
		}
		db.m[gmsl.PublicKeyLookupRequest{ServerName: spec.ServerName(name), KeyID: gmsl.KeyID(id)}] = r
	}
	var zero time.Time
	day := 24 * hour
	knowsFirst := s.Known == "both" || s.Known == "first"
	knowsSecond := s.NK == 2 && (s.Known == "both" || s.Known == "second")
	switch {
	case !knowsFirst:
		// no record of the first key
	case s.KV == "valid":
		put(origin, keyID, pub, now.Add([]time.Duration{hour, 2 * hour, day, 6 * day}[p.n("kvd", 4)]), zero)
	case s.KV == "validfar":
		put(origin, keyID, pub, now.Add([]time.Duration{8 * day, 30 * day, 365 * day}[p.n("kvd", 3)]), zero)
	case s.KV == "lapsed":
		put(origin, keyID, pub, now.Add(-[]time.Duration{hour, day, 30 * day}[p.n("kvd", 3)]), zero)
	case s.KV == "expired": // expired_ts in the past, no valid_until_ts
		put(origin, keyID, pub, zero, now.Add(-[]time.Duration{hour, 30 * day}[p.n("kvd", 2)]))
	case s.KV == "expboth": // expired_ts in the past although valid_until_ts is in the future
		put(origin, keyID, pub, now.Add([]time.Duration{2 * hour, day, 6 * day}[p.n("kvd", 3)]), now.Add(-[]time.Duration{hour, 30 * day}[p.n("kve", 2)]))
	case s.KV == "expfuture": // expired_ts in the future, with or without valid_until_ts
		vu := zero
		if p.n("kvd", 2) == 0 {
			vu = now.Add(day)
		}
		put(origin, keyID, pub, vu, now.Add([]time.Duration{hour, 2 * day}[p.n("kve", 2)]))
	case s.KV == "fetched", s.KV == "fetcherr": // no record in the database
	case s.KV == "refreshed": // a lapsed record in the database
		put(origin, keyID, pub, now.Add(-[]time.Duration{hour, 30 * day}[p.n("kvd", 2)]), zero)
	case s.KV == "dberror":
		put(origin, keyID, pub, now.Add(2*hour), zero)
	case s.KV == "unknown":
		put(origin, "ed25519:elsewhere", pub, now.Add(2*hour), zero)
	case s.KV == "wrongkey":
		put(origin, keyID, pubOther, now.Add(2*hour), zero)
	default:
		machinery("unknown key validity " + s.KV)
	}
	if knowsSecond {
		put(origin, nextKeyID, pubB, now.Add(2*hour), zero)
	}
	if s.KV == "dberror" {
		db.err = fmt.Errorf("key database unavailable") // whatever it holds
	}
	put(otherOrigin, keyID, pubO2, now.Add(2*hour), zero)
	if keyOtherKnown {
		put(origin, otherKeyID, pubOther, now.Add(2*hour), zero)
	}
	_ = privOther
	ring := gmsl.KeyRing{KeyDatabase: db}
	if knowsFirst {
		// the key ring beyond its database: a fetcher that supplies the origin's current key, or fails
		fresh := gmsl.PublicKeyLookupResult{VerifyKey: gmsl.VerifyKey{Key: spec.Base64Bytes(pub)}, ValidUntilTS: spec.AsTimestamp(now.Add(day))}
		k := gmsl.PublicKeyLookupRequest{ServerName: spec.ServerName(origin), KeyID: gmsl.KeyID(keyID)}
		switch s.KV {
		case "fetched", "refreshed":
			ring.KeyFetchers = []gmsl.KeyFetcher{&memDB{m: map[gmsl.PublicKeyLookupRequest]gmsl.PublicKeyLookupResult{k: fresh}}}
		case "fetcherr":
			ring.KeyFetchers = []gmsl.KeyFetcher{&memDB{err: fmt.Errorf("key server unreachable")}}
		}
	}
	var isLocal func(spec.ServerName) bool
	switch s.Cfg {
	case "single": // no function: the default name only
	case "singlefn":
		isLocal = func(n spec.ServerName) bool { return string(n) == primary }
	case "any":
		isLocal = func(spec.ServerName) bool { return true }
	case "nobody":
		isLocal = func(spec.ServerName) bool { return false }
	case "multi":
		local := map[string]bool{primary: true, secondary: true, caseVariant(primary): true, caseVariant(secondary): true}
		for _, n := range extraLocal {
			local[n] = true
		}
		isLocal = func(n spec.ServerName) bool { return local[string(n)] }
	default:
		machinery("unknown receiver configuration " + s.Cfg)
	}
	got, resp := fclient.VerifyHTTPRequest(sreq, now, spec.ServerName(primary), isLocal, ring)
	accepted := resp.Code == 200 && got != nil
	if (resp.Code == 200) != (got != nil) {
		return fail("result", fmt.Sprintf("VerifyHTTPRequest returned request=%v with HTTP status %d", got != nil, resp.Code), "request iff 200", resp.Code)
	}
	desc := func() string {
		return fmt.Sprintf("signed %s %q origin=%q destination=%q body=%q key=%s%s; tamperings %v; transmitted %q; receiver default name %q, local-name function=%v, key database %s",
			strings.ToUpper(s.M), uri, origin, dest, clip(string(signedBody)), keyID, map[bool]string{true: " and " + nextKeyID + " (receiver knows: " + s.Known + ")"}[s.NK == 2], s.Tampers, clip(string(w.bytes())), primary, isLocal != nil, s.KV)
	}
	// (d) nothing is carried from one verification to the next: the same message verified again with the same
	// key ring gets the same answer
	if got2, resp2 := fclient.VerifyHTTPRequest(serverRequest(), now, spec.ServerName(primary), isLocal, ring); resp2.Code != resp.Code || (got2 != nil) != (got != nil) {
		return fail("unstable", fmt.Sprintf("the same message verified twice with the same key ring: status %d, then %d: %s", resp.Code, resp2.Code, desc()), resp.Code, resp2.Code)
	}
	if s.Open {
		// the property sentence does not decide this one (scheme letter case, base64 spelling of sig): either
		// verdict, but an accepted request must still be the signed one
		if !accepted {
			return hx.Result{OK: true, NT: nt + "|open:refused"}
		}
		if !s.Lenient {
			// ... and only what it would accept without the open tampering
			return fail("refused-by-spec-accepted-by-code", fmt.Sprintf("VerifyHTTPRequest status %d, specification says refuse (with or without tolerance for %v): %s", resp.Code, s.Tampers, desc()), false, true)
		}
		s.Rep.M, s.Rep.U, s.Rep.O, s.Rep.D = "M", "U", "O", s.Down
		s.Rep.B = map[bool]string{true: "none", false: "B"}[body == ""]
		nt += "|open:accepted"
	} else if accepted != s.Accept {
		return fail(map[bool]string{true: "refused-by-spec-accepted-by-code", false: "accepted-by-spec-refused-by-code"}[accepted],
			fmt.Sprintf("VerifyHTTPRequest status %d (%v), specification says accept=%v: %s", resp.Code, resp.JSON, s.Accept, desc()), s.Accept, accepted)
	}
	if !accepted {
		return hx.Result{OK: true, NT: nt}
	}
	if s.Entry == "client" {
		nt += "|" + strings.SplitN(uri, "?", 2)[0][:min(len(uri), 34)]
	}
	// the five reported fields: the model says which abstract value each must be; concretise and compare
	wantM := strings.ToUpper(s.M)
	wantO := map[string]string{"O": origin, "O2": otherOrigin}[s.Rep.O]
	wantD := map[string]string{"P": primary, "S": secondary, "F": foreign, "F2": destF2}[s.Rep.D]
	if s.Rep.M != "M" || s.Rep.U != "U" || wantO == "" || wantD == "" {
		machinery("record reports values that were not signed: " + string(raw))
	}
	var bad []string
	if got.Method() != wantM {
		bad = append(bad, fmt.Sprintf("method %q want %q", got.Method(), wantM))
	}
	if got.RequestURI() != uri {
		bad = append(bad, fmt.Sprintf("uri %q want %q", got.RequestURI(), uri))
	}
	if string(got.Origin()) != wantO {
		bad = append(bad, fmt.Sprintf("origin %q want %q", got.Origin(), wantO))
	}
	if string(got.Destination()) != wantD {
		bad = append(bad, fmt.Sprintf("destination %q want %q", got.Destination(), wantD))
	}
	switch s.Rep.B {
	case "none":
		if len(got.Content()) != 0 {
			bad = append(bad, fmt.Sprintf("content %q want none", clip(string(got.Content()))))
		}
	case "B":
		if !sameJSON(got.Content(), []byte(body)) {
			bad = append(bad, fmt.Sprintf("content %q want JSON value of %q", clip(string(got.Content())), clip(body)))
		}
	default:
		machinery("record reports a body that was not signed: " + string(raw))
	}
	if len(bad) > 0 {
		return fail("reported", "accepted, but reports "+strings.Join(bad, "; ")+": "+desc(), "signed fields", bad)
	}
	// ---- Later: the same receiver (same goroutine, same key ring) handles other requests while the result of this
	// one is still in use; what it reports must stay what it was
	if s.Open && s.Later == "-" {
		s.Later = "same"
	}
	if s.Later == "" || s.Later == "-" {
		machinery("accepted request without a class of later requests: " + string(raw))
	}
	snapM, snapU, snapO, snapD := got.Method(), got.RequestURI(), got.Origin(), got.Destination()
	snapC := append([]byte(nil), got.Content()...)
	for i, lw := range laterMessages(s.Later, len(snapC), origin, primary, keyID, priv) {
		lreq, err := http.ReadRequest(bufio.NewReader(bytes.NewReader(lw)))
		if err != nil {
			machinery(fmt.Sprintf("later request %d is not HTTP: %v", i, err))
		}
		fclient.VerifyHTTPRequest(lreq, now, spec.ServerName(primary), isLocal, ring)
		var changed []string
		if got.Method() != snapM {
			changed = append(changed, fmt.Sprintf("method %q was %q", got.Method(), snapM))
		}
		if got.RequestURI() != snapU {
			changed = append(changed, fmt.Sprintf("uri %q was %q", got.RequestURI(), snapU))
		}
		if got.Origin() != snapO {
			changed = append(changed, fmt.Sprintf("origin %q was %q", got.Origin(), snapO))
		}
		if got.Destination() != snapD {
			changed = append(changed, fmt.Sprintf("destination %q was %q", got.Destination(), snapD))
		}
		if !bytes.Equal(got.Content(), snapC) {
			changed = append(changed, fmt.Sprintf("content %q was %q", clip(string(got.Content())), clip(string(snapC))))
		}
		if len(changed) > 0 {
			return fail("reported-later", fmt.Sprintf("after the receiver handled later request %d (%q) the accepted request reports %s: %s",
				i+1, clip(string(lw)), strings.Join(changed, "; "), desc()), "what was reported at acceptance", changed)
		}
	}
	return hx.Result{OK: true, NT: nt}
}

func clip(s string) string {
	if len(s) > 700 {
		return s[:700] + "..."
	}
	return s
}

type failingReader struct{}

func (failingReader) Read([]byte) (int, error) { return 0, fmt.Errorf("connection reset by peer") }
