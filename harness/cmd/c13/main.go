// Command c13 binds spec/FedRequest.tla (C13: federation request authentication) to the real
// fclient.FederationRequest.Sign / HTTPRequest / VerifyHTTPRequest / ParseAuthorization.
//
//	c13 c13    -in records.ndjson   spec -> code: replay FedRequest_gen.tla scenario records
//	c13 c13name -in records.ndjson  spec -> code: replay FedName_gen.tla server-name records
//	c13 c13rec -out trace.ndjson    code -> spec: random Authorization headers through ParseAuthorization
//	c13 c13hdr -in records.ndjson   re-execute logged header lines (fresh-process reproduction)
package main

import (
	"encoding/json"
	"fmt"
	"io"
	"os"

	"github.com/sirupsen/logrus"

	"verifharness/hx"
)

// machinery reports a problem of the harness itself (unknown record vocabulary, a concretisation that cannot be
// built): the process exits 3, which the driver turns into a machinery error - never into a verdict.
// Panics of the library under test are left to hx.Safely and are verdicts.
func machinery(msg string) {
	fmt.Fprintln(os.Stderr, "c13 harness:", msg)
	os.Exit(3)
}

func main() {
	logrus.SetOutput(io.Discard) // VerifyHTTPRequest logs every refusal
	hx.Register("c13", "replay FedRequest_gen.tla records against Sign/HTTPRequest/VerifyHTTPRequest", func(a *hx.Args) error {
		return hx.ReplayAll(a, func(i int, raw json.RawMessage) hx.Result { return replay(a.Seed, raw) })
	})
	hx.Register("c13name", "replay FedName_gen.tla records: a request signed under the name through VerifyHTTPRequest", func(a *hx.Args) error {
		return hx.ReplayAll(a, func(i int, raw json.RawMessage) hx.Result { return replayName(a.Seed, raw) })
	})
	hx.Register("c13rec", "record random Authorization headers through ParseAuthorization", record)
	hx.Register("c13hdr", "re-execute logged ParseAuthorization lines", func(a *hx.Args) error {
		return hx.ReplayAll(a, func(i int, raw json.RawMessage) hx.Result { return rehdr(raw) })
	})
	hx.Main()
}
