package main

// C16 - replay of NetPolicy.tla scenarios.
//
//	family "ctl": the dialer control function itself (overlay accessors), as installed by NewClient
//	              (newDestinationTripperDialer) and by NewDNSCache.
//	family "e2e": a real fclient.Client with WithAllowDenyNetworks connects (or not) to a TLS listener
//	              on the candidate 127.x.y.z / ::1 address; dial path (plain dialer | DNS-cache dialer) x name
//	              kind (DNS name, IPv4 literal, bracketed IPv4-mapped literal, bracketed IPv6 literal); the DNS
//	              cache is built with the same lists.

import (
	"context"
	"encoding/json"
	"fmt"
	"net"
	"net/http"
	"net/netip"
	"strconv"
	"strings"
	"sync/atomic"
	"time"

	"github.com/matrix-org/gomatrixserverlib/fclient"

	"verifharness/hx"
)

type netRec struct {
	Fam      string   `json:"fam"`
	Allow    [][]int  `json:"allow"`
	Deny     [][]int  `json:"deny"`
	Addr     []int    `json:"addr"`
	Net      string   `json:"net"`
	Reach    string   `json:"reach"`
	Verdict  string   `json:"verdict"`
	Extra    [][]int  `json:"extra"`    // further A records of the same name
	XVerdict []string `json:"xverdict"` // and their verdicts
}

var badCIDRs = []string{"not-a-cidr", "10.0.0.0", "10.0.0.0/33", "", "fc00::/129", "10.0.0/8", "0.0.0.0/0/0", "127.1.0.0-127.1.255.255", "*"}

func octets(v []int) net.IP {
	b := make([]byte, len(v))
	for i, x := range v {
		b[i] = byte(x)
	}
	return net.IP(b)
}

// entryText spells one list entry: [fam, len, octets...] a CIDR, [0, k] text that is no CIDR.
func entryText(e []int, salt int) string {
	if e[0] == 0 {
		return badCIDRs[((salt%len(badCIDRs))+len(badCIDRs))%len(badCIDRs)]
	}
	// valid but unusual spellings of one and the same range: host bits set, upper-case hex
	ip := append(net.IP(nil), octets(e[2:])...)
	switch ((salt % 3) + 3) % 3 {
	case 1:
		for b := e[1]; b < 8*len(ip); b++ { // bits beyond the prefix do not belong to the range
			if b%3 == 0 {
				ip[b/8] |= 0x80 >> uint(b%8)
			}
		}
	case 2:
		if len(ip) == 16 {
			return strings.ToUpper(ip.String()) + "/" + strconv.Itoa(e[1])
		}
	}
	return ip.String() + "/" + strconv.Itoa(e[1])
}

func listText(l [][]int, salt int) []string {
	out := []string{}
	for k, e := range l {
		out = append(out, entryText(e, salt+k))
	}
	return out
}

// addrText spells the candidate: [fam, mapped, octets...].
func addrText(a []int) string {
	ip := octets(a[2:])
	if a[0] == 4 && a[1] == 1 {
		return "::ffff:" + ip.String()
	}
	return ip.String()
}

func listClass(l [][]int) string {
	var p []string
	for _, e := range l {
		if e[0] == 0 {
			p = append(p, "BAD")
		} else {
			p = append(p, entryText(e, 0))
		}
	}
	return "[" + strings.Join(p, " ") + "]"
}

// badBeforeMatch: does an unparsable entry precede (in list order) a parsable entry containing the address?
func badBeforeMatch(l [][]int, a []int) bool {
	ip, _ := netip.AddrFromSlice(octets(a[2:]))
	bad := false
	for _, e := range l {
		if e[0] == 0 {
			bad = true
			continue
		}
		pfx, err := netip.ParsePrefix(entryText(e, 0))
		if err != nil {
			panic(err)
		}
		if bad && pfx.Contains(ip) {
			return true
		}
	}
	return false
}

func netReplay(i int, seed int64, raw json.RawMessage) hx.Result {
	var r netRec
	if err := json.Unmarshal(raw, &r); err != nil {
		panic(err)
	}
	salt := int(seed%1000) + i
	allow, deny := listText(r.Allow, salt), listText(r.Deny, salt+5)
	addr := addrText(r.Addr)
	class := fmt.Sprintf("bad-before-deny-match=%v/bad-before-allow-match=%v", badBeforeMatch(r.Deny, r.Addr), badBeforeMatch(r.Allow, r.Addr))
	where := fmt.Sprintf("allow=%q deny=%q address %s over %s", allow, deny, addr, r.Net)
	nt := fmt.Sprintf("%s|%s|allow=%s|deny=%s|%s|%s", r.Fam, r.Net, listClass(r.Allow), listClass(r.Deny), r.Reach, r.Verdict)

	if r.Fam == "ctl" {
		hostport := net.JoinHostPort(addr, "8448")
		for _, via := range []string{"client", "dnscache"} {
			var ctl fclient.VerifC16ControlFunc
			if via == "client" {
				ctl = fclient.VerifC16TripperControl(allow, deny)
			} else {
				ctl = fclient.VerifC16DNSCacheControl(fclient.NewDNSCache(4, time.Minute, allow, deny))
			}
			if ctl == nil {
				return hx.Result{OK: false, Key: "C16/netpolicy/ctl/" + via + "/no-control-installed",
					What: "lists are configured but the " + via + " dialer has no control function: " + where}
			}
			err := ctl(context.Background(), r.Net, hostport, nil)
			got := "refuse"
			if err == nil {
				got = "permit"
			}
			if got != r.Verdict {
				return hx.Result{OK: false, Key: fmt.Sprintf("C16/netpolicy/ctl/model=%s,code=%s/%s", r.Verdict, got, class),
					What: fmt.Sprintf("dialer control function (%s dialer): %s: model says %s, code says %s (err=%v)", via, where, r.Verdict, got, err),
					Want: r.Verdict, Got: got}
			}
		}
		return hx.Result{OK: true, NT: nt}
	}

	// ---- e2e
	installStubs()
	c := newConc(i, seed)
	defer c.done()
	var hits int32
	onReq := func(sni, host string) bool { atomic.AddInt32(&hits, 1); return true }
	// one listener per address of the name, all on one port
	// (an IPv4-mapped candidate is the IPv4 address: that is where the listener is)
	addrs, verdicts := []string{octets(r.Addr[2:]).String()}, []string{r.Verdict}
	for k, x := range r.Extra {
		addrs, verdicts = append(addrs, octets(x[2:]).String()), append(verdicts, r.XVerdict[k])
	}
	path, kind, okReach := strings.Cut(r.Reach, ":")
	if !okReach {
		panic("unknown reach " + r.Reach)
	}
	v6 := r.Addr[0] == 6
	var srvs []*tlsSrv
	defer func() {
		for _, s := range srvs {
			s.close()
		}
	}()
	for attempt := 0; ; attempt++ {
		first, err := newTLSSrv(addrs[0], onReq)
		if err != nil {
			panic(fmt.Errorf("c16: cannot listen on %s: %v", addrs[0], err))
		}
		srvs = []*tlsSrv{first}
		ok := true
		for _, a := range addrs[1:] {
			s, err := newTLSSrvOn(a, first.port, onReq)
			if err != nil { // the port is taken on that address: start over with another one
				ok = false
				break
			}
			srvs = append(srvs, s)
		}
		if ok {
			break
		}
		for _, s := range srvs {
			s.close()
		}
		if attempt > 20 {
			panic("c16: cannot find one free port on " + strings.Join(addrs, ", "))
		}
	}
	srv := srvs[0]
	opts := []fclient.ClientOption{fclient.WithAllowDenyNetworks(allow, deny), fclient.WithSkipVerify(true), fclient.WithTimeout(reqTimeout)}
	var host string
	switch kind {
	case "v4", "v6":
		host = addrs[0]
	case "mapped": // written as an IPv6 literal, dialled as the IPv4 address it embeds
		host = "::ffff:" + addrs[0]
	case "name":
		host = "h." + c.label + ".c16.test"
		recs := append([]string{}, addrs...)
		if (seed+int64(i))%2 != 0 { // order of the records in the answer
			for a, b := 0, len(recs)-1; a < b; a, b = a+1, b-1 {
				recs[a], recs[b] = recs[b], recs[a]
			}
		}
		if v6 {
			c.z.setAAAA(host, recs...)
		} else {
			c.z.setA(host, recs...)
		}
	default:
		panic("unknown name kind in " + r.Reach)
	}
	target := net.JoinHostPort(host, strconv.Itoa(srv.port)) // brackets an IPv6 literal
	switch path {
	case "plain":
	case "dnscache":
		opts = append(opts, fclient.WithDNSCache(fclient.NewDNSCache(8, time.Minute, allow, deny)))
	default:
		panic("unknown dial path in " + r.Reach)
	}
	hangKey := "C16/netpolicy/e2e/reach=" + r.Reach + "/request-hangs"
	if tripped(hangKey) {
		return hx.Result{OK: false, Key: hangKey, What: "not run: earlier requests of this kind did not return within " + reqTimeout.String()}
	}
	cl := fclient.NewClient(opts...)
	req, err := http.NewRequest("GET", "matrix://"+target+"/_matrix/federation/v1/version", nil)
	if err != nil {
		panic(err)
	}
	ctx, cancel := context.WithTimeout(context.Background(), reqTimeout+5*time.Second)
	defer cancel()
	t0 := time.Now()
	resp, rerr := cl.DoHTTPRequest(ctx, req)
	if rerr != nil && time.Since(t0) >= reqTimeout {
		// every stub answers at once and every address is loopback: a request that runs into the time-out hangs
		// inside the library (a connection that is refused by the policy fails immediately)
		noteHang(hangKey)
		return hx.Result{OK: false, Key: hangKey,
			What: fmt.Sprintf("Client request (%s, reached as %s, %s) did not return within %s: %v", where, r.Reach, target, reqTimeout, rerr)}
	}
	status := 0
	if resp != nil {
		status = resp.StatusCode
		_ = resp.Body.Close()
	}
	for _, s := range srvs {
		s.close()
	}
	// safety, address by address: a connection only where the model does not refuse
	anyWanted, allWanted, anyConnected := false, true, false
	for k, s := range srvs {
		n := atomic.LoadInt32(&s.accepts)
		want := verdicts[k] != "refuse" // "permit", or "open" when nothing is configured
		anyWanted, allWanted, anyConnected = anyWanted || want, allWanted && want, anyConnected || n > 0
		if n > 0 && !want {
			return hx.Result{OK: false, Key: fmt.Sprintf("C16/netpolicy/e2e/reach=%s/model=%s,code=permit/%s", r.Reach, verdicts[k], class),
				What: fmt.Sprintf("Client with WithAllowDenyNetworks, %s, destination reached as %s (%s, addresses %v): model says %s for %s; %d TCP connection(s) were made to it, request error: %v",
					where, r.Reach, target, addrs, verdicts[k], addrs[k], n, rerr),
				Want: verdicts[k], Got: "permit"}
		}
	}
	// and the request goes through if every address is permitted (with a mix of permitted and refused addresses the
	// property does not say whether the permitted one has to be found)
	// (not demanded of the DNS-cache dialer for IPv6 addresses: the property is about where connections may go,
	// and that dialer cannot reach any IPv6 address - it joins host and port without brackets)
	if len(srvs) == 1 && anyWanted && !anyConnected && !(path == "dnscache" && v6) {
		return hx.Result{OK: false, Key: fmt.Sprintf("C16/netpolicy/e2e/reach=%s/model=%s,code=refuse/%s", r.Reach, r.Verdict, class),
			What: fmt.Sprintf("Client with WithAllowDenyNetworks, %s, destination reached as %s (%s): model says %s; no TCP connection was made, request error: %v",
				where, r.Reach, target, r.Verdict, rerr),
			Want: r.Verdict, Got: "refuse"}
	}
	if allWanted && !(path == "dnscache" && v6) && (rerr != nil || status != 200 || atomic.LoadInt32(&hits) == 0) {
		return hx.Result{OK: false, Key: "C16/netpolicy/e2e/permitted-request-failed",
			What: fmt.Sprintf("permitted request did not complete (%s via %s, A records %v): status %d err %v", where, r.Reach, addrs, status, rerr)}
	}
	if len(srvs) > 1 {
		nt += "|2A:" + strings.Join(verdicts, ",")
	}
	return hx.Result{OK: true, NT: nt}
}
