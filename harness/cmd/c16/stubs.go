package main

// In-process replacements for the two process-wide seams fclient resolves through - the same seams
// the repository's own resolve_test.go uses:
//
//   - http.DefaultTransport  (LookupWellKnown builds an http.Client without a transport)
//   - net.DefaultResolver    (lookupSRV, and every net.Dialer without a Resolver of its own)
//
// Both stubs answer immediately from per-scenario tables ("zones").  Every scenario owns the names
// <label>.n<i>.c16.test (and IP literals derived from i), so that records can be replayed in parallel
// against the process-wide stubs.  Every request is logged in its zone.

import (
	"bufio"
	"bytes"
	"context"
	"crypto/ecdsa"
	"crypto/elliptic"
	"crypto/rand"
	"crypto/tls"
	"crypto/x509"
	"crypto/x509/pkix"
	"errors"
	"fmt"
	"io"
	"math/big"
	"net"
	"net/http"
	"regexp"
	"strconv"
	"strings"
	"sync"
	"sync/atomic"
	"time"

	"github.com/miekg/dns"
)

type wkStub struct {
	status int // 0 = transport error
	body   []byte
	cl     bool // send a Content-Length
	header http.Header
}

type dnsAns struct {
	rcode int
	rrs   []dns.RR // owner names are filled in from the question
}

type zone struct {
	mu     sync.Mutex
	wk     map[string]*wkStub // lower-case host -> reply
	dns    map[string]dnsAns  // lower-case fqdn + "/" + qtype -> answer
	wkLog  []string           // hosts asked for /.well-known/matrix/server
	dnsLog []string           // "SRV _matrix-fed._tcp.x." ...
	events []string           // trip: what the live TLS listeners saw
}

func newZone() *zone {
	return &zone{wk: map[string]*wkStub{}, dns: map[string]dnsAns{}}
}

func (z *zone) logf(l *[]string, format string, a ...interface{}) {
	z.mu.Lock()
	*l = append(*l, fmt.Sprintf(format, a...))
	z.mu.Unlock()
}

func (z *zone) take(l *[]string) []string {
	z.mu.Lock()
	out := *l
	*l = nil
	z.mu.Unlock()
	return out
}

var (
	zones    sync.Map // "n12" -> *zone ; literal host -> *zone
	strayMu  sync.Mutex
	stray    []string
	zoneRe   = regexp.MustCompile(`(?:^|[^a-z0-9])(n\d+)\.c16\.test`) // anywhere: mis-split names still find their scenario
	stubOnce sync.Once
	stubAddr string
	certOnce sync.Once
	stubCert tls.Certificate
)

func zoneOf(host string) *zone {
	h := strings.ToLower(host)
	if m := zoneRe.FindStringSubmatch(h); m != nil {
		if z, ok := zones.Load(m[1]); ok {
			return z.(*zone)
		}
		return nil
	}
	if z, ok := zones.Load(h); ok {
		return z.(*zone)
	}
	return nil
}

func addStray(s string) {
	strayMu.Lock()
	stray = append(stray, s)
	strayMu.Unlock()
}

// ---------------------------------------------------------------- HTTP

type stubTransport struct{}

func (stubTransport) RoundTrip(req *http.Request) (*http.Response, error) {
	host := req.URL.Hostname()
	z := zoneOf(host)
	if z == nil {
		addStray("http " + req.URL.String())
		return nil, fmt.Errorf("c16 stub: no such host %q", host)
	}
	if req.URL.Scheme != "https" || req.URL.Path != "/.well-known/matrix/server" || req.Method != "GET" {
		z.logf(&z.wkLog, "UNEXPECTED %s %s", req.Method, req.URL.String())
		return nil, errors.New("c16 stub: unexpected request")
	}
	z.logf(&z.wkLog, "%s", req.URL.Host)
	z.mu.Lock()
	st := z.wk[strings.TrimSuffix(strings.ToLower(host), ".")]
	z.mu.Unlock()
	if st == nil || st.status == 0 {
		return nil, fmt.Errorf("c16 stub: connection to %s refused", host)
	}
	h := http.Header{"Content-Type": {"application/json"}}
	for k, v := range st.header {
		h[k] = v
	}
	resp := &http.Response{
		Status:     strconv.Itoa(st.status) + " " + http.StatusText(st.status),
		StatusCode: st.status,
		Proto:      "HTTP/1.1", ProtoMajor: 1, ProtoMinor: 1,
		Header:        h,
		Body:          io.NopCloser(bytes.NewReader(st.body)),
		ContentLength: -1,
		Request:       req,
	}
	if st.cl {
		resp.ContentLength = int64(len(st.body))
		h.Set("Content-Length", strconv.Itoa(len(st.body)))
	} else {
		resp.TransferEncoding = []string{"chunked"}
	}
	return resp, nil
}

// ----------------------------------------------------------------- DNS

type stubDNS struct{}

func (stubDNS) ServeDNS(w dns.ResponseWriter, r *dns.Msg) {
	msg := dns.Msg{}
	msg.SetReply(r)
	msg.Authoritative = true
	if len(r.Question) != 1 {
		msg.Rcode = dns.RcodeFormatError
		_ = w.WriteMsg(&msg)
		return
	}
	q := r.Question[0]
	name := strings.ToLower(q.Name)
	z := zoneOf(name)
	if z == nil {
		// names outside every scenario (search-list expansions ...): no such domain
		msg.Rcode = dns.RcodeNameError
		_ = w.WriteMsg(&msg)
		return
	}
	z.logf(&z.dnsLog, "%s %s", dns.TypeToString[q.Qtype], name)
	z.mu.Lock()
	a, ok := z.dns[name+"/"+dns.TypeToString[q.Qtype]]
	_, exists := z.dns[name+"/*"]
	z.mu.Unlock()
	switch {
	case ok:
		msg.Rcode = a.rcode
		for _, rr := range a.rrs {
			c := dns.Copy(rr)
			c.Header().Name = q.Name
			msg.Answer = append(msg.Answer, c)
		}
	case exists:
		// the name exists but has no record of this type
	default:
		msg.Rcode = dns.RcodeNameError
	}
	_ = w.WriteMsg(&msg)
}

func (z *zone) setDNS(fqdn, qtype string, a dnsAns) {
	z.mu.Lock()
	z.dns[strings.ToLower(fqdn)+"/"+qtype] = a
	z.dns[strings.ToLower(fqdn)+"/*"] = dnsAns{}
	z.mu.Unlock()
}

func (z *zone) setA(host string, ips ...string) {
	fq := dns.Fqdn(host)
	var rrs []dns.RR
	for _, ip := range ips {
		rrs = append(rrs, &dns.A{
			Hdr: dns.RR_Header{Name: fq, Rrtype: dns.TypeA, Class: dns.ClassINET, Ttl: 60},
			A:   net.ParseIP(ip).To4(),
		})
	}
	z.setDNS(fq, "A", dnsAns{rrs: rrs})
}

func (z *zone) setAAAA(host string, ips ...string) {
	fq := dns.Fqdn(host)
	var rrs []dns.RR
	for _, ip := range ips {
		rrs = append(rrs, &dns.AAAA{
			Hdr:  dns.RR_Header{Name: fq, Rrtype: dns.TypeAAAA, Class: dns.ClassINET, Ttl: 60},
			AAAA: net.ParseIP(ip).To16(),
		})
	}
	z.setDNS(fq, "AAAA", dnsAns{rrs: rrs})
}

// installStubs replaces http.DefaultTransport and net.DefaultResolver for the whole process.
func installStubs() {
	stubOnce.Do(func() {
		pc, err := net.ListenPacket("udp", "127.0.0.1:0")
		if err != nil {
			panic(fmt.Errorf("c16: cannot open the loopback DNS stub: %v", err))
		}
		stubAddr = pc.LocalAddr().String()
		started := make(chan struct{})
		srv := &dns.Server{PacketConn: pc, Handler: stubDNS{}, NotifyStartedFunc: func() { close(started) }}
		go func() {
			if err := srv.ActivateAndServe(); err != nil {
				panic(err)
			}
		}()
		<-started
		net.DefaultResolver = &net.Resolver{
			PreferGo: true,
			Dial: func(ctx context.Context, network, address string) (net.Conn, error) {
				var d net.Dialer
				return d.DialContext(ctx, "udp", stubAddr)
			},
		}
		http.DefaultTransport = stubTransport{}
	})
}

// ------------------------------------------------------- TLS listeners

func theCert() tls.Certificate {
	certOnce.Do(func() {
		key, err := ecdsa.GenerateKey(elliptic.P256(), rand.Reader)
		if err != nil {
			panic(err)
		}
		tpl := &x509.Certificate{
			SerialNumber: big.NewInt(16), Subject: pkix.Name{CommonName: "c16.test"},
			NotBefore: time.Now().Add(-time.Hour), NotAfter: time.Now().Add(24 * time.Hour),
			KeyUsage: x509.KeyUsageDigitalSignature, ExtKeyUsage: []x509.ExtKeyUsage{x509.ExtKeyUsageServerAuth},
			DNSNames: []string{"c16.test"},
		}
		der, err := x509.CreateCertificate(rand.Reader, tpl, tpl, &key.PublicKey, key)
		if err != nil {
			panic(err)
		}
		stubCert = tls.Certificate{Certificate: [][]byte{der}, PrivateKey: key}
	})
	return stubCert
}

// tlsSrv is a one-request-per-connection HTTPS endpoint on a loopback address.  It counts accepted TCP
// connections and hands (SNI, Host header) of every request to onReq; if that returns false the
// connection is dropped without an answer (a "dead" target), otherwise 200 {} is sent.
type tlsSrv struct {
	ln      net.Listener
	port    int
	accepts int32
	onReq   func(sni, host string) bool
	wg      sync.WaitGroup
}

func newTLSSrv(ip string, onReq func(sni, host string) bool) (*tlsSrv, error) {
	return newTLSSrvOn(ip, 0, onReq)
}

func newTLSSrvOn(ip string, port int, onReq func(sni, host string) bool) (*tlsSrv, error) {
	network := "tcp4"
	if strings.Contains(ip, ":") {
		network = "tcp6"
	}
	ln, err := net.Listen(network, net.JoinHostPort(ip, strconv.Itoa(port)))
	if err != nil {
		return nil, err
	}
	s := &tlsSrv{ln: ln, port: ln.Addr().(*net.TCPAddr).Port, onReq: onReq}
	cert := theCert()
	go func() {
		for {
			c, err := ln.Accept()
			if err != nil {
				return
			}
			atomic.AddInt32(&s.accepts, 1)
			s.wg.Add(1)
			go func() {
				defer s.wg.Done()
				defer c.Close()
				_ = c.SetDeadline(time.Now().Add(reqTimeout))
				sni := ""
				tc := tls.Server(c, &tls.Config{
					Certificates: []tls.Certificate{cert},
					GetConfigForClient: func(h *tls.ClientHelloInfo) (*tls.Config, error) {
						sni = h.ServerName
						return nil, nil
					},
				})
				if err := tc.Handshake(); err != nil {
					return
				}
				req, err := http.ReadRequest(bufio.NewReader(tc))
				if err != nil {
					return
				}
				if !s.onReq(sni, req.Host) {
					return
				}
				_, _ = io.WriteString(tc, "HTTP/1.1 200 OK\r\nContent-Type: application/json\r\nContent-Length: 2\r\nConnection: close\r\n\r\n{}")
				_ = tc.CloseWrite()
			}()
		}
	}()
	return s, nil
}

func (s *tlsSrv) close() {
	_ = s.ln.Close()
	s.wg.Wait()
}

// reqTimeout bounds one client request.  Every stub answers at once and every address is loopback, so it is
// never approached unless the library hangs; after two such hangs of one kind the remaining scenarios of that
// kind are reported without being run (a hanging library must not turn the check into hours of time-outs).
const reqTimeout = 15 * time.Second

var (
	hangMu sync.Mutex
	hangs  = map[string]int{}
)

func noteHang(key string) {
	hangMu.Lock()
	hangs[key]++
	hangMu.Unlock()
}

func tripped(key string) bool {
	hangMu.Lock()
	defer hangMu.Unlock()
	return hangs[key] >= 2
}
