// Command c16 replays Resolve.tla / NetPolicy.tla scenarios against the real fclient package.
package main

import (
	"encoding/json"

	"verifharness/hx"
)

func main() {
	hx.Register("c16resolve", "replay Resolve_gen records (resolve + cache families) against ResolveServer / LookupWellKnown / Client", func(a *hx.Args) error {
		if a.Mode == "notrip" {
			tripEnabled = false
		}
		return hx.ReplayAll(a, resolveReplay(a.Seed))
	})
	hx.Register("c16netpolicy", "replay NetPolicy_gen records (ctl + e2e families) against the dialer control function / real connections", func(a *hx.Args) error {
		return hx.ReplayAll(a, func(i int, raw json.RawMessage) hx.Result { return netReplay(i, a.Seed, raw) })
	})
	hx.Main()
}
