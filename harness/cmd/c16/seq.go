package main

// C16 - replay of ResolveSeq.tla scenarios: ONE real fclient.Client (destinationTripper with well-known /
// SRV lookups) sends a sequence of requests to DIFFERENT server names of one world.  Every destination of the
// world is a loopback TLS listener of this scenario; what each listener sees (port, Host header, SNI) and
// which well-known documents were asked for is compared, request by request, with what the model derives
// from the request's own server name (the client's memory must not show).

import (
	"context"
	"encoding/json"
	"fmt"
	"net/http"
	"strings"
	"time"

	"github.com/matrix-org/gomatrixserverlib/fclient"
	"github.com/matrix-org/gomatrixserverlib/spec"

	"verifharness/hx"
)

type seqWK struct {
	Hon    bool  `json:"hon"`
	Target nameT `json:"target"`
}

type seqExpect struct {
	T     targetT `json:"t"`
	WK    string  `json:"wk"`    // host whose well-known document the resolution of this server name asks for ("" none)
	First bool    `json:"first"` // no earlier request carried this server name
}

type seqRec struct {
	Fam   string `json:"fam"`
	World struct {
		WK  map[string]seqWK   `json:"wk"`
		Srv map[string]srvRole `json:"srv"`
	} `json:"world"`
	Reqs   []nameT     `json:"reqs"`
	Expect []seqExpect `json:"expect"`
}

var seqHosts = []string{"A", "B", "C"}

// seqRelation names how request j relates to the requests before it (the class of the scenario, for keys).
func seqRelation(r *seqRec, j int) string {
	n := r.Reqs[j]
	last := -1
	for i := 0; i < j; i++ {
		if r.Reqs[i] == n {
			last = i
		}
	}
	switch {
	case last >= 0 && last < j-1:
		return "again-after-other"
	case last >= 0:
		return "again"
	}
	for i := 0; i < j; i++ {
		e := r.Reqs[i]
		if w, ok := r.World.WK[e.Host]; ok && plain(e) && w.Hon && w.Target == n {
			return "delegated-name-of-earlier"
		}
	}
	for i := 0; i < j; i++ {
		if plain(n) && r.Expect[i].T.Dest.H == n.Host && r.Reqs[i].Host != n.Host {
			return "srv-target-of-earlier"
		}
	}
	for i := 0; i < j; i++ {
		if r.Reqs[i].Host == n.Host {
			return "same-host-other-port"
		}
	}
	if w, ok := r.World.WK[n.Host]; ok && plain(n) && w.Hon {
		for i := 0; i < j; i++ {
			if r.Reqs[i] == w.Target {
				return "delegates-to-earlier"
			}
		}
	}
	for i := 0; i < j; i++ {
		if r.Expect[i].T.SNI == r.Expect[j].T.SNI {
			return "tls-name-of-earlier"
		}
	}
	if j == 0 {
		return "first"
	}
	return "unrelated"
}

func seqStep(r *seqRec, j int) string {
	n := r.Reqs[j]
	switch {
	case n.Lit != "no":
		return "literal"
	case n.Port != noPort:
		return "port"
	}
	w := r.World.WK[n.Host]
	e := n
	s := "srv"
	if w.Hon {
		e = w.Target
		s = "wk->srv"
		switch {
		case e.Lit != "no":
			return "wk->literal"
		case e.Port != noPort:
			return "wk->port"
		}
	}
	sr := r.World.Srv[e.Host]
	switch {
	case len(sr.Fed.Recs) > 0 && !strings.HasPrefix(sr.Fed.Recs[0].T, "T_"):
		return s + "(peer)"
	case len(sr.Fed.Recs) > 0:
		return s + "(fed)"
	}
	return s + "(legacy)"
}

func seqReplay(i int, seed int64, raw json.RawMessage) hx.Result {
	var r seqRec
	if err := json.Unmarshal(raw, &r); err != nil {
		panic(err)
	}
	if len(r.Reqs) == 0 || len(r.Reqs) != len(r.Expect) {
		panic("seq record without requests / expectations")
	}
	if tripped("C16/seq/request-hangs") {
		return hx.Result{OK: false, Key: "C16/seq/request-hangs", What: "not run: earlier client requests did not return within " + reqTimeout.String()}
	}
	c := newConc(i, seed)
	defer c.done()
	v := int((seed+int64(i))%4+4) % 4
	sfx := "." + c.label + ".c16.test"
	c.hosts["A"] = []string{"a", "A", "a-1", "0a"}[v] + sfx
	c.hosts["B"] = []string{"b", "matrix.b", "B", "b-0"}[v] + sfx
	c.hosts["C"] = []string{"c.c", "c", "c--c", "C9"}[v] + sfx

	// -- listeners: one per port of the world (every destination the model knows, right or wrong for a request)
	var srvs []*tlsSrv
	defer func() {
		for _, s := range srvs {
			s.close()
		}
	}()
	open := func(tok int, hostTok string) {
		if tok == noPort || c.ports[tok] != 0 {
			return
		}
		if !ownablePort(tok) {
			panic(fmt.Sprintf("seq world with a port the harness cannot own: %d", tok))
		}
		ip := "127.0.0.1"
		if isLitTok(hostTok) {
			ip = c.host(hostTok)
		}
		s, err := newTLSSrv(ip, func(sni, host string) bool {
			c.z.logf(&c.z.events, "(:p%d host=%s sni=%s)", tok, host, strings.ToLower(sni))
			return true
		})
		if err != nil {
			panic(fmt.Errorf("c16: cannot listen on %s: %v", ip, err))
		}
		srvs = append(srvs, s)
		c.ports[tok] = s.port
	}
	for _, n := range r.Reqs {
		open(n.Port, n.Host)
	}
	for _, h := range seqHosts {
		if w := r.World.WK[h]; w.Hon {
			open(w.Target.Port, w.Target.Host)
		}
		for _, a := range []srvAns{r.World.Srv[h].Fed, r.World.Srv[h].Legacy} {
			for _, rec := range a.Recs {
				open(rec.Port, rec.T)
			}
		}
	}

	// -- the world: well-known documents, SRV records, addresses
	rot := int((seed + int64(i)) % 3)
	for _, h := range seqHosts {
		w := r.World.WK[h]
		st := &wkStub{status: 404, cl: true, body: []byte(`{"errcode":"M_NOT_FOUND"}`), header: http.Header{}}
		if w.Hon {
			st = &wkStub{status: 200, cl: (seed+int64(i))%2 == 0, header: http.Header{},
				body: c.wkBody(wkT{Status: 200, Size: "small", CL: true, Pad: "none", Body: "ok", Target: w.Target, Redir: "none"})}
		}
		c.z.wk[strings.ToLower(c.host(h))] = st
		c.setSRV(c.host(h), "matrix-fed", r.World.Srv[h].Fed, rot)
		c.setSRV(c.host(h), "matrix", r.World.Srv[h].Legacy, rot)
		for _, a := range []srvAns{r.World.Srv[h].Fed, r.World.Srv[h].Legacy} {
			for _, rec := range a.Recs {
				c.z.setA(c.host(rec.T), "127.0.0.1")
			}
		}
		c.z.setA(c.host(h), "127.0.0.1")
	}

	ctx, cancel := context.WithTimeout(context.Background(), time.Duration(len(r.Reqs)+1)*reqTimeout+5*time.Second)
	defer cancel()
	wantOf := func(j int) string {
		t := r.Expect[j].T
		sni := strings.TrimSuffix(strings.ToLower(c.host(t.SNI)), ".")
		if isLitTok(t.SNI) {
			sni = "" // no SNI is sent for an IP literal (RFC 6066)
		}
		return fmt.Sprintf("(:p%d host=%s sni=%s)", t.Dest.P, c.hp(t.Host.H, t.Host.P), sni)
	}
	var rels, steps []string
	for j := range r.Reqs {
		rels = append(rels, seqRelation(&r, j))
		steps = append(steps, seqStep(&r, j))
	}
	story := func(j int) string {
		var b []string
		for k := 0; k <= j; k++ {
			b = append(b, fmt.Sprintf("%q (%s)", c.abstract(c.name(r.Reqs[k])), steps[k]))
		}
		return strings.Join(b, ", then ")
	}

	// -- what the resolver says about each server name on its own (no client, nothing remembered)
	seen := map[nameT]bool{}
	for j, n := range r.Reqs {
		if seen[n] {
			continue
		}
		seen[n] = true
		res, err := fclient.ResolveServer(ctx, spec.ServerName(c.name(n)))
		want := c.render([]targetT{r.Expect[j].T})
		var got []triple
		for _, x := range res {
			got = append(got, triple{x.Destination, string(x.Host), x.TLSServerName})
		}
		if err != nil || fmt.Sprint(got) != fmt.Sprint(want) {
			return hx.Result{OK: false, Key: "C16/seq/ResolveServer/" + steps[j],
				What: fmt.Sprintf("ResolveServer(%q) in a world where every name has a well-known document and SRV records of its own (%s): model %s, code %s (err=%v)",
					c.abstract(c.name(n)), steps[j], c.abstract(triplesString(want)), c.abstract(triplesString(got)), err),
				Want: want, Got: got}
		}
	}
	c.z.take(&c.z.wkLog)
	c.z.take(&c.z.dnsLog)

	// -- one client, the requests in order
	opts := []fclient.ClientOption{fclient.WithWellKnownSRVLookups(true), fclient.WithSkipVerify(true), fclient.WithTimeout(reqTimeout)}
	nt := "seq|" + strings.Join(rels[1:], ",") + "|" + strings.Join(steps, ",")
	// options that must have no effect on where a request goes and what it carries
	if (seed+int64(i))%2 != 0 {
		opts = append(opts, fclient.WithDNSCache(fclient.NewDNSCache(16, time.Minute, []string{"0.0.0.0/0", "::/0"}, nil)))
	}
	if (seed+int64(i))%3 == 0 {
		opts = append(opts, fclient.WithKeepAlives(true))
	}
	cl := fclient.NewClient(opts...)
	for j, n := range r.Reqs {
		req, err := http.NewRequest("GET", "matrix://"+c.name(n)+"/_matrix/federation/v1/version", nil)
		if err != nil {
			panic(err)
		}
		t0 := time.Now()
		resp, err := cl.DoHTTPRequest(ctx, req)
		if err != nil && time.Since(t0) >= reqTimeout {
			noteHang("C16/seq/request-hangs")
		}
		if resp != nil {
			_ = resp.Body.Close()
		}
		ev := c.z.take(&c.z.events)
		wkLog := c.z.take(&c.z.wkLog)
		want := wantOf(j)
		base := "C16/seq/" + rels[j]
		if err != nil || len(ev) != 1 || ev[0] != want {
			what := "failed"
			if len(ev) >= 1 {
				var gp, wp int
				var gh, gs, wh, ws string
				_, _ = fmt.Sscanf(ev[len(ev)-1], "(:p%d host=%s sni=%s", &gp, &gh, &gs)
				_, _ = fmt.Sscanf(want, "(:p%d host=%s sni=%s", &wp, &wh, &ws)
				switch {
				case gp != wp:
					what = "destination"
				case gh != wh:
					what = "host"
				case gs != ws:
					what = "tls-name"
				default:
					what = "connections"
				}
			}
			return hx.Result{OK: false, Key: base + "/" + what,
				What: fmt.Sprintf("one Client, requests to %s: request %d (%s: %s) reached %s (err=%v; well-known documents asked for: %s); the resolution of that server name prescribes %s",
					story(j), j+1, rels[j], steps[j], c.abstract(fmt.Sprint(ev)), err, c.abstract(fmt.Sprintf("%q", wkLog)), c.abstract(want)),
				Want: []string{want}, Got: ev}
		}
		// well-known documents: only the one of this request's own server name, at most once; a first request
		// for a port-less DNS name must ask for it (a remembered resolution may spare a later one the lookup)
		wantWK := ""
		if r.Expect[j].WK != "" {
			wantWK = c.host(r.Expect[j].WK)
		}
		okWK := len(wkLog) <= 1
		for _, h := range wkLog {
			okWK = okWK && wantWK != "" && h == wantWK
		}
		if r.Expect[j].First && wantWK != "" && len(wkLog) != 1 {
			okWK = false
		}
		if !okWK {
			what := "wellknown-other"
			if len(wkLog) == 0 {
				what = "wellknown-skipped"
			}
			return hx.Result{OK: false, Key: base + "/" + what,
				What: fmt.Sprintf("one Client, requests to %s: request %d (%s) asked for the well-known documents of %s, the order of the steps prescribes %q (first request for this server name: %v)",
					story(j), j+1, rels[j], c.abstract(fmt.Sprintf("%q", wkLog)), c.abstract(wantWK), r.Expect[j].First),
				Want: wantWK, Got: wkLog}
		}
	}
	return hx.Result{OK: true, NT: nt}
}
