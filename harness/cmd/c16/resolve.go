package main

// C16 - replay of Resolve.tla scenarios against the real fclient.ResolveServer / LookupWellKnown and,
// where every destination can be a loopback listener, against a real fclient.Client whose
// destinationTripper walks the targets ("trip": observed Host header and SNI per target).

import (
	"context"
	"encoding/json"
	"fmt"
	"net"
	"net/http"
	"regexp"
	"sort"
	"strconv"
	"strings"
	"time"

	"github.com/matrix-org/gomatrixserverlib/fclient"
	"github.com/matrix-org/gomatrixserverlib/spec"
	"github.com/miekg/dns"

	"verifharness/hx"
)

type nameT struct {
	Host  string `json:"host"`
	Lit   string `json:"lit"`
	Port  int    `json:"port"`
	Valid bool   `json:"valid"`
}

type hostPort struct {
	H string `json:"h"`
	P int    `json:"p"`
}

type targetT struct {
	Dest hostPort `json:"dest"`
	Host hostPort `json:"host"`
	SNI  string   `json:"sni"`
}

type wkT struct {
	Status int    `json:"status"`
	Size   string `json:"size"`
	CL     bool   `json:"cl"`
	Pad    string `json:"pad"`
	Body   string `json:"body"`
	Target nameT  `json:"target"`
	Redir  string `json:"redir"` // none | loop | ok
}

type srvRec struct {
	T    string `json:"t"`
	Port int    `json:"port"`
	Prio int    `json:"prio"`
	TB   int    `json:"tb"`
}

type srvAns struct {
	RC   string   `json:"rc"`
	Recs []srvRec `json:"recs"`
}

type srvRole struct {
	Fed    srvAns `json:"fed"`
	Legacy srvAns `json:"legacy"`
}

type variantT struct {
	Refused bool      `json:"refused"`
	Result  []targetT `json:"result"`
	WKReqs  []string  `json:"wkreqs"`
	Lats    []string  `json:"lats"`
}

type resolveRec struct {
	Fam     string             `json:"fam"`
	Origin  nameT              `json:"origin"`
	WK      wkT                `json:"wk"`
	Srv     map[string]srvRole `json:"srv"`
	Allowed []variantT         `json:"allowed"`
	NSrvQ   int                `json:"nsrvq"` // the largest number of SRV queries any permitted outcome makes
	Spell   struct {
		O []string `json:"o"`
		D []string `json:"d"`
	} `json:"spell"`
	LWK struct {
		OKAny []bool `json:"ok_any"` // honoured? (both values where the latitude leaves it open)
		Addr  nameT  `json:"addr"`
	} `json:"lwk"`
	Cache  *cacheT `json:"cache"`
	Expect []struct {
		Kind string `json:"kind"`
		Secs int64  `json:"secs"`
	} `json:"expect"`
}

type cacheT struct {
	CC  string `json:"cc"`
	N   int64  `json:"n"`
	Ex  string `json:"ex"`
	Off int64  `json:"off"`
}

const wkMax = 50 * 1024

// noPort mirrors NoPort of Resolve.tla ("the name carries no port"; 0 is a port).
const noPort = -1

// conc concretises the abstract tokens of one record.
type conc struct {
	i     int
	seed  int64
	label string
	z     *zone
	hosts map[string]string // host token -> concrete host (bare, no brackets)
	ports map[int]int       // port token -> concrete port
}

func newConc(i int, seed int64) *conc {
	c := &conc{i: i, seed: seed, label: "n" + strconv.Itoa(i), z: newZone(), hosts: map[string]string{}, ports: map[int]int{}}
	v := int((seed + int64(i)) % 4)
	if v < 0 {
		v += 4
	}
	sfx := "." + c.label + ".c16.test"
	c.hosts["S"] = []string{"s", "S", "s-1", "0s"}[v] + sfx
	c.hosts["D"] = []string{"d", "matrix.d", "D", "d-0"}[v] + sfx
	hi, mid, lo := byte((i>>16)&63), byte((i>>8)&255), byte(i&255)
	c.hosts["L4"] = net.IPv4(127, 64+hi, mid, lo).String()
	c.hosts["DL4"] = net.IPv4(127, 128+hi, mid, lo).String()
	v6 := func(last byte) string {
		ip := net.ParseIP("2001:db8::").To16()
		ip[6], ip[7], ip[8], ip[9], ip[15] = byte(i>>24), byte(i>>16), byte(i>>8)|0x80, byte(i), last
		return ip.String()
	}
	c.hosts["L6"] = v6(0x48)
	c.hosts["DL6"] = v6(0x49)
	c.hosts["L6M"] = fmt.Sprintf("::ffff:10.%d.%d.%d", hi, mid, lo) // IPv4-mapped, valid in brackets only
	c.hosts["DL6M"] = fmt.Sprintf("::ffff:11.%d.%d.%d", hi, mid, lo)
	// the same DNS names in other spellings
	c.hosts["SU"] = strings.ToUpper(c.hosts["S"])
	c.hosts["DU"] = strings.ToUpper(c.hosts["D"])
	c.hosts["Ddot"] = c.hosts["D"] + "."
	zones.Store(c.label, c.z)
	for _, t := range litToks {
		zones.Store(strings.ToLower(c.hosts[t]), c.z)
	}
	return c
}

func (c *conc) done() {
	zones.Delete(c.label)
	for _, t := range litToks {
		zones.Delete(strings.ToLower(c.hosts[t]))
	}
}

// spell turns a spelling of Resolve_gen.tla (Ident.tla characters plus host placeholders) into the
// concrete string; role "S" / "D" selects whose hosts fill the placeholders.
func (c *conc) spell(atoms []string, role string) string {
	dnsTok, v4Tok, v6Tok := "S", "L4", "L6"
	if role == "D" {
		dnsTok, v4Tok, v6Tok = "D", "DL4", "DL6"
	}
	var b strings.Builder
	for _, a := range atoms {
		switch a {
		case "<dns>":
			b.WriteString(c.hosts[dnsTok])
		case "<v4>":
			b.WriteString(c.hosts[v4Tok])
		case "<v6>":
			b.WriteString(c.hosts[v6Tok])
		case "sp":
			b.WriteByte(' ')
		case "nul":
			b.WriteByte(0)
		case "u2":
			b.WriteString("\u00e9")
		case "u4":
			b.WriteString("\U0001F600")
		case "PAD": // only used as PAD "." <dns>: pad the host to 256 characters
			b.WriteString(strings.Repeat("p", 255-len(c.hosts[dnsTok])))
		default:
			if len(a) != 1 {
				panic("unknown spelling atom " + a)
			}
			b.WriteString(a)
		}
	}
	return b.String()
}

func (c *conc) host(tok string) string {
	if h, ok := c.hosts[tok]; ok {
		return h
	}
	if strings.HasPrefix(tok, "INV:") {
		panic("no spelling was given for " + tok)
	}
	if strings.HasPrefix(tok, "T_") {
		h := strings.ToLower(strings.ReplaceAll(tok, "_", "-")) + "." + c.label + ".c16.test"
		c.hosts[tok] = h
		return h
	}
	panic("unknown host token " + tok)
}

func (c *conc) port(tok int) int {
	if p, ok := c.ports[tok]; ok {
		return p
	}
	return tok
}

var litToks = []string{"L4", "DL4", "L6", "DL6", "L6M", "DL6M"}

func isV6Tok(tok string) bool { return tok == "L6" || tok == "DL6" || tok == "L6M" || tok == "DL6M" }
func isLitTok(tok string) bool {
	return tok == "L4" || tok == "DL4" || isV6Tok(tok)
}

// ownablePort: a port token the harness can realise by a listener of its own (not 0, 1, 8448, 65535)
func ownablePort(p int) bool { return p >= 4000 && p < 5000 }

func (c *conc) hp(h string, p int) string {
	s := c.host(h)
	if isV6Tok(h) {
		s = "[" + s + "]"
	}
	if p != noPort {
		s += ":" + strconv.Itoa(c.port(p))
	}
	return s
}

func (c *conc) name(n nameT) string { return c.hp(n.Host, n.Port) }

type triple struct{ Dest, Host, SNI string }

func (c *conc) render(ts []targetT) []triple {
	out := make([]triple, 0, len(ts))
	for _, t := range ts {
		out = append(out, triple{c.hp(t.Dest.H, t.Dest.P), c.hp(t.Host.H, t.Host.P), c.host(t.SNI)})
	}
	return out
}

// abstract replaces the concrete strings of this scenario by their tokens (for keys and messages).
func (c *conc) abstract(s string) string {
	type kv struct{ k, v string }
	var l []kv
	for tok, h := range c.hosts {
		if h != "" {
			l = append(l, kv{h, tok})
		}
	}
	for tok, p := range c.ports {
		l = append(l, kv{":" + strconv.Itoa(p), ":p" + strconv.Itoa(tok)})
	}
	sort.Slice(l, func(a, b int) bool {
		if len(l[a].k) != len(l[b].k) {
			return len(l[a].k) > len(l[b].k)
		}
		return l[a].k < l[b].k
	})
	for _, e := range l {
		s = strings.ReplaceAll(s, e.k, e.v)
	}
	for _, e := range l {
		s = regexp.MustCompile("(?i)"+regexp.QuoteMeta(e.k)).ReplaceAllLiteralString(s, e.v)
	}
	return s
}

func triplesString(ts []triple) string {
	var b []string
	for _, t := range ts {
		b = append(b, fmt.Sprintf("(%s host=%s sni=%s)", t.Dest, t.Host, t.SNI))
	}
	return "[" + strings.Join(b, " ") + "]"
}

// ---- well-known body -----------------------------------------------------------

func (c *conc) wkBody(w wkT) []byte {
	pick := func(alts ...string) string {
		return alts[int((c.seed+int64(c.i))%int64(len(alts))+int64(len(alts)))%len(alts)]
	}
	var js string
	switch w.Body {
	case "ok":
		v, _ := json.Marshal(c.name(w.Target))
		// @V@: the name as a JSON string; @E@: the same string with its first '.' written as an escape
		js = pick(`{"m.server":@V@}`, `{"m.server": @V@, "other": {"m.server": "x.invalid"}}`, "{\n  \"a\": [1, 2],\n  \"m.server\": @V@\n}",
			`{"other": {"m.server": "x.invalid"}, "m.server":@V@}`, `{"m.server":@E@}`)
		js = strings.Replace(js, "@E@", strings.Replace(string(v), ".", `\u002e`, 1), 1)
		js = strings.Replace(js, "@V@", string(v), 1)
	case "malformed":
		js = pick(`{"m.server":"d.`+c.label+`.c16.test"`, `not json`, `{"m.server":"d.`+c.label+`.c16.test"}}`, `<html></html>`)
	case "no_mserver":
		js = pick(`{}`, `{"m.homeserver":"d.`+c.label+`.c16.test"}`, `{"M.SERVER2":"x"}`)
	case "empty_mserver":
		js = `{"m.server":""}`
	case "wrongtype":
		js = pick(`{"m.server":8448}`, `{"m.server":["d.`+c.label+`.c16.test"]}`, `{"m.server":{"host":"d"}}`, `["m.server"]`)
	default:
		panic("unknown body kind " + w.Body)
	}
	want := 0
	switch w.Size {
	case "small":
		return []byte(js)
	case "eq50k":
		want = wkMax
	case "over50k":
		want = wkMax + []int{1, 1, 2, 70000}[int((c.seed+int64(c.i))%4+4)%4]
	default:
		panic("unknown size " + w.Size)
	}
	switch w.Pad {
	case "tail": // white space after the value: every prefix that contains the value is valid JSON
		return []byte(js + strings.Repeat(" ", want-len(js)))
	case "inside": // a long member in front of m.server: a prefix is never valid JSON
		v, _ := json.Marshal(c.name(w.Target))
		head, tail := `{"pad":"`, `","m.server":`+string(v)+`}`
		return []byte(head + strings.Repeat("x", want-len(head)-len(tail)) + tail)
	}
	panic("unknown pad " + w.Pad)
}

// ---- SRV tables ------------------------------------------------------------------

func (c *conc) setSRV(host string, svc string, a srvAns, rot int) {
	q := dns.Fqdn("_" + svc + "._tcp." + host)
	switch a.RC {
	case "nx":
		c.z.mu.Lock()
		c.z.dns[strings.ToLower(q)+"/SRV"] = dnsAns{rcode: dns.RcodeNameError}
		c.z.mu.Unlock()
	case "nodata":
		c.z.setDNS(q, "SRV", dnsAns{})
	case "err":
		// an answer that is an error but not "no such name": SERVFAIL / REFUSED / NOTIMP (all immediate)
		rc := []int{dns.RcodeServerFailure, dns.RcodeRefused, dns.RcodeNotImplemented}[int((c.seed+int64(c.i))%3+3)%3]
		c.z.setDNS(q, "SRV", dnsAns{rcode: rc})
	case "ok":
		var rrs []dns.RR
		n := len(a.Recs)
		for k := range a.Recs {
			r := a.Recs[(k+rot)%n]
			rrs = append(rrs, &dns.SRV{
				Hdr:      dns.RR_Header{Name: q, Rrtype: dns.TypeSRV, Class: dns.ClassINET, Ttl: 60},
				Priority: uint16(r.Prio), Weight: uint16(1 + (k+c.i)%3), Port: uint16(c.port(r.Port)),
				Target: dns.Fqdn(c.host(r.T)), // on the wire a target is always fully qualified
			})
		}
		c.z.setDNS(q, "SRV", dnsAns{rrs: rrs})
	default:
		panic("unknown srv rc " + a.RC)
	}
}

// ---- classes for keys / evidence ------------------------------------------------

func nameClass(n nameT) string {
	if !n.Valid {
		if strings.HasPrefix(n.Host, "INV:") {
			return "invalid:" + n.Host[4:]
		}
		return "none"
	}
	s := map[string]string{"no": "dns", "v4": "v4", "v6": "v6"}[n.Lit]
	switch n.Host { // other spellings / coincidences are classes of their own
	case "SU", "DU", "Ddot", "L6M", "DL6M":
		s += "(" + n.Host + ")"
	}
	switch {
	case n.Port == 0 || n.Port == 65535:
		s += "+port" + strconv.Itoa(n.Port)
	case n.Port != noPort:
		s += "+port"
	}
	return s
}

func wkClass(w wkT) string {
	st := strconv.Itoa(w.Status)
	if w.Status == 0 {
		st = "neterr"
	}
	cl := "cl"
	if !w.CL {
		cl = "nocl"
	}
	if w.Redir != "none" {
		st += "-redirect-" + w.Redir
	}
	s := st + "/" + w.Size + "/" + cl
	if w.Pad != "none" {
		s += "/pad-" + w.Pad
	}
	s += "/" + w.Body
	if w.Body == "ok" {
		s += "->" + nameClass(w.Target)
		if w.Target.Host == "S" {
			s += "(=origin)"
		}
	}
	return s
}

func ansClass(a srvAns) string {
	if a.RC == "ok" && len(a.Recs) == 1 && !strings.HasPrefix(a.Recs[0].T, "T_") {
		return "self"
	}
	if a.RC == "ok" && len(a.Recs) == 3 && a.Recs[1].Prio == a.Recs[2].Prio {
		return "tie"
	}
	if a.RC == "ok" && len(a.Recs) == 2 {
		return "edge"
	}
	if a.RC == "ok" {
		return strconv.Itoa(len(a.Recs)) + "rec"
	}
	return a.RC
}

func srvClass(r resolveRec) string {
	o, d := r.Srv["S"], r.Srv["D"]
	return fmt.Sprintf("o:%s,%s|d:%s,%s", ansClass(o.Fed), ansClass(o.Legacy), ansClass(d.Fed), ansClass(d.Legacy))
}

// DnsKeyOf mirrors DnsKey of Resolve.tla: spellings of one DNS name.
func DnsKeyOf(tok string) string {
	switch tok {
	case "S", "SU":
		return "S"
	case "D", "DU", "Ddot":
		return "D"
	}
	return tok
}

func plain(n nameT) bool { return n.Valid && n.Lit == "no" && n.Port == noPort }

// ---- the replay ------------------------------------------------------------------

var tripEnabled = true

func resolveReplay(seed int64) func(i int, raw json.RawMessage) hx.Result {
	return func(i int, raw json.RawMessage) hx.Result {
		var r resolveRec
		if err := json.Unmarshal(raw, &r); err != nil {
			panic(err)
		}
		installStubs()
		if r.Fam == "seq" {
			return seqReplay(i, seed, raw)
		}
		if r.Fam == "cache" {
			return cacheReplay(i, seed, r)
		}
		if len(r.Allowed) == 0 {
			panic("record without permitted outcomes")
		}
		c := newConc(i, seed)
		defer c.done()
		if strings.HasPrefix(r.Origin.Host, "INV:") {
			c.hosts[r.Origin.Host] = c.spell(r.Spell.O, "S")
		}
		if strings.HasPrefix(r.WK.Target.Host, "INV:") {
			c.hosts[r.WK.Target.Host] = c.spell(r.Spell.D, "D")
		}
		oc, wc, sc := nameClass(r.Origin), wkClass(r.WK), srvClass(r)
		base := "C16/resolve/" + oc
		if plain(r.Origin) {
			base += "/wk=" + wc
		}

		// -- trip eligibility: every permitted outcome connects only to ports the harness can own
		trip := tripEnabled
		for _, v := range r.Allowed {
			if v.Refused {
				trip = false
			}
			for _, t := range v.Result {
				if !ownablePort(t.Dest.P) || isV6Tok(t.Dest.H) {
					trip = false
				}
			}
		}
		for _, role := range []string{"S", "D"} {
			for _, a := range []srvAns{r.Srv[role].Fed, r.Srv[role].Legacy} {
				for k := 1; k < len(a.Recs); k++ {
					if a.Recs[k].Prio == a.Recs[k-1].Prio {
						trip = false // equal priorities: every resolution may order them differently
					}
				}
			}
		}
		var srvs []*tlsSrv
		defer func() {
			for _, s := range srvs {
				s.close()
			}
		}()
		dead := map[int]bool{}
		if trip {
			open := func(tok int, hostTok string) {
				if !ownablePort(tok) || c.ports[tok] != 0 {
					return
				}
				ip := "127.0.0.1"
				if isLitTok(hostTok) {
					ip = c.host(hostTok)
				}
				s, err := newTLSSrv(ip, func(sni, host string) bool {
					c.z.logf(&c.z.events, "(:p%d host=%s sni=%s)", tok, host, strings.ToLower(sni))
					c.z.mu.Lock()
					defer c.z.mu.Unlock()
					return !dead[tok]
				})
				if err != nil {
					panic(fmt.Errorf("c16: cannot listen on %s: %v", ip, err))
				}
				srvs = append(srvs, s)
				c.ports[tok] = s.port
			}
			open(r.Origin.Port, r.Origin.Host)
			open(r.WK.Target.Port, r.WK.Target.Host)
			for _, role := range []string{"S", "D"} {
				for _, a := range []srvAns{r.Srv[role].Fed, r.Srv[role].Legacy} {
					for _, rec := range a.Recs {
						open(rec.Port, rec.T)
					}
				}
			}
		}

		// -- environment
		origin := c.name(r.Origin)
		redirHost := ""
		if r.Origin.Valid {
			oh := strings.ToLower(c.host(r.Origin.Host))
			st := &wkStub{status: r.WK.Status, cl: r.WK.CL, header: http.Header{}}
			// a header that must have no effect
			switch int((seed+int64(i))%3+3) % 3 {
			case 1:
				st.header.Set("Content-Type", "text/plain; charset=utf-8")
			case 2:
				st.header["Content-Type"] = nil
			}
			if r.WK.Status != 0 {
				st.body = c.wkBody(r.WK)
			}
			switch r.WK.Redir {
			case "none":
				c.z.wk[oh] = st
			case "loop":
				c.z.wk[oh] = &wkStub{status: r.WK.Status, cl: true, body: []byte("moved"),
					header: http.Header{"Location": {"https://" + c.name(r.Origin) + "/.well-known/matrix/server"}}}
			case "ok": // the origin redirects to another host of the scenario, which serves the document with 200
				redirHost = "redirect." + c.label + ".c16.test"
				c.z.wk[oh] = &wkStub{status: r.WK.Status, cl: true, body: []byte("moved"),
					header: http.Header{"Location": {"https://" + redirHost + "/.well-known/matrix/server"}}}
				st.status = 200
				c.z.wk[redirHost] = st
			default:
				panic("unknown redirect kind " + r.WK.Redir)
			}
		}
		if r.WK.Target.Valid && DnsKeyOf(r.WK.Target.Host) != DnsKeyOf(r.Origin.Host) {
			// the delegated host would itself delegate further, to a name that resolves nowhere
			c.z.wk[strings.ToLower(c.host(DnsKeyOf(r.WK.Target.Host)))] = &wkStub{status: 200, cl: true,
				body: []byte(`{"m.server":"second-hop.` + c.label + `.c16.test:4499"}`)}
		}
		rot := int((seed + int64(i)) % 3)
		for role, tok := range map[string]string{"S": "S", "D": "D"} {
			c.setSRV(c.host(tok), "matrix-fed", r.Srv[role].Fed, rot)
			c.setSRV(c.host(tok), "matrix", r.Srv[role].Legacy, rot)
			for _, a := range []srvAns{r.Srv[role].Fed, r.Srv[role].Legacy} {
				for _, rec := range a.Recs {
					c.z.setA(c.host(rec.T), "127.0.0.1")
				}
			}
		}
		c.z.setA(c.host("S"), "127.0.0.1")
		c.z.setA(c.host("D"), "127.0.0.1")

		// -- ResolveServer
		ctx, cancel := context.WithTimeout(context.Background(), 2*reqTimeout+5*time.Second)
		defer cancel()
		res, err := fclient.ResolveServer(ctx, spec.ServerName(origin))
		wkLog := c.z.take(&c.z.wkLog)
		dnsLog := c.z.take(&c.z.dnsLog)
		var got []triple
		for _, x := range res {
			got = append(got, triple{x.Destination, string(x.Host), x.TLSServerName})
		}
		gotRefused := err != nil
		match := -1
		for k, v := range r.Allowed {
			if v.Refused != gotRefused {
				continue
			}
			if v.Refused || fmt.Sprint(c.render(v.Result)) == fmt.Sprint(got) {
				match = k
				break
			}
		}
		describe := func() string {
			return fmt.Sprintf("server name %q (%s), well-known %s, SRV %s", origin, oc, wc, sc)
		}
		if match < 0 {
			v0 := r.Allowed[0]
			var wants []string
			for _, v := range r.Allowed {
				if v.Refused {
					wants = append(wants, "refused")
				} else {
					wants = append(wants, c.abstract(triplesString(c.render(v.Result))))
				}
			}
			gots := "refused (" + fmt.Sprint(err) + ")"
			if !gotRefused {
				gots = c.abstract(triplesString(got))
			}
			kind := "targets"
			switch {
			case gotRefused:
				kind = "refused-but-resolvable"
			case !gotRefused && len(r.Allowed) == 1 && v0.Refused:
				kind = "not-refused"
			case len(got) > 0 && !sniOfSome(got[0].SNI, r.Allowed, c):
				// the targets carry the identity of a name no permitted outcome resolves
				id := "other"
				for _, tok := range []string{"S", "D", "L4", "DL4", "L6", "DL6"} {
					if strings.EqualFold(got[0].SNI, c.hosts[tok]) {
						id = tok
					}
				}
				kind = "identity:got=" + id
			case sameDestsAsSome(got, r.Allowed, c):
				kind = "host-or-sni"
			default:
				kind = "targets/srv=" + sc
			}
			return hx.Result{OK: false, Key: base + "/" + kind,
				What: fmt.Sprintf("ResolveServer: %s: model permits %s, code gives %s", describe(), strings.Join(wants, " or "), gots),
				Want: wants, Got: gots}
		}
		// well-known requests: never to another host than the origin, never for literals / explicit ports
		// (a redirect makes more requests: to the origin again, or to the host it names - never to the delegated name)
		var wantWK []string
		for _, h := range r.Allowed[match].WKReqs {
			wantWK = append(wantWK, c.host(h))
		}
		wkOK := fmt.Sprint(wkLog) == fmt.Sprint(wantWK)
		if !wkOK && r.WK.Redir != "none" && len(wantWK) == 1 && len(wkLog) >= 1 && wkLog[0] == wantWK[0] {
			wkOK = true
			for _, h := range wkLog[1:] {
				if h != wantWK[0] && h != redirHost {
					wkOK = false
				}
			}
		}
		if !wkOK {
			return hx.Result{OK: false, Key: base + "/wellknown-requests",
				What: fmt.Sprintf("ResolveServer: %s: well-known requests made to %q, the model prescribes %q", describe(), wkLog, wantWK),
				Want: wantWK, Got: wkLog}
		}

		// no DNS traffic where no permitted outcome has any (invalid names, literals, explicit ports)
		if r.NSrvQ == 0 && len(dnsLog) > 0 {
			return hx.Result{OK: false, Key: base + "/dns-traffic",
				What: fmt.Sprintf("ResolveServer: %s: DNS queries %q were made, the model prescribes none", describe(), dnsLog),
				Want: []string{}, Got: dnsLog}
		}

		// -- LookupWellKnown on its own
		if plain(r.Origin) {
			wres, werr := fclient.LookupWellKnown(ctx, spec.ServerName(origin))
			c.z.take(&c.z.wkLog)
			gotOK := werr == nil && wres != nil
			okAllowed := false
			for _, b := range r.LWK.OKAny {
				okAllowed = okAllowed || b == gotOK
			}
			if !okAllowed {
				return hx.Result{OK: false, Key: "C16/wellknown/" + wc + "/honoured=" + strconv.FormatBool(gotOK),
					What: fmt.Sprintf("LookupWellKnown(%q): reply %s (%d bytes): model honoured=%v, code honoured=%v (err=%v)",
						origin, wc, len(c.z.wk[strings.ToLower(c.host(r.Origin.Host))].body), r.LWK.OKAny, gotOK, werr),
					Want: r.LWK.OKAny, Got: gotOK}
			}
			if gotOK && string(wres.NewAddress) != c.name(r.LWK.Addr) {
				return hx.Result{OK: false, Key: "C16/wellknown/" + wc + "/address",
					What: fmt.Sprintf("LookupWellKnown(%q) = %q, want %q", origin, wres.NewAddress, c.name(r.LWK.Addr)),
					Want: c.name(r.LWK.Addr), Got: string(wres.NewAddress)}
			}
		}

		// -- trip: a real client walks the targets; all but the last are dead
		nt := fmt.Sprintf("%s|%s|%s|v%d", oc, wc, sc, match)
		if !plain(r.Origin) {
			nt = oc
		}
		if trip && tripped("C16/resolve/trip/request-hangs") {
			return hx.Result{OK: false, Key: "C16/resolve/trip/request-hangs", What: "not run: earlier client requests did not return within " + reqTimeout.String()}
		}
		if trip {
			v := r.Allowed[match]
			c.z.mu.Lock()
			for _, t := range v.Result {
				dead[t.Dest.P] = true
			}
			c.z.mu.Unlock()
			var want []string
			for _, t := range v.Result {
				sni := strings.TrimSuffix(strings.ToLower(c.host(t.SNI)), ".") // SNI: no trailing dot (RFC 6066), case-insensitive
				if isLitTok(t.SNI) {
					sni = "" // no SNI is sent for an IP literal (RFC 6066)
				}
				want = append(want, fmt.Sprintf("(:p%d host=%s sni=%s)", t.Dest.P, c.hp(t.Host.H, t.Host.P), sni))
			}
			opts := []fclient.ClientOption{fclient.WithWellKnownSRVLookups(true), fclient.WithSkipVerify(true), fclient.WithTimeout(reqTimeout)}
			if (seed+int64(i))%2 != 0 {
				// every other scenario dials through the DNS-cache path (lists that permit everything: without lists
				// that dialer refuses everything); Host / SNI / order of the targets do not depend on the dial path
				opts = append(opts, fclient.WithDNSCache(fclient.NewDNSCache(16, time.Minute, []string{"0.0.0.0/0", "::/0"}, nil)))
				nt += "|dnscache"
			}
			cl := fclient.NewClient(opts...) // one client for all three requests
			// request 0 finds every target dead and must fail (having tried nothing but the prescribed targets, in
			// order, any number of times); requests 1 and 2 find the last target alive: a failed call is followed
			// by the same call, and then by a call that finds the resolution cached in the tripper
			for round := 0; round <= 2; round++ {
				if round == 1 {
					c.z.mu.Lock()
					for k, t := range v.Result {
						dead[t.Dest.P] = k < len(v.Result)-1
					}
					c.z.mu.Unlock()
				}
				req, err := http.NewRequest("GET", "matrix://"+origin+"/_matrix/federation/v1/version", nil)
				if err != nil {
					panic(err)
				}
				t0 := time.Now()
				resp, err := cl.DoHTTPRequest(ctx, req)
				if err != nil && time.Since(t0) >= reqTimeout {
					noteHang("C16/resolve/trip/request-hangs")
				}
				if resp != nil {
					_ = resp.Body.Close()
				}
				ev := c.z.take(&c.z.events)
				if round == 0 {
					cyc := len(ev) > 0 && len(ev)%len(want) == 0
					for k := range ev {
						cyc = cyc && ev[k] == want[k%len(want)]
					}
					if err == nil || !cyc {
						return hx.Result{OK: false, Key: base + "/trip/request-0",
							What: fmt.Sprintf("Client request to %s with every target dead: the listeners saw %s (err=%v), the model prescribes a failure after walks over %s", describe(),
								c.abstract(fmt.Sprint(ev)), err, c.abstract(fmt.Sprint(want))),
							Want: want, Got: ev}
					}
					continue
				}
				if err != nil || fmt.Sprint(ev) != fmt.Sprint(want) {
					return hx.Result{OK: false, Key: fmt.Sprintf("%s/trip/request-%d", base, round),
						What: fmt.Sprintf("Client request %d to %s: the listeners saw %s (err=%v), the model prescribes %s", round, describe(),
							c.abstract(fmt.Sprint(ev)), err, c.abstract(fmt.Sprint(want))),
						Want: want, Got: ev}
				}
			}
			for _, s := range srvs {
				s.close()
			}
			srvs = nil
			nt += "|trip"
		}
		return hx.Result{OK: true, NT: nt}
	}
}

func sniOfSome(sni string, vs []variantT, c *conc) bool {
	for _, v := range vs {
		if !v.Refused && len(v.Result) > 0 && c.host(v.Result[0].SNI) == sni {
			return true
		}
	}
	return false
}

func sameDestsAsSome(got []triple, vs []variantT, c *conc) bool {
	for _, v := range vs {
		if !v.Refused && sameDests(got, c.render(v.Result)) {
			return true
		}
	}
	return false
}

func sameDests(a, b []triple) bool {
	if len(a) != len(b) {
		return false
	}
	for i := range a {
		if a[i].Dest != b[i].Dest {
			return false
		}
	}
	return true
}

// ---- cache lifetime ---------------------------------------------------------------

func cacheReplay(i int, seed int64, r resolveRec) hx.Result {
	c := newConc(i, seed)
	defer c.done()
	k := r.Cache
	h := http.Header{}
	n := strconv.FormatInt(k.N, 10)
	switch k.CC {
	case "absent":
	case "plain":
		h.Set("Cache-Control", "max-age="+n)
	case "upper":
		h.Set("Cache-Control", "MAX-AGE="+n)
	case "among":
		h.Set("Cache-Control", "public, max-age="+n+", must-revalidate")
	case "bad":
		h.Set("Cache-Control", "max-age=abc")
	case "other":
		h.Set("Cache-Control", "no-cache, s-maxage="+n)
	case "negative":
		h.Set("Cache-Control", "max-age=-"+n)
	default:
		panic("unknown cc " + k.CC)
	}
	t0 := time.Now().Unix()
	switch k.Ex {
	case "absent":
	case "valid":
		h.Set("Expires", time.Unix(t0+k.Off, 0).UTC().Format(http.TimeFormat))
	case "past":
		h.Set("Expires", time.Unix(t0-k.Off, 0).UTC().Format(http.TimeFormat))
	case "garbage":
		h.Set("Expires", []string{"soon", "0", "-1", "Thursday"}[int((seed+int64(i))%4+4)%4])
	default:
		panic("unknown expires " + k.Ex)
	}
	origin := c.host("S")
	c.z.wk[strings.ToLower(origin)] = &wkStub{status: 200, cl: true, header: h,
		body: []byte(`{"m.server":"` + c.host("D") + `:4431"}`)}
	ctx, cancel := context.WithTimeout(context.Background(), 2*reqTimeout+5*time.Second)
	defer cancel()
	res, err := fclient.LookupWellKnown(ctx, spec.ServerName(origin))
	t1 := time.Now().Unix()
	key := fmt.Sprintf("C16/wellknown-cache/cc=%s/expires=%s", k.CC, k.Ex)
	if err != nil {
		return hx.Result{OK: false, Key: key + "/error", What: "LookupWellKnown failed: " + err.Error()}
	}
	ok, kinds := false, ""
	var ranges [][2]int64
	for _, e := range r.Expect { // more than one where the property leaves the reading open
		var lo, hi int64
		switch e.Kind {
		case "relative":
			lo, hi = t0+e.Secs-2, t1+e.Secs+2
		case "absolute":
			lo, hi = t0+e.Secs-2, t0+e.Secs+2
		case "none":
			lo, hi = 0, 0
		default:
			panic("unknown expectation " + e.Kind)
		}
		ranges = append(ranges, [2]int64{lo, hi})
		kinds += fmt.Sprintf(" %s %d s", e.Kind, e.Secs)
		if res.CacheExpiresAt >= lo && res.CacheExpiresAt <= hi {
			ok = true
		}
	}
	if !ok {
		return hx.Result{OK: false, Key: key,
			What: fmt.Sprintf("LookupWellKnown with headers %v at unix %d: CacheExpiresAt=%d (now%+d s), the model says%s",
				h, t0, res.CacheExpiresAt, res.CacheExpiresAt-t0, kinds),
			Want: ranges, Got: res.CacheExpiresAt}
	}
	return hx.Result{OK: true, NT: fmt.Sprintf("cache|%s|%d|%s|%s", k.CC, k.N, k.Ex, r.Expect[0].Kind)}
}
