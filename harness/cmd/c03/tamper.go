package main

// spec -> code for C04: a really built and signed event is tampered with on the wire as the behaviour of
// EventIdentity.tla (family tamper) says, parsed with NewEventFromUntrustedJSON, and everything the property
// states is compared with what the specification derives: Redacted(), the key sets of JSON() and Content(),
// the values that survive, every accessor, EventID() and the validity of the signatures.

import (
	"bytes"
	"context"
	"encoding/json"
	"fmt"
	"reflect"
	"sort"
	"strings"

	gmsl "github.com/matrix-org/gomatrixserverlib"
	"verifharness/hx"
)

func replayC04(i int, raw json.RawMessage, seed int64) hx.Result {
	var r rec
	if err := json.Unmarshal(raw, &r); err != nil {
		panic(fmt.Sprintf("harness: bad record: %v", err))
	}
	if r.Fam == "probe" {
		return replayProbe(&r)
	}
	if r.Fam == "dup" {
		return replayDup(i, &r, seed)
	}
	nt := fmt.Sprintf("tamper|fmt%d|algo%d|%s|%s|%s|red=%v|id=%v|sig=%d", r.IDFmt, algoOf(r.Ver), r.Proto.Type,
		strings.Join(sorted(r.T), ","), r.HM, r.Red, r.IDSame, len(r.Valid)) + fmt.Sprintf("|pre=%s|noop=%v", r.Pre, r.Noop)
	if speltOtherwise(&r) {
		nt += "|name-spelling=" + r.Sp
	}
	if bulky(&r) {
		nt += fmt.Sprintf("|event=%s|bulk=%s|refused=%v", map[bool]string{true: "40KiB", false: "small"}[r.Proto.Big == "mid"], r.Bulk, r.Refused)
	}
	if r.VK != "" {
		nt += "|name-variant=" + variantToken(&r) + "," + r.VPos
		// the specification names the added key by a token: the letters are the harness's
		for n, k := range r.TopK {
			if k == variantToken(&r) {
				r.TopK[n] = variantName(&r, i)
			}
		}
	}
	if res := runC04(&r, i, seed); res != nil {
		if r.VK != "" {
			res.Key += "/name-variant=" + variantToken(&r) + "/placed=" + r.VPos
			res.What += fmt.Sprintf(" [the wire event carries the extra member %s %s its %q member: a name that differs from %q only in letter case%s, i.e. another, unknown top-level key]",
				variantLit(variantName(&r, i), i), r.VPos, r.VK, r.VK, map[string]string{"case": "", "fold": " (a non-ASCII letter that case-folds to the ASCII one)"}[r.VS])
		}
		if speltOtherwise(&r) {
			// the tampering in the spelling it needs: the names of the keys stripped on receipt written with a \u escape
			// (the same names) or in other letter case (other names)
			res.Key += "/name-spelling=" + r.Sp
			res.What += fmt.Sprintf(" [the names of the added keys %v are written %s on the wire]", speltNames(&r),
				map[string]string{"esc": "with a \\uXXXX escape for one character, which denotes the same name", "case": "in other letter case, which makes them other names (unknown top-level keys)"}[r.Sp])
		}
		if bulky(&r) {
			// the tampering in the size it needs: the wire form is over the size limit, what was added is not
			res.Key += "/wire-over-64KiB:" + bulkClass(&r)
			res.What += fmt.Sprintf(" [sizes: the event as built has %s; %s: the wire form is longer than 65536 bytes; "+
				"the size limit is on the event that surfaces - without the keys stripped on receipt and the white space, redacted if the hash fails]",
				map[bool]string{true: "about 40 KiB (a content value of 40 KiB)", false: "a few hundred bytes"}[r.Proto.Big == "mid"], bulkStory(&r))
		}
		res.NT = nt
		return *res
	}
	return hx.Result{OK: true, NT: nt}
}

// bulky: the record belongs to the size dimension (TamperBulk of EventIdentity.tla).
func bulky(r *rec) bool { return r.Bulk != "" && r.Bulk != "none" }

// bulkClass names where the bulk sits, for canonical keys.
func bulkClass(r *rec) string {
	if r.Bulk == "pad" {
		return "white-space"
	}
	stripped, other := false, false
	for _, x := range r.T {
		switch x {
		case "unsigned", "age_ts", "outdest":
			stripped = true
		case "event_id":
			if isFormatV1(r.Ver) {
				other = true
			} else {
				stripped = true
			}
		default:
			other = true
		}
	}
	switch {
	case stripped && other:
		return "bulk-in-stripped-and-hashed-material"
	case stripped:
		return "bulk-in-keys-stripped-on-receipt"
	}
	return "bulk-in-hashed-material"
}

func bulkStory(r *rec) string {
	if r.Bulk == "pad" {
		return fmt.Sprintf("%d KiB of white space between the members", padSize(r)/1024)
	}
	return fmt.Sprintf("each tampered value (%s) carries %d KiB", strings.Join(sorted(r.T), ", "), sizeOfToken(r.Bulk)/1024)
}

func padSize(r *rec) int {
	if r.Proto.Big == "mid" {
		return sizeOfToken("bulk30")
	}
	return sizeOfToken("bulk70")
}

// bulkString is a JSON string of the token's weight.
func bulkString(tok, prefix string) json.RawMessage {
	return q(prefix + strings.Repeat("bulk-0123456789-", sizeOfToken(tok)/16))
}

// persistable: the error that comes WITH an event callers may keep.
func persistable(err error) bool {
	ve, ok := err.(gmsl.EventValidationError)
	return ok && ve.Persistable
}

func strippedOnReceipt(ver string) []string {
	if isFormatV1(ver) {
		return []string{"outlier", "destinations", "age_ts", "unsigned"}
	}
	return []string{"outlier", "destinations", "age_ts", "unsigned", "event_id"}
}

// speltOtherwise: the record writes the names of the keys stripped on receipt in another spelling than the plain one.
func speltOtherwise(r *rec) bool { return r.Sp == "esc" || r.Sp == "case" }

// speltNames lists the keys stripped on receipt that the tampering adds (the ones the spelling applies to).
func speltNames(r *rec) []string {
	var out []string
	stripped := setOf(strippedOnReceipt(r.Ver))
	for _, x := range sorted(r.T) {
		for _, k := range map[string][]string{"unsigned": {"unsigned"}, "age_ts": {"age_ts"}, "outdest": {"outlier", "destinations"}, "event_id": {"event_id"}}[x] {
			if stripped[k] {
				out = append(out, k)
			}
		}
	}
	return out
}

// tamperClass names the tampering in canonical keys: the elements and the hash mode.
func tamperClass(r *rec) string {
	t := sorted(r.T)
	if len(t) == 0 {
		t = []string{"untouched"}
	}
	if len(t) > 3 {
		t = append(t[:3:3], fmt.Sprintf("+%d", len(r.T)-3))
	}
	return strings.Join(t, "+") + "/hash=" + r.HM
}

// tamper applies T and the hash mode to the event as it travels.
func tamper(r *rec, orig []byte, idx int, seed int64) []byte {
	var ev map[string]json.RawMessage
	if err := json.Unmarshal(orig, &ev); err != nil {
		panic(err)
	}
	var con map[string]json.RawMessage
	if err := json.Unmarshal(ev["content"], &con); err != nil {
		panic(err)
	}
	has := setOf(r.T)
	// NameOnWire of EventIdentity.tla: a key that is stripped on receipt is added under its name (plain; "esc": the
	// name written with an escape, see the writer below) or under the name in other letter case
	esc := map[string]bool{}
	name := func(k string) string {
		if !setOf(strippedOnReceipt(r.Ver))[k] {
			return k
		}
		switch r.Sp {
		case "case":
			return otherCase[k]
		case "esc":
			esc[k] = true
		}
		return k
	}
	heavy := bulky(r) && r.Bulk != "pad"
	if has["con_out_chg"] {
		if _, ok := con[r.KOut]; !ok {
			panic("harness: content key to change is absent: " + r.KOut)
		}
		con[r.KOut] = valueOf(r.Ver, r.Proto.Type, r.KOut, "tampered", seed)
		if heavy {
			con[r.KOut] = bulkString(r.Bulk, "")
		}
	}
	if has["con_out_add"] {
		con["zz_added"] = q("added by a forger")
		if heavy {
			con["zz_added"] = bulkString(r.Bulk, "")
		}
	}
	if has["con_in"] {
		if _, ok := con[r.KIn]; !ok {
			panic("harness: content key to change is absent: " + r.KIn)
		}
		con[r.KIn] = valueOf(r.Ver, r.Proto.Type, r.KIn, "tampered", seed)
		if heavy {
			con[r.KIn] = bulkString(r.Bulk, "")
		}
	}
	if has["tpi_chg"] {
		var tpi map[string]json.RawMessage
		if err := json.Unmarshal(con["third_party_invite"], &tpi); err != nil {
			panic("harness: third_party_invite to change is not an object")
		}
		tpi["signed"] = signedValue("tampered")
		con["third_party_invite"] = marshalRawMap(tpi)
	}
	ev["content"] = marshalRawMap(con)
	if has["top_add"] && r.VK != "" {
		// the added key is a variant of a protected name (another name: an unknown top-level key)
		ev[variantName(r, idx)] = variantValue(r)
	} else if has["top_add"] {
		ev["zz_top"] = []json.RawMessage{json.RawMessage(`"extra"`), json.RawMessage(`{"a":[1,2]}`), json.RawMessage(`17`)}[idx%3]
		if heavy {
			ev["zz_top"] = bulkString(r.Bulk, "")
		}
	}
	if has["origin_chg"] {
		ev["origin"] = q("evil.example.org")
	}
	if has["depth_chg"] {
		ev["depth"] = json.RawMessage(`3`)
	}
	if has["unsigned"] {
		ev[name("unsigned")] = json.RawMessage(`{"age":1,"redacted_because":{"type":"m.room.redaction"}}`)
		if heavy { // e.g. the stripped state of an invite, the previous content
			ev[name("unsigned")] = json.RawMessage(`{"age":1,"invite_room_state":[{"type":"m.room.name","content":{"name":` + string(bulkString(r.Bulk, "")) + `}}]}`)
		}
	}
	if has["age_ts"] {
		ev[name("age_ts")] = json.RawMessage(`1700000000999`)
		if heavy { // stripped whatever it holds
			ev[name("age_ts")] = json.RawMessage(`[1700000000999,` + string(bulkString(r.Bulk, "")) + `]`)
		}
	}
	if has["outdest"] {
		ev[name("outlier")] = json.RawMessage(`true`)
		ev[name("destinations")] = json.RawMessage(`["evil.example.org"]`)
		if heavy {
			ds := make([]string, sizeOfToken(r.Bulk)/32)
			for i := range ds {
				ds[i] = fmt.Sprintf(`"hs%07d.destination.example.org"`, i) // 31 bytes and a comma
			}
			ev[name("destinations")] = json.RawMessage(`[` + strings.Join(ds, ",") + `]`)
		}
	}
	if has["event_id"] {
		if isFormatV1(r.Ver) {
			ev["event_id"] = q("$forged:evil.example.org")
		} else {
			ev[name("event_id")] = q(idOf("forged", r.Ver))
			if heavy {
				ev[name("event_id")] = bulkString(r.Bulk, "$")
			}
		}
	}
	switch r.HM {
	case "keep":
	case "garbage":
		ev["hashes"] = []json.RawMessage{
			json.RawMessage(`{"sha256":"` + strings.Repeat("A", 43) + `"}`), // another well-formed hash
			json.RawMessage(`{"sha256":""}`),
			json.RawMessage(`{"sha256":"not base64 !!"}`),
			json.RawMessage(`{"sha512":"` + strings.Repeat("A", 43) + `"}`), // no sha256 entry
		}[idx%4]
	case "extra":
		var h map[string]json.RawMessage
		if err := json.Unmarshal(ev["hashes"], &h); err != nil {
			panic(err)
		}
		h["md5"] = json.RawMessage(`"bm90IGEgaGFzaA"`)
		ev["hashes"] = marshalRawMap(h)
	case "remove":
		delete(ev, "hashes")
	case "rehash":
		recv := map[string]json.RawMessage{}
		for k, v := range ev {
			recv[k] = v
		}
		for _, k := range strippedOnReceipt(r.Ver) {
			delete(recv, k)
		}
		ev["hashes"] = contentHash(recv)
	default:
		panic("harness: unknown hash mode " + r.HM)
	}
	if r.VK != "" {
		return writeWithVariant(r, ev, variantName(r, idx), idx)
	}
	if len(esc) > 0 {
		return writeObj(membersOf(ev, esc, idx%2 == 1, idx/2), idx%2 == 1)
	}
	if r.Bulk == "pad" {
		// the same event in more bytes: white space between the members
		out := respell(ev)
		pad := bytes.Repeat([]byte(" \n\t \r   "), padSize(r)/8)
		return append(append(append([]byte(nil), out[:2]...), pad...), out[2:]...)
	}
	if idx%2 == 1 {
		return respell(ev)
	}
	return marshalRawMap(ev)
}

// respell writes the top-level object with its keys in descending order and white space around the punctuation:
// the same JSON value in a spelling a remote server is free to use (hashes and signatures are over the canonical form).
func respell(m map[string]json.RawMessage) []byte {
	keys := make([]string, 0, len(m))
	for k := range m {
		keys = append(keys, k)
	}
	sort.Sort(sort.Reverse(sort.StringSlice(keys)))
	var b bytes.Buffer
	b.WriteString("{ ")
	for i, k := range keys {
		if i > 0 {
			b.WriteString(" ,\n ")
		}
		b.Write(q(k))
		b.WriteString(" : ")
		b.Write(m[k])
	}
	b.WriteString(" }")
	return b.Bytes()
}

func runC04(r *rec, idx int, seed int64) *hx.Result {
	impl, err := gmsl.GetRoomVersion(gmsl.RoomVersion(r.Ver))
	if err != nil {
		return fail("C04/version/unregistered", "room version "+r.Ver+" is not registered", nil, nil)
	}
	b := protoOf(r.Ver, &r.Proto, seed)
	persist := r.Proto.Lim != "" && r.Proto.Lim != "none" // a field over 255 bytes within 255 code points
	p, err := b.build(r.Ver)
	if err != nil && !(persist && persistable(err) && p != nil) {
		return fail("C04/build/error", "EventBuilder.Build fails: "+err.Error(), nil, err.Error())
	}
	if persist && err == nil {
		return fail("C04/build/error", "EventBuilder.Build raises no error for a "+r.Proto.Lim+" field", nil, nil)
	}
	if r.Pre != "none" {
		if p, err = applyOp(r.Ver, impl, p, r.Pre, b.sp); err != nil {
			return fail("C04/build/error", opName(r.Pre)+" fails: "+err.Error(), nil, err.Error())
		}
	}
	orig := append([]byte(nil), p.JSON()...)
	// the event as any holder of its JSON has it (Sign / SetUnsigned on an event of a domainless room version
	// return a PDU that lost the room-ID derivation: that is C03's finding, not re-reported here)
	if p, err = impl.NewEventFromTrustedJSON(orig, false); err != nil {
		return fail("C04/build/error", "the built event does not parse as trusted JSON: "+err.Error(), nil, err.Error())
	}
	var origID string
	if pan := guard(func() { origID = p.EventID() }); pan != "" {
		return fail("C04/panic/EventID", "EventID() of the built event panics: "+pan, nil, pan)
	}
	var signers []signer
	for _, tok := range r.Signers {
		signers = append(signers, signerByToken(r.Ver, tok, b.sp))
	}
	verifier := scriptedVerifier{signers}
	var origVerdict error
	if pan := guard(func() { origVerdict = gmsl.VerifyEventSignatures(context.Background(), p, verifier, identityQuerier) }); pan != "" {
		return fail("C04/panic/VerifyEventSignatures", "VerifyEventSignatures panics on the built event: "+pan, nil, pan)
	}

	wire := tamper(r, orig, idx, seed)
	class := tamperClass(r)
	qe, err := impl.NewEventFromUntrustedJSON(append([]byte(nil), wire...))
	if persist {
		// the event comes with a persistable error: the caller may keep it (EventJSONs.UntrustedEvents does), so every
		// clause applies to it
		if !persistable(err) || qe == nil {
			return fail("C04/persistable/"+class, fmt.Sprintf("NewEventFromUntrustedJSON of an event with a %s field (room version %s): want the event next to a persistable error, got event=%v error=%v", r.Proto.Lim, r.Ver, qe != nil, err), nil, fmt.Sprint(err))
		}
	} else if r.Refused {
		// what surfaces - the event without the keys stripped on receipt, redacted if its hash fails - is over the
		// size limit: no event
		ve, isVE := err.(gmsl.EventValidationError)
		if err == nil || !isVE || ve.Code != gmsl.EventValidationTooLarge || ve.Persistable {
			return fail("C04/size/not-refused/"+class, fmt.Sprintf("NewEventFromUntrustedJSON (room version %s): the event that surfaces is over 65536 bytes, want the size error, got: %v", r.Ver, err), "EventValidationError{TooLarge}", fmt.Sprint(err))
		}
		return nil
	} else if err != nil && bulky(r) {
		return fail("C04/size/refused/"+class, fmt.Sprintf("NewEventFromUntrustedJSON refuses the event (room version %s): %v", r.Ver, err), nil, fmt.Sprintf("%d bytes on the wire", len(wire)))
	} else if err != nil {
		return fail("C04/parse-error/"+class, fmt.Sprintf("NewEventFromUntrustedJSON refuses the event (room version %s): %v", r.Ver, err), nil, string(wire))
	}
	// ---- redacted iff the content hash does not match ---------------------------------------------------------
	if qe.Redacted() != r.Red {
		return fail(fmt.Sprintf("C04/redacted-flag/%s:model=%v", class, r.Red),
			fmt.Sprintf("Redacted() of the parsed event (room version %s, tampering %v, hash %s)", r.Ver, sorted(r.T), r.HM), r.Red, qe.Redacted())
	}
	// the batch entry point keeps exactly what the single one hands out
	kept := gmsl.EventJSONs{append([]byte(nil), wire...)}.UntrustedEvents(gmsl.RoomVersion(r.Ver))
	if len(kept) != 1 {
		return fail("C04/UntrustedEvents/count/"+class, fmt.Sprintf("EventJSONs.UntrustedEvents keeps %d events of 1 (room version %s)", len(kept), r.Ver), 1, len(kept))
	}
	if kept[0].Redacted() != r.Red || !sameJSONBytes(kept[0].JSON(), qe.JSON()) {
		return fail("C04/UntrustedEvents/differs/"+class, "EventJSONs.UntrustedEvents keeps another event than NewEventFromUntrustedJSON hands out", string(qe.JSON()), string(kept[0].JSON()))
	}
	got, err := decodeObj(qe.JSON())
	if err != nil {
		return fail("C04/json/invalid", "JSON() of the parsed event is not a JSON object: "+err.Error(), nil, string(qe.JSON()))
	}
	sent, err := decodeObj(wire)
	if err != nil {
		panic(err)
	}
	// ---- key sets ---------------------------------------------------------------------------------------------
	state := "intact"
	if r.Red {
		state = "redacted"
	}
	if k, keeps, diff := firstDiff(setOf(r.TopK), setOf(keysOf(got))); diff {
		return fail(fmt.Sprintf("C04/%s/top/%s:model-has=%v", state, k, keeps),
			fmt.Sprintf("top-level keys of JSON() (room version %s, %s): the specification gives %v", r.Ver, state, sorted(r.TopK)), sorted(r.TopK), keysOf(got))
	}
	gotCon, ok := got["content"].(map[string]interface{})
	if !ok {
		return fail("C04/json/content-not-object", "content of JSON() is not an object", nil, string(qe.JSON()))
	}
	if k, keeps, diff := firstDiff(setOf(r.ConK), setOf(keysOf(gotCon))); diff {
		return fail(fmt.Sprintf("C04/%s/content/%s/%s:model-has=%v", state, r.Proto.Type, k, keeps),
			fmt.Sprintf("content keys of JSON() (room version %s, %s, %s): the specification gives %v", r.Ver, r.Proto.Type, state, sorted(r.ConK)), sorted(r.ConK), keysOf(gotCon))
	}
	if tpi, ok := gotCon["third_party_invite"].(map[string]interface{}); ok && r.Proto.TpiObj {
		if k, keeps, diff := firstDiff(setOf(r.TpiK), setOf(keysOf(tpi))); diff {
			return fail(fmt.Sprintf("C04/%s/content/%s/third_party_invite.%s:model-has=%v", state, r.Proto.Type, k, keeps),
				"keys of content.third_party_invite", sorted(r.TpiK), keysOf(tpi))
		}
	}
	// ---- values: what is observable is what was sent (nothing restored, nothing invented) --------------------------
	sentCon, _ := sent["content"].(map[string]interface{})
	for _, k := range r.TopK {
		if k == "content" {
			continue
		}
		if !sameJSON(sent[k], got[k]) {
			return fail("C04/"+state+"/value/top/"+k, "value of top-level key "+k+" differs from what was sent", sent[k], got[k])
		}
	}
	for _, k := range r.ConK {
		if k == "third_party_invite" && r.Red {
			continue // partially kept: compared key by key below
		}
		if !sameJSON(sentCon[k], gotCon[k]) {
			return fail("C04/"+state+"/value/content/"+k, "value of content key "+k+" differs from what was sent", sentCon[k], gotCon[k])
		}
	}
	if st, ok := sentCon["third_party_invite"].(map[string]interface{}); ok && r.Red {
		if gt, ok := gotCon["third_party_invite"].(map[string]interface{}); ok {
			for _, k := range r.TpiK {
				if !sameJSON(st[k], gt[k]) {
					return fail("C04/"+state+"/value/content/third_party_invite."+k, "value of nested key differs from what was sent", st[k], gt[k])
				}
			}
		}
	}
	if !r.Red {
		want := map[string]interface{}{}
		for k, v := range sent {
			want[k] = v
		}
		for _, k := range strippedOnReceipt(r.Ver) {
			delete(want, k)
		}
		if !sameJSON(want, got) {
			return fail("C04/intact/json", "the hash matches but JSON() is not the event that was sent (minus the keys stripped on receipt)", want, got)
		}
	}
	// ---- accessors agree with JSON() ----------------------------------------------------------------------------
	f, acc, pan := observe(qe)
	if pan != "" {
		return fail("C04/panic/"+acc, fmt.Sprintf("%s() panics on the parsed event (room version %s): %s", acc, r.Ver, pan), nil, pan)
	}
	if res := accessorsAgree(r, &b, &f, qe, got); res != nil {
		return res
	}
	// ---- no memory between parses: the genuine event, then the tampered copy again, then the genuine event again ---
	// (what one event's parse learnt - e.g. that its hashes value is right - must not be believed of another event
	// that merely carries the same value; the tampered copy was parsed first above, so both orders occur)
	if res := historyFree(r, impl, orig, wire, qe, class); res != nil {
		return res
	}
	// ---- identity and signatures ---------------------------------------------------------------------------------
	if (f.ID == origID) != r.IDSame {
		return fail(fmt.Sprintf("C04/id/%s:model-same=%v", class, r.IDSame),
			fmt.Sprintf("EventID() of the parsed event vs the original's (room version %s, tampering %v, hash %s)", r.Ver, sorted(r.T), r.HM),
			map[string]interface{}{"same": r.IDSame, "original": origID}, f.ID)
	}
	redJSON, err := impl.RedactEventJSON(qe.JSON())
	if err != nil {
		return fail("C04/redact/error", "RedactEventJSON fails on the parsed event: "+err.Error(), nil, nil)
	}
	valid := setOf(r.Valid)
	for n, s := range signers {
		err := gmsl.VerifyJSON(s.name, s.key, s.pub, redJSON)
		if (err == nil) != valid[r.Signers[n]] {
			return fail(fmt.Sprintf("C04/signature/%s:model-valid=%v", class, valid[r.Signers[n]]),
				fmt.Sprintf("signature of %s on the parsed event (room version %s, tampering %v, hash %s): %v", r.Signers[n], r.Ver, sorted(r.T), r.HM, err),
				valid[r.Signers[n]], err == nil)
		}
	}
	{
		// the validity of the signatures is the original's: an event that did not verify before (a required
		// server never signed) does not verify in its redacted form either
		var verdict error
		if pan := guard(func() { verdict = gmsl.VerifyEventSignatures(context.Background(), qe, verifier, identityQuerier) }); pan != "" {
			return fail("C04/panic/VerifyEventSignatures", "VerifyEventSignatures panics on the parsed event: "+pan, nil, pan)
		}
		wantOK := origVerdict == nil && len(r.Valid) == len(r.Signers)
		const via = "join_authorised_via_users_server"
		if _, carried := r.Proto.Con[via]; carried && r.Red && !setOf(r.ConK)[via] {
			// Room version 8 has restricted joins but its redaction algorithm does not keep the key naming the
			// authorising user (room version 9 was made to repair exactly that): the redacted form of such a join
			// no longer says that a second server must have signed. A property of the protocol, not of the library:
			// nothing is demanded of the verdict here (room versions <= 7 ignore the key in both forms).
			return nil
		}
		if (verdict == nil) != wantOK {
			return fail(fmt.Sprintf("C04/VerifyEventSignatures/%s/original-verifies=%v:model-valid=%v", class, origVerdict == nil, wantOK),
				fmt.Sprintf("VerifyEventSignatures on the parsed event (room version %s, tampering %v, hash %s): %v", r.Ver, sorted(r.T), r.HM, verdict),
				wantOK, verdict == nil)
		}
	}
	return nil
}

// historyFree parses the untampered event, the tampered one a second time and the untampered one again, all in this
// process: the tampered copy must come back exactly as at first, the genuine one both times alike and (unless it was
// redacted before it was sent) unredacted.
func historyFree(r *rec, impl gmsl.IRoomVersion, orig, wire []byte, first gmsl.PDU, class string) *hx.Result {
	parse := func(b []byte) (gmsl.PDU, error) {
		e, err := impl.NewEventFromUntrustedJSON(append([]byte(nil), b...))
		if e != nil && persistable(err) {
			return e, nil // kept by the caller
		}
		return e, err
	}
	o1, err := parse(orig)
	if err != nil {
		return fail("C04/history/genuine/parse-error", "NewEventFromUntrustedJSON refuses the untampered event: "+err.Error(), nil, string(orig))
	}
	if r.Pre != "RD" && o1.Redacted() {
		return fail("C04/history/genuine/redacted", fmt.Sprintf("the untampered event comes back redacted when parsed after its tampered copy (room version %s, tampering %v, hash %s)", r.Ver, sorted(r.T), r.HM), false, true)
	}
	t2, err := parse(wire)
	if err != nil {
		return fail("C04/history/tampered/parse-error", "the tampered event is refused when parsed a second time: "+err.Error(), nil, string(wire))
	}
	if t2.Redacted() != r.Red {
		return fail(fmt.Sprintf("C04/history/tampered-after-genuine/redacted-flag/%s:model=%v", class, r.Red),
			fmt.Sprintf("Redacted() of the tampered event parsed AFTER the genuine event was parsed in the same process (room version %s, tampering %v, hash %s); parsed first it was %v",
				r.Ver, sorted(r.T), r.HM, first.Redacted()), r.Red, t2.Redacted())
	}
	if !sameJSONBytes(first.JSON(), t2.JSON()) {
		return fail("C04/history/tampered-after-genuine/json/"+class, "the tampered event parses to another event after the genuine event was parsed in the same process", string(first.JSON()), string(t2.JSON()))
	}
	o2, err := parse(orig)
	if err != nil {
		return fail("C04/history/genuine/parse-error", "the untampered event is refused when parsed again: "+err.Error(), nil, string(orig))
	}
	if o2.Redacted() != o1.Redacted() || !sameJSONBytes(o1.JSON(), o2.JSON()) {
		return fail("C04/history/genuine/changed", "the untampered event parses differently the second time", string(o1.JSON()), string(o2.JSON()))
	}
	return nil
}

// accessorsAgree: every accessor reports what JSON() holds and nothing else.
func accessorsAgree(r *rec, b *built, f *fields, p gmsl.PDU, got map[string]interface{}) *hx.Result {
	bad := func(name string, want, have interface{}) *hx.Result {
		return fail("C04/accessor/"+name, fmt.Sprintf("%s() disagrees with JSON() of the parsed event (room version %s)", name, r.Ver), want, have)
	}
	str := func(k string) string { s, _ := got[k].(string); return s }
	// the event ID is what JSON() says it is: the event_id key (room versions 1-2), the hash of the redacted event
	// (room versions 3+; the harness's own computation) - no other key of the wire event has a say
	if isFormatV1(r.Ver) {
		if f.ID != str("event_id") {
			return bad("EventID", str("event_id"), f.ID)
		}
	} else if impl, err := gmsl.GetRoomVersion(gmsl.RoomVersion(r.Ver)); err == nil {
		if want, err := referenceID(impl, r.Ver, p.JSON()); err == nil && f.ID != want {
			return bad("EventID", want, f.ID)
		}
	}
	if f.Type != str("type") {
		return bad("Type", str("type"), f.Type)
	}
	if f.Sender != str("sender") {
		return bad("SenderID", str("sender"), f.Sender)
	}
	if f.Redacts != str("redacts") {
		return bad("Redacts", str("redacts"), f.Redacts)
	}
	if sk, ok := got["state_key"]; ok != (f.SK != nil) || (ok && sk != *f.SK) {
		return bad("StateKey", got["state_key"], skString(f.SK))
	}
	num := func(k string) string { n, _ := got[k].(json.Number); return string(n) }
	if fmt.Sprint(f.Depth) != num("depth") {
		return bad("Depth", num("depth"), f.Depth)
	}
	if fmt.Sprint(f.TS) != num("origin_server_ts") {
		return bad("OriginServerTS", num("origin_server_ts"), f.TS)
	}
	if b.room != nil {
		if f.Room != str("room_id") {
			return bad("RoomID", str("room_id"), f.Room)
		}
	} else if want := "!" + f.ID[1:]; f.Room != want {
		return bad("RoomID", want, f.Room)
	}
	refs := func(k string) []string {
		out := []string{}
		xs, _ := got[k].([]interface{})
		for _, x := range xs {
			switch v := x.(type) {
			case string:
				out = append(out, v)
			case []interface{}:
				if len(v) > 0 {
					s, _ := v[0].(string)
					out = append(out, s)
				}
			}
		}
		return out
	}
	if want := refs("prev_events"); !reflect.DeepEqual(want, f.Prev) {
		return bad("PrevEventIDs", want, f.Prev)
	}
	wantAuth := refs("auth_events")
	if isDomainless(r.Ver) && b.room != nil {
		wantAuth = append([]string{"$" + b.room.id[1:]}, wantAuth...)
	} else if isDomainless(r.Ver) {
		wantAuth = []string{} // the create event reports no auth events
	}
	if !reflect.DeepEqual(wantAuth, f.Auth) {
		return bad("AuthEventIDs", wantAuth, f.Auth)
	}
	var content interface{}
	if c, err := decodeObj(f.Content); err != nil || !sameJSON(c, got["content"]) {
		_ = content
		return bad("Content", got["content"], string(f.Content))
	}
	var unsigned []byte
	if pan := guard(func() { unsigned = p.Unsigned() }); pan != "" {
		return fail("C04/panic/Unsigned", "Unsigned() panics: "+pan, nil, pan)
	}
	if u, ok := got["unsigned"]; ok {
		if ud, err := decodeObj(unsigned); err != nil || !sameJSON(ud, u) {
			return bad("Unsigned", u, string(unsigned))
		}
	} else if len(unsigned) != 0 && string(unsigned) != "null" {
		return bad("Unsigned", nil, string(unsigned))
	}
	if string(p.Version()) != r.Ver {
		return bad("Version", r.Ver, p.Version())
	}
	// derived content accessors read Content(): they must not know more than it does
	if r.Proto.Type == "m.room.member" {
		m, err := p.Membership()
		cm, _ := got["content"].(map[string]interface{})
		want, _ := cm["membership"].(string)
		if err == nil && m != want {
			return bad("Membership", want, m)
		}
	}
	return nil
}
