package main

// spec -> code for C03: every behaviour of EventIdentity.tla (families ops and sib) is performed on real events:
// EventBuilder.Build with real ed25519 keys, NewEventFromUntrustedJSON / NewEventFromTrustedJSON /
// ToHeaderedJSON + NewEventFromHeaderedJSON, SetUnsigned, SetUnsignedField, Sign, Redact.

import (
	"encoding/base64"
	"encoding/json"
	"fmt"
	"reflect"
	"strings"

	gmsl "github.com/matrix-org/gomatrixserverlib"
	"github.com/matrix-org/gomatrixserverlib/spec"
	"verifharness/hx"
)

func fail(key, what string, want, got interface{}) *hx.Result {
	return &hx.Result{OK: false, Key: key, What: what, Want: want, Got: got}
}

// opName is the public call an operation of the model stands for (used in canonical keys).
func opName(op string) string {
	switch op {
	case "build":
		return "Build"
	case "RU":
		return "NewEventFromUntrustedJSON"
	case "RT":
		return "NewEventFromTrustedJSON"
	case "RH":
		return "NewEventFromHeaderedJSON"
	case "SU1", "SU2":
		return "SetUnsigned"
	case "SF", "SFs", "SFe", "SFl":
		return "SetUnsignedField"
	case "AS1", "AS2":
		return "Sign"
	case "RD":
		return "Redact"
	case "RW":
		return "NewEventFromTrustedJSONWithEventID"
	}
	return op
}

// guard runs f and converts a panic into an error text.
func guard(f func()) (panicked string) {
	defer func() {
		if p := recover(); p != nil {
			panicked = fmt.Sprint(p)
		}
	}()
	f()
	return ""
}

// fields are the observables the property names.
type fields struct {
	ID      string
	Type    string
	Sender  string
	Room    string
	SK      *string
	Content []byte
	Depth   int64
	TS      int64
	Prev    []string
	Auth    []string
	Redacts string
}

// observe reads every accessor; a panic in one of them is reported with the accessor's name.
func observe(p gmsl.PDU) (f fields, accessor, panicked string) {
	try := func(name string, fn func()) bool {
		if s := guard(fn); s != "" {
			accessor, panicked = name, s
			return false
		}
		return true
	}
	_ = try("EventID", func() { f.ID = p.EventID() }) &&
		try("Type", func() { f.Type = p.Type() }) &&
		try("SenderID", func() { f.Sender = string(p.SenderID()) }) &&
		try("RoomID", func() { r := p.RoomID(); f.Room = r.String() }) &&
		try("StateKey", func() { f.SK = p.StateKey() }) &&
		try("Content", func() { f.Content = append([]byte(nil), p.Content()...) }) &&
		try("Depth", func() { f.Depth = p.Depth() }) &&
		try("OriginServerTS", func() { f.TS = int64(p.OriginServerTS()) }) &&
		try("PrevEventIDs", func() { f.Prev = append([]string{}, p.PrevEventIDs()...) }) &&
		try("AuthEventIDs", func() { f.Auth = append([]string{}, p.AuthEventIDs()...) }) &&
		try("Redacts", func() { f.Redacts = p.Redacts() })
	return
}

func skString(s *string) string {
	if s == nil {
		return "<none>"
	}
	return fmt.Sprintf("%q", *s)
}

// compareFields reports the first field of `got` that differs from `want`. Content is compared only if withContent.
func compareFields(want, got *fields, withContent bool) (string, interface{}, interface{}) {
	switch {
	case want.ID != got.ID:
		return "event_id", want.ID, got.ID
	case want.Type != got.Type:
		return "type", want.Type, got.Type
	case want.Sender != got.Sender:
		return "sender", want.Sender, got.Sender
	case want.Room != got.Room:
		return "room_id", want.Room, got.Room
	case skString(want.SK) != skString(got.SK):
		return "state_key", skString(want.SK), skString(got.SK)
	case want.Depth != got.Depth:
		return "depth", want.Depth, got.Depth
	case want.TS != got.TS:
		return "origin_server_ts", want.TS, got.TS
	case !reflect.DeepEqual(want.Prev, got.Prev):
		return "prev_events", want.Prev, got.Prev
	case !reflect.DeepEqual(want.Auth, got.Auth):
		return "auth_events", want.Auth, got.Auth
	}
	if withContent {
		if !sameJSONBytes(want.Content, got.Content) && !sameMembers(want.Content, got.Content) {
			return "content", string(want.Content), string(got.Content)
		}
		if want.Redacts != got.Redacts {
			return "redacts", want.Redacts, got.Redacts
		}
	}
	return "", nil, nil
}

// checkAlphabet checks the shape of an event ID against the format the room version prescribes.
func checkAlphabet(idfmt int, id, origin string) string {
	if !strings.HasPrefix(id, "$") {
		return "does not start with $"
	}
	switch idfmt {
	case 1:
		if !strings.HasSuffix(id, ":"+origin) || len(id) < len(origin)+3 {
			return "is not $<localpart>:" + origin
		}
	case 2, 3:
		body := id[1:]
		if len(body) != 43 {
			return fmt.Sprintf("has %d characters after the sigil, want 43", len(body))
		}
		enc := base64.RawStdEncoding
		name := "standard"
		if idfmt == 3 {
			enc = base64.RawURLEncoding
			name = "URL-safe"
		}
		if b, err := enc.DecodeString(body); err != nil || len(b) != 32 {
			return "is not unpadded " + name + " base64 of 32 bytes"
		}
	}
	return ""
}

// checkDomainless checks the derivations of room versions with domainless room IDs on one event.
func checkDomainless(r *rec, p gmsl.PDU, f *fields, b *built, after string) *hx.Result {
	if !isDomainless(r.Ver) {
		return nil
	}
	if b.room == nil { // the create event
		if want := "!" + f.ID[1:]; f.Room != want {
			return fail("C03/domainless/after="+after+"/create-room-id",
				fmt.Sprintf("room version %s: RoomID() of the create event is not its event ID with the sigil swapped (after %s)", r.Ver, after), want, f.Room)
		}
		if len(f.Auth) != 0 {
			return fail("C03/domainless/after="+after+"/create-auth-events", "the create event reports auth events", []string{}, f.Auth)
		}
		return nil
	}
	createID := "$" + b.room.id[1:]
	if len(f.Auth) == 0 || f.Auth[0] != createID {
		return fail("C03/domainless/after="+after+"/first-auth-event",
			fmt.Sprintf("room version %s: AuthEventIDs() after %s does not report the create event %s first", r.Ver, after, createID),
			append([]string{createID}, strs(b.pe.AuthEvents)...), f.Auth)
	}
	if want := append([]string{createID}, strs(b.pe.AuthEvents)...); !reflect.DeepEqual(want, f.Auth) {
		return fail("C03/domainless/after="+after+"/auth-events", "AuthEventIDs() is not the create event followed by the listed auth events", want, f.Auth)
	}
	return nil
}

// applyOp performs one operation of the model on the real event.
func applyOp(ver string, impl gmsl.IRoomVersion, p gmsl.PDU, op string, sp spelling) (gmsl.PDU, error) {
	switch op {
	case "RU":
		return impl.NewEventFromUntrustedJSON(append([]byte(nil), p.JSON()...))
	case "RT":
		return impl.NewEventFromTrustedJSON(append([]byte(nil), p.JSON()...), p.Redacted())
	case "RH":
		h, err := p.ToHeaderedJSON()
		if err != nil {
			return nil, fmt.Errorf("ToHeaderedJSON: %w", err)
		}
		return gmsl.NewEventFromHeaderedJSON(h, p.Redacted())
	case "SU1":
		return p.SetUnsigned(map[string]interface{}{"age": 4321, "transaction_id": "txn<1>"})
	case "SU2":
		return p.SetUnsigned(map[string]interface{}{"prev_content": map[string]string{"membership": "invite"}})
	case "SF":
		return p, p.SetUnsignedField("redacted_because", map[string]string{"type": "m.room.redaction"})
	case "AS1":
		s := signerFor(ver, "hs1", "k2", sp)
		return p.Sign(s.name, s.key, s.priv), nil
	case "AS2":
		s := signerFor(ver, "hs2", "k1", sp)
		return p.Sign(s.name, s.key, s.priv), nil
	case "RD":
		p.Redact()
		return p, nil
	}
	panic("harness: unknown operation " + op)
}

// checkStep compares the event after an operation with the built event and the model's expectations.
func checkStep(r *rec, b *built, base *fields, p gmsl.PDU, op string, wantRed bool) (*fields, *hx.Result) {
	after := opName(op)
	f, acc, pan := observe(p)
	if pan != "" && isDomainless(r.Ver) && acc == "RoomID" && b.room == nil {
		return nil, fail("C03/domainless/after="+after+"/create-room-id:panic",
			fmt.Sprintf("room version %s: RoomID() of the create event panics on the event returned by %s (the room ID must be the event ID with the sigil swapped): %s", r.Ver, after, pan), "!"+f.ID[1:], pan)
	}
	if pan != "" {
		return nil, fail("C03/panic/after="+after+"/"+acc,
			fmt.Sprintf("room version %s: %s() panics on the event returned by %s: %s", r.Ver, acc, after, pan), nil, pan)
	}
	if p.Redacted() != wantRed {
		return nil, fail("C03/redacted-flag/after="+after,
			fmt.Sprintf("Redacted() after %s (room version %s)", after, r.Ver), wantRed, p.Redacted())
	}
	if string(p.Version()) != r.Ver {
		return nil, fail("C03/roundtrip/"+after+"/version", "Version() changed", r.Ver, p.Version())
	}
	if res := checkDomainless(r, p, &f, b, after); res != nil {
		return nil, res
	}
	if name, w, g := compareFields(base, &f, !wantRed); name != "" {
		if name == "event_id" {
			return nil, fail("C03/id/changed-by/"+after,
				fmt.Sprintf("EventID() after %s differs from the built event's (room version %s)", after, r.Ver), w, g)
		}
		return nil, fail("C03/roundtrip/"+after+"/"+name,
			fmt.Sprintf("%s of the event after %s differs from the built event's (room version %s)", name, after, r.Ver), w, g)
	}
	if err := gmsl.CheckFields(p); err != nil {
		return nil, fail("C03/checkfields/after="+after, "CheckFields fails on the event: "+err.Error(), nil, err.Error())
	}
	if msg := checkAlphabet(r.IDFmt, f.ID, b.signer.name); msg != "" {
		return nil, fail(fmt.Sprintf("C03/alphabet/format%d", r.IDFmt),
			fmt.Sprintf("event ID %q of room version %s %s", f.ID, r.Ver, msg), nil, f.ID)
	}
	return &f, nil
}

func replayC03(i int, raw json.RawMessage, seed int64) hx.Result {
	var r rec
	if err := json.Unmarshal(raw, &r); err != nil {
		panic(fmt.Sprintf("harness: bad record: %v", err))
	}
	if r.Fam == "probe" {
		return replayProbe(&r)
	}
	nt := ntOf(&r)
	if res := runC03(&r, seed, i); res != nil {
		res.NT = nt
		blameSpelling(&r, seed, i, res)
		if r.MayRefuse {
			// the dimension of the scenario: a member name repeated below the top level
			where := map[string]string{"rep-content": "content", "rep-nested": "content-value", "rep-deeper": "content-value-deeper",
				"rep-array": "content-array-element"}[r.Proto.Num]
			if where == "" {
				where = "unsigned"
			}
			res.Key += "/member-named-twice-in=" + where
			res.What = fmt.Sprintf("the proto-event's %s names a member twice below the top level (ambiguous but well-formed JSON that Build signed and handed out): %s",
				map[bool]string{true: "unsigned section " + string(protoOf(r.Ver, &r.Proto, seed).pe.Unsigned), false: "content " + string(contentOf(r.Ver, &r.Proto, seed))}[where == "unsigned"], res.What)
		}
		if r.Refuse && highDepth(r.Proto.Depth) {
			res.Key = "C03/build-or-refuse/depth=" + r.Proto.Depth + "/" + strings.TrimPrefix(res.Key, "C03/")
			res.What = fmt.Sprintf("the proto-event's depth (%s) is beyond 2^53 - 1, the largest integer of canonical JSON, so it is not an event of room version %s and Build must refuse it: %s",
				depthText(r.Proto.Depth), r.Ver, res.What)
		} else if r.Refuse && r.Proto.Lim != "" && r.Proto.Lim != "none" {
			res.Key = "C03/build-or-refuse/len=" + r.Proto.Lim + "/" + strings.TrimPrefix(res.Key, "C03/")
			res.What = fmt.Sprintf("the proto-event's field %s is over the 255 limit, so it is not an event of room version %s: %s", r.Proto.Lim, r.Ver, res.What)
		} else if r.Refuse {
			res.Key = "C03/build-or-refuse/num=" + r.Proto.Num + "/" + strings.TrimPrefix(res.Key, "C03/")
			res.What = fmt.Sprintf("EventBuilder.Build handed out an event for a proto-event whose content holds a number of class %q (%s), which is not an event of room version %s; the event then fails: %s",
				r.Proto.Num, numValue(r.Proto.Num), r.Ver, res.What)
		}
		return *res
	}
	return hx.Result{OK: true, NT: nt}
}

// blameSpelling: a behaviour that fails under a signer identity spelt otherwise than plainly is repeated with the
// plainer spellings; if it passes there, the spelling is what the failure needs and becomes part of the canonical key.
func blameSpelling(r *rec, seed int64, idx int, res *hx.Result) {
	sp := r.Proto.spelling()
	if sp == plainSpelling || isPseudo(r.Ver) {
		return
	}
	failsWith := func(t spelling) bool {
		c := *r
		c.Steps = append([]step(nil), r.Steps...)
		c.Proto.SName, c.Proto.SKey = t.Name, t.Key
		if r.Proto2 != nil {
			p2 := *r.Proto2
			p2.SName, p2.SKey = t.Name, t.Key
			c.Proto2 = &p2
		}
		var again *hx.Result
		if pan := guard(func() { again = runC03(&c, seed, idx) }); pan != "" {
			return true
		}
		return again != nil && again.Key == res.Key
	}
	if failsWith(plainSpelling) {
		return // fails however the identity is spelt
	}
	s1 := signerFor(r.Ver, r.Proto.Origin, r.Proto.SigKey, sp)
	s0 := signerFor(r.Ver, r.Proto.Origin, r.Proto.SigKey, plainSpelling)
	var dim, example string
	switch {
	case sp.Key != "alnum" && failsWith(spelling{"dns", sp.Key}):
		dim = "signer-key-id=" + sp.Key
		example = fmt.Sprintf("key ID %q (class %s)", s1.key, sp.Key)
	case sp.Name != "dns" && failsWith(spelling{sp.Name, "alnum"}):
		dim = "signer-name=" + sp.Name
		example = fmt.Sprintf("server name %q (class %s)", s1.name, sp.Name)
	default:
		dim = "signer-name=" + sp.Name + "+key-id=" + sp.Key
		example = fmt.Sprintf("server name %q with key ID %q", s1.name, s1.key)
	}
	res.Key += "/" + dim
	res.What = fmt.Sprintf("only when the signer identity is spelt with %s - legitimate per the Matrix specification's grammar; the same behaviour "+
		"under the plainly spelt identity (%s, %s) passes: %s", example, s0.name, s0.key, res.What)
}

func highDepth(tok string) bool { return tok == "d4" || tok == "d5" || tok == "d6" || tok == "d7" }

func depthText(tok string) string {
	return map[string]string{"d3": "2^53-1", "d4": "2^53", "d5": "2^53+1", "d6": "2^63-2", "d7": "2^63-1"}[tok]
}

func ntOf(r *rec) string {
	var ops, reds []string
	for _, s := range r.Steps {
		ops = append(ops, s.Op)
		if s.Red {
			reds = append(reds, "r")
		} else {
			reds = append(reds, "-")
		}
	}
	dl := ""
	if isDomainless(r.Ver) {
		dl = "|domainless"
	}
	if r.Proto.Lim != "" && r.Proto.Lim != "none" {
		dl += fmt.Sprintf("|len=%s|refuse=%v", r.Proto.Lim, r.Refuse)
	}
	if r.Proto.Num != "" && r.Proto.Num != "none" {
		dl += fmt.Sprintf("|num=%s|refuse=%v", r.Proto.Num, r.Refuse)
	}
	if r.Fam == "sid" {
		dl += "|signer:" + r.Proto.spelling().String()
	}
	if highDepth(r.Proto.Depth) || (r.Proto2 != nil && highDepth(r.Proto2.Depth)) {
		dl += fmt.Sprintf("|depth=%s|refuse=%v", r.Proto.Depth, r.Refuse)
	}
	if r.Proto.Unsigned == "urep" {
		dl += "|unsigned=rep"
	}
	if r.Fam == "alias" {
		dl += fmt.Sprintf("|alias:%s/%s/cold=%v/unsigned=%s", r.Who, r.O, r.Cold, r.Proto.Unsigned)
	}
	return fmt.Sprintf("%s|fmt%d|algo%d%s|%s|%s|%s|%s|%v", r.Fam, r.IDFmt, algoOf(r.Ver), dl, r.Proto.Type, strings.Join(ops, ","),
		strings.Join(reds, ""), r.F, r.Same)
}

func algoOf(ver string) int {
	switch ver {
	case "1", "2", "3", "4", "5":
		return 1
	case "6", "7", "org.matrix.msc3667":
		return 2
	case "8":
		return 3
	case "9", "10", "org.matrix.msc3787", "org.matrix.msc4014":
		return 4
	}
	return 5
}

// refusalsAgree: Build returned err (and possibly the event p it refused).
func refusalsAgree(r *rec, impl gmsl.IRoomVersion, p gmsl.PDU, buildErr error) *hx.Result {
	if p == nil {
		return nil
	}
	class := func(err error) string {
		if err == nil {
			return "accepted"
		}
		if ve, ok := err.(gmsl.EventValidationError); ok {
			return fmt.Sprintf("refused(persistable=%v)", ve.Persistable)
		}
		return "refused"
	}
	want := class(buildErr)
	var cf, up error
	if pan := guard(func() { cf = gmsl.CheckFields(p) }); pan != "" {
		return fail("C03/panic/after=Build/CheckFields", "CheckFields panics on the event Build handed over with an error: "+pan, nil, pan)
	}
	if got := class(cf); got != want {
		return fail("C03/refusal/"+r.Proto.Lim+r.Proto.Num+"/CheckFields", "Build refused the event but CheckFields on the very event it handed over says otherwise", want, got)
	}
	if pan := guard(func() { _, up = impl.NewEventFromUntrustedJSON(append([]byte(nil), p.JSON()...)) }); pan != "" {
		return fail("C03/panic/after=Build/NewEventFromUntrustedJSON", "the untrusted parse panics on the JSON of the refused event: "+pan, nil, pan)
	}
	if got := class(up); got != want {
		return fail("C03/refusal/"+r.Proto.Lim+r.Proto.Num+"/NewEventFromUntrustedJSON", "Build refused the event but the untrusted parse of its JSON says otherwise", want, got)
	}
	return nil
}

// unobserved repeats the behaviour on a freshly built event WITHOUT reading any accessor between the calls
// (nothing is cached before the operations run) and compares the outcome with the observed run.
func unobserved(r *rec, impl gmsl.IRoomVersion, b *built, base *fields, idx int) *hx.Result {
	if len(r.Steps) == 0 || idx%3 != 0 {
		return nil
	}
	p, err := b.build(r.Ver)
	if err != nil {
		return fail("C03/build/error", "second EventBuilder.Build of the same proto-event fails: "+err.Error(), nil, err.Error())
	}
	red := false
	for _, s := range r.Steps {
		if p, err = applyOp(r.Ver, impl, p, s.Op, b.sp); err != nil || p == nil {
			return fail("C03/unobserved/op-error/"+opName(s.Op), fmt.Sprintf("%s fails when no accessor was read before: %v", opName(s.Op), err), nil, fmt.Sprint(err))
		}
		red = s.Red
	}
	f, acc, pan := observe(p)
	if pan != "" {
		return fail("C03/unobserved/panic/"+acc, acc+"() panics after operations on an event whose accessors were never read: "+pan, nil, pan)
	}
	want := *base
	if r.IDFmt == 1 {
		want.ID = f.ID // random by design: two builds differ
	}
	if p.Redacted() != red {
		return fail("C03/unobserved/redacted-flag", "Redacted() differs from the observed run", red, p.Redacted())
	}
	if name, w, g := compareFields(&want, &f, !red); name != "" {
		return fail("C03/unobserved/"+name, fmt.Sprintf("%s after the same operations differs when no accessor was read in between (room version %s)", name, r.Ver), w, g)
	}
	return checkDomainless(r, p, &f, b, "unobserved-run")
}

// checkPlainBuilder: IRoomVersion.NewEventBuilder() filled field by field builds the same event as
// NewEventBuilderFromProtoEvent.
func checkPlainBuilder(r *rec, b *built, base *fields, p gmsl.PDU) *hx.Result {
	impl := gmsl.MustGetRoomVersion(gmsl.RoomVersion(r.Ver))
	if isDomainless(r.Ver) && b.pe.Type == spec.MRoomCreate && b.pe.StateKey != nil && *b.pe.StateKey != "" {
		return nil // composed by the harness (Build refuses it)
	}
	eb := impl.NewEventBuilder()
	eb.SenderID, eb.RoomID, eb.Type, eb.StateKey = b.pe.SenderID, b.pe.RoomID, b.pe.Type, b.pe.StateKey
	eb.PrevEvents, eb.AuthEvents, eb.Redacts, eb.Depth = b.pe.PrevEvents, b.pe.AuthEvents, b.pe.Redacts, b.pe.Depth
	eb.Content, eb.Unsigned = b.pe.Content, b.pe.Unsigned
	q, err := eb.Build(b.now, spec.ServerName(b.signer.name), b.signer.key, b.signer.priv)
	if err != nil {
		return fail("C03/entry/NewEventBuilder/error", "Build through NewEventBuilder() fails where NewEventBuilderFromProtoEvent succeeds: "+err.Error(), nil, err.Error())
	}
	f, acc, pan := observe(q)
	if pan != "" {
		return fail("C03/entry/NewEventBuilder/panic/"+acc, acc+"() panics: "+pan, nil, pan)
	}
	want := *base
	if r.IDFmt == 1 {
		want.ID = f.ID
	}
	if name, w, g := compareFields(&want, &f, true); name != "" {
		return fail("C03/entry/NewEventBuilder/"+name, name+" of the event built through NewEventBuilder() differs from NewEventBuilderFromProtoEvent's", w, g)
	}
	return nil
}

func runC03(r *rec, seed int64, idx int) *hx.Result {
	impl, err := gmsl.GetRoomVersion(gmsl.RoomVersion(r.Ver))
	if err != nil {
		return fail("C03/version/unregistered", "room version "+r.Ver+" is not registered", nil, nil)
	}
	b := protoOf(r.Ver, &r.Proto, seed)
	p, err := b.build(r.Ver)
	if err != nil && r.MayRefuse && !r.Refuse {
		// an ambiguous text (a member name repeated below the top level): a Build that refuses it hands out nothing
		return nil
	}
	if err != nil && r.Refuse {
		// Build either refuses (no event: nothing to hold) or hands out an event that satisfies every clause.
		// Build may hand the event over next to the error of its field check: then the field check and the untrusted
		// parse of that very event must say the same thing.
		return refusalsAgree(r, impl, p, err)
	}
	if err != nil {
		return fail("C03/build/error", fmt.Sprintf("EventBuilder.Build fails (room version %s): %v", r.Ver, err), nil, err.Error())
	}
	if r.Refuse && len(r.Steps) == 0 {
		// the specification expects a refusal; an event was handed out: it must at least be an event for everybody
		r.Steps = []step{{Op: "RU", Idc: 1}, {Op: "RT", Idc: 1}, {Op: "RH", Idc: 1}, {Op: "RD", Idc: 1, Red: true}}
	}
	base, acc, pan := observe(p)
	if pan != "" {
		return fail("C03/panic/after=Build/"+acc, acc+"() panics on the built event: "+pan, nil, pan)
	}
	// the built event carries what the proto-event said
	want := fields{ID: base.ID, Type: b.pe.Type, Sender: b.pe.SenderID, SK: b.pe.StateKey, Content: b.pe.Content,
		Depth: b.pe.Depth, TS: b.now.UnixMilli(), Prev: strs(b.pe.PrevEvents), Auth: strs(b.pe.AuthEvents),
		Redacts: b.pe.Redacts, Room: base.Room}
	if b.room != nil {
		want.Room = b.room.id
		if isDomainless(r.Ver) {
			want.Auth = append([]string{"$" + b.room.id[1:]}, want.Auth...)
		}
	} else {
		want.Auth = []string{} // the create event of a domainless room reports no auth events, whatever it lists
	}
	if res := checkDomainless(r, p, &base, &b, "Build"); res != nil {
		return res
	}
	if name, w, g := compareFields(&want, &base, true); name != "" {
		return fail("C03/build/"+name, fmt.Sprintf("%s of the built event differs from the proto-event's (room version %s)", name, r.Ver), w, g)
	}
	if _, res := checkStep(r, &b, &base, p, "build", false); res != nil {
		return res
	}
	// ---- the operations ------------------------------------------------------------------------------------
	ids := []string{base.ID}
	classes := []int{1}
	for n, s := range r.Steps {
		recv := p
		if s.Op == "RH" {
			// the sibling entry point of the headered form: the event ID handed over explicitly
			var id string
			if pan := guard(func() { id = p.EventID() }); pan != "" {
				return fail("C03/panic/after="+opName(s.Op)+"/EventID", "EventID() panics: "+pan, nil, pan)
			}
			w, err := impl.NewEventFromTrustedJSONWithEventID(id, append([]byte(nil), p.JSON()...), p.Redacted())
			if err != nil || w == nil {
				return fail("C03/op-error/"+opName("RW"), fmt.Sprintf("NewEventFromTrustedJSONWithEventID fails on the event's own JSON and ID (room version %s): %v", r.Ver, err), nil, fmt.Sprint(err))
			}
			if _, res := checkStep(r, &b, &base, w, "RW", p.Redacted()); res != nil {
				return res
			}
		}
		q, err := applyOp(r.Ver, impl, p, s.Op, b.sp)
		if err != nil {
			return fail("C03/op-error/"+opName(s.Op), fmt.Sprintf("%s fails on a built event (room version %s, step %d): %v", opName(s.Op), r.Ver, n+1, err), nil, err.Error())
		}
		if q == nil {
			return fail("C03/op-error/"+opName(s.Op), opName(s.Op)+" returned no event", nil, nil)
		}
		p = q
		f, res := checkStep(r, &b, &base, p, s.Op, s.Red)
		if res != nil {
			return res
		}
		if recv != p {
			// the object the call was made on is still an event with the same identity (whether the call works on
			// a copy or in place)
			rf, acc, pan := observe(recv)
			if pan != "" {
				return fail("C03/receiver/after="+opName(s.Op)+"/"+acc+":panic",
					fmt.Sprintf("room version %s: %s() panics on the event %s was called on: %s", r.Ver, acc, opName(s.Op), pan), nil, pan)
			}
			if rf.ID != base.ID {
				return fail("C03/receiver/after="+opName(s.Op)+"/event_id", "EventID() of the event the call was made on changed", base.ID, rf.ID)
			}
			if res := checkDomainless(r, recv, &rf, &b, opName(s.Op)+"(receiver)"); res != nil {
				return res
			}
		}
		ids = append(ids, f.ID)
		classes = append(classes, s.Idc)
		// equality pattern of the real IDs = equality pattern of the identity tokens
		k := len(ids) - 1
		for j := 0; j < k; j++ {
			if (ids[j] == ids[k]) != (classes[j] == classes[k]) {
				return fail("C03/id/pattern/"+opName(s.Op), "equality pattern of event IDs differs from the identity tokens'", classes, ids)
			}
		}
	}
	if r.Fam == "alias" {
		return runAlias(r, impl, &b, p, idx)
	}
	if res := unobserved(r, impl, &b, &base, idx); res != nil {
		return res
	}
	if r.Fam != "sib" {
		return nil
	}
	// ---- Sibling(f) ---------------------------------------------------------------------------------------------
	b2 := protoOf(r.Ver, r.Proto2, seed)
	p2, err := b2.build(r.Ver)
	if err != nil {
		return fail("C03/build/error", fmt.Sprintf("EventBuilder.Build fails on the sibling proto-event (field %s, room version %s): %v", r.F, r.Ver, err), nil, err.Error())
	}
	var id2 string
	if pan := guard(func() { id2 = p2.EventID() }); pan != "" {
		return fail("C03/panic/after=Build/EventID", "EventID() panics: "+pan, nil, pan)
	}
	if msg := checkAlphabet(r.IDFmt, id2, b2.signer.name); msg != "" {
		return fail(fmt.Sprintf("C03/alphabet/format%d", r.IDFmt), fmt.Sprintf("event ID %q of room version %s %s", id2, r.Ver, msg), nil, id2)
	}
	mainID := ids[len(ids)-1]
	if r.IDFmt != 1 && (id2 == mainID) != r.Same {
		rel := "different"
		if r.Same {
			rel = "the same"
		}
		return fail(fmt.Sprintf("C03/id/sibling/%s:model=%v", r.F, r.Same),
			fmt.Sprintf("two events built from proto-events differing only in %s must have %s event ID (room version %s)", r.F, rel, r.Ver),
			r.Same, fmt.Sprintf("%s vs %s", mainID, id2))
	}
	if len(r.Steps) == 0 {
		if res := checkAddAuthEvents(r, &b); res != nil {
			return res
		}
		if res := checkPlainBuilder(r, &b, &base, p); res != nil {
			return res
		}
	}
	return nil
}

// checkAddAuthEvents: EventBuilder.AddAuthEvents takes the auth events from a provider; in room versions with
// domainless room IDs the create event must not be listed in the event (it is implied by the room ID) but the
// built event still reports it first.
func checkAddAuthEvents(r *rec, b *built) *hx.Result {
	if b.room == nil {
		return nil
	}
	impl := gmsl.MustGetRoomVersion(gmsl.RoomVersion(r.Ver))
	if r.Proto.Sender != "alice" {
		return nil
	}
	if isDomainless(r.Ver) && b.pe.Type == spec.MRoomCreate && b.pe.StateKey != nil {
		// EventBuilder.Build of these versions refuses every m.room.create-typed state event that has a room ID
		// (also the ones that are not the create event): nothing is produced, the property says nothing
		return nil
	}
	eb := impl.NewEventBuilderFromProtoEvent(&b.pe)
	if err := eb.AddAuthEvents(b.room.provider); err != nil {
		if b.pe.Type == spec.MRoomMember {
			return nil // member content the state-needed computation refuses: not this property's subject
		}
		return fail("C03/add-auth-events/error", "AddAuthEvents fails: "+err.Error(), nil, err.Error())
	}
	listed, ok := eb.AuthEvents.([]string)
	if !ok {
		return fail("C03/add-auth-events/type", "AddAuthEvents did not store a list of event IDs", nil, fmt.Sprintf("%T", eb.AuthEvents))
	}
	createID := b.room.provider.create.EventID()
	has := false
	for _, id := range listed {
		has = has || id == createID
	}
	isCreate := b.pe.Type == spec.MRoomCreate
	if isDomainless(r.Ver) && has {
		return fail("C03/domainless/add-auth-events/create-listed",
			fmt.Sprintf("room version %s: AddAuthEvents lists the create event in auth_events", r.Ver), nil, listed)
	}
	if !isDomainless(r.Ver) && !has && !isCreate {
		return fail("C03/add-auth-events/create-missing",
			fmt.Sprintf("room version %s: AddAuthEvents does not list the create event", r.Ver), nil, listed)
	}
	p, err := eb.Build(b.now, spec.ServerName(b.signer.name), b.signer.key, b.signer.priv)
	if err != nil {
		return fail("C03/build/error", "Build after AddAuthEvents fails: "+err.Error(), nil, err.Error())
	}
	var auth []string
	if pan := guard(func() { auth = p.AuthEventIDs() }); pan != "" {
		return fail("C03/panic/after=Build/AuthEventIDs", "AuthEventIDs() panics: "+pan, nil, pan)
	}
	if isCreate {
		return nil
	}
	n := 0
	for _, id := range auth {
		if id == createID {
			n++
		}
	}
	if len(auth) == 0 || auth[0] != createID || n != 1 {
		return fail("C03/domainless/add-auth-events/first-auth-event",
			fmt.Sprintf("room version %s: the event built after AddAuthEvents does not report the create event exactly once, first", r.Ver), createID, auth)
	}
	return nil
}
