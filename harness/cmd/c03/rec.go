package main

// code -> spec: a seeded driver builds messy events (random types, state keys, contents with random keys and
// values, random prev/auth lists, depths, redacts, unsigned) in random room versions with real keys, performs
// random operations on them (the three parse paths, SetUnsigned, SetUnsignedField, Sign, Redact, random
// tampering of the wire form followed by the untrusted parse, building a second event from a slightly changed
// proto-event) and logs one line per call: the abstract form of the event before and after (every value replaced
// by a token that is injective in the value), the observed Redacted() flag and whether EventID() stayed the same.
// spec/EventIdentity_trace.tla re-derives every line.
//
//	mode c03: all operations      mode c04: only tampering + untrusted parse

import (
	"crypto/sha256"
	"encoding/base64"
	"encoding/hex"
	"encoding/json"
	"fmt"
	"math/rand"
	"sort"
	"strings"
	"time"

	gmsl "github.com/matrix-org/gomatrixserverlib"
	"github.com/matrix-org/gomatrixserverlib/spec"
	"verifharness/hx"
)

type absEvent struct {
	Type   string            `json:"type"`
	Top    map[string]string `json:"top"`
	Con    map[string]string `json:"con"`
	TpiObj bool              `json:"tpiobj"`
	Tpi    map[string]string `json:"tpi"`
}

type traceLine struct {
	I         int      `json:"i"`
	Ver       string   `json:"ver"`
	Op        string   `json:"op"`
	Before    absEvent `json:"before"`
	BRed      bool     `json:"bred"`
	After     absEvent `json:"after"`
	ARed      bool     `json:"ared"`
	HashMatch bool     `json:"hashmatch"`
	IDSame    bool     `json:"idsame"`
	Tampered  bool     `json:"tampered"`
	Raw       string   `json:"raw"`
	Raw2      string   `json:"raw2,omitempty"` // PAIR: the second event; ops with arguments: the argument
	// how the signer identities of the behaviour are spelt (AS signs under a name / key ID spelt this way)
	SName string `json:"sname"`
	SKey  string `json:"skey"`
}

var nameSpellings = []string{"dns", "port", "ipv4", "ipv4port", "ipv6", "ipv6port", "label", "long"}
var keySpellings = []string{"alnum", "under", "leadunder", "digits", "upper", "long"}

// randSpelling: half of the identities plainly spelt, the others in any class.
func randSpelling(r *rand.Rand) spelling {
	sp := plainSpelling
	if r.Intn(2) == 0 {
		sp.Name = nameSpellings[r.Intn(len(nameSpellings))]
	}
	if r.Intn(2) == 0 {
		sp.Key = keySpellings[r.Intn(len(keySpellings))]
	}
	return sp
}

func token(v interface{}) string {
	b, err := json.Marshal(v)
	if err != nil {
		panic(err)
	}
	c, err := gmsl.CanonicalJSON(b)
	if err != nil {
		c = b
	}
	h := sha256.Sum256(c)
	return hex.EncodeToString(h[:6])
}

// abstract maps an event JSON to the vocabulary of the specification.
func abstract(evJSON []byte) absEvent {
	m, err := decodeObj(evJSON)
	if err != nil {
		panic(fmt.Sprintf("harness: event is not a JSON object: %v", err))
	}
	a := absEvent{Top: map[string]string{}, Con: map[string]string{}, Tpi: map[string]string{}}
	a.Type, _ = m["type"].(string)
	for k, v := range m {
		switch k {
		case "content":
			a.Top[k] = "content"
		default:
			a.Top[k] = token(v)
		}
	}
	if c, ok := m["content"].(map[string]interface{}); ok {
		for k, v := range c {
			if k == "third_party_invite" {
				if t, ok := v.(map[string]interface{}); ok {
					a.TpiObj = true
					a.Con[k] = "obj"
					for nk, nv := range t {
						a.Tpi[nk] = token(nv)
					}
					continue
				}
			}
			a.Con[k] = token(v)
		}
	}
	return a
}

// hashMatches: the harness's own computation of "the content hash matches the hashed fields" for the event as
// the receiver sees it.
func hashMatches(ver string, evJSON []byte) bool {
	var ev map[string]json.RawMessage
	if err := json.Unmarshal(evJSON, &ev); err != nil {
		panic(err)
	}
	for _, k := range strippedOnReceipt(ver) {
		delete(ev, k)
	}
	var h struct {
		Sha256 *string `json:"sha256"`
	}
	if raw, ok := ev["hashes"]; !ok || json.Unmarshal(raw, &h) != nil || h.Sha256 == nil {
		return false
	}
	got, err := base64.RawStdEncoding.DecodeString(*h.Sha256)
	if err != nil {
		return false
	}
	var want struct {
		Sha256 string `json:"sha256"`
	}
	_ = json.Unmarshal(contentHash(ev), &want)
	w, _ := base64.RawStdEncoding.DecodeString(want.Sha256)
	return string(got) == string(w)
}

// ---- random material ---------------------------------------------------------------------------------------------

const keyAlphabet = "abcxyz09._- <&é"

func randKey(r *rand.Rand) string {
	rs := []rune(keyAlphabet)
	n := 1 + r.Intn(8)
	out := make([]rune, n)
	for i := range out {
		out[i] = rs[r.Intn(len(rs))]
	}
	return "x" + string(out) // never a key the event parser knows, never "_..."
}

func randString(r *rand.Rand) string {
	pool := []string{"a", "B", " ", "<", ">", "&", "é", " ", "\"", "\\", "\n", "日本", "0", "💥", "/"}
	n := r.Intn(6)
	var sb strings.Builder
	for i := 0; i < n; i++ {
		sb.WriteString(pool[r.Intn(len(pool))])
	}
	return sb.String()
}

func randValue(r *rand.Rand, depth int) interface{} {
	switch x := r.Intn(9); {
	case x < 3:
		return randString(r)
	case x == 3:
		return []int64{0, 1, -1, 50, 9007199254740991, -9007199254740991, 1700000000000}[r.Intn(7)]
	case x == 4:
		return r.Intn(2) == 0
	case x == 5:
		return nil
	case x == 6 && depth < 2:
		n := r.Intn(3)
		xs := make([]interface{}, n)
		for i := range xs {
			xs[i] = randValue(r, depth+1)
		}
		return xs
	case x == 7 && depth < 2:
		m := map[string]interface{}{}
		for n := r.Intn(3); n > 0; n-- {
			m[randKey(r)] = randValue(r, depth+1)
		}
		return m
	}
	return r.Int63n(1000)
}

var protectedTypes = []string{"m.room.member", "m.room.create", "m.room.join_rules", "m.room.power_levels",
	"m.room.history_visibility", "m.room.aliases", "m.room.redaction"}

var ownContentKeys = map[string][]string{
	"m.room.member":             {"membership", "join_authorised_via_users_server", "displayname", "third_party_invite"},
	"m.room.create":             {"creator", "room_version", "additional_creators", "predecessor", "m.federate"},
	"m.room.join_rules":         {"join_rule", "allow"},
	"m.room.power_levels":       {"ban", "events", "events_default", "kick", "redact", "state_default", "users", "users_default", "invite", "notifications"},
	"m.room.history_visibility": {"history_visibility"},
	"m.room.aliases":            {"aliases"},
	"m.room.redaction":          {"redacts", "reason"},
}

var anyContentKeys = []string{"membership", "creator", "join_rule", "allow", "ban", "users", "invite", "aliases", "redacts",
	"history_visibility", "body", "msgtype", "join_authorised_via_users_server", "reason"}

func randTPI(r *rand.Rand) interface{} {
	if r.Intn(5) == 0 {
		return randString(r) // not an object
	}
	t := map[string]interface{}{"signed": map[string]interface{}{"token": "t" + randString(r), "mxid": "@bob:" + hs2,
		"signatures": map[string]interface{}{"id.example.org": map[string]string{"ed25519:0": "c2ln"}}}}
	if r.Intn(2) == 0 {
		t["display_name"] = randString(r)
	}
	if r.Intn(4) == 0 {
		t[randKey(r)] = randValue(r, 1)
	}
	return t
}

func randContent(r *rand.Rand, typ string) map[string]interface{} {
	c := map[string]interface{}{}
	for _, k := range ownContentKeys[typ] {
		if r.Intn(2) == 0 {
			continue
		}
		switch k {
		case "third_party_invite":
			c[k] = randTPI(r)
		case "membership":
			c[k] = []string{"join", "leave", "ban", "knock"}[r.Intn(4)] // never invite: no second required signer here
		default:
			c[k] = randValue(r, 0)
		}
	}
	for n := r.Intn(3); n > 0; n-- {
		k := anyContentKeys[r.Intn(len(anyContentKeys))]
		if k == "membership" && typ == "m.room.member" {
			continue
		}
		c[k] = randValue(r, 0)
	}
	for n := r.Intn(3); n > 0; n-- {
		c[randKey(r)] = randValue(r, 0)
	}
	if typ == "m.room.member" {
		delete(c, "join_authorised_via_users_server") // typed by the signature check; exercised by C06
		if _, ok := c["membership"]; !ok {
			c["membership"] = "join"
		}
	}
	return c
}

type randProto struct {
	ver    string
	pe     gmsl.ProtoEvent
	now    int64
	signer signer
	sp     spelling
	room   *roomInfo
}

func randomProto(r *rand.Rand) randProto {
	ver := allVersions[r.Intn(len(allVersions))]
	out := randProto{ver: ver, now: tsBase + int64(r.Intn(1000))}
	typ := ""
	switch x := r.Float64(); {
	case x < 0.6:
		typ = protectedTypes[r.Intn(len(protectedTypes))]
	case x < 0.8:
		typ = "m.room.message"
	default:
		typ = "org.example." + randKey(r)
	}
	pe := gmsl.ProtoEvent{Type: typ, SenderID: senderFor(ver, []string{"alice", "bob"}[r.Intn(2)])}
	c, err := json.Marshal(randContent(r, typ))
	if err != nil {
		panic(err)
	}
	pe.Content = spec.RawJSON(c)
	switch x := r.Intn(4); {
	case typ == "m.room.member":
		s := "@bob:" + hs2
		pe.StateKey = &s
	case typ == "m.room.create" || x == 0:
		s := ""
		pe.StateKey = &s
	case x == 1:
		s := randString(r)
		pe.StateKey = &s
	}
	ids := func(tag string) []string {
		out := []string{}
		for n := r.Intn(4); n > 0; n-- {
			out = append(out, idOf(fmt.Sprintf("%s%d", tag, r.Intn(6)), ver))
		}
		return out
	}
	pe.PrevEvents = ids("prev")
	pe.AuthEvents = ids("auth")
	pe.Depth = []int64{1, 2, 7, 100, 9007199254740991}[r.Intn(5)]
	if r.Intn(4) == 0 || typ == "m.room.redaction" {
		pe.Redacts = idOf(fmt.Sprintf("red%d", r.Intn(3)), ver)
	}
	if r.Intn(3) == 0 {
		u, _ := json.Marshal(map[string]interface{}{"age": r.Intn(100000), randKey(r): randValue(r, 1)})
		pe.Unsigned = spec.RawJSON(u)
	}
	roomless := isDomainless(ver) && typ == "m.room.create" && pe.StateKey != nil && *pe.StateKey == ""
	if !roomless {
		out.room = roomFor(ver, []string{"r1", "r2"}[r.Intn(2)])
		pe.RoomID = out.room.id
	}
	out.sp = randSpelling(r)
	out.signer = signerFor(ver, []string{"hs1", "hs2"}[r.Intn(2)], []string{"k1", "k2"}[r.Intn(2)], out.sp)
	out.pe = pe
	return out
}

func (p *randProto) build() gmsl.PDU {
	impl := gmsl.MustGetRoomVersion(gmsl.RoomVersion(p.ver))
	ev, err := impl.NewEventBuilderFromProtoEvent(&p.pe).Build(timeOf(p.now), spec.ServerName(p.signer.name), p.signer.key, p.signer.priv)
	if err != nil {
		panic(fmt.Sprintf("harness: EventBuilder.Build fails on a random proto-event: %v (%+v)", err, p.pe))
	}
	return ev
}

// mutateProto changes 0..2 fields of the proto-event (0: an identical rebuild).
func mutateProto(r *rand.Rand, p randProto) randProto {
	q := p
	for n := r.Intn(3); n > 0; n-- {
		switch r.Intn(9) {
		case 0:
			q.pe.Depth = p.pe.Depth + 1
			if q.pe.Depth > 9007199254740991 {
				q.pe.Depth = p.pe.Depth - 1
			}
		case 1:
			q.now = p.now + 1
		case 2:
			u, _ := json.Marshal(map[string]interface{}{"age": r.Intn(1000)})
			q.pe.Unsigned = spec.RawJSON(u)
		case 3:
			q.signer = signerFor(p.ver, []string{"hs1", "hs2"}[r.Intn(2)], []string{"k1", "k2"}[r.Intn(2)], randSpelling(r))
		case 4:
			var c map[string]interface{}
			_ = json.Unmarshal(p.pe.Content, &c)
			keys := keysOf(c)
			if len(keys) > 0 && r.Intn(2) == 0 {
				k := keys[r.Intn(len(keys))]
				if !(k == "membership" && p.pe.Type == "m.room.member") && k != "third_party_invite" {
					c[k] = randValue(r, 0)
				}
			} else {
				c[randKey(r)] = randValue(r, 0)
			}
			b, _ := json.Marshal(c)
			q.pe.Content = spec.RawJSON(b)
		case 5:
			q.pe.PrevEvents = append(append([]string{}, p.pe.PrevEvents.([]string)...), idOf("prevx", p.ver))
		case 6:
			q.pe.AuthEvents = append(append([]string{}, p.pe.AuthEvents.([]string)...), idOf("authx", p.ver))
		case 7:
			q.pe.Redacts = idOf("redx", p.ver)
		case 8:
			if p.room != nil && p.pe.Type != "m.room.create" {
				q.pe.SenderID = senderFor(p.ver, []string{"alice", "bob"}[r.Intn(2)])
			}
		}
	}
	return q
}

// tamperRandom mutates the wire form of an event.
func tamperRandom(r *rand.Rand, ver string, evJSON []byte) []byte {
	var ev map[string]json.RawMessage
	if err := json.Unmarshal(evJSON, &ev); err != nil {
		panic(err)
	}
	var con map[string]json.RawMessage
	if err := json.Unmarshal(ev["content"], &con); err != nil {
		panic(err)
	}
	raw := func(v interface{}) json.RawMessage { b, _ := json.Marshal(v); return b }
	var typ string
	_ = json.Unmarshal(ev["type"], &typ)
	rehash := false
	// the name of a key that is stripped on receipt: plain, with one character written as a \uXXXX escape (the same
	// name) or - not event_id, which is on the keep lists - in other letter case (another name)
	esc := map[string]bool{}
	name := func(k string) string {
		switch x := r.Intn(6); {
		case x == 0:
			esc[k] = true
		case x == 1 && k != "event_id":
			return otherCase[k]
		}
		return k
	}
	for n := 1 + r.Intn(3); n > 0; n-- {
		switch r.Intn(13) {
		case 0:
			con[randKey(r)] = raw(randValue(r, 0))
		case 1:
			keys := make([]string, 0, len(con))
			for k := range con {
				keys = append(keys, k)
			}
			sort.Strings(keys)
			if len(keys) > 0 {
				k := keys[r.Intn(len(keys))]
				if k == "third_party_invite" || (k == "membership" && typ == "m.room.member") {
					break
				}
				con[k] = raw(randValue(r, 0))
			}
		case 2:
			if r.Intn(3) == 0 {
				// a name that differs from a name the event format knows only in letter case (or by a non-ASCII letter
				// that folds to the ASCII one): another, unknown top-level key - with a value of the member's type
				names := []string{"event_id", "type", "room_id", "sender", "state_key", "content", "hashes", "signatures", "depth",
					"prev_events", "prev_state", "auth_events", "origin", "origin_server_ts", "membership", "redacts"}
				v := rec{Ver: ver, VK: names[r.Intn(len(names))], VS: "case"}
				v.Proto.Type = typ
				if strings.ContainsAny(v.VK, "sk") && r.Intn(3) == 0 {
					v.VS = "fold"
				}
				ev[variantName(&v, r.Intn(6))] = variantValue(&v)
				break
			}
			ev[randKey(r)] = raw(randValue(r, 0))
		case 3:
			ev[name("unsigned")] = raw(map[string]interface{}{"age": r.Intn(1000)})
		case 4:
			ev[name("age_ts")] = raw(r.Int63n(1 << 40))
		case 5:
			ev[name("outlier")] = raw(true)
		case 6:
			ev[name("destinations")] = raw([]string{"evil.example.org"})
		case 7:
			ev["hashes"] = raw(map[string]string{"sha256": base64.RawStdEncoding.EncodeToString(sha256sum([]byte(randString(r))))})
		case 8:
			delete(ev, "hashes")
		case 9:
			if isFormatV1(ver) {
				ev["event_id"] = raw("$forged" + fmt.Sprint(r.Intn(3)) + ":" + hs1)
			} else {
				ev[name("event_id")] = raw(idOf("forged", ver))
			}
		case 10:
			ev["depth"] = raw(r.Int63n(50))
		case 11:
			ev["origin"] = raw("evil.example.org")
		case 12:
			rehash = true
		}
	}
	ev["content"] = marshalRawMap(con)
	if rehash {
		recv := map[string]json.RawMessage{}
		for k, v := range ev {
			recv[k] = v
		}
		for _, k := range strippedOnReceipt(ver) {
			delete(recv, k)
		}
		ev["hashes"] = contentHash(recv)
	}
	for k := range esc {
		if _, there := ev[k]; !there {
			delete(esc, k)
		}
	}
	if len(esc) > 0 {
		return writeObj(membersOf(ev, esc, false, r.Intn(16)), false)
	}
	return marshalRawMap(ev)
}

// ---- performing one logged call -------------------------------------------------------------------------------------

// perform executes op on the event `raw` (parsed as trusted JSON with flag bred) and fills the observed part of
// the line. arg is the second event (PAIR) or unused.
func perform(ln *traceLine) (err error) {
	impl := gmsl.MustGetRoomVersion(gmsl.RoomVersion(ln.Ver))
	p, err := impl.NewEventFromTrustedJSON([]byte(ln.Raw), ln.BRed)
	if err != nil {
		return fmt.Errorf("the event does not parse as trusted JSON: %w", err)
	}
	idBefore := p.EventID()
	sp := spelling{ln.SName, ln.SKey}.norm()
	var q gmsl.PDU
	switch ln.Op {
	case "RU":
		ln.HashMatch = hashMatches(ln.Ver, []byte(ln.Raw))
		q, err = impl.NewEventFromUntrustedJSON([]byte(ln.Raw))
	case "RT", "RH", "RD":
		q, err = applyOp(ln.Ver, impl, p, ln.Op, sp)
	case "SU":
		q, err = applyOp(ln.Ver, impl, p, "SU1", sp)
	case "SF":
		q, err = applyOp(ln.Ver, impl, p, "SF", sp)
	case "AS":
		q, err = applyOp(ln.Ver, impl, p, "AS2", sp)
	case "PAIR":
		q, err = impl.NewEventFromTrustedJSON([]byte(ln.Raw2), false)
	default:
		panic("harness: unknown trace operation " + ln.Op)
	}
	if err != nil {
		return fmt.Errorf("%s fails: %w", opName(ln.Op), err)
	}
	ln.After = abstract(q.JSON())
	ln.ARed = q.Redacted()
	ln.IDSame = q.EventID() == idBefore
	return nil
}

func timeOf(ms int64) time.Time { return time.UnixMilli(ms) }

func record(a *hx.Args) error {
	if a.Out == "" {
		return fmt.Errorf("c03rec needs -out")
	}
	tw, err := hx.NewTraceWriter(a.Out)
	if err != nil {
		return err
	}
	r := rand.New(rand.NewSource(a.Seed*7919 + 3))
	c04 := a.Mode == "c04"
	var failures []hx.Result
	emit := func(ln traceLine) {
		ln.I = tw.N
		ln.Before = abstract([]byte(ln.Raw))
		var perr error
		res := hx.Safely(ln.I, func() hx.Result {
			perr = perform(&ln)
			return hx.Result{OK: true}
		})
		if !res.OK || perr != nil {
			what := res.What
			if perr != nil {
				what = perr.Error()
			}
			probe := ln
			failures = append(failures, hx.Result{OK: false, Key: "C03/record/" + opName(ln.Op) + "/error", What: what,
				Extra: rec{Fam: "probe", Ver: ln.Ver, Probe: &probe}})
			return
		}
		tw.Emit(ln)
	}
	for tw.N < a.N {
		p := randomProto(r)
		ev := p.build()
		cur := append([]byte(nil), ev.JSON()...)
		red := false
		steps := 1 + r.Intn(4)
		for s := 0; s < steps && tw.N < a.N; s++ {
			ln := traceLine{Ver: p.ver, Raw: string(cur), BRed: red, SName: p.sp.Name, SKey: p.sp.Key}
			x := 2 + r.Intn(8) // mode c03: every operation but tampering
			if c04 {
				x = 0
			}
			switch {
			case x <= 1: // tamper + untrusted parse
				ln.Op, ln.Tampered = "RU", true
				ln.Raw = string(tamperRandom(r, p.ver, cur))
			case x == 2:
				ln.Op = "RU"
			case x == 3:
				ln.Op = "RT"
			case x == 4:
				ln.Op = "RH"
			case x == 5:
				ln.Op = "SU"
			case x == 6:
				ln.Op = "SF"
			case x == 7:
				ln.Op = "AS"
			case x == 8:
				ln.Op = "RD"
			default:
				ln.Op = "PAIR"
				q := mutateProto(r, p)
				ln.Raw2 = string(q.build().JSON())
			}
			n := tw.N
			emit(ln)
			if tw.N == n || ln.Op == "PAIR" {
				continue
			}
			// continue the behaviour from the resulting event
			impl := gmsl.MustGetRoomVersion(gmsl.RoomVersion(p.ver))
			if ln.Op == "RU" && ln.Tampered {
				continue // the tampered event is not carried on
			}
			if nxt, nred, ok := redo(impl, &ln); ok {
				cur, red = nxt, nred
			}
		}
	}
	if err := tw.Close(); err != nil {
		return err
	}
	for i := range failures {
		failures[i].I = i
		b, _ := json.Marshal(&failures[i])
		fmt.Println(string(b))
	}
	return nil
}

// redo recomputes the resulting event of a logged line (JSON and flag) to continue the behaviour.
func redo(impl gmsl.IRoomVersion, ln *traceLine) ([]byte, bool, bool) {
	var out []byte
	var red, ok bool
	_ = hx.Safely(0, func() hx.Result {
		p, err := impl.NewEventFromTrustedJSON([]byte(ln.Raw), ln.BRed)
		if err != nil {
			return hx.Result{}
		}
		op := ln.Op
		switch op {
		case "SU":
			op = "SU1"
		case "AS":
			op = "AS2"
		}
		q, err := applyOp(ln.Ver, impl, p, op, spelling{ln.SName, ln.SKey}.norm())
		if err != nil || q == nil {
			return hx.Result{}
		}
		out, red, ok = append([]byte(nil), q.JSON()...), q.Redacted(), true
		return hx.Result{}
	})
	return out, red, ok
}

// replayProbe re-executes one logged line in a fresh process: the observation is reproduced iff the freshly
// observed part equals the logged one.
func replayProbe(r *rec) hx.Result {
	if r.Probe == nil {
		panic("harness: probe record without a line")
	}
	logged := *r.Probe
	again := logged
	again.After, again.ARed, again.IDSame, again.HashMatch = absEvent{}, false, false, false
	if err := perform(&again); err != nil {
		return hx.Result{OK: false, Key: "C03/record/" + opName(logged.Op) + "/error", What: err.Error()}
	}
	a, _ := json.Marshal(logged.After)
	b, _ := json.Marshal(again.After)
	if string(a) == string(b) && logged.ARed == again.ARed && logged.IDSame == again.IDSame && logged.HashMatch == again.HashMatch {
		return hx.Result{OK: false, Key: "reproduced", What: fmt.Sprintf("%s on room version %s: after=%s redacted=%v id-same=%v hash-match=%v",
			opName(logged.Op), logged.Ver, b, again.ARed, again.IDSame, again.HashMatch), Got: again}
	}
	return hx.Result{OK: true}
}
