// Command c03 binds spec/EventIdentity.tla to the real event code of gomatrixserverlib (EventBuilder.Build, the
// untrusted / trusted / headered parse paths, SetUnsigned, SetUnsignedField, Sign, Redact, EventID, RoomID,
// AuthEventIDs, VerifyEventSignatures).
//
//	c03 c03    -in records.ndjson   replay the ops / sib families of EventIdentity_gen.tla (C03)
//	c03 c04    -in records.ndjson   replay the tamper family (C04)
//	c03 c03rec -out trace.ndjson    record seeded random calls for EventIdentity_trace.tla (-mode c03|c04)
package main

import (
	"encoding/json"
	"runtime/debug"

	"verifharness/hx"
)

func init() {
	debug.SetGCPercent(400)
	hx.Register("c03", "replay EventIdentity_gen.tla behaviours (ops, sib) against the event round trip and identity", func(a *hx.Args) error {
		return hx.ReplayAll(a, func(i int, raw json.RawMessage) hx.Result { return replayC03(i, raw, a.Seed) })
	})
	hx.Register("c04", "replay EventIdentity_gen.tla behaviours (tamper) against NewEventFromUntrustedJSON", func(a *hx.Args) error {
		return hx.ReplayAll(a, func(i int, raw json.RawMessage) hx.Result { return replayC04(i, raw, a.Seed) })
	})
	hx.Register("c03rec", "record seeded random event operations as an NDJSON trace for EventIdentity_trace.tla", record)
}

func main() { hx.Main() }
