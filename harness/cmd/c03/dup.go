package main

// spec -> code for C04, the two wire dimensions of the tamper family of EventIdentity.tla:
//
//   - spelling (TamperSpelt): the NAME of a key that is stripped on receipt is written with a \uXXXX escape for one
//     of its characters (the same name, so the same event and the same outcome as the plain spelling) or in other
//     letter case (another name: one more unknown top-level key);
//   - multiplicity (TamperDup): a top-level member is written TWICE. The text has two readings (first copy / last
//     copy); the specification gives, for each, whether its content hash matches and what it looks like intact and
//     redacted. Whatever the parser does, it must hand out ONE reading - unredacted only if that reading's hash
//     matches, else its redacted form - or refuse the text; JSON() and every accessor must agree on it.
//
// This file holds the writer of such wire texts and the replay of the dup records.

import (
	"bytes"
	"encoding/base64"
	"encoding/json"
	"fmt"
	"sort"
	"strings"

	gmsl "github.com/matrix-org/gomatrixserverlib"
	"github.com/tidwall/gjson"
	"verifharness/hx"
)

// ---- writing a top-level object member by member ------------------------------------------------------------------

// member is one member of a wire object: its name, the JSON string literal the name is written as, its value.
type member struct {
	name string
	lit  []byte
	val  json.RawMessage
}

func plainMember(name string, val json.RawMessage) member { return member{name, q(name), val} }

// escLit spells a member name with one character written as a \uXXXX escape: the same name in other bytes
// (RFC 8259 section 7). n picks the character and the letter case of the hexadecimal digits.
func escLit(name string, n int) []byte {
	if n < 0 {
		n = -n
	}
	rs := []rune(name)
	at := n % len(rs)
	format := "\\u%04x"
	if (n/len(rs))%2 == 1 {
		format = "\\u%04X"
	}
	var b bytes.Buffer
	b.WriteByte('"')
	for i, r := range rs {
		if i == at {
			fmt.Fprintf(&b, format, r)
		} else {
			b.WriteRune(r)
		}
	}
	b.WriteByte('"')
	var back string
	if err := json.Unmarshal(b.Bytes(), &back); err != nil || back != name {
		panic("harness: escaped spelling does not denote the name " + name)
	}
	return b.Bytes()
}

// otherCase is the name OtherCase(k) of EventIdentity.tla: k in other letter case, which is another name.
var otherCase = map[string]string{"unsigned": "Unsigned", "age_ts": "Age_TS", "outlier": "OUTLIER",
	"destinations": "Destinations", "event_id": "Event_ID"}

// writeObj writes the members in the given order, compact or with white space around the punctuation.
func writeObj(ms []member, spaced bool) []byte {
	var b bytes.Buffer
	open, sep, colon, end := "{", ",", ":", "}"
	if spaced {
		open, sep, colon, end = "{ ", " ,\n ", " : ", " }"
	}
	b.WriteString(open)
	for i, m := range ms {
		if i > 0 {
			b.WriteString(sep)
		}
		b.Write(m.lit)
		b.WriteString(colon)
		b.Write(m.val)
	}
	b.WriteString(end)
	return b.Bytes()
}

// membersOf lists the members of a map in ascending (or descending) order of their names; the names in esc are
// written with an escape.
func membersOf(m map[string]json.RawMessage, esc map[string]bool, descending bool, n int) []member {
	keys := make([]string, 0, len(m))
	for k := range m {
		keys = append(keys, k)
	}
	sort.Strings(keys)
	if descending {
		sort.Sort(sort.Reverse(sort.StringSlice(keys)))
	}
	out := make([]member, 0, len(keys))
	for _, k := range keys {
		if esc[k] {
			out = append(out, member{k, escLit(k, n), m[k]})
		} else {
			out = append(out, plainMember(k, m[k]))
		}
	}
	return out
}

// repeatedNames lists the names that occur more than once in a top-level object (names compared after unescaping).
func repeatedNames(obj []byte) ([]string, error) {
	d := json.NewDecoder(bytes.NewReader(obj))
	d.UseNumber()
	if t, err := d.Token(); err != nil || t != json.Delim('{') {
		return nil, fmt.Errorf("not a JSON object")
	}
	seen := map[string]int{}
	for d.More() {
		t, err := d.Token()
		if err != nil {
			return nil, err
		}
		name, ok := t.(string)
		if !ok {
			return nil, fmt.Errorf("member name is not a string")
		}
		seen[name]++
		var v json.RawMessage
		if err := d.Decode(&v); err != nil {
			return nil, err
		}
	}
	var out []string
	for k, n := range seen {
		if n > 1 {
			out = append(out, k)
		}
	}
	sort.Strings(out)
	return out, nil
}

// referenceID is the harness's own computation of the event ID of room versions 3+: the hash of the redacted event
// without signatures, unsigned and age_ts, in the base64 alphabet of the version.
func referenceID(impl gmsl.IRoomVersion, ver string, evJSON []byte) (string, error) {
	red, err := impl.RedactEventJSON(evJSON)
	if err != nil {
		return "", err
	}
	var m map[string]json.RawMessage
	if err := json.Unmarshal(red, &m); err != nil {
		return "", err
	}
	for _, k := range []string{"signatures", "unsigned", "age_ts", "event_id"} {
		delete(m, k) // event_id: not part of an event of these room versions
	}
	canon, err := gmsl.CanonicalJSON(marshalRawMap(m))
	if err != nil {
		return "", err
	}
	if ver == "3" {
		return "$" + base64.RawStdEncoding.EncodeToString(sha256sum(canon)), nil
	}
	return "$" + base64.RawURLEncoding.EncodeToString(sha256sum(canon)), nil
}

// ---- the dup records -----------------------------------------------------------------------------------------------

// dupSummary is DupSummary of EventIdentity.tla: one reading of the two-copy text.
type dupSummary struct {
	OK   bool     `json:"ok"`   // the content hash of the reading (as received) matches
	Typ  string   `json:"typ"`  // its type
	ITop []string `json:"itop"` // intact (as received): top-level keys, content keys
	ICon []string `json:"icon"`
	RTop []string `json:"rtop"` // redacted: top-level keys, content keys, keys of content.third_party_invite
	RCon []string `json:"rcon"`
	RTpi []string `json:"rtpi"`
}

func dupClass(r *rec) string {
	c := "C04/dup/" + r.M + "/smuggled-" + r.Pos + "/hash=" + r.HM
	if r.Sp != "" && r.Sp != "plain" {
		c += "/name-spelling=" + r.Sp
	}
	return c
}

func replayDup(i int, r *rec, seed int64) hx.Result {
	res, outcome := runDup(r, i, seed)
	nt := fmt.Sprintf("dup|fmt%d|algo%d|%s|%s|%s|%s|%s|%s", r.IDFmt, algoOf(r.Ver), r.Proto.Type, r.M, r.Pos, r.Sp, r.HM, outcome)
	if res != nil {
		res.NT = nt
		return *res
	}
	return hx.Result{OK: true, NT: nt}
}

// canonValue is the canonical JSON of one value.
func canonValue(v json.RawMessage) []byte {
	c, err := gmsl.CanonicalJSON([]byte(`{"v":` + string(v) + `}`))
	if err != nil {
		panic(fmt.Sprintf("harness: canonical JSON of a member value: %v", err))
	}
	return c[len(`{"v":`) : len(c)-1]
}

// hashOfTwoCopies is the `hashes` value over the text that carries BOTH copies of member m (a, then b): what a
// forger computes who expects the receiver to hash the bytes as they come. It is the content hash of no reading.
func hashOfTwoCopies(reading map[string]json.RawMessage, m string, a, b json.RawMessage) json.RawMessage {
	c := map[string]json.RawMessage{}
	for k, v := range reading {
		if k != "signatures" && k != "unsigned" && k != "hashes" {
			c[k] = v
		}
	}
	canon, err := gmsl.CanonicalJSON(marshalRawMap(c))
	if err != nil {
		panic(fmt.Sprintf("harness: canonical JSON of a reading: %v", err))
	}
	at := gjson.GetBytes(canon, m)
	if !at.Exists() || at.Index <= 0 {
		panic("harness: member " + m + " not found in the canonical form")
	}
	name := string(q(m)) + ":"
	start := at.Index - len(name)
	if start < 0 || string(canon[start:at.Index]) != name {
		panic("harness: member " + m + " is not where it is expected in the canonical form")
	}
	var t bytes.Buffer
	t.Write(canon[:start])
	t.WriteString(name)
	t.Write(canonValue(a))
	t.WriteByte(',')
	t.WriteString(name)
	t.Write(canonValue(b))
	t.Write(canon[at.Index+len(at.Raw):])
	return json.RawMessage(`{"sha256":"` + base64.RawStdEncoding.EncodeToString(sha256sum(t.Bytes())) + `"}`)
}

func cloneRaw(m map[string]json.RawMessage) map[string]json.RawMessage {
	out := make(map[string]json.RawMessage, len(m))
	for k, v := range m {
		out[k] = v
	}
	return out
}

func received(ver string, m map[string]json.RawMessage) map[string]json.RawMessage {
	out := cloneRaw(m)
	for _, k := range strippedOnReceipt(ver) {
		delete(out, k)
	}
	return out
}

// dupCopies realises the two copies of member r.M: the genuine one (for a key the built event does not carry:
// a second added value) and the smuggled one.
func dupCopies(r *rec, ev map[string]json.RawMessage, seed int64) (genuine, smuggled json.RawMessage) {
	genuine, present := ev[r.M]
	switch r.M {
	case "content":
		var con map[string]json.RawMessage
		if err := json.Unmarshal(genuine, &con); err != nil {
			panic(err)
		}
		for k := range con {
			if k != "third_party_invite" {
				con[k] = valueOf(r.Ver, r.Proto.Type, k, "tampered", seed)
			}
		}
		con["zz_added"] = q("smuggled in a second content")
		smuggled = marshalRawMap(con)
	case "type":
		smuggled = q(concreteType(r.STyp))
	case "depth":
		smuggled = json.RawMessage(`3`)
	case "state_key":
		smuggled = q("@mallory:" + hs1)
	case "hashes":
		smuggled = json.RawMessage(`{"sha256":"` + strings.Repeat("A", 43) + `"}`)
	case "event_id":
		if isFormatV1(r.Ver) {
			smuggled = q("$forged:evil.example.org")
		} else {
			genuine, smuggled = q(idOf("forged2", r.Ver)), q(idOf("forged", r.Ver))
		}
	case "unsigned":
		genuine, smuggled = json.RawMessage(`{"age":2}`), json.RawMessage(`{"age":1,"redacted_because":{"type":"m.room.redaction"}}`)
	case "age_ts":
		genuine, smuggled = json.RawMessage(`1700000000111`), json.RawMessage(`1700000000999`)
	default:
		panic("harness: unknown duplicated member " + r.M)
	}
	if !present && r.M != "event_id" && r.M != "unsigned" && r.M != "age_ts" {
		panic("harness: the member to duplicate is absent from the built event: " + r.M)
	}
	if bytes.Equal(genuine, smuggled) {
		panic("harness: the two copies of " + r.M + " are equal")
	}
	return genuine, smuggled
}

// matchesReading: is the event handed out (JSON() decoded, flag) this reading, intact or redacted, as the
// specification describes it?
func matchesReading(ver string, reading map[string]json.RawMessage, s *dupSummary, got map[string]interface{}, red bool) bool {
	if !red {
		if !s.OK {
			return false
		}
		want, err := decodeObj(marshalRawMap(received(ver, reading)))
		if err != nil {
			panic(err)
		}
		return sameJSON(want, got)
	}
	sent, err := decodeObj(marshalRawMap(reading))
	if err != nil {
		panic(err)
	}
	if _, _, diff := firstDiff(setOf(s.RTop), setOf(keysOf(got))); diff {
		return false
	}
	gotCon, ok := got["content"].(map[string]interface{})
	if !ok {
		return false
	}
	if _, _, diff := firstDiff(setOf(s.RCon), setOf(keysOf(gotCon))); diff {
		return false
	}
	for _, k := range s.RTop {
		if k != "content" && !sameJSON(sent[k], got[k]) {
			return false
		}
	}
	sentCon, _ := sent["content"].(map[string]interface{})
	for _, k := range s.RCon {
		if k == "third_party_invite" {
			st, ok1 := sentCon[k].(map[string]interface{})
			gt, ok2 := gotCon[k].(map[string]interface{})
			if !ok1 || !ok2 {
				if !sameJSON(sentCon[k], gotCon[k]) {
					return false
				}
				continue
			}
			if _, _, diff := firstDiff(setOf(s.RTpi), setOf(keysOf(gt))); diff {
				return false
			}
			for nk, nv := range gt {
				if !sameJSON(st[nk], nv) {
					return false
				}
			}
			continue
		}
		if !sameJSON(sentCon[k], gotCon[k]) {
			return false
		}
	}
	return true
}

func runDup(r *rec, idx int, seed int64) (*hx.Result, string) {
	impl, err := gmsl.GetRoomVersion(gmsl.RoomVersion(r.Ver))
	if err != nil {
		return fail("C04/version/unregistered", "room version "+r.Ver+" is not registered", nil, nil), "-"
	}
	b := protoOf(r.Ver, &r.Proto, seed)
	p, err := b.build(r.Ver)
	if err != nil {
		return fail("C04/build/error", "EventBuilder.Build fails: "+err.Error(), nil, err.Error()), "-"
	}
	orig := append([]byte(nil), p.JSON()...)
	var ev map[string]json.RawMessage
	if err := json.Unmarshal(orig, &ev); err != nil {
		panic(err)
	}
	genuine, smuggled := dupCopies(r, ev, seed)
	first, last := genuine, smuggled
	if r.Pos == "before" {
		first, last = smuggled, genuine
	}
	stripped := setOf(strippedOnReceipt(r.Ver))[r.M]
	// the readings, and the `hashes` the text carries
	rs := cloneRaw(ev)
	rs[r.M] = smuggled
	var hashes json.RawMessage
	switch r.HM {
	case "keep":
	case "rehash":
		hashes = contentHash(received(r.Ver, rs))
	case "both", "bothswap":
		a, bb := first, last
		if r.HM == "bothswap" {
			a, bb = last, first
		}
		if stripped {
			// a receiver that removes one copy only hashes the text with the other copy in it
			one := received(r.Ver, ev)
			one[r.M] = bb
			hashes = contentHash(one)
		} else {
			hashes = hashOfTwoCopies(received(r.Ver, rs), r.M, a, bb)
		}
	default:
		panic("harness: unknown hash mode of a dup record: " + r.HM)
	}
	base := cloneRaw(ev)
	if hashes != nil {
		if r.M == "hashes" {
			panic("harness: the duplicated member is `hashes` and the hash mode is not keep")
		}
		base["hashes"] = hashes
	}
	readFirst, readLast := cloneRaw(base), cloneRaw(base)
	readFirst[r.M], readLast[r.M] = first, last
	// the wire text: the other members in ascending or descending order, the two copies next to each other or at
	// the two ends of the object; the smuggled copy's name possibly escaped
	delete(base, r.M)
	ms := membersOf(base, nil, idx%2 == 1, idx)
	mk := func(v json.RawMessage) member {
		if r.Sp == "esc" && bytes.Equal(v, smuggled) {
			return member{r.M, escLit(r.M, idx/2), v}
		}
		return plainMember(r.M, v)
	}
	var text []member
	if (idx/2)%2 == 0 {
		at := sort.Search(len(ms), func(i int) bool {
			if idx%2 == 1 {
				return ms[i].name < r.M
			}
			return ms[i].name > r.M
		})
		text = append(text, ms[:at]...)
		text = append(text, mk(first), mk(last))
		text = append(text, ms[at:]...)
	} else {
		text = append(text, mk(first))
		text = append(text, ms...)
		text = append(text, mk(last))
	}
	wire := writeObj(text, idx%2 == 1)
	if names, err := repeatedNames(wire); err != nil || len(names) != 1 || names[0] != r.M {
		panic(fmt.Sprintf("harness: the wire text does not carry exactly %s twice: %v %v", r.M, names, err))
	}
	class := dupClass(r)
	describe := func(qe gmsl.PDU) map[string]interface{} {
		out := map[string]interface{}{"wire": string(wire)}
		if qe != nil {
			out["redacted"] = qe.Redacted()
			out["json"] = string(qe.JSON())
		}
		return out
	}
	spelt := ""
	if r.Sp == "esc" {
		spelt = " (the smuggled copy's name written with a \\u escape)"
	}
	where := fmt.Sprintf("a wire event that carries the member %q twice, the smuggled copy %s the genuine one%s, hashes: %s (room version %s)", r.M, r.Pos, spelt, r.HM, r.Ver)

	// ---- (i) never a panic ---------------------------------------------------------------------------------------------
	var qe gmsl.PDU
	if pan := guard(func() { qe, err = impl.NewEventFromUntrustedJSON(append([]byte(nil), wire...)) }); pan != "" {
		return fail(class+"/panic/NewEventFromUntrustedJSON", "NewEventFromUntrustedJSON panics on "+where+": "+pan, nil, describe(nil)), "panic"
	}
	var kept []gmsl.PDU
	if pan := guard(func() { kept = gmsl.EventJSONs{append([]byte(nil), wire...)}.UntrustedEvents(gmsl.RoomVersion(r.Ver)) }); pan != "" {
		return fail(class+"/panic/UntrustedEvents", "EventJSONs.UntrustedEvents panics on "+where+": "+pan, nil, describe(nil)), "panic"
	}
	if err != nil && !(persistable(err) && qe != nil) {
		// refused: nothing is handed out, by the batch entry point neither
		if len(kept) != 0 {
			return fail(class+"/UntrustedEvents/keeps-refused", "EventJSONs.UntrustedEvents keeps an event that NewEventFromUntrustedJSON refuses ("+where+"): "+err.Error(), 0, len(kept)), "refused"
		}
		return nil, "refused"
	}
	outcome := "intact"
	if qe.Redacted() {
		outcome = "redacted"
	}
	// ---- (ii) JSON() is one reading: it does not carry the member twice itself -------------------------------------------
	names, jerr := repeatedNames(qe.JSON())
	if jerr != nil {
		return fail("C04/json/invalid", "JSON() of the parsed event is not a JSON object: "+jerr.Error(), nil, describe(qe)), outcome
	}
	f, acc, pan := observe(qe)
	if pan != "" {
		return fail(class+"/panic/"+acc, fmt.Sprintf("%s() panics on the event parsed from %s: %s", acc, where, pan), nil, describe(qe)), outcome
	}
	if len(names) > 0 {
		return fail(class+"/"+outcome+"/json-carries-"+names[0]+"-twice",
			fmt.Sprintf("the event parsed from %s is handed out with Redacted()=%v and its JSON() still carries %q twice: a reader of JSON() that takes the first copy and one that takes the last see different events, and the accessors (Type()=%q, Content()=%s, Depth()=%d, EventID()=%s) follow one of them; the content hash that was checked is that of neither reading",
				where, qe.Redacted(), names[0], f.Type, f.Content, f.Depth, f.ID),
			"one reading of the text (unredacted only if its content hash matches), or a refusal", describe(qe)), outcome
	}
	got, derr := decodeObj(qe.JSON())
	if derr != nil {
		return fail("C04/json/invalid", "JSON() of the parsed event is not a JSON object: "+derr.Error(), nil, describe(qe)), outcome
	}
	// ---- (ii) + (iii): one reading, unredacted only if ITS hash matches, else its redacted form --------------------------
	mf := matchesReading(r.Ver, readFirst, &r.First, got, qe.Redacted())
	ml := matchesReading(r.Ver, readLast, &r.Last, got, qe.Redacted())
	switch {
	case mf:
		outcome += "-first"
	case ml:
		outcome += "-last"
	default:
		admissible := map[string]interface{}{"first": r.First, "last": r.Last}
		if !qe.Redacted() {
			for name, rd := range map[string]map[string]json.RawMessage{"first": readFirst, "last": readLast} {
				want, _ := decodeObj(marshalRawMap(received(r.Ver, rd)))
				if sameJSON(want, got) {
					return fail(class+"/intact/hash-of-the-reading-does-not-match",
						fmt.Sprintf("the event parsed from %s is handed out unredacted as the reading with the %s copy, whose content hash does not match", where, name),
						admissible, describe(qe)), outcome
				}
			}
			for _, k := range strippedOnReceipt(r.Ver) {
				if _, has := got[k]; has {
					return fail(class+"/intact/stripped-key-observable/"+k,
						fmt.Sprintf("the event parsed from %s is handed out unredacted with the key %q in JSON(): a key that is stripped on receipt, present in no reading as received and not covered by the hash that was checked", where, k),
						admissible, describe(qe)), outcome
				}
			}
		}
		return fail(class+"/"+outcome+"/no-single-reading",
			fmt.Sprintf("the event parsed from %s (Redacted()=%v) is neither reading of the text as the specification gives them (intact only with a matching content hash, else redacted)", where, qe.Redacted()),
			admissible, describe(qe)), outcome
	}
	// ---- every accessor agrees with JSON() --------------------------------------------------------------------------------
	if res := accessorsAgree(r, &b, &f, qe, got); res != nil {
		res.Key = class + strings.TrimPrefix(res.Key, "C04")
		res.What += " - parsed from " + where
		res.Got = map[string]interface{}{"accessor": res.Got, "event": describe(qe)}
		return res, outcome
	}
	// ---- the batch entry point keeps exactly that event --------------------------------------------------------------------
	if len(kept) != 1 || kept[0].Redacted() != qe.Redacted() || !sameJSONBytes(kept[0].JSON(), qe.JSON()) {
		return fail(class+"/UntrustedEvents/differs", "EventJSONs.UntrustedEvents does not keep exactly the event NewEventFromUntrustedJSON hands out for "+where, string(qe.JSON()), len(kept)), outcome
	}
	return nil, outcome
}

// ---- variants of the protected names (TamperVariant of EventIdentity.tla) ----------------------------------------------

// variantToken is VariantName(k, vs) of the specification.
func variantToken(r *rec) string { return r.VK + "~" + r.VS }

// variantName writes the letters of the model's token: the protected name r.VK in other letter case (first letter,
// all letters or the last letter in upper case) or with one letter replaced by a non-ASCII character that simple
// case folding maps to it (U+017F long s for s, U+212A Kelvin sign for k). Never the name itself.
func variantName(r *rec, idx int) string {
	k := r.VK
	var out string
	switch r.VS {
	case "case":
		switch idx % 3 {
		case 0:
			out = strings.ToUpper(k[:1]) + k[1:]
		case 1:
			out = strings.ToUpper(k)
		default:
			out = k[:len(k)-1] + strings.ToUpper(k[len(k)-1:])
		}
	case "fold":
		var at []int
		for i, c := range k {
			if c == 's' || c == 'k' {
				at = append(at, i)
			}
		}
		if len(at) == 0 {
			panic("harness: no letter of " + k + " has a non-ASCII fold")
		}
		i := at[idx%len(at)]
		out = k[:i] + map[byte]string{'s': "\u017f", 'k': "\u212a"}[k[i]] + k[i+1:]
	default:
		panic("harness: unknown variant kind " + r.VS)
	}
	if out == k || !strings.EqualFold(out, k) {
		panic("harness: " + out + " is not a case variant of " + k)
	}
	return out
}

// variantLit is the JSON string literal of the variant name: as UTF-8, or the non-ASCII letter as a \u escape.
func variantLit(name string, idx int) []byte {
	if (idx/2)%2 == 1 {
		for i, c := range []rune(name) {
			if c > 127 {
				return escLit(name, i)
			}
		}
	}
	return q(name)
}

// variantValue is a value of the type the protected member has (so that a decoder that takes the variant for the
// member accepts it), different from the genuine member's.
func variantValue(r *rec) json.RawMessage {
	forgedID := q("$forged:evil.example.org")
	if !isFormatV1(r.Ver) {
		forgedID = q(idOf("forged", r.Ver))
	}
	switch r.VK {
	case "event_id", "redacts":
		return forgedID
	case "type":
		if r.Proto.Type == "m.room.create" {
			return q("m.room.message")
		}
		return q("m.room.create")
	case "room_id":
		return q("!forged:evil.example.org")
	case "sender", "state_key":
		if isPseudo(r.Ver) {
			return q(pseudoID("bob"))
		}
		return q("@mallory:" + hs1)
	case "content":
		return json.RawMessage(`{"membership":"ban","zz_forged":true}`)
	case "hashes":
		return json.RawMessage(`{"sha256":"` + strings.Repeat("A", 43) + `"}`)
	case "signatures":
		return json.RawMessage(`{"evil.example.org":{"ed25519:1":"c2lnbmF0dXJl"}}`)
	case "depth":
		return json.RawMessage(`3`)
	case "origin_server_ts":
		return json.RawMessage(`1`)
	case "prev_events", "auth_events":
		if isFormatV1(r.Ver) {
			return json.RawMessage(`[[` + string(forgedID) + `,{"sha256":"` + strings.Repeat("A", 43) + `"}]]`)
		}
		return json.RawMessage(`[` + string(forgedID) + `]`)
	case "prev_state":
		return json.RawMessage(`[]`)
	case "origin":
		return q("evil.example.org")
	case "membership":
		return q("ban")
	}
	panic("harness: no value for a variant of " + r.VK)
}

// writeWithVariant writes the event with the variant member right before / after the genuine member (at the
// front / the end of the object where there is none); the other members ascending or descending.
func writeWithVariant(r *rec, ev map[string]json.RawMessage, name string, idx int) []byte {
	rest := cloneRaw(ev)
	val := rest[name]
	delete(rest, name)
	ms := membersOf(rest, nil, idx%2 == 1, 0)
	v := member{name, variantLit(name, idx), val}
	at := -1
	for i, m := range ms {
		if m.name == r.VK {
			at = i
		}
	}
	var out []member
	switch {
	case at < 0 && r.VPos == "before":
		out = append(append(out, v), ms...)
	case at < 0:
		out = append(append(out, ms...), v)
	case r.VPos == "before":
		out = append(append(append(out, ms[:at]...), v), ms[at:]...)
	default:
		out = append(append(append(out, ms[:at+1]...), v), ms[at+1:]...)
	}
	return writeObj(out, idx%2 == 1)
}
