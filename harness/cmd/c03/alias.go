package main

// spec -> code for C03, family alias of EventIdentity.tla: several handles on the SAME bytes.
//
// NewEventFromTrustedJSON / NewEventFromTrustedJSONWithEventID / NewEventFromHeaderedJSON take the caller's bytes as
// they are and JSON() hands out the event's own slice, so after
//
//	q := NewEventFromTrustedJSON(p.JSON(), ..)   w := ...WithEventID(id, p.JSON(), ..)   s := p.JSON()
//	hb := p.ToHeaderedJSON()                      h := NewEventFromHeaderedJSON(hb, ..)
//
// p, q, w and s (and h, hb) are handles on one text. No copy is made here - that is the point. One operation is made
// on one handle (Edit(who, o) of the specification); every other handle and the kept slices must report exactly what
// they reported when they were made: same JSON() bytes, same flag, same ID (also an ID that is only computed now: the
// "cold" half never reads an accessor before the edit) and fields, and the kept bytes still parse as before.

import (
	"bytes"
	"encoding/json"
	"fmt"
	"strconv"
	"strings"

	gmsl "github.com/matrix-org/gomatrixserverlib"
	"verifharness/hx"
)

// editName names the edit in canonical keys.
func editName(o string) string {
	switch o {
	case "SF":
		return "SetUnsignedField(new-field)"
	case "SFs":
		return "SetUnsignedField(existing-field,shorter-value)"
	case "SFe":
		return "SetUnsignedField(existing-field,value-of-equal-length)"
	case "SFl":
		return "SetUnsignedField(existing-field,longer-value)"
	}
	return opName(o)
}

// applyEdit performs the edit o on the handle p.
func applyEdit(ver string, impl gmsl.IRoomVersion, p gmsl.PDU, o string, sp spelling) (gmsl.PDU, string, error) {
	switch o {
	case "SFs", "SFe", "SFl":
		var u map[string]json.RawMessage
		if err := json.Unmarshal(p.Unsigned(), &u); err != nil {
			return nil, "", fmt.Errorf("harness: unsigned of the handle is not an object: %v", err)
		}
		old := strings.TrimSpace(string(u["age"]))
		if _, err := strconv.ParseInt(old, 10, 64); err != nil || len(old) < 2 {
			panic("harness: the unsigned section has no age of two digits or more: " + string(p.Unsigned()))
		}
		d := "5"
		if old[0] == '5' {
			d = "6"
		}
		n := map[string]int{"SFs": len(old) - 1, "SFe": len(old), "SFl": len(old) + 3}[o]
		val, _ := strconv.ParseInt(strings.Repeat(d, n), 10, 64)
		return p, fmt.Sprintf("age: %s -> %d", old, val), p.SetUnsignedField("age", val)
	}
	q, err := applyOp(ver, impl, p, o, sp)
	return q, "", err
}

type aliasHandle struct {
	name string
	pdu  gmsl.PDU
	snap []byte // JSON() when the handle was made (an independent copy)
}

func runAlias(r *rec, impl gmsl.IRoomVersion, b *built, p gmsl.PDU, idx int) *hx.Result {
	if r.Cold {
		// a fresh event on which no accessor is ever read before the edit
		var err error
		if p, err = b.build(r.Ver); err != nil {
			return fail("C03/build/error", "second EventBuilder.Build of the same proto-event fails: "+err.Error(), nil, err.Error())
		}
		for _, s := range r.Steps {
			if p, err = applyOp(r.Ver, impl, p, s.Op, b.sp); err != nil || p == nil {
				return fail("C03/unobserved/op-error/"+opName(s.Op), fmt.Sprintf("%s fails when no accessor was read before: %v", opName(s.Op), err), nil, fmt.Sprint(err))
			}
		}
	}
	red0 := p.Redacted()
	// what every handle must report: read through an event made from an independent COPY of the bytes
	ref, err := impl.NewEventFromTrustedJSON(append([]byte(nil), p.JSON()...), red0)
	if err != nil {
		return fail("C03/op-error/"+opName("RT"), "NewEventFromTrustedJSON fails on the event's own JSON: "+err.Error(), nil, err.Error())
	}
	base, acc, pan := observe(ref)
	if pan != "" {
		return fail("C03/panic/after="+opName("RT")+"/"+acc, acc+"() panics: "+pan, nil, pan)
	}
	// ---- Fork: every way to a second handle on the same bytes (no copies) ----------------------------------------
	kept := p.JSON()
	keptSnap := append([]byte(nil), kept...)
	q, err := impl.NewEventFromTrustedJSON(p.JSON(), red0)
	if err != nil {
		return fail("C03/op-error/"+opName("RT"), "NewEventFromTrustedJSON fails on the event's own JSON: "+err.Error(), nil, err.Error())
	}
	w, err := impl.NewEventFromTrustedJSONWithEventID(base.ID, p.JSON(), red0)
	if err != nil {
		return fail("C03/op-error/"+opName("RW"), "NewEventFromTrustedJSONWithEventID fails on the event's own JSON and ID: "+err.Error(), nil, err.Error())
	}
	hb, err := p.ToHeaderedJSON()
	if err != nil {
		return fail("C03/op-error/"+opName("RH"), "ToHeaderedJSON fails: "+err.Error(), nil, err.Error())
	}
	hbSnap := append([]byte(nil), hb...)
	h, err := gmsl.NewEventFromHeaderedJSON(hb, red0)
	if err != nil {
		return fail("C03/op-error/"+opName("RH"), "NewEventFromHeaderedJSON fails: "+err.Error(), nil, err.Error())
	}
	handles := []*aliasHandle{{"built", p, nil}, {"RT", q, nil}, {"RW", w, nil}, {"RH", h, nil}}
	var target *aliasHandle
	for _, x := range handles {
		x.snap = append([]byte(nil), x.pdu.JSON()...)
		if x.name == r.Who {
			target = x
		}
		if !r.Cold {
			if _, acc, pan := observe(x.pdu); pan != "" {
				return fail("C03/panic/after="+opName(x.name)+"/"+acc, acc+"() panics: "+pan, nil, pan)
			}
		}
	}
	if target == nil {
		panic("harness: unknown handle " + r.Who)
	}
	// ---- Edit(who, o) ------------------------------------------------------------------------------------------------
	edited, detail, err := applyEdit(r.Ver, impl, target.pdu, r.O, b.sp)
	if err != nil || edited == nil {
		return fail("C03/op-error/"+opName(r.O), fmt.Sprintf("%s fails (room version %s): %v", editName(r.O), r.Ver, err), nil, fmt.Sprint(err))
	}
	scenario := fmt.Sprintf("C03/alias/%s/on=%s", editName(r.O), handleName(r.Who))
	story := fmt.Sprintf("room version %s: %s%s on the handle %q must not change what another handle on the same bytes reports",
		r.Ver, editName(r.O), map[bool]string{true: " (" + detail + ")", false: ""}[detail != ""], handleName(r.Who))
	tail := func(x []byte) string {
		if len(x) > 160 {
			return "..." + string(x[len(x)-160:])
		}
		return string(x)
	}
	// ---- every other handle reports what it reported when it was made -------------------------------------------
	for _, x := range handles {
		if x == target {
			continue
		}
		key := scenario + "/other=" + handleName(x.name)
		var now []byte
		if pan := guard(func() { now = x.pdu.JSON() }); pan != "" {
			return fail(key+"/JSON:panic", story+": JSON() panics: "+pan, nil, pan)
		}
		if !bytes.Equal(now, x.snap) {
			return fail(key+"/json", story+": its JSON() changed", tail(x.snap), tail(now))
		}
		if x.pdu.Redacted() != red0 {
			return fail(key+"/redacted-flag", story+": its Redacted() changed", red0, x.pdu.Redacted())
		}
		f, acc, pan := observe(x.pdu)
		if pan != "" {
			return fail(key+"/"+acc+":panic", fmt.Sprintf("%s: %s() now panics: %s", story, acc, pan), nil, pan)
		}
		if name, wv, gv := compareFields(&base, &f, !red0); name != "" {
			return fail(key+"/"+name, fmt.Sprintf("%s: its %s changed", story, name), wv, gv)
		}
	}
	// ---- the bytes a caller kept -----------------------------------------------------------------------------------
	if !bytes.Equal(kept, keptSnap) {
		return fail(scenario+"/kept=JSON()/bytes", story+": the slice JSON() handed out before the edit changed", tail(keptSnap), tail(kept))
	}
	if !bytes.Equal(hb, hbSnap) {
		return fail(scenario+"/kept=ToHeaderedJSON()/bytes", story+": the headered JSON made before the edit changed", tail(hbSnap), tail(hb))
	}
	u1, err1 := impl.NewEventFromUntrustedJSON(kept)
	u2, err2 := impl.NewEventFromUntrustedJSON(append([]byte(nil), keptSnap...))
	if (err1 == nil) != (err2 == nil) {
		return fail(scenario+"/kept=JSON()/untrusted-parse", story+": the bytes kept from JSON() no longer parse as untrusted input as a copy of them does", fmt.Sprint(err2), fmt.Sprint(err1))
	}
	if err1 == nil {
		var i1, i2 string
		if pan := guard(func() { i1, i2 = u1.EventID(), u2.EventID() }); pan != "" {
			return fail(scenario+"/kept=JSON()/EventID:panic", story+": EventID() panics: "+pan, nil, pan)
		}
		if i1 != i2 || i1 != base.ID || u1.Redacted() != u2.Redacted() {
			return fail(scenario+"/kept=JSON()/untrusted-parse", story+": the bytes kept from JSON() parse to another event", base.ID, i1)
		}
	}
	// ---- the edited handle: an event of the same identity, flagged as the specification says ---------------------
	ef, acc, pan := observe(edited)
	if pan != "" {
		return fail("C03/panic/after="+opName(r.O)+"/"+acc, fmt.Sprintf("room version %s: %s() panics on the event returned by %s: %s", r.Ver, acc, editName(r.O), pan), nil, pan)
	}
	if ef.ID != base.ID {
		return fail("C03/id/changed-by/"+opName(r.O), fmt.Sprintf("EventID() after %s differs from the event's before (room version %s)", editName(r.O), r.Ver), base.ID, ef.ID)
	}
	if edited.Redacted() != r.Red {
		return fail("C03/redacted-flag/after="+opName(r.O), fmt.Sprintf("Redacted() after %s (room version %s)", editName(r.O), r.Ver), r.Red, edited.Redacted())
	}
	if detail != "" {
		var u map[string]json.RawMessage
		want := detail[strings.LastIndex(detail, " ")+1:]
		if err := json.Unmarshal(edited.Unsigned(), &u); err != nil || strings.TrimSpace(string(u["age"])) != want {
			return fail("C03/alias/"+editName(r.O)+"/not-applied", "SetUnsignedField did not set the field on the event it was called on", want, string(edited.Unsigned()))
		}
		if !json.Valid(edited.JSON()) {
			return fail("C03/alias/"+editName(r.O)+"/json-invalid", "JSON() of the edited event is not JSON", nil, tail(edited.JSON()))
		}
	}
	return nil
}

func handleName(h string) string {
	switch h {
	case "built":
		return "built-event"
	case "RT":
		return "NewEventFromTrustedJSON(JSON())"
	case "RW":
		return "NewEventFromTrustedJSONWithEventID(id,JSON())"
	case "RH":
		return "NewEventFromHeaderedJSON(ToHeaderedJSON())"
	}
	return h
}
