package main

// Abstract vocabulary of EventIdentity_gen.tla and its realisation as real proto-events, keys and JSON.

import (
	"bytes"
	"context"
	"crypto/ed25519"
	"crypto/sha256"
	"encoding/base64"
	"encoding/json"
	"fmt"
	"math"
	"math/big"
	"reflect"
	"sort"
	"strings"
	"sync"
	"time"

	gmsl "github.com/matrix-org/gomatrixserverlib"
	"github.com/matrix-org/gomatrixserverlib/spec"
)

// classMap is a TLA+ function key -> token; TLC prints the empty function as [].
type classMap map[string]string

func (c *classMap) UnmarshalJSON(b []byte) error {
	b = bytes.TrimSpace(b)
	*c = classMap{}
	if len(b) > 0 && b[0] == '[' {
		var xs []interface{}
		if err := json.Unmarshal(b, &xs); err != nil {
			return err
		}
		if len(xs) != 0 {
			return fmt.Errorf("function printed as a non-empty array: %s", b)
		}
		return nil
	}
	m := map[string]string{}
	if err := json.Unmarshal(b, &m); err != nil {
		return err
	}
	*c = m
	return nil
}

// protoRec is the abstract proto-event (ProtoJson of EventIdentity_gen.tla).
type protoRec struct {
	Type     string   `json:"type"`
	SK       string   `json:"sk"`
	Redacts  string   `json:"redacts"`
	Num      string   `json:"num"`
	Lim      string   `json:"lim"`
	Big      string   `json:"big"` // "mid": the event is large in itself (content key zz_big of 40 KiB)
	Con      classMap `json:"con"`
	TpiObj   bool     `json:"tpiobj"`
	Tpi      classMap `json:"tpi"`
	Prev     string   `json:"prev"`
	Auth     string   `json:"auth"`
	Depth    string   `json:"depth"`
	Unsigned string   `json:"unsigned"`
	Room     string   `json:"room"`
	Sender   string   `json:"sender"`
	TS       string   `json:"ts"`
	Origin   string   `json:"origin"`
	SigKey   string   `json:"sigkey"`
	// how the signer identity is spelt: class of the server name, class of the key ID
	SName string `json:"sname"`
	SKey  string `json:"skey"`
}

func (p *protoRec) spelling() spelling { return spelling{p.SName, p.SKey}.norm() }

type step struct {
	Op  string `json:"op"`
	Arg string `json:"arg"`
	Idc int    `json:"idc"`
	Red bool   `json:"red"`
}

// rec is one behaviour of EventIdentity.tla with what the specification derives.
type rec struct {
	Fam   string   `json:"fam"` // ops | sib | tamper | probe
	Ver   string   `json:"ver"`
	IDFmt int      `json:"idfmt"`
	Algo  int      `json:"algo"`
	Proto protoRec `json:"proto"`
	Steps []step   `json:"steps"`
	// the specification says EventBuilder.Build refuses the proto-event (no event)
	Refuse bool `json:"refuse"`
	// sib
	F      string    `json:"f"`
	Proto2 *protoRec `json:"proto2"`
	Same   bool      `json:"same"`
	// tamper
	Pre     string   `json:"pre"`
	T       []string `json:"T"`
	HM      string   `json:"hm"`
	KOut    string   `json:"kout"`
	KIn     string   `json:"kin"`
	Red     bool     `json:"red"`
	Noop    bool     `json:"noop"`
	TopK    []string `json:"topk"`
	ConK    []string `json:"conk"`
	TpiK    []string `json:"tpik"`
	IDSame  bool     `json:"idsame"`
	Valid   []string `json:"valid"`
	Signers []string `json:"signers"`
	// tamper: how the names of the keys stripped on receipt are written (plain | esc | case); dup: of the second copy
	Sp string `json:"sp"`
	// tamper: the added top-level key is a variant of the protected name VK (VS: case | fold), standing VPos
	// (before | after) the genuine member
	VK   string `json:"vk"`
	VS   string `json:"vs"`
	VPos string `json:"vpos"`
	// dup (a top-level member written twice): the member, where the smuggled copy stands, the smuggled type, and
	// the two readings of the text as the specification sees them
	M     string     `json:"m"`
	Pos   string     `json:"pos"`
	STyp  string     `json:"styp"`
	First dupSummary `json:"first"`
	Last  dupSummary `json:"last"`
	// edge: the proto-event is an ambiguous text (a member name repeated below the top level): Build may refuse it
	MayRefuse bool `json:"mayrefuse"`
	// alias: the operation O made on handle Who; Cold: no accessor of the other handles was read before
	Who  string `json:"who"`
	O    string `json:"o"`
	Cold bool   `json:"cold"`
	// tamper, sizes: what the tampering weighs ("none" | "bulk30" | "bulk70" | "pad"); Refused: what surfaces is over
	// the size limit, no event is handed out
	Bulk    string `json:"bulk"`
	Refused bool   `json:"refused"`
	// probe (re-execution of a rejected trace line)
	Probe *traceLine `json:"probe,omitempty"`
}

var allVersions = []string{"1", "2", "3", "4", "5", "6", "7", "8", "9", "10", "11", "12",
	"org.matrix.msc3667", "org.matrix.msc3787", "org.matrix.msc4014", "org.matrix.hydra.11"}

func isDomainless(ver string) bool { return ver == "12" || ver == "org.matrix.hydra.11" }
func isFormatV1(ver string) bool   { return ver == "1" || ver == "2" }
func isPseudo(ver string) bool     { return ver == "org.matrix.msc4014" }

// ---- identities and keys ---------------------------------------------------------------------------

const (
	hs1 = "hs1.example.org"
	hs2 = "hs2.example.org"
)

func sha256sum(b []byte) []byte { h := sha256.Sum256(b); return h[:] }

func keyFromTag(tag string) ed25519.PrivateKey {
	return ed25519.NewKeyFromSeed(sha256sum([]byte("c03-key-" + tag)))
}

type signer struct {
	name string
	key  gmsl.KeyID
	priv ed25519.PrivateKey
	pub  ed25519.PublicKey
}

// pseudo-ID rooms: users are keys; "alice" / "bob" / the servers of the model are realised as pseudo IDs
func pseudoKey(user string) ed25519.PrivateKey { return keyFromTag("pseudo-" + user) }
func pseudoID(user string) string {
	return string(spec.SenderIDFromPseudoIDKey(pseudoKey(user)))
}

// spelling: how a signer identity is spelt (NameSpellings x KeySpellings of EventIdentity.tla). Every class is
// inside the grammar of the Matrix specification: server name = dns-name / IPv4 literal / bracketed IPv6 literal
// with an optional port; key ID = algorithm ":" version with the version made of [a-zA-Z0-9_].
type spelling struct{ Name, Key string }

var plainSpelling = spelling{"dns", "alnum"}

func (sp spelling) norm() spelling {
	if sp.Name == "" {
		sp.Name = "dns"
	}
	if sp.Key == "" {
		sp.Key = "alnum"
	}
	return sp
}

func (sp spelling) String() string { return "name=" + sp.Name + ",key-id=" + sp.Key }

// serverNameOf spells the model's server hs1 / hs2.
func serverNameOf(origin, class string) string {
	n, ok := map[string]string{"hs1": "1", "hs2": "2"}[origin]
	if !ok {
		panic("harness: unknown server token " + origin)
	}
	switch class {
	case "dns":
		return "hs" + n + ".example.org" // = hs1 / hs2
	case "port":
		return "hs" + n + ".example.org:8448"
	case "ipv4":
		return "203.0.113." + n
	case "ipv4port":
		return "203.0.113." + n + ":8448"
	case "ipv6":
		return "[2001:db8::" + n + "]"
	case "ipv6port":
		return "[2001:db8::" + n + "]:8448"
	case "label": // one label, with digits and a hyphen
		return "hs" + n + "-matrix"
	case "long": // 207 characters in labels of at most 63
		return "hs" + n + "." + strings.Repeat("a", 63) + "." + strings.Repeat("b", 63) + "." + strings.Repeat("c", 63) + ".example.org"
	}
	panic("harness: unknown server name spelling " + class)
}

// keyIDOf spells the model's key k1 / k2.
func keyIDOf(sigkey, class string) gmsl.KeyID {
	switch class {
	case "alnum":
		return gmsl.KeyID("ed25519:" + sigkey)
	case "under": // the form Synapse generates: ed25519:a_XXXX
		return gmsl.KeyID("ed25519:a_RXG" + sigkey)
	case "leadunder":
		return gmsl.KeyID("ed25519:_" + sigkey)
	case "digits":
		return gmsl.KeyID("ed25519:" + strings.TrimPrefix(sigkey, "k"))
	case "upper":
		return gmsl.KeyID("ed25519:" + strings.ToUpper(sigkey))
	case "long": // 128 characters of all four kinds
		return gmsl.KeyID("ed25519:" + strings.Repeat("Key_0123456789_abcdeF", 6) + sigkey)
	}
	panic("harness: unknown key ID spelling " + class)
}

// signerFor realises the model signer "<origin>/<sigkey>" in a room version, spelt as sp says.
func signerFor(ver, origin, sigkey string, sp spelling) signer {
	sp = sp.norm()
	if isPseudo(ver) {
		user := map[string]string{"hs1": "alice", "hs2": "bob"}[origin]
		if sigkey == "k1" {
			priv := pseudoKey(user)
			return signer{pseudoID(user), "ed25519:1", priv, priv.Public().(ed25519.PublicKey)}
		}
		priv := keyFromTag("pseudo-other-" + user)
		return signer{pseudoID(user), "ed25519:2", priv, priv.Public().(ed25519.PublicKey)}
	}
	priv := keyFromTag(origin + "/" + sigkey)
	return signer{serverNameOf(origin, sp.Name), keyIDOf(sigkey, sp.Key), priv, priv.Public().(ed25519.PublicKey)}
}

func signerByToken(ver, tok string, sp spelling) signer {
	parts := strings.SplitN(tok, "/", 2)
	return signerFor(ver, parts[0], parts[1], sp)
}

func senderFor(ver, tok string) string {
	if isPseudo(ver) {
		return pseudoID(tok)
	}
	switch tok {
	case "alice":
		return "@alice:" + hs1
	case "bob":
		return "@bob:" + hs2
	}
	panic("harness: unknown sender token " + tok)
}

// idOf is a well-formed event ID of the version's format that names no event of the scenario.
func idOf(tag, ver string) string {
	h := sha256sum([]byte("c03-id-" + tag))
	switch {
	case isFormatV1(ver):
		return "$" + tag + ":" + hs1
	case ver == "3":
		return "$" + base64.RawStdEncoding.EncodeToString(h)
	}
	return "$" + base64.RawURLEncoding.EncodeToString(h)
}

var tsBase = int64(1700000000000)

// ---- values --------------------------------------------------------------------------------------------

func q(s string) json.RawMessage { b, _ := json.Marshal(s); return b }
func qs(s string) string         { return string(q(s)) }

// valueOf realises the content value (key, token) for an event of type typ; tokens v1 / v2 / tampered are
// three different well-typed values.
func valueOf(ver, typ, key, tok string, seed int64) json.RawMessage {
	n := map[string]int{"v1": 0, "v2": 1, "tampered": 2}[tok]
	pick := func(xs ...string) json.RawMessage { return json.RawMessage(xs[n]) }
	switch key {
	case "membership":
		if typ == "m.room.member" && tok == "invite" {
			return json.RawMessage(`"invite"`)
		}
		if typ == "m.room.member" {
			return pick(`"join"`, `"leave"`, `"ban"`)
		}
	case "join_authorised_via_users_server":
		if tok == "hs2" {
			return q("@carol:" + hs2) // a user of another server: that server must sign a restricted join
		}
		return pick(qs("@carol:"+hs1), qs("@dave:"+hs1), qs("@mallory:"+hs1))
	case "displayname":
		return pick(qs(fmt.Sprintf("Bob <%d>", seed)), `"Bobby & co"`, `"Mallory "`)
	case "creator":
		return pick(qs("@alice:"+hs1), qs("@bob:"+hs2), qs("@mallory:"+hs1))
	case "room_version":
		return pick(qs(ver), `"1"`, `"zz"`)
	case "m.federate":
		return pick(`true`, `false`, `null`)
	case "join_rule":
		return pick(`"restricted"`, `"public"`, `"invite"`)
	case "allow":
		return pick(`[{"room_id":"!other:`+hs1+`","type":"m.room_membership"}]`, `[]`, `[{"type":"evil"}]`)
	case "ban", "invite":
		return pick(`50`, `51`, `9007199254740991`)
	case "users":
		return pick(`{"@alice:`+hs1+`":100}`, `{"@alice:`+hs1+`":99}`, `{"@mallory:`+hs1+`":100}`)
	case "notifications":
		return pick(`{"room":50}`, `{"room":51}`, `{"room":-9007199254740991}`)
	case "history_visibility":
		return pick(`"shared"`, `"joined"`, `"world_readable"`)
	case "aliases":
		return pick(`["#a:`+hs1+`"]`, `["#b:`+hs1+`"]`, `["#evil:`+hs1+`"]`)
	case "redacts":
		return pick(qs(idOf("red1", ver)), qs(idOf("red2", ver)), qs(idOf("red3", ver)))
	}
	switch key {
	case "body":
		// valid but unusual spellings: escaped solidus, \u escapes (also of U+2028 and a surrogate pair), HTML characters
		return pick(`"a\/b \u00e9\u2028 <b>&amp;<\/b> \ud83d\ude00"`, `"other \u003c body"`, `"forged \/ body"`)
	case "topic":
		// an object with white space and keys out of order, also in the nested object
		return pick(`{ "z" : 1, "a" : [ 1 , 2 ] ,"m":{"y":null,"b":true}}`, `{"z":2}`, `{"z":3}`)
	}
	return q(fmt.Sprintf("%s-%s-%d", key, tok, seed))
}

// numValue realises a number class of the specification (content key zz_num) as JSON text.
func numValue(class string) json.RawMessage {
	switch class {
	case "max":
		return json.RawMessage(`9007199254740991`)
	case "min":
		return json.RawMessage(`-9007199254740991`)
	case "zero":
		return json.RawMessage(`0`)
	case "frac":
		return json.RawMessage(`1.5`)
	case "exp":
		return json.RawMessage(`1e3`)
	case "capexp":
		return json.RawMessage(`1E2`)
	case "big":
		return json.RawMessage(`9007199254740992`)
	case "negbig":
		return json.RawMessage(`-9007199254740992`)
	case "negzero":
		return json.RawMessage(`-0`)
	case "fraczero":
		return json.RawMessage(`2.0`)
	case "nested":
		return json.RawMessage(`{"a":[7,1.5],"b":"x"}`)
	// a member name repeated below the top level (RepKinds); rep-content: see contentOf
	case "rep-content":
		return json.RawMessage(`"second"`)
	case "rep-nested":
		return json.RawMessage(`{"a":1,"b":"x","a":2}`)
	case "rep-deeper":
		return json.RawMessage(`{"m.relates_to":{"event_id":"$a","rel_type":"m.thread","event_id":"$b"}}`)
	case "rep-array":
		return json.RawMessage(`[1,{"user_id":"@a:` + hs1 + `","user_id":"@b:` + hs1 + `"},"x"]`)
	}
	panic("harness: unknown number class " + class)
}

func signedValue(tok string) json.RawMessage {
	return json.RawMessage(`{"mxid":"@bob:` + hs2 + `","token":"tok-` + tok + `","signatures":{"id.example.org":{"ed25519:0":"c2lnbmF0dXJl"}}}`)
}

func concreteType(t string) string {
	switch t {
	case "other":
		return "m.room.message"
	case "other2":
		return "org.example.<other>"
	case "otherstate":
		return "org.example.state"
	}
	return t
}

func contentOf(ver string, p *protoRec, seed int64) json.RawMessage {
	m := map[string]json.RawMessage{}
	for k, tok := range p.Con {
		if k == "third_party_invite" {
			if !p.TpiObj {
				m[k] = q("not-an-object")
				continue
			}
			sub := map[string]json.RawMessage{}
			for nk, ntok := range p.Tpi {
				if nk == "signed" {
					sub[nk] = signedValue(ntok)
				} else {
					sub[nk] = q(nk + "-" + ntok)
				}
			}
			m[k] = marshalRawMap(sub)
			continue
		}
		if k == "zz_num" {
			m[k] = numValue(tok)
			continue
		}
		if k == "zz_big" {
			m[k] = q(strings.Repeat("0123456789abcdef", sizeOfToken(tok)/16))
			continue
		}
		m[k] = valueOf(ver, p.Type, k, tok, seed)
	}
	out := marshalRawMap(m)
	if p.Con["zz_num"] == "rep-content" {
		// the member zz_num stands twice in the content, first and last
		rest := out[1:]
		if len(m) > 0 {
			rest = append([]byte(","), rest...)
		}
		out = append([]byte(`{"zz_num":"first"`), rest...)
	}
	return out
}

// sizeOfToken: the weights of EventIdentity.tla (KiB) in bytes.
func sizeOfToken(tok string) int {
	switch tok {
	case "big40":
		return 40 * 1024
	case "bulk30":
		return 30 * 1024
	case "bulk70":
		return 70 * 1024
	}
	panic("harness: unknown size token " + tok)
}

// marshalRawMap writes an object with sorted keys without re-escaping the raw values.
func marshalRawMap(m map[string]json.RawMessage) json.RawMessage {
	keys := make([]string, 0, len(m))
	for k := range m {
		keys = append(keys, k)
	}
	sort.Strings(keys)
	var b bytes.Buffer
	b.WriteByte('{')
	for i, k := range keys {
		if i > 0 {
			b.WriteByte(',')
		}
		b.Write(q(k))
		b.WriteByte(':')
		b.Write(m[k])
	}
	b.WriteByte('}')
	return b.Bytes()
}

// ---- rooms ------------------------------------------------------------------------------------------------

type roomInfo struct {
	id       string
	create   gmsl.PDU // domainless room versions: the create event the room ID derives from
	provider *provider
}

var roomCache sync.Map // ver|room -> *roomInfo

// roomFor realises the room token. In room versions with domainless room IDs the room ID is the ID of a really
// built create event with the sigil swapped.
func roomFor(ver, tok string) *roomInfo {
	key := ver + "|" + tok
	if v, ok := roomCache.Load(key); ok {
		return v.(*roomInfo)
	}
	impl := gmsl.MustGetRoomVersion(gmsl.RoomVersion(ver))
	s := signerFor(ver, "hs1", "k1", plainSpelling)
	empty := ""
	alice := senderFor(ver, "alice")
	ri := &roomInfo{}
	cpe := gmsl.ProtoEvent{SenderID: alice, Type: spec.MRoomCreate, StateKey: &empty, Depth: 1,
		PrevEvents: []string{}, AuthEvents: []string{},
		Content: spec.RawJSON(`{"creator":` + string(q(alice)) + `,"room_version":` + string(q(ver)) + `,"tag":` + string(q(tok)) + `}`)}
	if isDomainless(ver) {
		ce, err := impl.NewEventBuilderFromProtoEvent(&cpe).Build(time.UnixMilli(tsBase-1000), spec.ServerName(s.name), s.key, s.priv)
		if err != nil {
			panic(fmt.Sprintf("harness: cannot build the create event of room %s: %v", tok, err))
		}
		ri.create = ce
		ri.id = "!" + ce.EventID()[1:]
	} else {
		ri.id = "!" + tok + ":" + hs1
		cpe.RoomID = ri.id
		ce, err := impl.NewEventBuilderFromProtoEvent(&cpe).Build(time.UnixMilli(tsBase-1000), spec.ServerName(s.name), s.key, s.priv)
		if err != nil {
			panic(fmt.Sprintf("harness: cannot build the create event of room %s: %v", tok, err))
		}
		ri.create = ce
	}
	// the room's power levels and the sender's membership, for EventBuilder.AddAuthEvents
	mk := func(typ, sk, content string, depth int64) gmsl.PDU {
		pe := gmsl.ProtoEvent{SenderID: alice, RoomID: ri.id, Type: typ, StateKey: &sk, Depth: depth,
			PrevEvents: []string{ri.create.EventID()}, AuthEvents: []string{}, Content: spec.RawJSON(content)}
		if !isDomainless(ver) {
			pe.AuthEvents = []string{ri.create.EventID()}
		}
		e, err := impl.NewEventBuilderFromProtoEvent(&pe).Build(time.UnixMilli(tsBase-500), spec.ServerName(s.name), s.key, s.priv)
		if err != nil {
			panic(fmt.Sprintf("harness: cannot build %s of room %s: %v", typ, tok, err))
		}
		return e
	}
	ri.provider = &provider{create: ri.create,
		pl:      mk(spec.MRoomPowerLevels, "", `{"users":{`+string(q(alice))+`:100}}`, 3),
		jr:      mk(spec.MRoomJoinRules, "", `{"join_rule":"public"}`, 4),
		members: map[string]gmsl.PDU{alice: mk(spec.MRoomMember, alice, `{"membership":"join"}`, 2)}}
	roomCache.Store(key, ri)
	return ri
}

// provider is the AuthEventProvider handed to EventBuilder.AddAuthEvents.
type provider struct {
	create, pl, jr gmsl.PDU
	members        map[string]gmsl.PDU
}

func (p *provider) Create() (gmsl.PDU, error)      { return p.create, nil }
func (p *provider) JoinRules() (gmsl.PDU, error)   { return p.jr, nil }
func (p *provider) PowerLevels() (gmsl.PDU, error) { return p.pl, nil }
func (p *provider) Member(sk spec.SenderID) (gmsl.PDU, error) {
	if e, ok := p.members[string(sk)]; ok {
		return e, nil
	}
	return nil, nil
}
func (p *provider) ThirdPartyInvite(string) (gmsl.PDU, error) { return nil, nil }
func (p *provider) Valid() bool                               { return true }

// ---- proto-events ------------------------------------------------------------------------------------------

type built struct {
	pe     gmsl.ProtoEvent
	signer signer
	sp     spelling // how the signer identities of the behaviour are spelt
	now    time.Time
	room   *roomInfo // nil for the create event of a domainless room
}

func listOf(ver, tok string) []string {
	switch tok {
	case "p0", "a0", "pn", "an":
		return []string{}
	case "acl", "acm", "acx":
		return nil // cite the room's create event: filled in by protoOf once the room is known
	case "p1":
		return []string{idOf("prev1", ver)}
	case "p2":
		return []string{idOf("prev1", ver), idOf("prev2", ver)}
	case "a1":
		return []string{idOf("auth1", ver)}
	case "a2":
		return []string{idOf("auth1", ver), idOf("auth2", ver)}
	case "pd": // the same event referenced twice
		return []string{idOf("prev1", ver), idOf("prev1", ver)}
	case "ad":
		return []string{idOf("auth1", ver), idOf("auth1", ver)}
	}
	panic("harness: unknown list token " + tok)
}

// strs reads a prev / auth list of a proto-event (absent = no references).
func strs(x interface{}) []string {
	if x == nil {
		return []string{}
	}
	return x.([]string)
}

// protoOf realises the abstract proto-event.
func protoOf(ver string, p *protoRec, seed int64) built {
	out := built{}
	pe := gmsl.ProtoEvent{
		SenderID:   senderFor(ver, p.Sender),
		Type:       concreteType(p.Type),
		PrevEvents: listOf(ver, p.Prev),
		AuthEvents: listOf(ver, p.Auth),
		Content:    spec.RawJSON(contentOf(ver, p, seed)),
	}
	if p.Prev == "pn" {
		pe.PrevEvents = nil // absent in the proto-event: Build must write an empty list
	}
	if p.Auth == "an" {
		pe.AuthEvents = nil
	}
	switch p.Depth {
	case "d0":
		pe.Depth = 0
	case "d1":
		pe.Depth = 1
	case "d2":
		pe.Depth = 7 + seed%5
	case "d3":
		pe.Depth = 9007199254740991
	case "d4":
		pe.Depth = 9007199254740992
	case "d5":
		pe.Depth = 9007199254740993
	case "d6":
		pe.Depth = math.MaxInt64 - 1
	case "d7":
		pe.Depth = math.MaxInt64
	default:
		panic("harness: unknown depth token " + p.Depth)
	}
	switch p.SK {
	case "none", "long": // long: set below from the limit token
	case "empty":
		s := ""
		pe.StateKey = &s
	case "self":
		s := pe.SenderID
		pe.StateKey = &s
	case "user":
		s := "@bob:" + hs2
		pe.StateKey = &s
	case "user2":
		s := "@carol:" + hs2
		pe.StateKey = &s
	case "server":
		s := hs1
		pe.StateKey = &s
	default:
		panic("harness: unknown state key token " + p.SK)
	}
	switch p.Redacts {
	case "none":
	case "r1", "r2":
		pe.Redacts = idOf("redacted-"+p.Redacts, ver)
	default:
		panic("harness: unknown redacts token " + p.Redacts)
	}
	switch p.Unsigned {
	case "none":
	case "u0":
		pe.Unsigned = spec.RawJSON(`{}`)
	case "u1":
		pe.Unsigned = spec.RawJSON(`{"age":1234}`)
	case "u2":
		pe.Unsigned = spec.RawJSON(`{"age":99,"prev_content":{"membership":"leave"}}`)
	case "urep": // a nested object names a member twice
		pe.Unsigned = spec.RawJSON(`{"age":17,"prev_content":{"membership":"leave","displayname":"a","membership":"join"}}`)
	default:
		panic("harness: unknown unsigned token " + p.Unsigned)
	}
	roomless := isDomainless(ver) && p.Type == spec.MRoomCreate && p.SK == "empty"
	if !roomless {
		out.room = roomFor(ver, p.Room)
		pe.RoomID = out.room.id
	}
	switch p.TS {
	case "t0":
		out.now = time.UnixMilli(0)
	case "t1":
		out.now = time.UnixMilli(tsBase)
	case "t2":
		out.now = time.UnixMilli(tsBase + 1)
	default:
		panic("harness: unknown ts token " + p.TS)
	}
	if p.Auth == "acl" || p.Auth == "acm" || p.Auth == "acx" {
		if out.room == nil {
			panic("harness: an auth list citing the create event needs a room")
		}
		create := out.room.create.EventID()
		switch p.Auth {
		case "acl":
			pe.AuthEvents = []string{idOf("auth1", ver), create}
		case "acm":
			pe.AuthEvents = []string{idOf("auth1", ver), create, idOf("auth2", ver)}
		case "acx":
			pe.AuthEvents = []string{create, idOf("auth1", ver), create}
		}
	}
	// one field stretched to the limit (family len)
	long := func(prefix, suffix string, class string) string {
		switch class {
		case "b255":
			return prefix + strings.Repeat("x", 255-len(prefix)-len(suffix)) + suffix
		case "b256":
			return prefix + strings.Repeat("x", 256-len(prefix)-len(suffix)) + suffix
		case "cp255": // 255 code points, two bytes each where not ASCII
			return prefix + strings.Repeat("é", 255-len(prefix)-len(suffix)) + suffix
		}
		panic("harness: unknown length class " + class)
	}
	if p.Lim != "" && p.Lim != "none" {
		parts := strings.SplitN(p.Lim, "-", 2)
		switch parts[0] {
		case "sk":
			s := long("", "", parts[1])
			pe.StateKey = &s
		case "type":
			pe.Type = long("org.example.", "", parts[1])
		case "sender":
			pe.SenderID = long("@", ":"+hs1, parts[1])
		default:
			panic("harness: unknown limit token " + p.Lim)
		}
	}
	out.sp = p.spelling()
	out.signer = signerFor(ver, p.Origin, p.SigKey, out.sp)
	out.pe = pe
	return out
}

func (b *built) build(ver string) (gmsl.PDU, error) {
	impl := gmsl.MustGetRoomVersion(gmsl.RoomVersion(ver))
	if isDomainless(ver) && b.pe.Type == spec.MRoomCreate && b.pe.StateKey != nil && *b.pe.StateKey != "" && b.room != nil {
		return b.compose(impl)
	}
	return impl.NewEventBuilderFromProtoEvent(&b.pe).Build(b.now, spec.ServerName(b.signer.name), b.signer.key, b.signer.priv)
}

// compose: EventBuilder.Build of a domainless room version refuses every m.room.create-typed state event that
// carries a room ID, also those that are not the create event (non-empty state key). Such an event is built under
// a placeholder type, given its type, re-hashed (content hash of the specification) and signed with PDU.Sign:
// the same steps Build performs.
func (b *built) compose(impl gmsl.IRoomVersion) (gmsl.PDU, error) {
	pe := b.pe
	pe.Type = "org.example.placeholder"
	tmp, err := impl.NewEventBuilderFromProtoEvent(&pe).Build(b.now, spec.ServerName(b.signer.name), b.signer.key, b.signer.priv)
	if err != nil {
		return nil, err
	}
	var ev map[string]json.RawMessage
	if err := json.Unmarshal(tmp.JSON(), &ev); err != nil {
		return nil, err
	}
	ev["type"] = q(b.pe.Type)
	delete(ev, "signatures")
	ev["hashes"] = contentHash(ev)
	p, err := impl.NewEventFromTrustedJSON(marshalRawMap(ev), false)
	if err != nil {
		return nil, err
	}
	p = p.Sign(b.signer.name, b.signer.key, b.signer.priv)
	// as Build does: the result is what a parse of the final JSON gives
	return impl.NewEventFromTrustedJSON(append([]byte(nil), p.JSON()...), false)
}

// ---- JSON helpers -------------------------------------------------------------------------------------------

func decodeObj(b []byte) (map[string]interface{}, error) {
	d := json.NewDecoder(bytes.NewReader(b))
	d.UseNumber()
	var m map[string]interface{}
	if err := d.Decode(&m); err != nil {
		return nil, err
	}
	if d.More() {
		return nil, fmt.Errorf("trailing data after JSON object")
	}
	return m, nil
}

// sameJSON compares decoded JSON values; numbers by value.
func sameJSON(a, b interface{}) bool {
	switch x := a.(type) {
	case json.Number:
		y, ok := b.(json.Number)
		if !ok {
			return false
		}
		if x == y {
			return true
		}
		rx, ok1 := new(big.Rat).SetString(string(x))
		ry, ok2 := new(big.Rat).SetString(string(y))
		return ok1 && ok2 && rx.Cmp(ry) == 0
	case map[string]interface{}:
		y, ok := b.(map[string]interface{})
		if !ok || len(x) != len(y) {
			return false
		}
		for k, v := range x {
			w, ok := y[k]
			if !ok || !sameJSON(v, w) {
				return false
			}
		}
		return true
	case []interface{}:
		y, ok := b.([]interface{})
		if !ok || len(x) != len(y) {
			return false
		}
		for i := range x {
			if !sameJSON(x[i], y[i]) {
				return false
			}
		}
		return true
	}
	return reflect.DeepEqual(a, b)
}

func sameJSONBytes(a, b []byte) bool {
	var x, y interface{}
	da := json.NewDecoder(bytes.NewReader(a))
	da.UseNumber()
	db := json.NewDecoder(bytes.NewReader(b))
	db.UseNumber()
	if da.Decode(&x) != nil || db.Decode(&y) != nil {
		return false
	}
	return sameJSON(x, y)
}

// sameMembers compares two JSON texts as trees in which an object is the multiset of its (name, value) members: the
// comparison for texts that name a member twice (the usual decoders keep one copy only).
func sameMembers(a, b []byte) bool {
	x, ok1 := memberForm(a)
	y, ok2 := memberForm(b)
	return ok1 && ok2 && x == y
}

func memberForm(b []byte) (string, bool) {
	d := json.NewDecoder(bytes.NewReader(b))
	d.UseNumber()
	s, err := memberValue(d)
	if err != nil || d.More() {
		return "", false
	}
	return s, true
}

func memberValue(d *json.Decoder) (string, error) {
	t, err := d.Token()
	if err != nil {
		return "", err
	}
	switch v := t.(type) {
	case json.Delim:
		var parts []string
		if v == '{' {
			for d.More() {
				k, err := d.Token()
				if err != nil {
					return "", err
				}
				val, err := memberValue(d)
				if err != nil {
					return "", err
				}
				parts = append(parts, qs(k.(string))+":"+val)
			}
			if _, err := d.Token(); err != nil {
				return "", err
			}
			sort.Strings(parts)
			return "{" + strings.Join(parts, ",") + "}", nil
		}
		for d.More() {
			val, err := memberValue(d)
			if err != nil {
				return "", err
			}
			parts = append(parts, val)
		}
		if _, err := d.Token(); err != nil {
			return "", err
		}
		return "[" + strings.Join(parts, ",") + "]", nil
	case json.Number:
		if r, ok := new(big.Rat).SetString(string(v)); ok {
			return r.RatString(), nil
		}
		return string(v), nil
	case string:
		return qs(v), nil
	}
	return fmt.Sprint(t), nil
}

func keysOf(m map[string]interface{}) []string {
	out := make([]string, 0, len(m))
	for k := range m {
		out = append(out, k)
	}
	sort.Strings(out)
	return out
}

func sorted(xs []string) []string { o := append([]string{}, xs...); sort.Strings(o); return o }

func setOf(xs []string) map[string]bool {
	s := map[string]bool{}
	for _, x := range xs {
		s[x] = true
	}
	return s
}

// firstDiff returns the first key (sorted) on which the two sets differ and whether `want` has it.
func firstDiff(want, got map[string]bool) (string, bool, bool) {
	var all []string
	for k := range want {
		all = append(all, k)
	}
	for k := range got {
		if !want[k] {
			all = append(all, k)
		}
	}
	sort.Strings(all)
	for _, k := range all {
		if want[k] != got[k] {
			return k, want[k], true
		}
	}
	return "", false, false
}

// contentHash recomputes the `hashes` value the specification prescribes for an event (harness's own
// computation: canonical JSON of the event without signatures / unsigned / hashes).
func contentHash(ev map[string]json.RawMessage) json.RawMessage {
	c := map[string]json.RawMessage{}
	for k, v := range ev {
		if k != "signatures" && k != "unsigned" && k != "hashes" {
			c[k] = v
		}
	}
	canon, err := gmsl.CanonicalJSON(marshalRawMap(c))
	if err != nil {
		panic(fmt.Sprintf("harness: canonical JSON of composed event: %v", err))
	}
	return json.RawMessage(`{"sha256":"` + base64.RawStdEncoding.EncodeToString(sha256sum(canon)) + `"}`)
}

// ---- scripted verifier -------------------------------------------------------------------------------------

// scriptedVerifier answers VerifyJSONs from a fixed table of signers (no key server involved).
type scriptedVerifier struct{ signers []signer }

func (v scriptedVerifier) VerifyJSONs(_ context.Context, reqs []gmsl.VerifyJSONRequest) ([]gmsl.VerifyJSONResult, error) {
	out := make([]gmsl.VerifyJSONResult, len(reqs))
	for i, rq := range reqs {
		out[i].Error = fmt.Errorf("no key known for %q", rq.ServerName)
		for _, s := range v.signers {
			if s.name == string(rq.ServerName) {
				if err := gmsl.VerifyJSON(s.name, s.key, s.pub, rq.Message); err == nil {
					out[i].Error = nil
					break
				} else {
					out[i].Error = err
				}
			}
		}
	}
	return out, nil
}

func identityQuerier(_ spec.RoomID, senderID spec.SenderID) (*spec.UserID, error) {
	return spec.NewUserID(string(senderID), true)
}
