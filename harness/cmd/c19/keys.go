package main

// Replay of KeyFetchPool_gen.tla against the real DirectKeyFetcher.FetchKeys: a gated KeyClient is the
// scheduler.  Every GetServerKeys / LookupServerKeys call announces itself and blocks until the schedule
// releases it with the outcome the model chose ("ok", "err", "bad" = fails CheckKeys, "missing" = notary answer
// without the server).  The completion order is the order of the releases.  A release is a channel rendezvous;
// after a failed direct fetch the arrival of the notary fetch of the same server acknowledges the step.  The
// merges themselves run with real concurrency (that is the point of running this under -race); the returned
// map must equal the local keys plus the keys of exactly the servers the model lists as succeeded.

import (
	"context"
	"crypto/ed25519"
	"crypto/sha256"
	"encoding/json"
	"errors"
	"fmt"
	"sort"
	"strings"
	"sync"
	"time"

	gmsl "github.com/matrix-org/gomatrixserverlib"
	"github.com/matrix-org/gomatrixserverlib/spec"

	"verifharness/hx"
)

type keysStep struct {
	S     string `json:"s"`
	Stage string `json:"stage"`
	O     string `json:"o"`
}

type keysSched struct {
	Servers []string   `json:"servers"`
	Local   bool       `json:"local"`
	KeyIDs  []string   `json:"keyids"`
	Steps   []keysStep `json:"steps"`
	Succ    []string   `json:"succ"`
}

// serverIdentity is the deterministic signing identity of a model server.
type serverIdentity struct {
	name spec.ServerName
	keys map[gmsl.KeyID]ed25519.PrivateKey
	old  gmsl.KeyID
	resp gmsl.ServerKeys // valid, signed key response
	bad  gmsl.ServerKeys // the same response with one signature byte flipped (fails CheckKeys)
}

var (
	identMu sync.Mutex
	idents  = map[string]*serverIdentity{}
)

const farFuture = spec.Timestamp(4102444800000) // 2100-01-01

func seedKey(parts ...string) ed25519.PrivateKey {
	h := sha256.Sum256([]byte(strings.Join(parts, "|")))
	return ed25519.NewKeyFromSeed(h[:])
}

// identity builds (once) the key response of a model server: one current key per model key ID and one old key.
func identity(server string, keyIDs []string) *serverIdentity {
	id := server + "/" + strings.Join(keyIDs, ",")
	identMu.Lock()
	defer identMu.Unlock()
	if s := idents[id]; s != nil {
		return s
	}
	s := &serverIdentity{name: spec.ServerName(server + ".c19.test"), keys: map[gmsl.KeyID]ed25519.PrivateKey{}}
	fields := gmsl.ServerKeyFields{
		ServerName:    s.name,
		VerifyKeys:    map[gmsl.KeyID]gmsl.VerifyKey{},
		ValidUntilTS:  farFuture,
		OldVerifyKeys: map[gmsl.KeyID]gmsl.OldVerifyKey{},
	}
	for _, k := range keyIDs {
		kid := gmsl.KeyID("ed25519:" + k)
		priv := seedKey(server, k)
		s.keys[kid] = priv
		fields.VerifyKeys[kid] = gmsl.VerifyKey{Key: spec.Base64Bytes(priv.Public().(ed25519.PublicKey))}
	}
	s.old = gmsl.KeyID("ed25519:old")
	oldPriv := seedKey(server, "old")
	fields.OldVerifyKeys[s.old] = gmsl.OldVerifyKey{
		VerifyKey: gmsl.VerifyKey{Key: spec.Base64Bytes(oldPriv.Public().(ed25519.PublicKey))},
		ExpiredTS: 1000,
	}
	js, err := json.Marshal(fields)
	if err != nil {
		panic(err)
	}
	for _, kid := range sortedKeyIDs(s.keys) {
		if js, err = gmsl.SignJSON(string(s.name), kid, s.keys[kid], js); err != nil {
			panic(err)
		}
	}
	if err = json.Unmarshal(js, &s.resp); err != nil {
		panic(err)
	}
	// a response whose verify key does not match its signature
	badFields := fields
	badFields.VerifyKeys = map[gmsl.KeyID]gmsl.VerifyKey{}
	for kid := range fields.VerifyKeys {
		other := seedKey(server, string(kid), "other")
		badFields.VerifyKeys[kid] = gmsl.VerifyKey{Key: spec.Base64Bytes(other.Public().(ed25519.PublicKey))}
	}
	bjs, _ := json.Marshal(badFields)
	for _, kid := range sortedKeyIDs(s.keys) {
		if bjs, err = gmsl.SignJSON(string(s.name), kid, s.keys[kid], bjs); err != nil {
			panic(err)
		}
	}
	if err = json.Unmarshal(bjs, &s.bad); err != nil {
		panic(err)
	}
	idents[id] = s
	return s
}

func sortedKeyIDs(m map[gmsl.KeyID]ed25519.PrivateKey) []gmsl.KeyID {
	var out []gmsl.KeyID
	for k := range m {
		out = append(out, k)
	}
	sort.Slice(out, func(i, j int) bool { return out[i] < out[j] })
	return out
}

// expectedKeys is what a successful fetch of the server contributes to the result map.
func (s *serverIdentity) expectedKeys() map[gmsl.PublicKeyLookupRequest]gmsl.PublicKeyLookupResult {
	out := map[gmsl.PublicKeyLookupRequest]gmsl.PublicKeyLookupResult{}
	for kid, vk := range s.resp.VerifyKeys {
		out[gmsl.PublicKeyLookupRequest{ServerName: s.name, KeyID: kid}] = gmsl.PublicKeyLookupResult{
			VerifyKey: vk, ValidUntilTS: s.resp.ValidUntilTS, ExpiredTS: gmsl.PublicKeyNotExpired}
	}
	for kid, ok := range s.resp.OldVerifyKeys {
		out[gmsl.PublicKeyLookupRequest{ServerName: s.name, KeyID: kid}] = gmsl.PublicKeyLookupResult{
			VerifyKey: ok.VerifyKey, ValidUntilTS: gmsl.PublicKeyNotValid, ExpiredTS: ok.ExpiredTS}
	}
	return out
}

type keyGateEvent struct {
	server string
	stage  string
}

// gatedKeyClient implements gomatrixserverlib.KeyClient.
type gatedKeyClient struct {
	ids     map[spec.ServerName]*serverIdentity
	arrive  chan keyGateEvent
	release map[string]chan string // "<server>/<stage>" -> outcome
}

func (g *gatedKeyClient) gate(server spec.ServerName, stage string) (*serverIdentity, string) {
	s := g.ids[server]
	if s == nil {
		return nil, "err"
	}
	short := strings.TrimSuffix(string(server), ".c19.test")
	g.arrive <- keyGateEvent{short, stage}
	return s, <-g.release[short+"/"+stage]
}

func (g *gatedKeyClient) GetServerKeys(ctx context.Context, server spec.ServerName) (gmsl.ServerKeys, error) {
	s, o := g.gate(server, "direct")
	switch o {
	case "ok":
		return s.resp, nil
	case "bad":
		return s.bad, nil
	default:
		return gmsl.ServerKeys{}, errors.New("c19: scripted GetServerKeys failure")
	}
}

func (g *gatedKeyClient) LookupServerKeys(ctx context.Context, server spec.ServerName, _ map[gmsl.PublicKeyLookupRequest]spec.Timestamp) ([]gmsl.ServerKeys, error) {
	s, o := g.gate(server, "notary")
	switch o {
	case "ok":
		return []gmsl.ServerKeys{s.resp}, nil
	case "bad":
		return []gmsl.ServerKeys{s.bad}, nil
	case "missing":
		var others []gmsl.ServerKeys
		for n, x := range g.ids {
			if n != server {
				others = append(others, x.resp)
			}
		}
		return others, nil
	default:
		return nil, errors.New("c19: scripted LookupServerKeys failure")
	}
}

func keysFail(key, format string, a ...interface{}) hx.Result {
	return hx.Result{OK: false, Key: "C19/keys/" + key, What: fmt.Sprintf(format, a...)}
}

func keysReplay(raw json.RawMessage) hx.Result {
	var sc keysSched
	if err := json.Unmarshal(raw, &sc); err != nil {
		panic(err)
	}
	sort.Strings(sc.KeyIDs)
	g := &gatedKeyClient{ids: map[spec.ServerName]*serverIdentity{}, arrive: make(chan keyGateEvent), release: map[string]chan string{}}
	requests := map[gmsl.PublicKeyLookupRequest]spec.Timestamp{}
	for _, sv := range sc.Servers {
		id := identity(sv, sc.KeyIDs)
		g.ids[id.name] = id
		g.release[sv+"/direct"] = make(chan string)
		g.release[sv+"/notary"] = make(chan string)
		for kid := range id.keys {
			requests[gmsl.PublicKeyLookupRequest{ServerName: id.name, KeyID: kid}] = 1
		}
	}
	localName := spec.ServerName("local.c19.test")
	localPub := spec.Base64Bytes(seedKey("local").Public().(ed25519.PublicKey))
	if sc.Local {
		for _, k := range sc.KeyIDs {
			requests[gmsl.PublicKeyLookupRequest{ServerName: localName, KeyID: gmsl.KeyID("ed25519:" + k)}] = 1
		}
	}
	fetcher := &gmsl.DirectKeyFetcher{
		Client:            g,
		IsLocalServerName: func(s spec.ServerName) bool { return s == localName },
		LocalPublicKey:    localPub,
	}
	type fetchResult struct {
		res map[gmsl.PublicKeyLookupRequest]gmsl.PublicKeyLookupResult
		err error
	}
	done := make(chan fetchResult, 1)
	go func() {
		res, err := fetcher.FetchKeys(context.Background(), requests)
		done <- fetchResult{res, err}
	}()
	timeout := time.After(stepTimeout)
	awaitArrival := func(at map[string]bool) *hx.Result {
		select {
		case ev := <-g.arrive:
			at[ev.server+"/"+ev.stage] = true
			return nil
		case <-timeout:
			r := keysFail("no-progress", "the worker pool did not reach its next KeyClient call within %v", stepTimeout)
			return &r
		}
	}
	at := map[string]bool{}
	// one worker per server: all direct fetches are in flight before the first completes
	for len(at) < len(sc.Servers) {
		if r := awaitArrival(at); r != nil {
			return *r
		}
	}
	for _, sv := range sc.Servers {
		if !at[sv+"/direct"] {
			return keysFail("step-outcome", "no direct fetch for server %s was started; in flight: %v", sv, sortedKeys(at))
		}
	}
	classes := map[string]bool{}
	for i, st := range sc.Steps {
		k := st.S + "/" + st.Stage
		if !at[k] {
			return keysFail("step-outcome", "step %d: model completes the %s fetch of %s but the code has no such call in flight (%v)", i, st.Stage, st.S, sortedKeys(at))
		}
		delete(at, k)
		g.release[k] <- st.O
		classes[st.Stage+"="+st.O] = true
		if st.Stage == "direct" && st.O != "ok" {
			for !at[st.S+"/notary"] {
				if r := awaitArrival(at); r != nil {
					return *r
				}
			}
		}
	}
	var fr fetchResult
	select {
	case fr = <-done:
	case ev := <-g.arrive:
		return keysFail("step-outcome", "after the last scheduled completion the code starts another %s fetch of %s", ev.stage, ev.server)
	case <-timeout:
		return keysFail("no-progress", "FetchKeys did not return within %v after all KeyClient calls completed", stepTimeout)
	}
	if fr.err != nil {
		return keysFail("result", "FetchKeys returned error %v", fr.err)
	}
	want := map[gmsl.PublicKeyLookupRequest]gmsl.PublicKeyLookupResult{}
	for _, sv := range sc.Succ {
		for k, v := range identity(sv, sc.KeyIDs).expectedKeys() {
			want[k] = v
		}
	}
	if sc.Local {
		for _, k := range sc.KeyIDs {
			want[gmsl.PublicKeyLookupRequest{ServerName: localName, KeyID: gmsl.KeyID("ed25519:" + k)}] = gmsl.PublicKeyLookupResult{
				VerifyKey: gmsl.VerifyKey{Key: localPub}, ExpiredTS: gmsl.PublicKeyNotExpired, ValidUntilTS: spec.AsTimestamp(time.Unix(1<<37, 0))}
		}
	}
	if d := diffKeyMaps(want, fr.res); d != "" {
		return keysFail("result", "completion order %s, servers succeeded %v: result differs from the union of the per-server results: %s", showKeySteps(sc.Steps), sc.Succ, d)
	}
	return hx.Result{OK: true, NT: fmt.Sprintf("n=%d succ=%d %s", len(sc.Servers), len(sc.Succ), strings.Join(sortedKeys(classes), " "))}
}

func showKeySteps(st []keysStep) string {
	var out []string
	for _, s := range st {
		out = append(out, s.S+"/"+s.Stage+"="+s.O)
	}
	return strings.Join(out, ",")
}

func diffKeyMaps(want, got map[gmsl.PublicKeyLookupRequest]gmsl.PublicKeyLookupResult) string {
	var out []string
	for k, w := range want {
		g, ok := got[k]
		if !ok {
			out = append(out, fmt.Sprintf("missing %s/%s", k.ServerName, k.KeyID))
		} else if string(g.Key) != string(w.Key) || g.ValidUntilTS != w.ValidUntilTS || g.ExpiredTS != w.ExpiredTS {
			out = append(out, fmt.Sprintf("wrong value for %s/%s", k.ServerName, k.KeyID))
		}
	}
	for k := range got {
		if _, ok := want[k]; !ok {
			out = append(out, fmt.Sprintf("unexpected %s/%s", k.ServerName, k.KeyID))
		}
	}
	sort.Strings(out)
	return strings.Join(out, "; ")
}

// ---------------------------------------------------------------- pool boundary sizes
//
// c19keysizes: one FetchKeys call over N distinct remote servers (N around the worker limit of 64) with a
// scripted KeyClient that answers at once (it never blocks and never sleeps).  The outcome of every server is
// a function of its index and the pattern number.  The result must be the union of the per-server successes.
// A call that has not returned after sizeBound although every KeyClient call that was started has returned
// cannot make progress any more: it is reported as a deadlock.  (The whole operation takes milliseconds;
// sizeBound is four orders of magnitude above that.)

const sizeBound = 60 * time.Second

type sizesRec struct {
	N       int `json:"n"`
	Pattern int `json:"pattern"`
	Local   int `json:"local"` // number of key IDs also requested for the local server (answered without the pool)
}

// sizeOutcome returns the scripted (direct, notary) outcomes of server number i.
func sizeOutcome(i, pattern int) (string, string) {
	switch (i*7 + pattern*3) % 11 {
	case 0, 5:
		return "err", "err"
	case 1:
		return "bad", "ok"
	case 2:
		return "err", "missing"
	case 3:
		return "err", "ok"
	case 4:
		return "bad", "bad"
	default:
		return "ok", ""
	}
}

type countingKeyClient struct {
	ids      map[spec.ServerName]*serverIdentity
	idx      map[spec.ServerName]int
	pattern  int
	mu       sync.Mutex
	entered  int
	returned int
}

func (c *countingKeyClient) enter() {
	c.mu.Lock()
	c.entered++
	c.mu.Unlock()
}

func (c *countingKeyClient) leave() {
	c.mu.Lock()
	c.returned++
	c.mu.Unlock()
}

func (c *countingKeyClient) GetServerKeys(_ context.Context, s spec.ServerName) (gmsl.ServerKeys, error) {
	c.enter()
	defer c.leave()
	d, _ := sizeOutcome(c.idx[s], c.pattern)
	switch d {
	case "ok":
		return c.ids[s].resp, nil
	case "bad":
		return c.ids[s].bad, nil
	}
	return gmsl.ServerKeys{}, errors.New("c19: scripted GetServerKeys failure")
}

func (c *countingKeyClient) LookupServerKeys(_ context.Context, s spec.ServerName, _ map[gmsl.PublicKeyLookupRequest]spec.Timestamp) ([]gmsl.ServerKeys, error) {
	c.enter()
	defer c.leave()
	_, n := sizeOutcome(c.idx[s], c.pattern)
	switch n {
	case "ok":
		return []gmsl.ServerKeys{c.ids[s].resp}, nil
	case "bad":
		return []gmsl.ServerKeys{c.ids[s].bad}, nil
	case "missing":
		return []gmsl.ServerKeys{}, nil
	}
	return nil, errors.New("c19: scripted LookupServerKeys failure")
}

func sizesReplay(raw json.RawMessage) hx.Result {
	var rec sizesRec
	if err := json.Unmarshal(raw, &rec); err != nil {
		panic(err)
	}
	keyIDs := []string{"k1", "k2"}
	client := &countingKeyClient{ids: map[spec.ServerName]*serverIdentity{}, idx: map[spec.ServerName]int{}, pattern: rec.Pattern}
	requests := map[gmsl.PublicKeyLookupRequest]spec.Timestamp{}
	want := map[gmsl.PublicKeyLookupRequest]gmsl.PublicKeyLookupResult{}
	nSucc := 0
	for i := 0; i < rec.N; i++ {
		id := identity(fmt.Sprintf("n%03d", i), keyIDs)
		client.ids[id.name], client.idx[id.name] = id, i
		for kid := range id.keys {
			requests[gmsl.PublicKeyLookupRequest{ServerName: id.name, KeyID: kid}] = 1
		}
		if d, n := sizeOutcome(i, rec.Pattern); d == "ok" || n == "ok" {
			nSucc++
			for k, v := range id.expectedKeys() {
				want[k] = v
			}
		}
	}
	localName := spec.ServerName("local.c19.test")
	localPub := spec.Base64Bytes(seedKey("local").Public().(ed25519.PublicKey))
	for i := 0; i < rec.Local; i++ {
		k := gmsl.PublicKeyLookupRequest{ServerName: localName, KeyID: gmsl.KeyID(fmt.Sprintf("ed25519:l%d", i))}
		requests[k] = 1
		want[k] = gmsl.PublicKeyLookupResult{VerifyKey: gmsl.VerifyKey{Key: localPub}, ExpiredTS: gmsl.PublicKeyNotExpired,
			ValidUntilTS: spec.AsTimestamp(time.Unix(1<<37, 0))}
	}
	fetcher := &gmsl.DirectKeyFetcher{Client: client, IsLocalServerName: func(s spec.ServerName) bool { return s == localName }, LocalPublicKey: localPub}
	type fetchResult struct {
		res map[gmsl.PublicKeyLookupRequest]gmsl.PublicKeyLookupResult
		err error
	}
	done := make(chan fetchResult, 1)
	begin := time.Now()
	go func() {
		res, err := fetcher.FetchKeys(context.Background(), requests)
		done <- fetchResult{res, err}
	}()
	class := "servers<=64"
	if rec.N > 64 {
		class = "servers>64"
	}
	var fr fetchResult
	select {
	case fr = <-done:
	case <-time.After(sizeBound):
		client.mu.Lock()
		entered, returned := client.entered, client.returned
		client.mu.Unlock()
		if entered == returned {
			return keysFail("deadlock/"+class, "FetchKeys over %d distinct servers has not returned after %v although all %d KeyClient calls it started have returned (instant scripted client): the worker pool is deadlocked", rec.N, sizeBound, entered)
		}
		return keysFail("no-progress/"+class, "FetchKeys over %d distinct servers has not returned after %v; %d of %d KeyClient calls returned", rec.N, sizeBound, returned, entered)
	}
	took := time.Since(begin)
	if fr.err != nil {
		return keysFail("result", "FetchKeys over %d servers returned error %v", rec.N, fr.err)
	}
	if d := diffKeyMaps(want, fr.res); d != "" {
		if len(d) > 600 {
			d = d[:600] + " ..."
		}
		return keysFail("result/"+class, "FetchKeys over %d distinct servers (%d succeed): result differs from the union of the per-server results: %s", rec.N, nSucc, d)
	}
	return hx.Result{OK: true, NT: fmt.Sprintf("sizes n=%d succ=%d local=%d", rec.N, nSucc, rec.Local), Extra: map[string]interface{}{"ms": took.Milliseconds()}}
}
