package main

// c19batches: replay of KeyFetchBatches_gen.tla (several overlapping FetchKeys batches on ONE DirectKeyFetcher,
// callers that go away) and of the context schedules of KeyFetchPool_gen.tla (one batch whose context is
// cancelled before / during the call or past its deadline), plus the context cases of the pool-size and
// KeyRing.VerifyJSONs families.
//
// The KeyClient is gated per (batch, server, stage): a call made under a live context announces itself and waits
// for the schedule to release it with the answer of the server; a call made under a context that is done (the
// CALLER's context - the 15 s per-request timeout the library derives from it is never allowed to fire) fails at
// once with the context's error, as a real client does.
//
// The command processes one record at a time (Par = 1), which makes "nothing can happen any more" decidable
// without a clock: quiescent() looks at a goroutine dump of the process and reports whether every goroutine but
// the replay itself is parked (channel, select, semaphore, mutex).  It is used for two things:
//   - deadlock: FetchKeys / VerifyJSONs has not returned, no KeyClient call is waiting to be released and every
//     goroutine is parked - nothing will ever wake them (there are no timers in play: see above);
//   - tolerance: a KeyClient call of the model that the code has not made by the time everything is parked will
//     not be made (an implementation may ask a server once for two batches); the step is skipped and only the
//     RESULT of every batch is judged: local keys + exactly the keys of the servers the model lists.

import (
	"bytes"
	"context"
	"crypto/ed25519"
	"encoding/json"
	"errors"
	"fmt"
	"runtime"
	"sort"
	"strings"
	"sync"
	"time"

	gmsl "github.com/matrix-org/gomatrixserverlib"
	"github.com/matrix-org/gomatrixserverlib/spec"

	"verifharness/hx"
)

type bStep struct {
	B     string `json:"b"`
	S     string `json:"s"`
	Stage string `json:"stage"` // start | cancel | direct | notary
	O     string `json:"o"`     // direct / notary: the answer; cancel: "cancel" | "deadline" (deadline: before the start only)
}

type bSched struct {
	Kind   string              `json:"kind"` // "" (schedule) | sizes | verify
	Req    map[string][]string `json:"req"`
	Steps  []bStep             `json:"steps"`
	Out    map[string][]string `json:"out"`
	Local  bool                `json:"local"`
	KeyIDs []string            `json:"keyids"`
	Mode   string              `json:"mode"` // single batch: live | before | deadline | mid (for the key of a failure)
	// sizes / verify
	N        int `json:"n"`
	Pattern  int `json:"pattern"`
	CancelAt int `json:"cancel_at"` // mode mid: the context is cancelled inside KeyClient call number cancel_at
}

type batchKey struct{}

// quiescent reports whether every goroutine of the process except the caller is parked - in two dumps in a row.
func quiescent(bufp *[]byte) bool {
	q, _ := quiescentDump(bufp)
	return q
}

// quiescentDump is quiescent that also returns the (second) dump it judged.
func quiescentDump(bufp *[]byte) (bool, []byte) {
	if q, dump := allParked(bufp); !q {
		return false, dump
	}
	runtime.Gosched()
	time.Sleep(200 * time.Microsecond)
	return allParked(bufp)
}

// allParked takes one goroutine dump (the world is stopped while it is taken, so it is a consistent cut) and tells
// whether every goroutine but the caller waits for ANOTHER GOROUTINE: channel operation, select, sync.Mutex /
// RWMutex / Cond, or a semaphore of package sync (WaitGroup.Wait).  A goroutine shown as "semacquire" without a
// sync frame on top waits inside the runtime (for the collector, or for this very dump to finish): not parked.
func allParked(bufp *[]byte) (bool, []byte) {
	if *bufp == nil {
		*bufp = make([]byte, 256<<10)
	}
	var dump []byte
	for {
		n := runtime.Stack(*bufp, true)
		if n < len(*bufp) {
			dump = (*bufp)[:n]
			break
		}
		*bufp = make([]byte, 2*len(*bufp))
	}
	for i, g := range bytes.Split(dump, []byte("\n\n")) {
		if i == 0 {
			continue // the caller
		}
		if !bytes.HasPrefix(g, []byte("goroutine ")) {
			return false, dump
		}
		open, end := bytes.IndexByte(g, '['), bytes.IndexByte(g, ']')
		nl := bytes.IndexByte(g, '\n')
		if open < 0 || end < open || nl < end {
			return false, dump
		}
		state := string(g[open+1 : end])
		top := g[nl+1:]
		parked := false
		switch {
		case strings.HasPrefix(state, "semacquire"):
			parked = bytes.HasPrefix(top, []byte("sync.runtime_Semacquire"))
		default:
			for _, p := range []string{"chan receive", "chan send", "select", "sync."} {
				if strings.HasPrefix(state, p) {
					parked = true
				}
			}
		}
		if !parked {
			return false, dump
		}
	}
	return true, dump
}

// parkedSummary lists where the goroutines of the last dump are parked: "<n>x <state> in <innermost library function>".
func parkedSummary(dump []byte) string {
	count := map[string]int{}
	for i, g := range bytes.Split(dump, []byte("\n\n")) {
		if i == 0 {
			continue
		}
		open, end := bytes.IndexByte(g, '['), bytes.IndexByte(g, ']')
		if open < 0 || end < open {
			continue
		}
		fn := innermostLibFunc(g)
		if fn == "none" {
			continue
		}
		count[string(g[open+1:end])+" in "+fn]++
	}
	var out []string
	for k, n := range count {
		out = append(out, fmt.Sprintf("%dx %s", n, k))
	}
	sort.Strings(out)
	return strings.Join(out, "; ")
}

type bEvent struct{ b, s, stage string }

type batchClient struct {
	ids     map[spec.ServerName]*serverIdentity
	parent  map[string]context.Context
	arrive  chan bEvent
	mu      sync.Mutex
	release map[string]chan string
}

func (g *batchClient) rel(key string) chan string {
	g.mu.Lock()
	defer g.mu.Unlock()
	if g.release[key] == nil {
		g.release[key] = make(chan string)
	}
	return g.release[key]
}

func (g *batchClient) gate(ctx context.Context, server spec.ServerName, stage string) (*serverIdentity, string, error) {
	b, _ := ctx.Value(batchKey{}).(string)
	parent := g.parent[b]
	s := g.ids[server]
	if s == nil || parent == nil {
		return nil, "err", errors.New("c19: KeyClient called for an unknown server / batch")
	}
	if parent.Err() != nil {
		return nil, "ctx", parent.Err()
	}
	short := strings.TrimSuffix(string(server), ".c19.test")
	select {
	case g.arrive <- bEvent{b, short, stage}:
	case <-parent.Done():
		return nil, "ctx", parent.Err()
	}
	select {
	case o := <-g.rel(b + "/" + short + "/" + stage):
		return s, o, nil
	case <-parent.Done():
		return nil, "ctx", parent.Err()
	}
}

func (g *batchClient) GetServerKeys(ctx context.Context, server spec.ServerName) (gmsl.ServerKeys, error) {
	s, o, err := g.gate(ctx, server, "direct")
	switch o {
	case "ok":
		return s.resp, nil
	case "bad":
		return s.bad, nil
	case "ctx":
		return gmsl.ServerKeys{}, err
	default:
		return gmsl.ServerKeys{}, errors.New("c19: scripted GetServerKeys failure")
	}
}

func (g *batchClient) LookupServerKeys(ctx context.Context, server spec.ServerName, _ map[gmsl.PublicKeyLookupRequest]spec.Timestamp) ([]gmsl.ServerKeys, error) {
	s, o, err := g.gate(ctx, server, "notary")
	switch o {
	case "ok":
		return []gmsl.ServerKeys{s.resp}, nil
	case "bad":
		return []gmsl.ServerKeys{s.bad}, nil
	case "missing":
		var others []gmsl.ServerKeys
		for n, x := range g.ids {
			if n != server {
				others = append(others, x.resp)
			}
		}
		return others, nil
	case "ctx":
		return nil, err
	default:
		return nil, errors.New("c19: scripted LookupServerKeys failure")
	}
}

type fetchOutcome struct {
	res map[gmsl.PublicKeyLookupRequest]gmsl.PublicKeyLookupResult
	err error
	pan string
}

func batchesReplay(raw json.RawMessage) hx.Result {
	var sc bSched
	if err := json.Unmarshal(raw, &sc); err != nil {
		panic(err)
	}
	switch sc.Kind {
	case "sizes":
		return ctxSizesReplay(sc)
	case "verify":
		return ctxVerifyReplay(sc)
	}
	if len(sc.KeyIDs) == 0 {
		sc.KeyIDs = []string{"k1", "k2"}
	}
	sort.Strings(sc.KeyIDs)
	var batches []string
	for b := range sc.Req {
		batches = append(batches, b)
	}
	sort.Strings(batches)
	g := &batchClient{ids: map[spec.ServerName]*serverIdentity{}, parent: map[string]context.Context{}, arrive: make(chan bEvent), release: map[string]chan string{}}
	cancels := map[string]context.CancelFunc{}
	// contexts: one per batch; a batch whose context is past its deadline before the start gets such a context
	started, gone := map[string]bool{}, map[string]string{}
	for _, st := range sc.Steps {
		if st.Stage == "start" {
			started[st.B] = true
		}
		if st.Stage == "cancel" && st.O == "deadline" && !started[st.B] {
			gone[st.B] = "deadline"
		}
	}
	for _, b := range batches {
		base := context.WithValue(context.Background(), batchKey{}, b)
		if gone[b] == "deadline" {
			g.parent[b], cancels[b] = context.WithDeadline(base, time.Now().Add(-time.Hour))
		} else {
			g.parent[b], cancels[b] = context.WithCancel(base)
		}
		defer cancels[b]()
	}
	requests := map[string]map[gmsl.PublicKeyLookupRequest]spec.Timestamp{}
	localName := spec.ServerName("local.c19.test")
	localPub := spec.Base64Bytes(seedKey("local").Public().(ed25519.PublicKey))
	for _, b := range batches {
		requests[b] = map[gmsl.PublicKeyLookupRequest]spec.Timestamp{}
		for _, sv := range sc.Req[b] {
			id := identity(sv, sc.KeyIDs)
			g.ids[id.name] = id
			for kid := range id.keys {
				requests[b][gmsl.PublicKeyLookupRequest{ServerName: id.name, KeyID: kid}] = 1
			}
		}
		if sc.Local {
			for _, k := range sc.KeyIDs {
				requests[b][gmsl.PublicKeyLookupRequest{ServerName: localName, KeyID: gmsl.KeyID("ed25519:" + k)}] = 1
			}
		}
	}
	fetcher := &gmsl.DirectKeyFetcher{
		Client:            g,
		IsLocalServerName: func(s spec.ServerName) bool { return s == localName },
		LocalPublicKey:    localPub,
	}

	// canonical situation of the record, for the key of a failure
	situation := func(b string) string {
		if len(batches) == 1 {
			m := sc.Mode
			if m == "" {
				m = "live"
			}
			return "ctx=" + m
		}
		me := "live-caller"
		if g.parent[b].Err() != nil {
			me = "caller-gone"
		}
		others := "other-callers-live"
		for _, x := range batches {
			if x != b && g.parent[x].Err() != nil {
				others = "another-caller-gone"
			}
		}
		return "overlap/" + me + "/" + others
	}
	fail := func(b, what, format string, a ...interface{}) hx.Result {
		return hx.Result{OK: false, Key: "C19/keys/" + what + "/" + situation(b), What: fmt.Sprintf(format, a...) + " [schedule: " + showBatchSteps(sc.Steps) + "]"}
	}

	done := map[string]chan fetchOutcome{}
	at := map[string]bool{} // KeyClient calls in flight: "<batch>/<server>/<stage>"
	var dumpBuf []byte
	watchdog := time.After(stepTimeout)
	note := func(ev bEvent) {
		if g.parent[ev.b].Err() == nil {
			at[ev.b+"/"+ev.s+"/"+ev.stage] = true
		}
	}
	// await waits until the calls in `want` are in flight or nothing can happen any more; false = watchdog
	await := func(want []string) bool {
		for {
			missing := false
			for _, k := range want {
				if !at[k] {
					missing = true
				}
			}
			if !missing {
				return true
			}
			select {
			case ev := <-g.arrive:
				note(ev)
				continue
			case <-watchdog:
				return false
			default:
			}
			if quiescent(&dumpBuf) {
				select {
				case ev := <-g.arrive:
					note(ev)
					continue
				default:
					return true // the call is not going to be made
				}
			}
			time.Sleep(100 * time.Microsecond)
		}
	}
	classes := map[string]bool{}
	skipped := 0
	startedNow := map[string]bool{}
	for i, st := range sc.Steps {
		switch st.Stage {
		case "start":
			b := st.B
			ch := make(chan fetchOutcome, 1)
			done[b] = ch
			ctxOf, reqOf := g.parent[b], requests[b]
			startedNow[b] = true
			go func() {
				var out fetchOutcome
				defer func() {
					if e := recover(); e != nil {
						out.pan = fmt.Sprint(e)
					}
					ch <- out
				}()
				out.res, out.err = fetcher.FetchKeys(ctxOf, reqOf)
			}()
			var want []string
			if g.parent[b].Err() == nil {
				for _, sv := range sc.Req[b] {
					want = append(want, b+"/"+sv+"/direct")
				}
			}
			if !await(want) {
				return fail(b, "no-progress", "step %d: batch %s did not reach its KeyClient calls within %v", i, b, stepTimeout)
			}
			if g.parent[b].Err() != nil {
				classes["start-under-done-context"] = true
			} else if len(batches) > 1 && len(startedNow) > 1 {
				classes["start-while-another-batch-is-in-flight"] = true
			}
		case "cancel":
			if st.O == "deadline" {
				classes["deadline-before"] = true
				continue // the context was created past its deadline
			}
			cancels[st.B]()
			for k := range at {
				if strings.HasPrefix(k, st.B+"/") {
					delete(at, k)
				}
			}
			if startedNow[st.B] {
				classes["cancel-in-flight"] = true
			} else {
				classes["cancel-before"] = true
			}
		case "direct", "notary":
			k := st.B + "/" + st.S + "/" + st.Stage
			if !await([]string{k}) {
				return fail(st.B, "no-progress", "step %d: nothing happened for %v", i, stepTimeout)
			}
			if !at[k] {
				skipped++ // the code does not make this call (see the head of the file): judged by the result
				continue
			}
			delete(at, k)
			select {
			case g.rel(k) <- st.O:
			case <-watchdog:
				return fail(st.B, "no-progress", "step %d: the %s call for %s of batch %s was announced but never waited for its answer", i, st.Stage, st.S, st.B)
			}
			classes[st.Stage+"="+st.O] = true
			if st.Stage == "direct" && st.O != "ok" {
				if !await([]string{st.B + "/" + st.S + "/notary"}) {
					return fail(st.B, "no-progress", "step %d: nothing happened for %v", i, stepTimeout)
				}
			}
		default:
			panic("unknown step stage " + st.Stage)
		}
	}
	// every started batch returns: the result of each, or the deadlock
	results := map[string]fetchOutcome{}
	for _, b := range batches {
		if !startedNow[b] {
			continue
		}
	wait:
		for {
			select {
			case r := <-done[b]:
				results[b] = r
				break wait
			case ev := <-g.arrive:
				if g.parent[ev.b].Err() != nil {
					continue
				}
				return fail(ev.b, "step-outcome", "after the last scheduled completion the code starts another %s fetch of %s for batch %s", ev.stage, ev.s, ev.b)
			case <-watchdog:
				return fail(b, "no-progress", "FetchKeys of batch %s did not return within %v after the schedule", b, stepTimeout)
			default:
			}
			if q, dump := quiescentDump(&dumpBuf); q {
				parkedAt := parkedSummary(dump)
				select {
				case r := <-done[b]:
					results[b] = r
					break wait
				case ev := <-g.arrive:
					if g.parent[ev.b].Err() != nil {
						continue
					}
					return fail(ev.b, "step-outcome", "after the last scheduled completion the code starts another %s fetch of %s for batch %s", ev.stage, ev.s, ev.b)
				default:
				}
				return fail(b, "deadlock", "FetchKeys of batch %s (servers %v, context %s) has not returned, no KeyClient call is pending and every goroutine of the process is parked: caller and worker pool wait for each other forever (%s); sequentially the call returns the local keys and the keys of %v",
					b, sc.Req[b], ctxState(g.parent[b]), parkedAt, sc.Out[b])
			}
			time.Sleep(100 * time.Microsecond)
		}
	}
	for _, b := range batches {
		r, ok := results[b]
		if !ok {
			continue
		}
		if r.pan != "" {
			return fail(b, "panic", "FetchKeys of batch %s panicked: %s", b, r.pan)
		}
		if r.err != nil {
			return fail(b, "result", "FetchKeys of batch %s returned error %v", b, r.err)
		}
		want := map[gmsl.PublicKeyLookupRequest]gmsl.PublicKeyLookupResult{}
		for _, sv := range sc.Out[b] {
			for k, v := range identity(sv, sc.KeyIDs).expectedKeys() {
				want[k] = v
			}
		}
		if sc.Local {
			for _, k := range sc.KeyIDs {
				want[gmsl.PublicKeyLookupRequest{ServerName: localName, KeyID: gmsl.KeyID("ed25519:" + k)}] = gmsl.PublicKeyLookupResult{
					VerifyKey: gmsl.VerifyKey{Key: localPub}, ExpiredTS: gmsl.PublicKeyNotExpired, ValidUntilTS: spec.AsTimestamp(time.Unix(1<<37, 0))}
			}
		}
		if d := diffKeyMaps(want, r.res); d != "" {
			extra := ""
			if skipped > 0 {
				extra = fmt.Sprintf(" (%d KeyClient call(s) of the schedule were never made by the code)", skipped)
			}
			return fail(b, "result", "batch %s (servers %v, context %s): the result differs from what this batch alone gives - the keys of %v: %s%s",
				b, sc.Req[b], ctxState(g.parent[b]), sc.Out[b], d, extra)
		}
	}
	return hx.Result{OK: true, NT: fmt.Sprintf("batches=%d %s", len(batches), strings.Join(sortedKeys(classes), " "))}
}

func ctxState(c context.Context) string {
	switch c.Err() {
	case nil:
		return "live"
	case context.DeadlineExceeded:
		return "past its deadline"
	default:
		return "cancelled"
	}
}

func showBatchSteps(st []bStep) string {
	var out []string
	for _, s := range st {
		switch s.Stage {
		case "start":
			out = append(out, "start("+s.B+")")
		case "cancel":
			out = append(out, s.O+"("+s.B+")")
		default:
			out = append(out, s.B+":"+s.S+"/"+s.Stage+"="+s.O)
		}
	}
	return strings.Join(out, ", ")
}

// ---------------------------------------------------------------- pool sizes x context
//
// One FetchKeys call over N distinct remote servers (around the 64 workers) with an instant scripted KeyClient
// that honours the caller's context, under a context that is cancelled before the call, past its deadline, or
// cancelled from inside KeyClient call number cancel_at (while servers are still being handed to the workers
// when N > 64).  The call must return, and return exactly the union of the servers the client answered
// successfully (read from the client's own log: which calls complete before the cancellation is up to the
// scheduler).

type ctxSizesClient struct {
	ids      map[spec.ServerName]*serverIdentity
	idx      map[spec.ServerName]int
	pattern  int
	parent   context.Context
	cancel   context.CancelFunc
	cancelAt int
	mu       sync.Mutex
	calls    int
	okFor    map[spec.ServerName]bool
}

func (c *ctxSizesClient) enter() error {
	c.mu.Lock()
	c.calls++
	if c.cancelAt > 0 && c.calls == c.cancelAt {
		c.cancel()
	}
	c.mu.Unlock()
	return c.parent.Err()
}

func (c *ctxSizesClient) answered(s spec.ServerName) {
	c.mu.Lock()
	c.okFor[s] = true
	c.mu.Unlock()
}

func (c *ctxSizesClient) GetServerKeys(_ context.Context, s spec.ServerName) (gmsl.ServerKeys, error) {
	if err := c.enter(); err != nil {
		return gmsl.ServerKeys{}, err
	}
	d, _ := sizeOutcome(c.idx[s], c.pattern)
	switch d {
	case "ok":
		c.answered(s)
		return c.ids[s].resp, nil
	case "bad":
		return c.ids[s].bad, nil
	}
	return gmsl.ServerKeys{}, errors.New("c19: scripted GetServerKeys failure")
}

func (c *ctxSizesClient) LookupServerKeys(_ context.Context, s spec.ServerName, _ map[gmsl.PublicKeyLookupRequest]spec.Timestamp) ([]gmsl.ServerKeys, error) {
	if err := c.enter(); err != nil {
		return nil, err
	}
	_, n := sizeOutcome(c.idx[s], c.pattern)
	switch n {
	case "ok":
		c.answered(s)
		return []gmsl.ServerKeys{c.ids[s].resp}, nil
	case "bad":
		return []gmsl.ServerKeys{c.ids[s].bad}, nil
	case "missing":
		return []gmsl.ServerKeys{}, nil
	}
	return nil, errors.New("c19: scripted LookupServerKeys failure")
}

func newCtxSizesClient(sc bSched) (*ctxSizesClient, map[gmsl.PublicKeyLookupRequest]spec.Timestamp) {
	c := &ctxSizesClient{ids: map[spec.ServerName]*serverIdentity{}, idx: map[spec.ServerName]int{}, pattern: sc.Pattern, okFor: map[spec.ServerName]bool{}}
	switch sc.Mode {
	case "deadline":
		c.parent, c.cancel = context.WithDeadline(context.Background(), time.Now().Add(-time.Hour))
	default:
		c.parent, c.cancel = context.WithCancel(context.Background())
	}
	if sc.Mode == "before" {
		c.cancel()
	}
	if sc.Mode == "mid" {
		c.cancelAt = sc.CancelAt
	}
	requests := map[gmsl.PublicKeyLookupRequest]spec.Timestamp{}
	for i := 0; i < sc.N; i++ {
		id := identity(fmt.Sprintf("n%03d", i), []string{"k1", "k2"})
		c.ids[id.name], c.idx[id.name] = id, i
		for kid := range id.keys {
			requests[gmsl.PublicKeyLookupRequest{ServerName: id.name, KeyID: kid}] = 1
		}
	}
	return c, requests
}

func sizeClass(n int) string {
	if n > 64 {
		return "servers>64"
	}
	return "servers<=64"
}

// awaitOrDeadlock waits for the call to return; a process in which every goroutine is parked while the call
// has not returned is deadlocked (the scripted client never blocks).
func awaitOrDeadlock(done chan fetchOutcome) (fetchOutcome, string) {
	var dumpBuf []byte
	watchdog := time.After(stepTimeout)
	for {
		select {
		case r := <-done:
			return r, ""
		case <-watchdog:
			return fetchOutcome{}, "no-progress"
		default:
		}
		if q, dump := quiescentDump(&dumpBuf); q {
			parkedAt := parkedSummary(dump)
			select {
			case r := <-done:
				return r, ""
			default:
				return fetchOutcome{}, "deadlock (" + parkedAt + ")"
			}
		}
		time.Sleep(100 * time.Microsecond)
	}
}

func ctxSizesReplay(sc bSched) hx.Result {
	client, requests := newCtxSizesClient(sc)
	defer client.cancel()
	localName := spec.ServerName("local.c19.test")
	fetcher := &gmsl.DirectKeyFetcher{Client: client, IsLocalServerName: func(s spec.ServerName) bool { return s == localName }}
	done := make(chan fetchOutcome, 1)
	go func() {
		var out fetchOutcome
		defer func() {
			if e := recover(); e != nil {
				out.pan = fmt.Sprint(e)
			}
			done <- out
		}()
		out.res, out.err = fetcher.FetchKeys(client.parent, requests)
	}()
	key := func(what string) string {
		return "C19/keys/" + strings.SplitN(what, " ", 2)[0] + "/ctx=" + sc.Mode + "/" + sizeClass(sc.N)
	}
	r, stuck := awaitOrDeadlock(done)
	if stuck != "" {
		client.mu.Lock()
		calls := client.calls
		client.mu.Unlock()
		return hx.Result{OK: false, Key: key(stuck), What: fmt.Sprintf("FetchKeys over %d distinct servers under a context that is %s (mode %s, cancel inside KeyClient call %d) has not returned; the instant scripted client returned from all %d calls made and every goroutine of the process is parked: %s.  Sequentially the call returns the union of the fetches that succeeded (the empty union when the context was done before the call)",
			sc.N, ctxState(client.parent), sc.Mode, sc.CancelAt, calls, stuck)}
	}
	if r.pan != "" {
		return hx.Result{OK: false, Key: key("panic"), What: "FetchKeys panicked: " + r.pan}
	}
	if r.err != nil {
		return hx.Result{OK: false, Key: key("result"), What: fmt.Sprintf("FetchKeys over %d servers (context mode %s) returned error %v", sc.N, sc.Mode, r.err)}
	}
	want := map[gmsl.PublicKeyLookupRequest]gmsl.PublicKeyLookupResult{}
	client.mu.Lock()
	nSucc := len(client.okFor)
	for s := range client.okFor {
		for k, v := range client.ids[s].expectedKeys() {
			want[k] = v
		}
	}
	client.mu.Unlock()
	if d := diffKeyMaps(want, r.res); d != "" {
		if len(d) > 600 {
			d = d[:600] + " ..."
		}
		return hx.Result{OK: false, Key: key("result"), What: fmt.Sprintf("FetchKeys over %d distinct servers (context mode %s, cancel inside call %d; %d servers were answered successfully): result differs from the union of the per-server results: %s", sc.N, sc.Mode, sc.CancelAt, nSucc, d)}
	}
	if (sc.Mode == "before" || sc.Mode == "deadline") && len(r.res) != 0 {
		return hx.Result{OK: false, Key: key("result"), What: fmt.Sprintf("FetchKeys under a context that was done before the call returned %d keys", len(r.res))}
	}
	part := "none"
	if nSucc == sc.N {
		part = "all"
	} else if nSucc > 0 {
		part = "some"
	}
	return hx.Result{OK: true, NT: fmt.Sprintf("sizes ctx=%s %s succeeded=%s", sc.Mode, sizeClass(sc.N), part)}
}

// ---------------------------------------------------------------- KeyRing.VerifyJSONs x context
//
// One VerifyJSONs call (memory key database, DirectKeyFetcher, the client above) over one signed message per
// server.  It must return one result per message; under a context that was done before the call no key can have
// been fetched, so every message carries an error; under a live context (control) every message whose server
// answers verifies.
func ctxVerifyReplay(sc bSched) hx.Result {
	client, _ := newCtxSizesClient(sc)
	defer client.cancel()
	ring := &gmsl.KeyRing{
		KeyFetchers: []gmsl.KeyFetcher{&gmsl.DirectKeyFetcher{Client: client, IsLocalServerName: func(s spec.ServerName) bool { return false }}},
		KeyDatabase: &memKeyDB{keys: map[gmsl.PublicKeyLookupRequest]gmsl.PublicKeyLookupResult{}},
	}
	var reqs []gmsl.VerifyJSONRequest
	var names []spec.ServerName
	for n := range client.ids {
		names = append(names, n)
	}
	sort.Slice(names, func(i, j int) bool { return names[i] < names[j] })
	for _, n := range names {
		id := client.ids[n]
		kid := sortedKeyIDs(id.keys)[0]
		signed, err := gmsl.SignJSON(string(n), kid, id.keys[kid], []byte(fmt.Sprintf(`{"from":"%s"}`, n)))
		if err != nil {
			panic(err)
		}
		reqs = append(reqs, gmsl.VerifyJSONRequest{ServerName: n, AtTS: spec.AsTimestamp(time.Unix(1700000000, 0)), Message: signed,
			ValidityCheckingFunc: gmsl.StrictValiditySignatureCheck})
	}
	type verifyOutcome struct {
		res []gmsl.VerifyJSONResult
		err error
	}
	vdone := make(chan verifyOutcome, 1)
	done := make(chan fetchOutcome, 1)
	go func() {
		var out fetchOutcome
		var v verifyOutcome
		defer func() {
			if e := recover(); e != nil {
				out.pan = fmt.Sprint(e)
			}
			vdone <- v
			done <- out
		}()
		v.res, v.err = ring.VerifyJSONs(client.parent, reqs)
	}()
	key := func(what string) string {
		return "C19/verify/" + strings.SplitN(what, " ", 2)[0] + "/ctx=" + sc.Mode + "/" + sizeClass(sc.N)
	}
	r, stuck := awaitOrDeadlock(done)
	if stuck != "" {
		return hx.Result{OK: false, Key: key(stuck), What: fmt.Sprintf("KeyRing.VerifyJSONs of %d messages of %d servers under a context that is %s (mode %s) has not returned and every goroutine of the process is parked (the instant scripted client returned from every call): the caller is stuck in the key fetcher forever: %s.  Sequentially it returns one result per message",
			len(reqs), sc.N, ctxState(client.parent), sc.Mode, stuck)}
	}
	if r.pan != "" {
		return hx.Result{OK: false, Key: key("panic"), What: "VerifyJSONs panicked: " + r.pan}
	}
	v := <-vdone
	if v.err != nil {
		return hx.Result{OK: true, NT: "verify ctx=" + sc.Mode + " returns an error for the batch"}
	}
	if len(v.res) != len(reqs) {
		return hx.Result{OK: false, Key: key("result"), What: fmt.Sprintf("VerifyJSONs returned %d results for %d messages", len(v.res), len(reqs))}
	}
	if sc.Mode == "mid" {
		return hx.Result{OK: true, NT: fmt.Sprintf("verify ctx=%s %s", sc.Mode, sizeClass(sc.N))} // cancelled on the way: termination only
	}
	client.mu.Lock()
	defer client.mu.Unlock()
	for i, res := range v.res {
		fetched := client.okFor[reqs[i].ServerName]
		if fetched != (res.Error == nil) {
			return hx.Result{OK: false, Key: key("result"), What: fmt.Sprintf("VerifyJSONs (context mode %s): message %d of %s: keys of the server fetched=%v but verification error=%v", sc.Mode, i, reqs[i].ServerName, fetched, res.Error)}
		}
	}
	return hx.Result{OK: true, NT: fmt.Sprintf("verify ctx=%s %s", sc.Mode, sizeClass(sc.N))}
}
