package main

// Replay of TransportCache_gen.tla against the real destinationTripper (built as NewClient builds it, with a
// DNS cache underneath).  Every caller of the model is a goroutine inside the real RoundTrip; the yield point
// "the request is on the wire" is realised by the scripted resolver of the DNS cache the transport dials
// through (the cache is created with a zero lifetime, so every request reaches the resolver): the caller
// arrives at the gate after getTransport and is released with "fail" (the dial fails, RoundTrip goes round
// again or returns the error) or "ok" (the name resolves to the local TLS test server and the request
// succeeds).  reaper() is called directly and "time passes" is realised by rewriting lastUsed.  After every
// step the transport map is inspected under its mutex: TLS names, identities (pointer identity, numbered in
// order of creation as in the model), aged or not, and that every transport is fully built.

import (
	"context"
	"encoding/json"
	"errors"
	"fmt"
	"net"
	"net/http"
	"net/http/httptest"
	"strings"
	"time"

	"github.com/matrix-org/gomatrixserverlib/fclient"

	"verifharness/hx"
)

type trEnt struct {
	Name string `json:"name"`
	ID   int    `json:"id"`
	Aged bool   `json:"aged"`
}

type trStep struct {
	A     string  `json:"a"`
	P     string  `json:"p"`
	N     string  `json:"n"`
	At    string  `json:"at"`
	St    string  `json:"st"`
	Held  int     `json:"held"`
	Q     bool    `json:"q"`
	Cache []trEnt `json:"cache"`
}

type trSched struct {
	Steps []trStep `json:"steps"`
}

var trPort string

func trSetup() (func(), error) {
	srv := httptest.NewUnstartedServer(http.HandlerFunc(func(w http.ResponseWriter, r *http.Request) {
		w.WriteHeader(200)
		_, _ = w.Write([]byte("{}"))
	}))
	srv.Config.ErrorLog = nil
	srv.StartTLS()
	_, trPort, _ = net.SplitHostPort(srv.Listener.Addr().String())
	return srv.Close, nil
}

type trResolver struct{ procs map[string]*dnsProc }

func (s *trResolver) LookupIPAddr(ctx context.Context, name string) ([]net.IPAddr, error) {
	id, _ := ctx.Value(procKey{}).(string)
	p := s.procs[id]
	if p == nil {
		return nil, errors.New("c19: resolver called without a caller identity")
	}
	p.ev <- gateEvent{kind: "resolve", host: name}
	r := <-p.rel
	if !r.ok {
		return nil, errors.New("c19: scripted request failure")
	}
	return []net.IPAddr{{IP: net.ParseIP("127.0.0.1")}}, nil
}

func trFail(step int, key, format string, a ...interface{}) hx.Result {
	return hx.Result{OK: false, Key: "C19/transport/" + key, What: fmt.Sprintf("step %d: ", step) + fmt.Sprintf(format, a...)}
}

func trReplay(raw json.RawMessage) hx.Result {
	var sc trSched
	if err := json.Unmarshal(raw, &sc); err != nil {
		panic(err)
	}
	dns := fclient.NewDNSCache(8, 0, []string{"127.0.0.0/8"}, nil)
	res := &trResolver{procs: map[string]*dnsProc{}}
	for _, st := range sc.Steps {
		if st.P != "" && res.procs[st.P] == nil {
			res.procs[st.P] = &dnsProc{ev: make(chan gateEvent), rel: make(chan gateRelease)}
		}
	}
	fclient.VerifC19SetResolver(dns, res)
	tripper := fclient.VerifC19NewTripper(true, dns, false)

	tlsName := func(n string) string { return n + ".c19.test:" + trPort }
	ids := map[http.RoundTripper]int{} // identity of a transport = order of first appearance in the map
	classes := map[string]bool{}
	pending := ""
	for i, st := range sc.Steps {
		switch st.A {
		case "call":
			p := res.procs[st.P]
			ctx := context.WithValue(context.Background(), procKey{}, st.P)
			req, err := http.NewRequestWithContext(ctx, "GET", "matrix://"+tlsName(st.N)+"/_matrix/key/v2/server", nil)
			if err != nil {
				panic(err)
			}
			go func() {
				resp, err := tripper.RoundTrip(req)
				ev := gateEvent{kind: "ret", ok: err == nil}
				if err != nil {
					ev.err = err.Error()
				} else {
					ev.ok = resp.StatusCode == 200
					resp.Body.Close()
				}
				p.ev <- ev
			}()
			pending = st.P
		case "send_ok":
			res.procs[st.P].rel <- gateRelease{ok: true}
			pending = st.P
		case "send_fail":
			res.procs[st.P].rel <- gateRelease{ok: false}
			pending = st.P
		case "get_again":
			// second getTransport of RoundTrip: follows the failed request without a hook
		case "reaper":
			tripper.Reaper()
		case "age":
			if !tripper.SetLastUsed(tlsName(st.N), time.Now().Add(-time.Hour)) {
				return trFail(i, "cache-differs", "the model ages the transport of %q but the map holds none", st.N)
			}
		default:
			panic("unknown step " + st.A)
		}
		if !st.Q {
			continue
		}
		classes[st.A+">"+st.At+"/"+st.St] = true
		if pending != "" {
			var ev gateEvent
			select {
			case ev = <-res.procs[pending].ev:
			case <-time.After(stepTimeout):
				return trFail(i, "no-progress", "caller %s did not reach its next yield point within %v after %s", st.P, stepTimeout, st.A)
			}
			pending = ""
			switch st.At {
			case "send":
				if ev.kind != "resolve" || ev.host != st.N+".c19.test" {
					return trFail(i, "step-outcome", "%s by %s: model: request for %q in flight; code: %s", st.A, st.P, st.N, ev.describe())
				}
			case "idle":
				if ev.kind != "ret" || ev.ok != (st.St == "ok") {
					return trFail(i, "step-outcome", "%s by %s: model: RoundTrip returns %s; code: %s", st.A, st.P, st.St, ev.describe())
				}
			default:
				panic("quiescent step with caller at " + st.At)
			}
		}
		snap := tripper.Snapshot()
		seenName := map[string]bool{}
		got := map[int]trEnt{}
		for _, t := range snap {
			if seenName[t.Name] {
				return trFail(i, "two-transports", "two transports for TLS name %q", t.Name)
			}
			seenName[t.Name] = true
			if !t.Inited || !t.HasUsed || t.ServerName != t.Name {
				return trFail(i, "half-initialised", "transport for %q in the map: initialised=%v lastUsed stored=%v TLS ServerName=%q", t.Name, t.Inited, t.HasUsed, t.ServerName)
			}
		}
		// number new transports in the order the model created them: at most one new per step
		for _, t := range snap {
			if ids[t.Ptr] == 0 {
				ids[t.Ptr] = len(ids) + 1
			}
			got[ids[t.Ptr]] = trEnt{Name: strings.TrimSuffix(t.Name, ".c19.test:"+trPort), ID: ids[t.Ptr], Aged: time.Since(t.LastUsed) > 5*time.Minute}
		}
		if len(got) != len(st.Cache) {
			return trFail(i, "cache-differs", "after %s by %s: model %v, code %v", st.A, st.P, st.Cache, got)
		}
		for _, m := range st.Cache {
			if got[m.ID] != m {
				return trFail(i, "cache-differs", "after %s by %s: model %v, code %v", st.A, st.P, st.Cache, got)
			}
		}
	}
	return hx.Result{OK: true, NT: strings.Join(sortedKeys(classes), " ")}
}
