package main

// Replay of TransportCache_gen.tla against the real destinationTripper (built as NewClient builds it, with a
// DNS cache underneath).  Every caller of the model is a goroutine inside the real RoundTrip; the yield point
// "the request is on the wire" is realised by the scripted resolver of the DNS cache the transport dials
// through (the cache is created with a zero lifetime, so every request reaches the resolver): the caller
// arrives at the gate after getTransport and is released with "fail" (the dial fails, RoundTrip goes round
// again or returns the error) or "ok" (the name resolves to the local TLS test server and the request
// succeeds).  reaper() is called directly and "time passes" is realised by rewriting lastUsed.  After every
// step the transport map is inspected under its mutex: TLS names, identities (pointer identity, numbered in
// order of creation as in the model), aged or not, and that every transport is fully built.

import (
	"bytes"
	"context"
	"encoding/json"
	"errors"
	"fmt"
	"net"
	"net/http"
	"net/http/httptest"
	"runtime"
	"runtime/debug"
	"strings"
	"time"

	"github.com/matrix-org/gomatrixserverlib/fclient"

	"verifharness/hx"
)

type trEnt struct {
	Name string `json:"name"`
	ID   int    `json:"id"`
	Aged bool   `json:"aged"`
}

type trStep struct {
	A     string  `json:"a"`
	P     string  `json:"p"`
	N     string  `json:"n"`
	At    string  `json:"at"`
	St    string  `json:"st"`
	Held  int     `json:"held"`
	Q     bool    `json:"q"`
	Cache []trEnt `json:"cache"`
}

type trSched struct {
	Steps []trStep `json:"steps"`
}

var trPort string

func trSetup() (func(), error) {
	srv := httptest.NewUnstartedServer(http.HandlerFunc(func(w http.ResponseWriter, r *http.Request) {
		w.WriteHeader(200)
		_, _ = w.Write([]byte("{}"))
	}))
	srv.Config.ErrorLog = nil
	srv.StartTLS()
	_, trPort, _ = net.SplitHostPort(srv.Listener.Addr().String())
	return srv.Close, nil
}

type trResolver struct{ procs map[string]*dnsProc }

func (s *trResolver) LookupIPAddr(ctx context.Context, name string) ([]net.IPAddr, error) {
	id, _ := ctx.Value(procKey{}).(string)
	p := s.procs[id]
	if p == nil {
		return nil, errors.New("c19: resolver called without a caller identity")
	}
	p.ev <- gateEvent{kind: "resolve", host: name}
	r := <-p.rel
	if !r.ok {
		return nil, errors.New("c19: scripted request failure")
	}
	return []net.IPAddr{{IP: net.ParseIP("127.0.0.1")}}, nil
}

func trFail(step int, key, format string, a ...interface{}) hx.Result {
	return hx.Result{OK: false, Key: "C19/transport/" + key, What: fmt.Sprintf("step %d: ", step) + fmt.Sprintf(format, a...)}
}

// ---------------------------------------------------------------- the transports mutex as a scheduler gate
//
// A run of consecutive critical sections of the schedule - reaper passes and one getTransport (the first of a
// call, or the second one after a failed request) - is realised as a queue on the real transportsMutex: the
// replay holds the mutex, starts the critical sections one by one in the order of the schedule and waits until
// each is parked in Lock (waiter count of the mutex and, because the count is raised a moment before the
// goroutine is queued, its state in a goroutine dump), keeps the mutex until every waiter has waited longer than
// the starvation threshold of sync.Mutex (1 ms) and then releases - re-acquires - releases it: the first woken
// waiter finds the mutex taken again after more than 1 ms, switches it to starvation mode and queues up again at
// the front (the replay waits for that before the final release); in that mode Unlock hands the mutex DIRECTLY to
// the next waiter and yields the processor to it.  The critical sections then run in
// queue order with no gap between them: the reaper queued behind a getTransport starts at the instant that
// getTransport unlocks.  Nothing here decides a verdict: whatever the timing, the critical sections are the
// library's own and their order is the queue order; without the hand-over they merely run further apart.

const starvationWait = 3 * time.Millisecond

// parkedOnMap counts the goroutines parked in sync.Mutex.Lock inside getTransport / reaper of this tripper.
func parkedOnMap(addr uintptr, bufp *[]byte) int {
	if *bufp == nil {
		*bufp = make([]byte, 256<<10)
	}
	var dump []byte
	for {
		n := runtime.Stack(*bufp, true)
		if n < len(*bufp) {
			dump = (*bufp)[:n]
			break
		}
		*bufp = make([]byte, 2*len(*bufp))
	}
	get := []byte(fmt.Sprintf("destinationTripper).getTransport(0x%x", addr))
	reap := []byte(fmt.Sprintf("destinationTripper).reaper(0x%x", addr))
	count := 0
	for _, g := range bytes.Split(dump, []byte("\n\n")) {
		if !bytes.Contains(g[:min(len(g), 80)], []byte("[sync.Mutex.Lock")) {
			continue
		}
		if bytes.Contains(g, get) || bytes.Contains(g, reap) {
			count++
		}
	}
	return count
}

type trChain struct {
	end     int    // index of the last step of the chain
	get     int    // index of the call / get_again step
	lead    int    // reaper passes queued before the getTransport
	trail   bool   // a reaper pass queued directly behind it
	pattern string // class of the chain
}

// trChainAt recognises a chain that starts at step i: reaper* (call | send_fail reaper* get_again) reaper?
func trChainAt(steps []trStep, i int) *trChain {
	at := func(j int) string {
		if j < len(steps) {
			return steps[j].A
		}
		return ""
	}
	st := steps[i]
	switch {
	case st.A == "send_fail" && !st.Q:
		j, lead := i+1, 0
		for at(j) == "reaper" {
			lead, j = lead+1, j+1
		}
		if at(j) != "get_again" {
			return nil
		}
		c := &trChain{end: j, get: j, lead: lead, trail: at(j+1) == "reaper"}
		if lead == 0 && !c.trail {
			return nil
		}
		c.pattern = "fail" + strings.Repeat(">reaper", lead) + ">get"
		if c.trail {
			c.end++
			c.pattern += ">reaper"
		}
		return c
	case st.A == "call" && at(i+1) == "reaper":
		return &trChain{end: i + 1, get: i, trail: true, pattern: "call>reaper"}
	case st.A == "reaper" && st.Q:
		j, lead := i, 0
		for at(j) == "reaper" {
			lead, j = lead+1, j+1
		}
		if at(j) != "call" {
			return nil
		}
		c := &trChain{end: j, get: j, lead: lead, trail: at(j+1) == "reaper", pattern: strings.Repeat("reaper>", lead) + "call"}
		if c.trail {
			c.end++
			c.pattern += ">reaper"
		}
		return c
	}
	return nil
}

func trReplay(raw json.RawMessage) hx.Result {
	var sc trSched
	if err := json.Unmarshal(raw, &sc); err != nil {
		panic(err)
	}
	dns := fclient.NewDNSCache(8, 0, []string{"127.0.0.0/8"}, nil)
	res := &trResolver{procs: map[string]*dnsProc{}}
	for _, st := range sc.Steps {
		if st.P != "" && res.procs[st.P] == nil {
			res.procs[st.P] = &dnsProc{ev: make(chan gateEvent), rel: make(chan gateRelease)}
		}
	}
	fclient.VerifC19SetResolver(dns, res)
	tripper := fclient.VerifC19NewTripper(true, dns, false)

	tlsName := func(n string) string { return n + ".c19.test:" + trPort }
	ids := map[http.RoundTripper]int{} // identity of a transport = order of first appearance in the map
	classes := map[string]bool{}
	pending := ""
	startCall := func(st trStep) {
		p := res.procs[st.P]
		ctx := context.WithValue(context.Background(), procKey{}, st.P)
		req, err := http.NewRequestWithContext(ctx, "GET", "matrix://"+tlsName(st.N)+"/_matrix/key/v2/server", nil)
		if err != nil {
			panic(err)
		}
		go func() {
			ev := gateEvent{kind: "ret"}
			defer func() {
				if e := recover(); e != nil {
					ev = gateEvent{kind: "panic", err: fmt.Sprintf("%v\n%s", e, libFrames(debug.Stack()))}
				}
				p.ev <- ev
			}()
			resp, err := tripper.RoundTrip(req)
			ev.ok = err == nil
			if err != nil {
				ev.err = err.Error()
			} else {
				ev.ok = resp.StatusCode == 200
				resp.Body.Close()
			}
		}()
	}
	// one reaper pass in a goroutine of its own; a panic of the pass is its outcome
	reapDone := make(chan string, 8)
	startReaper := func() {
		go func() {
			defer func() {
				if e := recover(); e != nil {
					reapDone <- fmt.Sprintf("%v\n%s", e, libFrames(debug.Stack()))
					return
				}
				reapDone <- ""
			}()
			tripper.Reaper()
		}()
	}
	var dumpBuf []byte
	reaperPanic := func(i int, after string, p string) hx.Result {
		return trFail(i, "reaper-panic", "the reaper pass scheduled %s panicked: %s", after, p)
	}
	for i := 0; i < len(sc.Steps); i++ {
		st := sc.Steps[i]
		getStep := st
		if ch := trChainAt(sc.Steps, i); ch != nil {
			// the critical sections of the chain queue up on the held mutex in schedule order
			tripper.LockMap()
			queued := 0
			var starters []func()
			for k := 0; k < ch.lead; k++ {
				starters = append(starters, startReaper)
			}
			g := sc.Steps[ch.get]
			if g.A == "call" {
				starters = append(starters, func() { startCall(g) })
			} else {
				starters = append(starters, func() { res.procs[g.P].rel <- gateRelease{ok: false} })
			}
			if ch.trail {
				starters = append(starters, startReaper)
			}
			deadline := time.Now().Add(stepTimeout)
			for _, start := range starters {
				start()
				queued++
				for {
					if n, _, _ := tripper.MapState(); n >= queued && parkedOnMap(tripper.Addr(), &dumpBuf) >= queued {
						break
					}
					if time.Now().After(deadline) {
						tripper.UnlockMap()
						return trFail(i, "no-progress", "chain %s: critical section %d of %d did not reach the transports mutex within %v", ch.pattern, queued, len(starters), stepTimeout)
					}
					time.Sleep(100 * time.Microsecond)
				}
			}
			time.Sleep(starvationWait)
			tripper.UnlockMap()
			tripper.LockMap()
			// The woken waiter finds the mutex taken and, having waited > 1 ms, sets starvation mode and queues up again
			// at the front.  The final release waits until no waiter is in transit (woken flag clear) and every waiter the
			// mutex counts is parked in its queue (the count is raised a moment before the goroutine is queued): only
			// then is the order of the remaining critical sections the order of the queue.
			handedOver := false
			for {
				n, woken, starving := tripper.MapState()
				if !woken && parkedOnMap(tripper.Addr(), &dumpBuf) == n {
					handedOver = starving && n == queued
					break
				}
				if time.Now().After(deadline) {
					tripper.UnlockMap()
					return trFail(i, "no-progress", "chain %s: the waiters of the transports mutex did not settle within %v", ch.pattern, stepTimeout)
				}
				runtime.Gosched()
			}
			tripper.UnlockMap()
			for k := 0; k < ch.lead+map[bool]int{false: 0, true: 1}[ch.trail]; k++ {
				select {
				case p := <-reapDone:
					if p != "" {
						return reaperPanic(i, "in the chain "+ch.pattern+" on the transports mutex (each critical section starts when the one before it unlocks)", p)
					}
				case <-time.After(stepTimeout):
					return trFail(i, "no-progress", "chain %s: a reaper pass did not return within %v", ch.pattern, stepTimeout)
				}
			}
			if handedOver {
				classes["chain:"+ch.pattern] = true
			}
			pending = g.P
			getStep = g
			i = ch.end
			st = sc.Steps[i]
		} else {
			switch st.A {
			case "call":
				startCall(st)
				pending = st.P
			case "send_ok":
				res.procs[st.P].rel <- gateRelease{ok: true}
				pending = st.P
			case "send_fail":
				res.procs[st.P].rel <- gateRelease{ok: false}
				pending = st.P
			case "get_again":
				// second getTransport of RoundTrip: follows the failed request without a hook
			case "reaper":
				if !st.Q {
					panic("reaper pass between a failed request and the second getTransport outside a chain")
				}
				startReaper()
				select {
				case p := <-reapDone:
					if p != "" {
						return reaperPanic(i, "at a quiescent point", p)
					}
				case <-time.After(stepTimeout):
					return trFail(i, "no-progress", "the reaper pass did not return within %v", stepTimeout)
				}
			case "age":
				if !tripper.SetLastUsed(tlsName(st.N), time.Now().Add(-time.Hour)) {
					return trFail(i, "cache-differs", "the model ages the transport of %q but the map holds none", st.N)
				}
			default:
				panic("unknown step " + st.A)
			}
			if !st.Q {
				continue
			}
		}
		classes[st.A+">"+st.At+"/"+st.St] = true
		if pending != "" {
			var ev gateEvent
			select {
			case ev = <-res.procs[pending].ev:
			case <-time.After(stepTimeout):
				return trFail(i, "no-progress", "caller %s did not reach its next yield point within %v after %s", getStep.P, stepTimeout, getStep.A)
			}
			pending = ""
			if ev.kind == "panic" {
				return trFail(i, "roundtrip-panic", "RoundTrip of caller %s panicked after %s: %s", getStep.P, getStep.A, ev.err)
			}
			switch getStep.At {
			case "send":
				if ev.kind != "resolve" || ev.host != getStep.N+".c19.test" {
					return trFail(i, "step-outcome", "%s by %s: model: request for %q in flight; code: %s", getStep.A, getStep.P, getStep.N, ev.describe())
				}
			case "idle":
				if ev.kind != "ret" || ev.ok != (getStep.St == "ok") {
					return trFail(i, "step-outcome", "%s by %s: model: RoundTrip returns %s; code: %s", getStep.A, getStep.P, getStep.St, ev.describe())
				}
			default:
				panic("quiescent step with caller at " + getStep.At)
			}
		}
		snap := tripper.Snapshot()
		seenName := map[string]bool{}
		got := map[int]trEnt{}
		for _, t := range snap {
			if seenName[t.Name] {
				return trFail(i, "two-transports", "two transports for TLS name %q", t.Name)
			}
			seenName[t.Name] = true
			if !t.Inited || !t.HasUsed || t.ServerName != t.Name {
				return trFail(i, "half-initialised", "transport for %q in the map: initialised=%v lastUsed stored=%v TLS ServerName=%q", t.Name, t.Inited, t.HasUsed, t.ServerName)
			}
		}
		// number new transports in the order the model created them: at most one new per step
		for _, t := range snap {
			if ids[t.Ptr] == 0 {
				ids[t.Ptr] = len(ids) + 1
			}
			got[ids[t.Ptr]] = trEnt{Name: strings.TrimSuffix(t.Name, ".c19.test:"+trPort), ID: ids[t.Ptr], Aged: time.Since(t.LastUsed) > 5*time.Minute}
		}
		if len(got) != len(st.Cache) {
			return trFail(i, "cache-differs", "after %s by %s: model %v, code %v", st.A, st.P, st.Cache, got)
		}
		for _, m := range st.Cache {
			if got[m.ID] != m {
				return trFail(i, "cache-differs", "after %s by %s: model %v, code %v", st.A, st.P, st.Cache, got)
			}
		}
	}
	return hx.Result{OK: true, NT: strings.Join(sortedKeys(classes), " ")}
}
