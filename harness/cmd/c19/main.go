// Command c19 binds the C19 specifications (DNSCache.tla, KeyFetchPool.tla, TransportCache.tla, LazyID.tla)
// to the real code.  Build it with -race: the schedule replays are deterministic (every step is a channel
// rendezvous, no sleeps) and the stress commands run genuinely concurrent goroutines for the race detector.
//
//	c19 c19dns     -in schedules.ndjson   replay DNSCache_gen schedules against fclient.DNSCache
//	c19 c19keys    -in schedules.ndjson   replay KeyFetchPool_gen schedules against DirectKeyFetcher.FetchKeys
//	c19 c19keysizes -in sizes.ndjson      FetchKeys over 1..130 distinct servers: result and termination
//	c19 c19batches -in schedules.ndjson   overlapping FetchKeys batches / cancelled, expired contexts (one record at a time)
//	c19 c19tr      -in schedules.ndjson   replay TransportCache_gen schedules against the federation round tripper
//	c19 c19stress  -in cases.ndjson       one stress case per record (events / verify / dns), results vs sequential
//
// With GORACE="halt_on_error=1 exitcode=66" a race report terminates the process with exit code 66; the
// driver (checks/c19.py) turns that into a reproduced violation carrying the report text.
package main

import (
	"encoding/json"
	"io"

	"github.com/sirupsen/logrus"

	"verifharness/hx"
)

func main() {
	logrus.SetOutput(io.Discard) // the library logs key-fetch failures; stderr is reserved for race reports
	hx.Register("c19dns", "replay DNSCache_gen schedules against the real fclient.DNSCache", func(a *hx.Args) error {
		stop, err := dnsSetup()
		if err != nil {
			return err
		}
		defer stop()
		return hx.ReplayAll(a, func(i int, raw json.RawMessage) hx.Result { return dnsReplay(raw) })
	})
	hx.Register("c19keys", "replay KeyFetchPool_gen schedules against DirectKeyFetcher.FetchKeys", func(a *hx.Args) error {
		return hx.ReplayAll(a, func(i int, raw json.RawMessage) hx.Result { return keysReplay(raw) })
	})
	hx.Register("c19keysizes", "FetchKeys over N distinct servers around the worker limit (instant scripted KeyClient)", func(a *hx.Args) error {
		return hx.ReplayAll(a, func(i int, raw json.RawMessage) hx.Result { return sizesReplay(raw) })
	})
	hx.Register("c19batches", "replay KeyFetchBatches_gen / KeyFetchPool_gen context schedules: overlapping batches, callers that go away", func(a *hx.Args) error {
		a.Par = 1 // one record at a time: quiescence of the whole process is the deadlock / "will not happen" test
		return hx.ReplayAll(a, func(i int, raw json.RawMessage) hx.Result { return batchesReplay(raw) })
	})
	hx.Register("c19tr", "replay TransportCache_gen schedules against destinationTripper", func(a *hx.Args) error {
		stop, err := trSetup()
		if err != nil {
			return err
		}
		defer stop()
		return hx.ReplayAll(a, func(i int, raw json.RawMessage) hx.Result { return trReplay(raw) })
	})
	hx.Register("c19stress", "concurrent stress cases (events / verify / dns) compared with the sequential evaluation", func(a *hx.Args) error {
		a.Par = 1 // one case at a time: each case starts its own goroutines
		return hx.ReplayAll(a, func(i int, raw json.RawMessage) hx.Result { return stressCase(raw) })
	})
	hx.Main()
}
