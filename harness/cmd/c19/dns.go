package main

// Schedule replay of DNSCache_gen.tla against the real fclient.DNSCache.
//
// Every caller of the model is a goroutine that calls the real lookup / DialContext.  The scripted resolver
// and the dial control hook are the only yield points of the code; both announce their arrival on the
// caller's event channel and then block until the scheduler releases them with the outcome the model chose.
// The scheduler performs one model step at a time and waits for the event that step must produce (arrival at
// the next gate, or the return of the call): every step is acknowledged through channels, nothing sleeps.
// After each step at which no caller is between gates the cache is inspected under its own mutex and compared
// with the model: number of entries <= size, hosts, addresses, freshness, eviction order.

import (
	"context"
	"encoding/json"
	"errors"
	"fmt"
	"net"
	"strings"
	"syscall"
	"time"

	"github.com/matrix-org/gomatrixserverlib/fclient"

	"verifharness/hx"
)

type dnsEnt struct {
	H     string `json:"h"`
	VH    string `json:"vh"`
	V     int    `json:"v"`
	Fresh bool   `json:"fresh"`
}

type dnsStep struct {
	A    string   `json:"a"`
	P    string   `json:"p"`
	H    string   `json:"h"`
	K    string   `json:"k"`
	V    int      `json:"v"`
	At   string   `json:"at"`
	St   string   `json:"st"`
	GH   string   `json:"gh"`
	GV   int      `json:"gv"`
	C    bool     `json:"c"`
	Q    bool     `json:"q"`
	Ents []dnsEnt `json:"ents"`
}

type dnsSched struct {
	Size  int       `json:"size"`
	Dur0  bool      `json:"dur0"` // NewDNSCache(size, 0, ...): entries expire the instant they are stored
	Steps []dnsStep `json:"steps"`
}

type gateEvent struct {
	kind   string // "resolve", "dial", "ret"
	host   string // resolve: the name asked for
	addr   string // dial: the address dialled
	ok     bool   // ret: lookup found an entry / dial returned a connection
	cached bool   // ret (lookup)
	addrs  []string
	err    string
}

type gateRelease struct {
	ok bool
	v  int
}

type procKey struct{}

type dnsProc struct {
	ev  chan gateEvent
	rel chan gateRelease
}

type dnsSim struct {
	procs map[string]*dnsProc
}

var dnsPort string

const stepTimeout = 60 * time.Second

// dnsSetup starts the loopback listener every successful dial of the replay connects to.
func dnsSetup() (func(), error) {
	ln, err := net.Listen("tcp4", "0.0.0.0:0")
	if err != nil {
		return nil, err
	}
	_, dnsPort, _ = net.SplitHostPort(ln.Addr().String())
	go func() {
		for {
			c, err := ln.Accept()
			if err != nil {
				return
			}
			c.Close()
		}
	}()
	return func() { ln.Close() }, nil
}

func hostName(h string) string { return h + ".c19.test" }

// modelIP renders the model answer [h, v] as a loopback address: 127.<host index>.0.<version>.
func modelIP(h string, v int) string {
	return fmt.Sprintf("127.%d.%d.%d", int(h[0]-'a')+1, v/200, v%200+1)
}

func (s *dnsSim) proc(ctx context.Context) *dnsProc {
	p, _ := ctx.Value(procKey{}).(string)
	return s.procs[p]
}

// LookupIPAddr is the scripted resolver: gate, then the scheduled answer for the name that was asked.
func (s *dnsSim) LookupIPAddr(ctx context.Context, name string) ([]net.IPAddr, error) {
	p := s.proc(ctx)
	if p == nil {
		return nil, errors.New("c19: resolver called without a caller identity")
	}
	p.ev <- gateEvent{kind: "resolve", host: name}
	r := <-p.rel
	if !r.ok {
		return nil, errors.New("c19: scripted resolver failure")
	}
	h := strings.TrimSuffix(name, ".c19.test")
	return []net.IPAddr{{IP: net.ParseIP(modelIP(h, r.v))}}, nil
}

func (s *dnsSim) control(orig fclient.VerifC19ControlFunc) fclient.VerifC19ControlFunc {
	return func(ctx context.Context, network, address string, rc syscall.RawConn) error {
		p := s.proc(ctx)
		if p == nil {
			return errors.New("c19: dial without a caller identity")
		}
		p.ev <- gateEvent{kind: "dial", addr: address}
		r := <-p.rel
		if !r.ok {
			return errors.New("c19: scripted dial failure")
		}
		if orig != nil {
			return orig(ctx, network, address, rc)
		}
		return nil
	}
}

func dnsFail(step int, key, format string, a ...interface{}) hx.Result {
	return hx.Result{OK: false, Key: "C19/dns/" + key, What: fmt.Sprintf("step %d: ", step) + fmt.Sprintf(format, a...)}
}

func dnsReplay(raw json.RawMessage) hx.Result {
	var sc dnsSched
	if err := json.Unmarshal(raw, &sc); err != nil {
		panic(err)
	}
	lifetime := time.Hour
	if sc.Dur0 {
		lifetime = 0
	}
	cache := fclient.NewDNSCache(sc.Size, lifetime, []string{"127.0.0.0/8"}, nil)
	sim := &dnsSim{procs: map[string]*dnsProc{}}
	for _, st := range sc.Steps {
		if st.P != "" && sim.procs[st.P] == nil {
			sim.procs[st.P] = &dnsProc{ev: make(chan gateEvent), rel: make(chan gateRelease)}
		}
	}
	fclient.VerifC19SetResolver(cache, sim)
	fclient.VerifC19WrapDialControl(cache, sim.control)

	classes := map[string]bool{}
	nExpired := 0
	pending := "" // the caller whose next event the current macro step must produce
	wait := func(p string) (gateEvent, bool) {
		select {
		case ev := <-sim.procs[p].ev:
			return ev, true
		case <-time.After(stepTimeout):
			return gateEvent{}, false
		}
	}
	for i, st := range sc.Steps {
		switch st.A {
		case "call":
			p := sim.procs[st.P]
			ctx := context.WithValue(context.Background(), procKey{}, st.P)
			host, kind := hostName(st.H), st.K
			go func() {
				if kind == "lookup" {
					addrs, cached, ok := fclient.VerifC19Lookup(ctx, cache, host)
					p.ev <- gateEvent{kind: "ret", ok: ok, cached: cached, addrs: addrs}
					return
				}
				conn, err := cache.DialContext(ctx, "tcp", host+":"+dnsPort)
				ev := gateEvent{kind: "ret", ok: err == nil}
				if err != nil {
					ev.err = err.Error()
				} else {
					conn.Close()
				}
				p.ev <- ev
			}()
			pending = st.P
		case "resolve_ok":
			sim.procs[st.P].rel <- gateRelease{ok: true, v: st.V}
			pending = st.P
		case "resolve_fail", "dial_fail":
			sim.procs[st.P].rel <- gateRelease{ok: false}
			pending = st.P
		case "dial_ok":
			sim.procs[st.P].rel <- gateRelease{ok: true}
			pending = st.P
		case "expire":
			nExpired++
			at := time.Now().Add(-2 * time.Hour).Add(time.Duration(nExpired) * time.Second)
			if !fclient.VerifC19SetExpiry(cache, hostName(st.H), at) {
				return dnsFail(i, "entries-differ", "the model expires the entry of %q but the cache holds none", st.H)
			}
		case "l2lock", "evict", "insert", "delretry", "l1retry":
			// inside a critical section or between two of them: no hook in the code
		default:
			panic("unknown step " + st.A)
		}
		if !st.Q {
			continue
		}
		classes[st.A+">"+st.At+"/"+st.St] = true
		if pending != "" {
			if pending != st.P {
				panic("schedule: quiescent step of another caller")
			}
			ev, ok := wait(pending)
			pending = ""
			if !ok {
				return dnsFail(i, "no-progress", "caller %s did not reach its next yield point within %v after %s (deadlock or spinning)", st.P, stepTimeout, st.A)
			}
			if r := dnsCheckEvent(i, st, ev); r != nil {
				return *r
			}
		}
		ents, size := fclient.VerifC19Snapshot(cache)
		if len(ents) > size {
			return dnsFail(i, "size-exceeded", "after %s by %s the cache holds %d entries, configured size %d", st.A, st.P, len(ents), size)
		}
		for j := 1; j < len(ents); j++ {
			if ents[j].Expires.Equal(ents[j-1].Expires) {
				return hx.Result{OK: true, NT: "skipped: equal clock readings"}
			}
		}
		if len(ents) != len(st.Ents) {
			return dnsFail(i, "entries-differ", "after %s by %s: model %s, cache %s", st.A, st.P, showModel(st.Ents), showReal(ents))
		}
		for j := range ents {
			m := st.Ents[j]
			if ents[j].Host != hostName(m.H) || len(ents[j].Addrs) != 1 || ents[j].Addrs[0] != modelIP(m.VH, m.V) || ents[j].Fresh != m.Fresh {
				return dnsFail(i, "entries-differ", "after %s by %s: model %s, cache %s", st.A, st.P, showModel(st.Ents), showReal(ents))
			}
			if !strings.HasPrefix(ents[j].Addrs[0], fmt.Sprintf("127.%d.", int(m.H[0]-'a')+1)) {
				return dnsFail(i, "cross-host", "entry of %q holds %v", m.H, ents[j].Addrs)
			}
		}
	}
	return hx.Result{OK: true, NT: strings.Join(sortedKeys(classes), " ")}
}

func dnsCheckEvent(i int, st dnsStep, ev gateEvent) *hx.Result {
	bad := func(format string, a ...interface{}) *hx.Result {
		r := dnsFail(i, "step-outcome", "%s by %s on %q: ", st.A, st.P, st.H)
		r.What += fmt.Sprintf(format, a...)
		return &r
	}
	want := ""
	if st.GH != "" {
		want = modelIP(st.GH, st.GV)
	}
	switch st.At {
	case "resolve":
		if ev.kind != "resolve" || ev.host != hostName(st.H) {
			return bad("model: caller asks the resolver for %q; code: %s", hostName(st.H), ev.describe())
		}
	case "dial":
		if ev.kind != "dial" || ev.addr != want+":"+dnsPort {
			return bad("model: caller dials %s:%s (cached=%v); code: %s", want, dnsPort, st.C, ev.describe())
		}
	case "idle":
		if ev.kind != "ret" {
			return bad("model: the call returns (%s); code: %s", st.St, ev.describe())
		}
		switch st.St {
		case "hit", "miss":
			if !ev.ok || ev.cached != (st.St == "hit") || len(ev.addrs) != 1 || ev.addrs[0] != want {
				return bad("model: lookup returns %s cached=%v; code: %s", want, st.St == "hit", ev.describe())
			}
		case "nolookup":
			if st.K == "lookup" && ev.ok || st.K == "dial" && (ev.ok || !strings.HasPrefix(ev.err, "lookup failed")) {
				return bad("model: lookup fails; code: %s", ev.describe())
			}
		case "conn":
			if !ev.ok {
				return bad("model: DialContext returns a connection; code: %s", ev.describe())
			}
		case "noconn":
			if ev.ok || !strings.HasPrefix(ev.err, "connection failed") {
				return bad("model: DialContext fails to connect; code: %s", ev.describe())
			}
		default:
			panic("unknown status " + st.St)
		}
	default:
		panic("quiescent step with caller at " + st.At)
	}
	return nil
}

func (e gateEvent) describe() string {
	switch e.kind {
	case "resolve":
		return fmt.Sprintf("caller asks the resolver for %q", e.host)
	case "dial":
		return "caller dials " + e.addr
	default:
		return fmt.Sprintf("call returns ok=%v cached=%v addrs=%v err=%q", e.ok, e.cached, e.addrs, e.err)
	}
}

func showModel(es []dnsEnt) string {
	var out []string
	for _, e := range es {
		out = append(out, fmt.Sprintf("%s=%s fresh=%v", e.H, modelIP(e.VH, e.V), e.Fresh))
	}
	return "[" + strings.Join(out, ", ") + "]"
}

func showReal(es []fclient.VerifC19Entry) string {
	var out []string
	for _, e := range es {
		out = append(out, fmt.Sprintf("%s=%s fresh=%v", strings.TrimSuffix(e.Host, ".c19.test"), strings.Join(e.Addrs, "+"), e.Fresh))
	}
	return "[" + strings.Join(out, ", ") + "]"
}
