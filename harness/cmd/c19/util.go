package main

import "sort"

func sortedKeys(m map[string]bool) []string {
	out := make([]string, 0, len(m))
	for k := range m {
		out = append(out, k)
	}
	sort.Strings(out)
	return out
}
