package main

import (
	"sort"
	"strings"
)

const libPath = "github.com/matrix-org/gomatrixserverlib"

// libFrames lists the library functions on a stack dump (innermost first, at most 6).
func libFrames(stack []byte) string {
	var out []string
	for _, line := range strings.Split(string(stack), "\n") {
		if strings.HasPrefix(line, libPath) && !strings.Contains(line, "VerifC19") {
			if i := strings.LastIndex(line, "("); i > 0 {
				line = line[:i]
			}
			out = append(out, strings.TrimPrefix(strings.TrimPrefix(line, libPath), "/"))
			if len(out) == 6 {
				break
			}
		}
	}
	return "library frames: " + strings.Join(out, " < ")
}

// innermostLibFunc is the innermost library function on a stack dump ("" if there is none).
func innermostLibFunc(stack []byte) string {
	for _, line := range strings.Split(string(stack), "\n") {
		if strings.HasPrefix(line, libPath) && !strings.Contains(line, "VerifC19") {
			if i := strings.LastIndex(line, "("); i > 0 {
				line = line[:i]
			}
			return strings.TrimPrefix(strings.TrimPrefix(line, libPath), "/")
		}
	}
	return "none"
}

func sortedKeys(m map[string]bool) []string {
	out := make([]string, 0, len(m))
	for k := range m {
		out = append(out, k)
	}
	sort.Strings(out)
	return out
}
