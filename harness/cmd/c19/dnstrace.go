package main

// c19dnstrace: code -> spec direction for the DNS cache (DNSCache_trace.tla).
//
// Real goroutines run FREELY on one real fclient.DNSCache (unexported lookup and exported DialContext, scripted
// resolver, dial control hook, expiry by rewriting entry.expires under the cache's own mutex); nothing is
// gated.  What is recorded (one NDJSON line each, carried in the result of the run):
//
//	reset   a new run: size, lifetime-zero flag
//	start   a caller is about to call lookup / DialContext       (stamp taken BEFORE the call)
//	end     the call has returned: status, address served        (stamp taken AFTER the return)
//	rcall   the resolver stub was entered (name asked)            (after the first critical section)
//	rok / rfail  the resolver stub returns (version of the answer) (before the second critical section)
//	dial    the dial control hook: address dialled, scripted outcome
//	expire  environment: the entry of h was expired               (stamp taken UNDER the cache's mutex)
//	snap    the entry map as seen UNDER the cache's mutex          (stamp taken under the mutex)
//
// The stamp is one global atomic counter; lines are written in stamp order.  A call's critical sections lie
// between its own lines in real time, so the real execution is an interleaving of the lines (in this order)
// and the critical sections: DNSCache_trace.tla searches for it.
//
// Resolver answers are unique tokens: the address encodes the host it was resolved for and the stamp of the
// stub's return; when the lines are written the k-th answer in stamp order is renamed to version k (the
// design numbers the answers in the order they are given).

import (
	"context"
	"encoding/json"
	"errors"
	"fmt"
	"math/rand"
	"net"
	"runtime"
	"sort"
	"strconv"
	"strings"
	"sync"
	"sync/atomic"
	"syscall"
	"time"

	"github.com/matrix-org/gomatrixserverlib/fclient"

	"verifharness/hx"
)

func init() {
	hx.Register("c19dnstrace", "record free-running concurrent executions of the real fclient.DNSCache (one run per record)", func(a *hx.Args) error {
		stop, err := dnsSetup()
		if err != nil {
			return err
		}
		defer stop()
		a.Par = 1 // one run at a time: each run starts its own goroutines and owns GOMAXPROCS
		return hx.ReplayAll(a, func(i int, raw json.RawMessage) hx.Result { return dnsTraceRun(raw) })
	})
}

type dtRun struct {
	Run    int   `json:"run"`
	G      int   `json:"g"`     // callers (goroutines)
	Hosts  int   `json:"hosts"` // host names a, b, ...
	Size   int   `json:"size"`
	Dur0   bool  `json:"dur0"`
	Ops    int   `json:"ops"`    // calls per caller
	Seed   int64 `json:"seed"`
	Procs  int   `json:"procs"`  // GOMAXPROCS for the run (0: leave)
	PFail  int   `json:"pfail"`  // resolver failure, percent
	PDial  int   `json:"pdial"`  // share of DialContext calls, percent
	PDFail int   `json:"pdfail"` // dial failure, percent
	PExp   int   `json:"pexp"`   // expiry step before a call, percent
	PSnap  int   `json:"psnap"`  // snapshot before a call / inside the resolver, percent
	Yield  int   `json:"yield"`  // runtime.Gosched() at the log points, percent
}

type dtEnt struct {
	H     string `json:"h"`
	VH    string `json:"vh"`
	V     int    `json:"v"`
	Fresh bool   `json:"fresh"`
	addr  string
}

type dtEv struct {
	s    int64
	e    string
	p    string
	k    string
	h    string
	addr string // raw address (end of lookup, dial)
	ok   bool
	st   string
	ents []dtEnt
}

type dtCaller struct {
	name   string
	rng    *rand.Rand
	evs    []dtEv
	dialOK int // per call: 1 = the last dial was allowed by the hook, 2 = refused
}

type dtSim struct {
	r       dtRun
	cache   *fclient.DNSCache
	ctr     int64
	callers map[string]*dtCaller
	base    time.Time
	tie     int32
}

func (s *dtSim) stamp() int64 { return atomic.AddInt64(&s.ctr, 1) }

func (s *dtSim) past(at int64) time.Time {
	return s.base.Add(-2 * time.Hour).Add(time.Duration(at) * time.Millisecond)
}

func (s *dtSim) caller(ctx context.Context) *dtCaller {
	p, _ := ctx.Value(procKey{}).(string)
	return s.callers[p]
}

func (c *dtCaller) yield(pct int) {
	if pct > 0 && c.rng.Intn(100) < pct {
		runtime.Gosched()
	}
}

// dtAddr renders a resolver answer: 127.<host index + 1>.<stamp / 200 + 1>.<stamp % 200 + 1>.
func dtAddr(name string, st int64) string {
	hi := 250
	if h := strings.TrimSuffix(name, ".c19.test"); len(h) == 1 && h[0] >= 'a' && h[0] <= 'z' {
		hi = int(h[0]-'a') + 1
	}
	return fmt.Sprintf("127.%d.%d.%d", hi, st/200+1, st%200+1)
}

// dtDecode is the inverse: host letter and stamp of an address ("?" / 0 when it is not a resolver answer).
func dtDecode(addr string) (string, int64) {
	if i := strings.LastIndex(addr, ":"); i >= 0 {
		addr = addr[:i]
	}
	parts := strings.Split(addr, ".")
	if len(parts) != 4 || parts[0] != "127" {
		return "?", 0
	}
	a, e1 := strconv.Atoi(parts[1])
	b, e2 := strconv.Atoi(parts[2])
	c, e3 := strconv.Atoi(parts[3])
	if e1 != nil || e2 != nil || e3 != nil || a < 1 || a > 26 || b < 1 || c < 1 {
		return "?", 0
	}
	return string(rune('a' + a - 1)), int64(b-1)*200 + int64(c-1)
}

func dtHost(name string) string {
	if h := strings.TrimSuffix(name, ".c19.test"); h != name && h != "" {
		return h
	}
	return "?" + name
}

func (s *dtSim) snapshot(c *dtCaller) {
	ents, at, _, tie := fclient.VerifC19TSnapshot(s.cache, s.stamp)
	if tie {
		atomic.StoreInt32(&s.tie, 1)
	}
	ev := dtEv{s: at, e: "snap"}
	for _, e := range ents {
		d := dtEnt{H: dtHost(e.Host), Fresh: e.Fresh}
		if len(e.Addrs) == 1 {
			d.addr = e.Addrs[0]
		}
		ev.ents = append(ev.ents, d)
	}
	c.evs = append(c.evs, ev)
}

func (s *dtSim) expire(c *dtCaller, h string) {
	if at, done := fclient.VerifC19TExpire(s.cache, hostName(h), s.stamp, s.past); done {
		c.evs = append(c.evs, dtEv{s: at, e: "expire", h: h})
	}
}

// LookupIPAddr is the scripted resolver.  It never blocks.
func (s *dtSim) LookupIPAddr(ctx context.Context, name string) ([]net.IPAddr, error) {
	c := s.caller(ctx)
	if c == nil {
		return nil, errors.New("c19: resolver called without a caller identity")
	}
	c.evs = append(c.evs, dtEv{s: s.stamp(), e: "rcall", p: c.name, h: dtHost(name)})
	c.yield(s.r.Yield)
	if c.rng.Intn(100) < s.r.PSnap {
		s.snapshot(c) // between the two critical sections of a miss
	}
	c.yield(s.r.Yield)
	if c.rng.Intn(100) < s.r.PFail {
		c.evs = append(c.evs, dtEv{s: s.stamp(), e: "rfail", p: c.name})
		return nil, errors.New("c19: scripted resolver failure")
	}
	st := s.stamp()
	addr := dtAddr(name, st)
	c.evs = append(c.evs, dtEv{s: st, e: "rok", p: c.name, addr: addr})
	c.yield(s.r.Yield)
	return []net.IPAddr{{IP: net.ParseIP(addr)}}, nil
}

func (s *dtSim) control(orig fclient.VerifC19ControlFunc) fclient.VerifC19ControlFunc {
	return func(ctx context.Context, network, address string, rc syscall.RawConn) error {
		c := s.caller(ctx)
		if c == nil {
			return errors.New("c19: dial without a caller identity")
		}
		fail := c.rng.Intn(100) < s.r.PDFail
		c.evs = append(c.evs, dtEv{s: s.stamp(), e: "dial", p: c.name, addr: address, ok: !fail})
		c.yield(s.r.Yield)
		if fail {
			c.dialOK = 2
			return errors.New("c19: scripted dial failure")
		}
		c.dialOK = 1
		if orig != nil {
			return orig(ctx, network, address, rc)
		}
		return nil
	}
}

// call performs one library call under recover() and logs its start and end.
func (s *dtSim) call(c *dtCaller, kind, h string) (envFault bool) {
	ctx := context.WithValue(context.Background(), procKey{}, c.name)
	c.dialOK = 0
	c.evs = append(c.evs, dtEv{s: s.stamp(), e: "start", p: c.name, k: kind, h: h})
	c.yield(s.r.Yield)
	end := dtEv{e: "end", p: c.name}
	func() {
		defer func() {
			if p := recover(); p != nil {
				end.st = "panic:" + fmt.Sprint(p)
			}
		}()
		if kind == "lookup" {
			addrs, cached, ok := fclient.VerifC19Lookup(ctx, s.cache, hostName(h))
			switch {
			case !ok:
				end.st = "nolookup"
			case cached:
				end.st = "hit"
			default:
				end.st = "miss"
			}
			if ok {
				end.addr = "?"
				if len(addrs) == 1 {
					end.addr = addrs[0]
				}
			}
			return
		}
		conn, err := s.cache.DialContext(ctx, "tcp", hostName(h)+":"+dnsPort)
		switch {
		case err == nil:
			conn.Close()
			end.st = "conn"
		case strings.HasPrefix(err.Error(), "lookup failed"):
			end.st = "nolookup"
		case strings.HasPrefix(err.Error(), "connection failed"):
			end.st = "noconn"
			// the hook allowed the last dial and the connection still failed: the loopback listener, not the cache
			envFault = c.dialOK == 1
		default:
			end.st = "error:" + err.Error()
		}
	}()
	c.yield(s.r.Yield)
	end.s = s.stamp()
	c.evs = append(c.evs, end)
	return envFault
}

func dnsTraceRun(raw json.RawMessage) hx.Result {
	var r dtRun
	if err := json.Unmarshal(raw, &r); err != nil {
		panic(err)
	}
	if r.G < 1 || r.G > 8 || r.Hosts < 1 || r.Hosts > 5 || r.Size < 1 {
		panic("c19dnstrace: run parameters out of range")
	}
	if r.Procs > 0 {
		defer runtime.GOMAXPROCS(runtime.GOMAXPROCS(r.Procs))
	}
	lifetime := time.Hour
	if r.Dur0 {
		lifetime = 0
	}
	s := &dtSim{r: r, callers: map[string]*dtCaller{}, base: time.Now()}
	s.cache = fclient.NewDNSCache(r.Size, lifetime, []string{"127.0.0.0/8"}, nil)
	fclient.VerifC19SetResolver(s.cache, s)
	fclient.VerifC19WrapDialControl(s.cache, s.control)
	hosts := make([]string, r.Hosts)
	for i := range hosts {
		hosts[i] = string(rune('a' + i))
	}
	var wg sync.WaitGroup
	var envFaults int32
	startGate := make(chan struct{})
	for g := 1; g <= r.G; g++ {
		c := &dtCaller{name: fmt.Sprintf("g%d", g), rng: rand.New(rand.NewSource(r.Seed*1009 + int64(g)))}
		s.callers[c.name] = c
		wg.Add(1)
		go func() {
			defer wg.Done()
			<-startGate
			for i := 0; i < r.Ops; i++ {
				if c.rng.Intn(100) < r.PExp {
					s.expire(c, hosts[c.rng.Intn(len(hosts))])
				}
				if c.rng.Intn(100) < r.PSnap {
					s.snapshot(c)
				}
				kind := "lookup"
				if c.rng.Intn(100) < r.PDial {
					kind = "dial"
				}
				if s.call(c, kind, hosts[c.rng.Intn(len(hosts))]) {
					atomic.AddInt32(&envFaults, 1)
				}
			}
		}()
	}
	close(startGate)
	wg.Wait()
	final := &dtCaller{name: "env"}
	s.snapshot(final)

	var evs []dtEv
	for _, c := range s.callers {
		evs = append(evs, c.evs...)
	}
	evs = append(evs, final.evs...)
	sort.Slice(evs, func(i, j int) bool { return evs[i].s < evs[j].s })

	// the k-th answer of the resolver (in stamp order) is version k
	ver := map[int64]int{}
	for _, e := range evs {
		if e.e == "rok" {
			_, st := dtDecode(e.addr)
			ver[st] = len(ver) + 1
		}
	}
	abs := func(addr string) (string, int) {
		h, st := dtDecode(addr)
		if v, ok := ver[st]; ok && h != "?" {
			return h, v
		}
		return "?" + addr, 0 // not an answer of the resolver
	}
	feat := map[string]bool{}
	lines := []interface{}{map[string]interface{}{"e": "reset", "run": r.Run, "size": r.Size, "dur0": r.Dur0}}
	cachedDial := map[string]bool{}
	for _, e := range evs {
		switch e.e {
		case "start":
			lines = append(lines, map[string]interface{}{"e": "start", "p": e.p, "k": e.k, "h": e.h})
			cachedDial[e.p] = false
		case "rcall":
			lines = append(lines, map[string]interface{}{"e": "rcall", "p": e.p, "h": e.h})
		case "rok":
			_, v := abs(e.addr)
			lines = append(lines, map[string]interface{}{"e": "rok", "p": e.p, "v": v})
		case "rfail":
			feat["rfail"] = true
			lines = append(lines, map[string]interface{}{"e": "rfail", "p": e.p})
		case "dial":
			h, v := abs(e.addr)
			if !e.ok {
				feat["dialfail"] = true
			}
			if cachedDial[e.p] {
				feat["retry"] = true
			}
			cachedDial[e.p] = true
			lines = append(lines, map[string]interface{}{"e": "dial", "p": e.p, "h": h, "v": v, "ok": e.ok})
		case "end":
			h, v := "", 0
			if e.addr != "" {
				h, v = abs(e.addr)
			}
			feat[e.st] = true
			lines = append(lines, map[string]interface{}{"e": "end", "p": e.p, "st": e.st, "h": h, "v": v})
		case "expire":
			feat["expire"] = true
			lines = append(lines, map[string]interface{}{"e": "expire", "h": e.h})
		case "snap":
			ents := []dtEnt{}
			for _, d := range e.ents {
				d.VH, d.V = abs(d.addr)
				ents = append(ents, d)
			}
			if len(ents) == r.Size {
				feat["full"] = true
			}
			lines = append(lines, map[string]interface{}{"e": "snap", "ents": ents})
		}
	}
	nt := fmt.Sprintf("g=%d hosts=%d size=%d dur0=%v %s", r.G, r.Hosts, r.Size, r.Dur0, strings.Join(sortedKeys(feat), ","))
	extra := map[string]interface{}{"lines": lines}
	switch {
	case atomic.LoadInt32(&envFaults) > 0:
		extra["discard"] = "a dial the hook allowed did not connect (loopback listener)"
	case atomic.LoadInt32(&s.tie) != 0:
		extra["discard"] = "equal clock readings: two entries carry the same expiry instant"
	}
	return hx.Result{OK: true, NT: nt, Extra: extra}
}
