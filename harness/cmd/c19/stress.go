package main

// Stress cases for the race detector (sampled schedules; the binary must be built with -race).  Every case
// starts k goroutines behind one start barrier on ONE shared object and compares each goroutine's results
// with the sequential evaluation.  A data race terminates the process through GORACE (exit code 66, report on
// stderr); a result mismatch is an ordinary failing result line.
//
//	{"case":"events","ver":"10","kind":"member","tamper":false,"k":8,"rounds":200}
//	{"case":"verify","k":8,"rounds":50,"servers":4}
//	{"case":"dns","k":8,"rounds":300,"size":2,"hosts":4}
//	{"case":"transport","k":8,"rounds":200}
//	{"case":"transport1","k":16,"rounds":3000}

import (
	"bytes"
	"context"
	"crypto/ed25519"
	"encoding/json"
	"errors"
	"fmt"
	"math/rand"
	"net"
	"net/http"
	"runtime/debug"
	"sort"
	"strings"
	"sync"
	"sync/atomic"
	"syscall"
	"time"

	gmsl "github.com/matrix-org/gomatrixserverlib"
	"github.com/matrix-org/gomatrixserverlib/fclient"
	"github.com/matrix-org/gomatrixserverlib/spec"

	"verifharness/hx"
)

type stressRec struct {
	Case    string `json:"case"`
	Ver     string `json:"ver"`
	Kind    string `json:"kind"`
	Tamper  bool   `json:"tamper"`
	K       int    `json:"k"`
	Rounds  int    `json:"rounds"`
	Servers int    `json:"servers"`
	Size    int    `json:"size"`
	Hosts   int    `json:"hosts"`
	Seed    int64  `json:"seed"`
	Ctor    string `json:"ctor"`   // events: untrusted (default) | trusted | headered
	Copies  string `json:"copies"` // events: "" | setunsigned | sign | both: also call the copy-returning operations
	Dur0    bool   `json:"dur0"`   // dns: cache lifetime 0
	Fetch   string `json:"fetch"`  // verify: direct (default) | perspective: a PerspectiveKeyFetcher in front of the DirectKeyFetcher
}

// A panic in one of the goroutines of a case is an outcome of the case (the process would otherwise die with it
// and the run would end as a machinery error): it is caught where the goroutine was started and reported with
// the innermost library function on the panicking stack.
type panicBox struct {
	mu   sync.Mutex
	what string
	fn   string
}

var stressPanics panicBox

func (b *panicBox) catch() {
	if e := recover(); e != nil {
		st := debug.Stack()
		b.mu.Lock()
		if b.what == "" {
			b.what, b.fn = fmt.Sprintf("%v\n%s", e, libFrames(st)), innermostLibFunc(st)
		}
		b.mu.Unlock()
	}
}

func stressCase(raw json.RawMessage) hx.Result {
	var r stressRec
	if err := json.Unmarshal(raw, &r); err != nil {
		panic(err)
	}
	stressPanics.mu.Lock()
	stressPanics.what, stressPanics.fn = "", ""
	stressPanics.mu.Unlock()
	res := stressDispatch(r)
	stressPanics.mu.Lock()
	defer stressPanics.mu.Unlock()
	if stressPanics.what != "" {
		return hx.Result{OK: false, Key: "C19/stress/" + r.Case + "/panic/" + stressPanics.fn,
			What: fmt.Sprintf("%d goroutines on one shared object: panic in a goroutine of the case: %s", r.K, stressPanics.what)}
	}
	return res
}

func stressDispatch(r stressRec) hx.Result {
	switch r.Case {
	case "events":
		return stressEvents(r)
	case "verify":
		return stressVerify(r)
	case "dns":
		return stressDNS(r)
	case "transport":
		return stressTransport(r)
	case "transport1":
		return stressTransportFirstUse(r)
	case "transportreap":
		return stressTransportReaper(r)
	}
	panic("unknown stress case " + r.Case)
}

// ------------------------------------------------------------------ events

func roomID43(tag string) string { return "!" + tag + strings.Repeat("A", 43-len(tag)) }

// stressEventJSON builds a correctly hashed and signed event of the version with the library's own builder
// and returns its JSON (optionally with the content altered after hashing, which makes the parser take the
// redaction path).
func stressEventJSON(ver, kind string, tamper bool) []byte {
	v := gmsl.MustGetRoomVersion(gmsl.RoomVersion(ver))
	priv := seedKey("events")
	sender := "@alice:c19.test"
	roomID := "!room:c19.test"
	if v.DomainlessRoomIDs() {
		roomID = roomID43("c19")
	}
	empty := ""
	pe := gmsl.ProtoEvent{SenderID: sender, RoomID: roomID, Depth: 7,
		PrevEvents: []string{"$" + strings.Repeat("p", 43)}, AuthEvents: []string{"$" + strings.Repeat("q", 43)}}
	switch kind {
	case "create":
		pe.Type, pe.StateKey, pe.Depth = spec.MRoomCreate, &empty, 1
		pe.PrevEvents, pe.AuthEvents = []string{}, []string{}
		pe.Content = spec.RawJSON(`{"room_version":"` + ver + `","extra":"x"}`)
		if v.DomainlessRoomIDs() {
			pe.RoomID = ""
		} else {
			pe.Content = spec.RawJSON(`{"creator":"` + sender + `","room_version":"` + ver + `","extra":"x"}`)
		}
	case "member":
		pe.Type, pe.StateKey = spec.MRoomMember, &sender
		pe.Content = spec.RawJSON(`{"membership":"join","displayname":"Alice"}`)
	case "message":
		pe.Type = "m.room.message"
		pe.Content = spec.RawJSON(`{"msgtype":"m.text","body":"hello"}`)
	default:
		panic("unknown event kind " + kind)
	}
	ev, err := v.NewEventBuilderFromProtoEvent(&pe).Build(time.Unix(1700000000, 0), "c19.test", "ed25519:k1", priv)
	if err != nil {
		panic(fmt.Sprintf("cannot build %s event for version %s: %v", kind, ver, err))
	}
	js := ev.JSON()
	if tamper {
		for from, to := range map[string]string{`"extra":"x"`: `"extra":"y"`, `"displayname":"Alice"`: `"displayname":"Alicf"`, `"body":"hello"`: `"body":"hellp"`} {
			js = bytes.Replace(js, []byte(from), []byte(to), 1)
		}
	}
	return js
}

// accessors lists every read-only accessor of the PDU interface (rendered as strings).
var accessors = []func(ev gmsl.PDU) string{
	func(ev gmsl.PDU) string { return "EventID=" + ev.EventID() },
	func(ev gmsl.PDU) string { return "RoomID=" + ev.RoomID().String() },
	func(ev gmsl.PDU) string {
		h, err := ev.ToHeaderedJSON()
		return fmt.Sprint("Headered=", string(h), err)
	},
	func(ev gmsl.PDU) string { return "Type=" + ev.Type() },
	func(ev gmsl.PDU) string {
		if p := ev.StateKey(); p != nil {
			return "StateKey=" + *p
		}
		return "StateKey=<nil>"
	},
	func(ev gmsl.PDU) string { return fmt.Sprint("StateKeyEquals=", ev.StateKeyEquals("")) },
	func(ev gmsl.PDU) string { return "Content=" + string(ev.Content()) },
	func(ev gmsl.PDU) string { return "SenderID=" + string(ev.SenderID()) },
	func(ev gmsl.PDU) string { return fmt.Sprint("OriginServerTS=", ev.OriginServerTS()) },
	func(ev gmsl.PDU) string { return fmt.Sprint("PrevEventIDs=", ev.PrevEventIDs()) },
	func(ev gmsl.PDU) string { return fmt.Sprint("AuthEventIDs=", ev.AuthEventIDs()) },
	func(ev gmsl.PDU) string { return fmt.Sprint("Redacted=", ev.Redacted()) },
	func(ev gmsl.PDU) string { return "Redacts=" + ev.Redacts() },
	func(ev gmsl.PDU) string { return fmt.Sprint("Depth=", ev.Depth()) },
	func(ev gmsl.PDU) string { return "Version=" + string(ev.Version()) },
	func(ev gmsl.PDU) string { return "Unsigned=" + string(ev.Unsigned()) },
	func(ev gmsl.PDU) string { m, err := ev.Membership(); return fmt.Sprint("Membership=", m, err) },
	func(ev gmsl.PDU) string { j, err := ev.JoinRule(); return fmt.Sprint("JoinRule=", j, err) },
	func(ev gmsl.PDU) string { _, err := ev.PowerLevels(); return fmt.Sprint("PowerLevelsErr=", err != nil) },
	func(ev gmsl.PDU) string { return fmt.Sprint("JSON=", len(ev.JSON())) },
	func(ev gmsl.PDU) string { return "EventID=" + ev.EventID() },
}

// readAccessors evaluates all accessors starting with number `first` (so that different goroutines make
// different first calls on the shared event); results are indexed by accessor.
func readAccessors(ops []func(ev gmsl.PDU) string, ev gmsl.PDU, first int) []string {
	out := make([]string, len(ops))
	for i := range ops {
		j := (first + i) % len(ops)
		out[j] = ops[j](ev)
	}
	return out
}

// copyOps are the operations the PDU interface documents as returning a copy of the event (the receiver is
// shared by all goroutines; the copy is private to the caller and is read through its own accessors).
func copyOps(which string) []func(ev gmsl.PDU) string {
	setUnsigned := func(ev gmsl.PDU) string {
		c, err := ev.SetUnsigned(map[string]interface{}{"age": 7})
		if err != nil {
			return "SetUnsigned error " + err.Error()
		}
		return fmt.Sprint("SetUnsigned=", string(c.Unsigned()), " ", c.EventID(), " ", c.Type(), " ", c.Redacted(), " ", len(c.JSON()))
	}
	sign := func(ev gmsl.PDU) string {
		c := ev.Sign("signer.c19.test", "ed25519:s1", seedKey("signer"))
		return fmt.Sprint("Sign=", c.EventID(), " ", c.Type(), " ", strings.Contains(string(c.JSON()), "signer.c19.test"))
	}
	switch which {
	case "setunsigned":
		return []func(ev gmsl.PDU) string{setUnsigned}
	case "sign":
		return []func(ev gmsl.PDU) string{sign}
	case "both":
		return []func(ev gmsl.PDU) string{setUnsigned, sign}
	}
	return nil
}

func stressEvents(r stressRec) hx.Result {
	v := gmsl.MustGetRoomVersion(gmsl.RoomVersion(r.Ver))
	js := stressEventJSON(r.Ver, r.Kind, r.Tamper)
	var headered []byte
	if r.Ctor == "headered" {
		ev, err := v.NewEventFromUntrustedJSON(js)
		if err != nil {
			panic(err)
		}
		ev.EventID()
		if headered, err = ev.ToHeaderedJSON(); err != nil {
			panic(err)
		}
	}
	parse := func() gmsl.PDU {
		var ev gmsl.PDU
		var err error
		switch r.Ctor {
		case "", "untrusted":
			ev, err = v.NewEventFromUntrustedJSON(js)
		case "trusted":
			ev, err = v.NewEventFromTrustedJSON(js, false)
		case "headered":
			ev, err = gmsl.NewEventFromHeaderedJSON(headered, false)
		default:
			panic("unknown constructor " + r.Ctor)
		}
		if err != nil {
			panic(fmt.Sprintf("constructor %q (%s %s tamper=%v): %v", r.Ctor, r.Ver, r.Kind, r.Tamper, err))
		}
		return ev
	}
	ops := append(append([]func(ev gmsl.PDU) string{}, accessors...), copyOps(r.Copies)...)
	// Sequential evaluation on private copies, once for every starting accessor: the result of an accessor in
	// SOME sequential order of the calls.  (ToHeaderedJSON legitimately differs with the order: it embeds the
	// event ID only once EventID() has been called.)
	want := make([]map[string]bool, len(ops))
	for i := range want {
		want[i] = map[string]bool{}
	}
	for first := range ops {
		for i, s := range readAccessors(ops, parse(), first) {
			want[i][s] = true
		}
	}
	key := "C19/stress/events/accessor-result"
	for round := 0; round < r.Rounds; round++ {
		ev := parse() // fresh: the first accessor calls happen concurrently
		got := make([][]string, r.K)
		start := make(chan struct{})
		var wg sync.WaitGroup
		for g := 0; g < r.K; g++ {
			wg.Add(1)
			go func(g int) {
				defer wg.Done()
				defer stressPanics.catch()
				<-start
				got[g] = readAccessors(ops, ev, (g*7+round)%len(ops))
			}(g)
		}
		close(start)
		wg.Wait()
		for g := range got {
			for i := range want {
				if !want[i][got[g][i]] {
					return hx.Result{OK: false, Key: key, What: fmt.Sprintf("room version %s %s event (tampered=%v, constructor %s, copies %q), %d goroutines: goroutine %d observed %q, sequential evaluation gives %q", r.Ver, r.Kind, r.Tamper, r.Ctor, r.Copies, r.K, g, got[g][i], sortedKeys(want[i]))}
				}
			}
		}
	}
	red := false
	for s := range want[11] {
		red = red || s == "Redacted=true"
	}
	return hx.Result{OK: true, NT: fmt.Sprintf("events v%s %s tamper=%v redacted=%v ctor=%s copies=%s", r.Ver, r.Kind, r.Tamper, red, r.Ctor, r.Copies)}
}

// ------------------------------------------------------------------ verify

// memKeyDB is a goroutine-safe in-memory KeyDatabase.
type memKeyDB struct {
	mu   sync.RWMutex
	keys map[gmsl.PublicKeyLookupRequest]gmsl.PublicKeyLookupResult
}

func (d *memKeyDB) FetcherName() string { return "memKeyDB" }
func (d *memKeyDB) FetchKeys(_ context.Context, reqs map[gmsl.PublicKeyLookupRequest]spec.Timestamp) (map[gmsl.PublicKeyLookupRequest]gmsl.PublicKeyLookupResult, error) {
	d.mu.RLock()
	defer d.mu.RUnlock()
	out := map[gmsl.PublicKeyLookupRequest]gmsl.PublicKeyLookupResult{}
	for r := range reqs {
		if k, ok := d.keys[r]; ok {
			out[r] = k
		}
	}
	return out, nil
}
func (d *memKeyDB) StoreKeys(_ context.Context, res map[gmsl.PublicKeyLookupRequest]gmsl.PublicKeyLookupResult) error {
	d.mu.Lock()
	defer d.mu.Unlock()
	for r, k := range res {
		d.keys[r] = k
	}
	return nil
}

// instantKeyClient answers at once: servers named "down*" fail on both paths, "notary*" fail directly and
// succeed through the notary path, everything else succeeds directly.
type instantKeyClient struct {
	ids   map[spec.ServerName]*serverIdentity
	persp map[spec.ServerName]gmsl.ServerKeys // perspective mode: key responses countersigned by the perspective server
}

var perspCalls, perspUsable int64 // perspective answers asked for / answers that pass the fetcher's checks

const perspName = spec.ServerName("persp.c19.test")
const perspKeyID = gmsl.KeyID("ed25519:p1")

// perspectiveAnswer is what the scripted perspective server returns for a batch of key requests: the
// countersigned responses of the "srv*" servers it knows (others are left to the next fetcher); when "srv1"
// is among the requested servers its entry carries a broken countersignature, which makes the
// PerspectiveKeyFetcher reject the whole answer (the ring must then fall back to the next fetcher).
func (c *instantKeyClient) perspectiveAnswer(reqs map[gmsl.PublicKeyLookupRequest]spec.Timestamp) ([]gmsl.ServerKeys, error) {
	seen := map[spec.ServerName]bool{}
	var names []string
	for r := range reqs {
		if !seen[r.ServerName] {
			seen[r.ServerName] = true
			names = append(names, string(r.ServerName))
		}
	}
	sort.Strings(names)
	var out []gmsl.ServerKeys
	atomic.AddInt64(&perspCalls, 1)
	defer func() {
		if len(out) > 0 && !seen["srv1.c19.test"] {
			atomic.AddInt64(&perspUsable, 1)
		}
	}()
	for _, n := range names {
		k, ok := c.persp[spec.ServerName(n)]
		if !ok {
			continue
		}
		if strings.HasPrefix(n, "srv1.") {
			k.Raw = bytes.Replace(append([]byte(nil), k.Raw...), []byte(`"valid_until_ts":`), []byte(`"valid_until_ts":1`), 1)
		}
		out = append(out, k)
	}
	return out, nil
}

func (c *instantKeyClient) GetServerKeys(_ context.Context, s spec.ServerName) (gmsl.ServerKeys, error) {
	id := c.ids[s]
	if id == nil || strings.HasPrefix(string(s), "down") || strings.HasPrefix(string(s), "notary") {
		return gmsl.ServerKeys{}, errors.New("c19: server does not answer directly")
	}
	return id.resp, nil
}

func (c *instantKeyClient) LookupServerKeys(_ context.Context, s spec.ServerName, reqs map[gmsl.PublicKeyLookupRequest]spec.Timestamp) ([]gmsl.ServerKeys, error) {
	if c.persp != nil && s == perspName {
		return c.perspectiveAnswer(reqs)
	}
	id := c.ids[s]
	if id == nil || strings.HasPrefix(string(s), "down") {
		return nil, errors.New("c19: server does not answer as notary")
	}
	return []gmsl.ServerKeys{id.resp}, nil
}

func newStressRing(ids map[spec.ServerName]*serverIdentity, persp map[spec.ServerName]gmsl.ServerKeys) *gmsl.KeyRing {
	client := &instantKeyClient{ids: ids, persp: persp}
	fetchers := []gmsl.KeyFetcher{&gmsl.DirectKeyFetcher{
		Client:            client,
		IsLocalServerName: func(s spec.ServerName) bool { return false },
	}}
	if persp != nil {
		fetchers = append([]gmsl.KeyFetcher{&gmsl.PerspectiveKeyFetcher{
			PerspectiveServerName: perspName,
			PerspectiveServerKeys: map[gmsl.KeyID]ed25519.PublicKey{perspKeyID: seedKey("persp").Public().(ed25519.PublicKey)},
			Client:                client,
		}}, fetchers...)
	}
	return &gmsl.KeyRing{
		KeyFetchers: fetchers,
		KeyDatabase: &memKeyDB{keys: map[gmsl.PublicKeyLookupRequest]gmsl.PublicKeyLookupResult{}},
	}
}

// countersign returns the key responses of the "srv*" servers signed by the perspective server as well.
func countersign(ids map[spec.ServerName]*serverIdentity) map[spec.ServerName]gmsl.ServerKeys {
	out := map[spec.ServerName]gmsl.ServerKeys{}
	for n, id := range ids {
		if !strings.HasPrefix(string(n), "srv") {
			continue
		}
		js, err := gmsl.SignJSON(string(perspName), perspKeyID, seedKey("persp"), id.resp.Raw)
		if err != nil {
			panic(err)
		}
		var k gmsl.ServerKeys
		if err = json.Unmarshal(js, &k); err != nil {
			panic(err)
		}
		out[n] = k
	}
	return out
}

func renderVerify(res []gmsl.VerifyJSONResult, err error) []string {
	if err != nil {
		return []string{"error: " + err.Error()}
	}
	out := make([]string, len(res))
	for i, r := range res {
		if r.Error == nil {
			out[i] = "ok"
		} else {
			out[i] = r.Error.Error()
		}
	}
	return out
}

func stressVerify(r stressRec) hx.Result {
	rng := rand.New(rand.NewSource(r.Seed))
	names := []string{"down1"}
	for i := 0; i < r.Servers; i++ {
		if i%3 == 2 {
			names = append(names, fmt.Sprintf("notary%d", i))
		} else {
			names = append(names, fmt.Sprintf("srv%d", i))
		}
	}
	ids := map[spec.ServerName]*serverIdentity{}
	var idl []*serverIdentity
	for _, n := range names {
		id := identity(n, []string{"k1", "k2"})
		ids[id.name] = id
		idl = append(idl, id)
	}
	// batches of signed messages over overlapping servers; some with a broken signature
	mkBatch := func(n int) []gmsl.VerifyJSONRequest {
		var reqs []gmsl.VerifyJSONRequest
		for j := 0; j < n; j++ {
			id := idl[rng.Intn(len(idl))]
			kid := sortedKeyIDs(id.keys)[rng.Intn(2)]
			msg := []byte(fmt.Sprintf(`{"n":%d,"from":"%s"}`, rng.Intn(1000), id.name))
			signed, err := gmsl.SignJSON(string(id.name), kid, id.keys[kid], msg)
			if err != nil {
				panic(err)
			}
			if rng.Intn(5) == 0 {
				signed = bytes.Replace(signed, []byte(`"n":`), []byte(`"n":1`), 1)
			}
			reqs = append(reqs, gmsl.VerifyJSONRequest{ServerName: id.name, AtTS: spec.AsTimestamp(time.Unix(1700000000, 0)),
				Message: signed, ValidityCheckingFunc: gmsl.StrictValiditySignatureCheck})
			if rng.Intn(4) == 0 {
				// the same (server, key ID) twice in one batch: once more as it is and once with the other verdict
				dup := reqs[len(reqs)-1]
				reqs = append(reqs, dup)
				if bytes.Contains(dup.Message, []byte(`"n":1`)) {
					dup.Message = bytes.Replace(dup.Message, []byte(`"n":1`), []byte(`"n":2`), 1)
				} else {
					dup.Message = bytes.Replace(dup.Message, []byte(`"n":`), []byte(`"n":1`), 1)
				}
				reqs = append(reqs, dup)
			}
		}
		return reqs
	}
	var persp map[spec.ServerName]gmsl.ServerKeys
	if r.Fetch == "perspective" {
		persp = countersign(ids)
	}
	key := "C19/stress/verify/result"
	for round := 0; round < r.Rounds; round++ {
		batches := make([][]gmsl.VerifyJSONRequest, r.K)
		want := make([][]string, r.K)
		seqRing := newStressRing(ids, persp)
		for g := range batches {
			batches[g] = mkBatch(rng.Intn(7)) // 0 requests included
			want[g] = renderVerify(seqRing.VerifyJSONs(context.Background(), batches[g]))
		}
		ring := newStressRing(ids, persp) // ONE ring, fetcher and database shared by all goroutines
		got := make([][]string, r.K)
		start := make(chan struct{})
		var wg sync.WaitGroup
		for g := 0; g < r.K; g++ {
			wg.Add(1)
			go func(g int) {
				defer wg.Done()
				defer stressPanics.catch()
				<-start
				got[g] = renderVerify(ring.VerifyJSONs(context.Background(), batches[g]))
			}(g)
		}
		close(start)
		wg.Wait()
		for g := range got {
			if strings.Join(got[g], "\n") != strings.Join(want[g], "\n") {
				return hx.Result{OK: false, Key: key, What: fmt.Sprintf("%d concurrent VerifyJSONs over %d servers (fetchers: %s): goroutine %d got %q, sequential evaluation gives %q", r.K, len(names), r.Fetch, g, got[g], want[g])}
			}
		}
	}
	return hx.Result{OK: true, NT: fmt.Sprintf("verify k=%d servers=%d fetch=%s", r.K, len(names), r.Fetch),
		Extra: map[string]int64{"perspective_answers": atomic.LoadInt64(&perspCalls), "usable": atomic.LoadInt64(&perspUsable)}}
}

// --------------------------------------------------------------------- dns

type instantResolver struct{}

func (instantResolver) LookupIPAddr(_ context.Context, name string) ([]net.IPAddr, error) {
	if strings.HasPrefix(name, "z") {
		return nil, errors.New("c19: no such host")
	}
	return []net.IPAddr{{IP: net.ParseIP(modelIP(name[:1], 1))}}, nil
}

func stressDNS(r stressRec) hx.Result {
	lifetime := time.Hour
	if r.Dur0 {
		lifetime = 0
	}
	cache := fclient.NewDNSCache(r.Size, lifetime, []string{"127.0.0.0/8"}, nil)
	fclient.VerifC19SetResolver(cache, instantResolver{})
	checkSnapshot := func(fail func(k, format string, a ...interface{}), when string) {
		ents, size := fclient.VerifC19Snapshot(cache)
		if len(ents) > size {
			fail("size-exceeded", "%d goroutines: the cache holds %d entries %s, configured size %d", r.K, len(ents), when, size)
		}
		for _, e := range ents {
			h := strings.TrimSuffix(e.Host, ".c19.test")
			if h == "z" {
				fail("failed-resolution-cached", "the cache holds an entry for %q whose resolution always fails: %v", e.Host, e.Addrs)
			} else if len(e.Addrs) != 1 || e.Addrs[0] != modelIP(h, 1) {
				fail("cross-host", "the entry of %q holds %v, resolved address is %s", e.Host, e.Addrs, modelIP(h, 1))
			}
		}
	}
	hosts := []string{"z"}
	for i := 0; i < r.Hosts; i++ {
		hosts = append(hosts, string(rune('a'+i)))
	}
	// DialContext goes through the same cache; the dial control hook refuses every third dial, so that the
	// stale-entry path (all addresses of a cached entry fail -> delete the entry -> look up again) runs
	// concurrently with lookups, expiry and eviction.  The hook never blocks.
	if dnsPort == "" {
		if _, err := dnsSetup(); err != nil {
			panic(err)
		}
	}
	var dials int64
	fclient.VerifC19WrapDialControl(cache, func(orig fclient.VerifC19ControlFunc) fclient.VerifC19ControlFunc {
		return func(ctx context.Context, network, address string, rc syscall.RawConn) error {
			if atomic.AddInt64(&dials, 1)%3 == 0 {
				return errors.New("c19: scripted dial failure")
			}
			return orig(ctx, network, address, rc)
		}
	})
	key := "C19/stress/dns/"
	var mu sync.Mutex
	var failure *hx.Result
	fail := func(k, format string, a ...interface{}) {
		mu.Lock()
		if failure == nil {
			failure = &hx.Result{OK: false, Key: key + k, What: fmt.Sprintf(format, a...)}
		}
		mu.Unlock()
	}
	start := make(chan struct{})
	var wg sync.WaitGroup
	for g := 0; g < r.K; g++ {
		wg.Add(1)
		go func(g int) {
			defer wg.Done()
			defer stressPanics.catch()
			rng := rand.New(rand.NewSource(r.Seed*1000 + int64(g)))
			<-start
			for i := 0; i < r.Rounds; i++ {
				h := hosts[rng.Intn(len(hosts))]
				switch rng.Intn(10) {
				case 0:
					checkSnapshot(fail, "during the run")
				case 1:
					fclient.VerifC19SetExpiry(cache, hostName(h), time.Now().Add(-time.Minute))
				case 2, 3:
					conn, err := cache.DialContext(context.Background(), "tcp", hostName(h)+":"+dnsPort)
					switch {
					case err == nil:
						conn.Close()
						if h == "z" {
							fail("wrong-result", "DialContext to the unresolvable host returned a connection")
						}
					case h == "z" && !strings.HasPrefix(err.Error(), "lookup failed"):
						fail("wrong-result", "DialContext to the unresolvable host: %v", err)
					case h != "z" && !strings.HasPrefix(err.Error(), "connection failed"):
						fail("wrong-result", "DialContext to %q: %v (the host resolves; only the dial may fail)", h, err)
					}
				default:
					addrs, _, ok := fclient.VerifC19Lookup(context.Background(), cache, hostName(h))
					if h == "z" {
						if ok {
							fail("wrong-result", "lookup of the unresolvable host returned %v", addrs)
						}
					} else if !ok || len(addrs) != 1 || addrs[0] != modelIP(h, 1) {
						fail("wrong-result", "lookup of %q returned ok=%v %v, sequential evaluation gives %s", h, ok, addrs, modelIP(h, 1))
					}
				}
			}
		}(g)
	}
	close(start)
	wg.Wait()
	checkSnapshot(fail, "at the end")
	if failure != nil {
		return *failure
	}
	return hx.Result{OK: true, NT: fmt.Sprintf("dns k=%d size=%d hosts=%d dur0=%v", r.K, r.Size, r.Hosts, r.Dur0)}
}

// --------------------------------------------------------------- transport

func stressTransport(r stressRec) hx.Result {
	tripper := fclient.VerifC19NewTripper(true, nil, false)
	names := []string{"a.c19.test:1", "b.c19.test:1", "c.c19.test:1"}
	var mu sync.Mutex
	var failure *hx.Result
	start := make(chan struct{})
	var wg sync.WaitGroup
	for g := 0; g < r.K; g++ {
		wg.Add(1)
		go func(g int) {
			defer wg.Done()
			defer stressPanics.catch()
			rng := rand.New(rand.NewSource(r.Seed*1000 + int64(g)))
			<-start
			for i := 0; i < r.Rounds; i++ {
				n := names[rng.Intn(len(names))]
				switch rng.Intn(6) {
				case 0:
					tripper.Reaper()
				case 1:
					tripper.SetLastUsed(n, time.Now().Add(-time.Hour))
				default:
					d := fclient.VerifC19Describe(n, tripper.GetTransport(n))
					if !d.Inited || !d.HasUsed || d.ServerName != n {
						mu.Lock()
						if failure == nil {
							failure = &hx.Result{OK: false, Key: "C19/stress/transport/half-initialised",
								What: fmt.Sprintf("getTransport(%q) handed out a transport with initialised=%v lastUsed stored=%v TLS ServerName=%q", n, d.Inited, d.HasUsed, d.ServerName)}
						}
						mu.Unlock()
					}
				}
			}
		}(g)
	}
	close(start)
	wg.Wait()
	if failure != nil {
		return *failure
	}
	return hx.Result{OK: true, NT: fmt.Sprintf("transport k=%d", r.K)}
}

// stressTransportFirstUse: for many fresh TLS names, k goroutines released by one barrier ask the shared
// transport cache for the transport of the SAME, not yet cached, name.  In every sequential order of these
// calls the first creates the transport and all others are handed that very object, so all k results and the
// transport found in the map afterwards must be identical (pointer comparison; no reaper runs in this case).
func stressTransportFirstUse(r stressRec) hx.Result {
	tripper := fclient.VerifC19NewTripper(true, nil, false)
	for round := 0; round < r.Rounds; round++ {
		name := fmt.Sprintf("h%d-%d.c19.test:8448", r.Seed, round)
		got := make([]http.RoundTripper, r.K)
		start := make(chan struct{})
		var wg sync.WaitGroup
		for g := 0; g < r.K; g++ {
			wg.Add(1)
			go func(g int) {
				defer wg.Done()
				defer stressPanics.catch()
				<-start
				got[g] = tripper.GetTransport(name)
			}(g)
		}
		close(start)
		wg.Wait()
		cached := tripper.GetTransport(name)
		distinct := map[http.RoundTripper]bool{cached: true}
		for _, t := range got {
			distinct[t] = true
		}
		if len(distinct) != 1 {
			return hx.Result{OK: false, Key: "C19/stress/transport/callers-of-one-name-get-different-transports",
				What: fmt.Sprintf("%d goroutines asked for the transport of the uncached TLS name %q at the same time and were handed %d different transports (%d of them not the cached one); every sequential order hands all of them the one cached transport", r.K, name, len(distinct), len(distinct)-1)}
		}
		if d := fclient.VerifC19Describe(name, cached); !d.Inited || !d.HasUsed || d.ServerName != name {
			return hx.Result{OK: false, Key: "C19/stress/transport/half-initialised",
				What: fmt.Sprintf("transport of %q: initialised=%v lastUsed stored=%v TLS ServerName=%q", name, d.Inited, d.HasUsed, d.ServerName)}
		}
	}
	return hx.Result{OK: true, NT: fmt.Sprintf("transport first use k=%d", r.K)}
}

// stressTransportReaper: reaper passes in goroutines of their own (the timer goroutine of the library, at an
// arbitrary rate) next to k goroutines that each make the FIRST use of fresh TLS names, use them again and let
// them age.  Whatever the interleaving, a pass must find every transport of the map stamped (a pass that panics
// is the failure) and every caller must be handed a complete transport.
func stressTransportReaper(r stressRec) hx.Result {
	tripper := fclient.VerifC19NewTripper(true, nil, false)
	var stop int32
	var mu sync.Mutex
	var failure *hx.Result
	var reapers, users sync.WaitGroup
	for g := 0; g < 2; g++ {
		reapers.Add(1)
		go func() {
			defer reapers.Done()
			defer stressPanics.catch()
			for n := 0; atomic.LoadInt32(&stop) == 0 && n < 200000; n++ {
				tripper.Reaper()
			}
		}()
	}
	start := make(chan struct{})
	for g := 0; g < r.K; g++ {
		users.Add(1)
		go func(g int) {
			defer users.Done()
			defer stressPanics.catch()
			rng := rand.New(rand.NewSource(r.Seed*1000 + int64(g)))
			<-start
			for i := 0; i < r.Rounds; i++ {
				n := fmt.Sprintf("g%d-%d.c19.test:8448", g, i)
				for use := 0; use < 1+rng.Intn(2); use++ {
					d := fclient.VerifC19Describe(n, tripper.GetTransport(n))
					if !d.Inited || !d.HasUsed || d.ServerName != n {
						mu.Lock()
						if failure == nil {
							failure = &hx.Result{OK: false, Key: "C19/stress/transport/half-initialised",
								What: fmt.Sprintf("getTransport(%q) handed out a transport with initialised=%v lastUsed stored=%v TLS ServerName=%q", n, d.Inited, d.HasUsed, d.ServerName)}
						}
						mu.Unlock()
					}
				}
				if rng.Intn(2) == 0 {
					tripper.SetLastUsed(n, time.Now().Add(-time.Hour)) // the entry ages: a later pass deletes it
				}
			}
		}(g)
	}
	close(start)
	users.Wait()
	atomic.StoreInt32(&stop, 1)
	reapers.Wait()
	if failure != nil {
		return *failure
	}
	return hx.Result{OK: true, NT: fmt.Sprintf("transport reaper passes next to first uses k=%d", r.K)}
}
