package main

import (
	"context"
	"encoding/json"
	"fmt"
	"os"
	"sort"
	"strings"

	gmsl "github.com/matrix-org/gomatrixserverlib"
	"github.com/matrix-org/gomatrixserverlib/fclient"
	"github.com/matrix-org/gomatrixserverlib/spec"

	"verifharness/hx"
)

func replayOne(i int, raw json.RawMessage, seed int64) hx.Result {
	var r rec
	if err := json.Unmarshal(raw, &r); err != nil {
		panic(err)
	}
	w := materialise(&r, raw, seed)
	var res hx.Result
	switch r.Kind {
	case "state":
		res = replayState(w)
	case "sendjoin":
		res = replaySendJoin(w)
	case "chain":
		res = replayChain(w)
	case "atstate":
		res = replayAtState(w)
	case "load":
		res = replayLoad(w)
	case "backfill":
		res = replayBackfill(w)
	default:
		panic("c14: unknown kind " + r.Kind)
	}
	if res.OK && len(w.variants) > 0 {
		sort.Strings(w.variants)
		res.NT += "|" + strings.Join(w.variants, ",")
	}
	return res
}

func (w *world) fail(aspect string, want, got interface{}, format string, args ...interface{}) hx.Result {
	r := w.r
	aspect = w.tag + aspect
	key := fmt.Sprintf("C14/%s/%s/%s", r.Kind, aspect, r.faultKey())
	if strings.HasPrefix(aspect, "duplicate-input/") || strings.HasPrefix(aspect, "judged-by-cited-auth-events/") ||
		strings.HasPrefix(aspect, "good-event-lost/") || strings.HasPrefix(aspect, "returned-twice/") {
		key = fmt.Sprintf("C14/%s/%s", r.Kind, aspect) // the origin is known: the other deviations of the scenario are not part of it
	}
	return hx.Result{OK: false, Key: key, Want: want, Got: got,
		What: fmt.Sprintf("%s (room version %s): ", r.Kind, r.Ver) + fmt.Sprintf(format, args...) + "; room: " + w.describe() +
			"; concrete shapes: " + strings.Join(w.variants, ",")}
}

// scriptedProvider makes the event provider of one operation.  For a quarter of the records the same provider object
// first serves a throw-away run of the operation in which every ID fails the first time it is asked for (state
// carried from one operation to the next must not exist); for a fifth it hands back more events than asked for.
func (w *world) scriptedProvider(run func(p *provider)) *provider {
	p := newProvider(w)
	// A provider that hands back MORE events than it was asked for is not among the provider behaviours the property
	// quantifies over (returns the event, returns nothing, errors): the library then adds the extra events to the
	// judged event's auth events (and loops if the asked event is not among them) - recorded as an observation in
	// DESIGN.md, not demanded here.  The draw is kept so that the other seeded choices stay as they were.
	if w.rng.Intn(5) == 0 && os.Getenv("VERIF_C14_GENEROUS") == "1" {
		p.generous = true
		w.variants = append(w.variants, "provider=generous")
		w.tag = "generous-provider/"
	}
	if w.rng.Intn(6) == 0 {
		p.priming = true
		func() {
			defer func() { _ = recover() }() // a panic shows again in the run that counts
			run(p)
		}()
		p.endPriming()
		w.variants = append(w.variants, "provider=failed-in-an-earlier-operation")
	}
	return p
}

// checkAsked compares the provider call log (as a set of event IDs) with the specification's bounds.
func (w *world) checkAsked(p *provider) *hx.Result {
	asked, unknown := p.askedIDs()
	max := setOf(w.r.AskMax)
	for _, a := range asked {
		if !max[a] {
			r := w.fail("provider-asked-unrelated", sortedCopy(w.r.AskMax), asked,
				"the event provider was asked for event %d, which no event of the response cites or which arrived with verified signatures (may ask for %v)", a, sortedCopy(w.r.AskMax))
			return &r
		}
	}
	for _, u := range unknown {
		if u != w.otherCr {
			r := w.fail("provider-asked-unrelated", sortedCopy(w.r.AskMax), unknown, "the event provider was asked for %s, which is no event of the room", u)
			return &r
		}
	}
	got := setOf(asked)
	if p.generous {
		return nil // events that came unasked need not be asked for
	}
	for _, a := range w.r.AskMin {
		if !got[a] {
			r := w.fail("provider-not-asked", sortedCopy(w.r.AskMin), asked,
				"the event provider was never asked for event %d although an accepted event cites it and it did not arrive with verified signatures", a)
			return &r
		}
	}
	return nil
}

// shaped hands the response to the library in one of the shapes callers have it in: the plain lists, or the
// federation client's RespState / RespSendJoin (the latter with the partial-state fields, which these checks do not read).
func (w *world) shaped(resp *stateResponse, sendJoin bool) gmsl.StateResponse {
	if w.shape == 0 {
		w.shape = 1 + w.rng.Intn(3)
	}
	switch {
	case w.shape == 2 && sendJoin:
		return &fclient.RespSendJoin{StateEvents: cloneJSONs(resp.state), AuthEvents: cloneJSONs(resp.auth), Origin: "hs2",
			MembersOmitted: w.rng.Intn(2) == 0, ServersInRoom: []string{"hs1", "hs2"}}
	case w.shape == 2 || w.shape == 3:
		return &fclient.RespState{StateEvents: cloneJSONs(resp.state), AuthEvents: cloneJSONs(resp.auth)}
	}
	return &stateResponse{auth: cloneJSONs(resp.auth), state: cloneJSONs(resp.state)}
}

// ------------------------------------------------------------------------------------------------ state

func replayState(w *world) hx.Result {
	r := w.r
	ctx := context.Background()
	resp := w.response()
	prov := w.scriptedProvider(func(p *provider) {
		_, _, _ = gmsl.CheckStateResponse(ctx, w.shaped(resp, false), w.ver, newKeyRing(), p.ProvideEvents, identityQuerier)
	})
	auth, state, err := gmsl.CheckStateResponse(ctx, w.shaped(resp, false), w.ver, newKeyRing(), prov.ProvideEvents, identityQuerier)
	if (err != nil) != r.Fail {
		if r.Fail {
			return w.fail("whole-response-accepted", "error", "no error",
				"CheckStateResponse accepted a response with a non-state event or a duplicate (type, state_key) in the state list")
		}
		return w.fail("whole-response-refused", "no error", fmt.Sprint(err), "CheckStateResponse refused the whole response: %v", err)
	}
	outcome := "fail"
	if !r.Fail {
		ga, gs := w.modelIDs(auth), w.modelIDs(state)
		wa, ws := sortedCopy(r.Auth), sortedCopy(r.State)
		if !sameInts(ga, wa) || !sameInts(gs, ws) {
			aspect, detail := classifyDiff(w, append(append([]int{}, wa...), ws...), append(append([]int{}, ga...), gs...))
			return w.fail(aspect, map[string][]int{"auth": wa, "state": ws}, map[string][]int{"auth": ga, "state": gs},
				"CheckStateResponse returned auth events %v and state events %v, the specification says %v and %v (%s); auth list %v, state list %v",
				ga, gs, wa, ws, detail, sortedCopy(r.AL), sortedCopy(r.SL))
		}
		outcome = fmt.Sprintf("kept=%d/%d", len(ga)+len(gs), len(r.AL)+len(r.SL))
	}
	if bad := w.checkAsked(prov); bad != nil {
		return *bad
	}
	// (re-parses the whole response: done for every record with at most one deviation and for a third of the others)
	if devs := strings.Count(r.faultKey(), "+"); devs == 0 || w.rng.Intn(3) == 0 {
		if bad := w.checkLinearise(resp); bad != nil {
			return *bad
		}
	}
	return hx.Result{OK: true, NT: fmt.Sprintf("state|%s|%s|%s", r.Ver, r.faultKey(), outcome)}
}

// classifyDiff names the kind of difference between expected and returned ID lists.
func classifyDiff(w *world, want, got []int) (string, string) {
	ws, gs := setOf(want), setOf(got)
	for _, g := range got {
		if g < 0 {
			return "foreign-event-returned", "an event that is not of the response was returned"
		}
		if !ws[g] {
			f := w.r.ev(g).F
			if f == "none" {
				return "bad-dependent-kept", fmt.Sprintf("event %d is passed on although its verified / provided auth events do not allow it", g)
			}
			return "bad-event-kept", fmt.Sprintf("event %d (%s) is passed on", g, f)
		}
	}
	for _, x := range want {
		if !gs[x] {
			return "good-event-dropped", fmt.Sprintf("event %d is dropped although it has verified signatures and its verified / provided auth events allow it", x)
		}
	}
	return "list-differs", "the lists differ in multiplicity"
}

// checkLinearise: LineariseStateResponse returns every distinct parsable event of the response once, each after
// those of its auth events that are in the response.
func (w *world) checkLinearise(resp *stateResponse) *hx.Result {
	r := w.r
	want := map[string]bool{}
	for _, i := range append(append([]int{}, r.AL...), r.SL...) {
		if f := r.ev(i).F; f != "missing" && f != "malformed" {
			want[w.ids[i]] = true
		}
		if sib := w.sibling[i]; sib != nil && setOf(r.SL)[i] {
			want[sib.EventID()] = true
		}
	}
	out := gmsl.LineariseStateResponse(w.ver, resp)
	pos := map[string]int{}
	for k, p := range out {
		if p == nil {
			x := w.fail("linearise/nil-event", nil, nil, "LineariseStateResponse returned a nil event")
			return &x
		}
		if _, dup := pos[p.EventID()]; dup {
			x := w.fail("linearise/event-twice", nil, p.EventID(), "LineariseStateResponse returned event %s twice", p.EventID())
			return &x
		}
		if !want[p.EventID()] {
			x := w.fail("linearise/foreign-event", nil, p.EventID(), "LineariseStateResponse returned %s, which is no parsable event of the response", p.EventID())
			return &x
		}
		pos[p.EventID()] = k
	}
	if len(pos) != len(want) {
		x := w.fail("linearise/event-lost", len(want), len(pos), "LineariseStateResponse returned %d of the %d distinct events of the response", len(pos), len(want))
		return &x
	}
	for _, p := range out {
		for _, a := range p.AuthEventIDs() {
			if pa, ok := pos[a]; ok && pa > pos[p.EventID()] {
				x := w.fail("linearise/event-before-its-auth-event", nil, nil, "LineariseStateResponse put event %s (model %d) before its auth event %s (model %d)",
					p.EventID(), w.byID[p.EventID()], a, w.byID[a])
				return &x
			}
		}
	}
	return nil
}

// --------------------------------------------------------------------------------------------- sendjoin

func replaySendJoin(w *world) hx.Result {
	r := w.r
	ctx := context.Background()
	resp := w.response()
	prov := w.scriptedProvider(func(p *provider) {
		_, _ = gmsl.CheckSendJoinResponse(ctx, w.ver, w.shaped(resp, true), newKeyRing(), w.pdu[r.J], p.ProvideEvents, identityQuerier)
	})
	out, err := gmsl.CheckSendJoinResponse(ctx, w.ver, w.shaped(resp, true), newKeyRing(), w.pdu[r.J], prov.ProvideEvents, identityQuerier)
	if (err == nil) != r.OK {
		if r.OK {
			return w.fail("refused", "accepted", fmt.Sprint(err), "CheckSendJoinResponse refused a response the specification accepts: %v", err)
		}
		why := "the join event is not allowed by its auth events or by the returned state"
		if r.Fail {
			why = "the response has a non-state event or a duplicate (type, state_key)"
		}
		return w.fail("accepted", "refused", "accepted", "CheckSendJoinResponse accepted the response although %s", why)
	}
	outcome := "refused"
	if r.OK {
		ga := w.modelIDs(out.GetAuthEvents().TrustedEvents(w.ver, false))
		gs := w.modelIDs(out.GetStateEvents().TrustedEvents(w.ver, false))
		wa, ws := sortedCopy(r.Auth), sortedCopy(r.State)
		if !sameInts(ga, wa) || !sameInts(gs, ws) {
			aspect, detail := classifyDiff(w, append(append([]int{}, wa...), ws...), append(append([]int{}, ga...), gs...))
			return w.fail(aspect, map[string][]int{"auth": wa, "state": ws}, map[string][]int{"auth": ga, "state": gs},
				"CheckSendJoinResponse returned auth events %v and state events %v, the specification says %v and %v (%s)", ga, gs, wa, ws, detail)
		}
		outcome = fmt.Sprintf("accepted kept=%d/%d", len(ga)+len(gs), len(r.AL)+len(r.SL))
	} else if r.Fail {
		outcome = "refused-whole-response"
	}
	if bad := w.checkAsked(prov); bad != nil {
		return *bad
	}
	return hx.Result{OK: true, NT: fmt.Sprintf("sendjoin|%s|%s|%s", r.Ver, r.faultKey(), outcome)}
}

// ------------------------------------------------------------------------------------------------ chain

func replayChain(w *world) hx.Result {
	r := w.r
	prov := w.scriptedProvider(func(p *provider) {
		_ = gmsl.VerifyEventAuthChain(context.Background(), w.pdu[r.E], p.ProvideEvents, identityQuerier)
	})
	if r.PV == "over" {
		// one answer carries the whole chain below the asked events (FedVerify.tla, Answer)
		prov.over = true
		prov.generous = true // (checkAsked: events that came unasked need not be asked for; askmin is the spec's)
		w.variants = append(w.variants, "provider=whole-chain-in-one-answer")
		w.tag = "over-provider/"
	}
	err := gmsl.VerifyEventAuthChain(context.Background(), w.pdu[r.E], prov.ProvideEvents, identityQuerier)
	if (err == nil) != r.OK {
		if r.OK {
			return w.fail("refused", "accepted", fmt.Sprint(err), "VerifyEventAuthChain refused event %d although it and every fetched auth event are allowed by their auth events: %v", r.E, err)
		}
		return w.fail("accepted", "refused", "accepted", "VerifyEventAuthChain accepted event %d although it or a fetched auth event is not allowed by its auth events (or the provider failed)", r.E)
	}
	if bad := w.checkAsked(prov); bad != nil {
		return *bad
	}
	return hx.Result{OK: true, NT: fmt.Sprintf("chain|%s|%s|%s|ok=%v", r.Ver, r.ev(r.E).Type, r.faultKey(), r.OK)}
}

// ---------------------------------------------------------------------------------------------- atstate

// relation of the event's auth events to the reported state (part of the canonical key)
func (w *world) authVsState(e int, S []int) string {
	s := setOf(S)
	in, out := 0, 0
	for _, a := range w.r.ev(e).Auth {
		if s[a] {
			in++
		} else {
			out++
		}
	}
	switch {
	case out == 0:
		return "auth-all-in-state"
	case in == 0:
		return "auth-none-in-state"
	}
	return "auth-partly-in-state"
}

func replayAtState(w *world) hx.Result {
	r := w.r
	var sp gmsl.StateProvider = &stateProvider{w: w, stateOf: func(string) []int { return r.S }, failIDs: r.PM == "ids_error", failState: r.PM == "state_error"}
	if r.PM == "ok" && w.rng.Intn(3) == 0 {
		// the library's own federation-backed state provider over a scripted remote server
		sp = &gmsl.FederatedStateProvider{FedClient: &fedStateClient{w: w, stateOf: func(string) []int { return r.S }}, Origin: "hs1", Server: "hs2"}
		w.variants = append(w.variants, "stateprovider=federated")
	}
	// a cancelled context may make the call fail, it never makes it accept what the state does not allow
	cctx, cancel := context.WithCancel(context.Background())
	cancel()
	if cerr := gmsl.VerifyAuthRulesAtState(cctx, sp, w.pdu[r.E], r.AV, identityQuerier); cerr == nil && !r.OK {
		return hx.Result{OK: false, Key: "C14/atstate/accepted-with-cancelled-context/" + r.ev(r.E).Type, Want: false, Got: true,
			What: fmt.Sprintf("atstate (room version %s): with a cancelled context VerifyAuthRulesAtState accepted event %d although the state %v reported before it does not allow it; room: %s",
				r.Ver, r.E, sortedCopy(r.S), w.describe())}
	}
	err := gmsl.VerifyAuthRulesAtState(context.Background(), sp, w.pdu[r.E], r.AV, identityQuerier)
	e := r.ev(r.E)
	t := e.Type
	if t == "member" {
		t += "-" + e.Membership
	}
	shape := fmt.Sprintf("%s/%s/validation=%v/provider=%s/fault=%s", t, w.authVsState(r.E, r.S), r.AV, r.PM, e.F)
	if (err == nil) != r.OK {
		res := hx.Result{OK: false, Want: r.OK, Got: err == nil}
		origin := ""
		if (err == nil) == r.AltOK {
			// the observed answer is the one obtained by judging the event against those of its own auth events
			// that are part of the reported state, instead of against the state: one scenario class per event type
			origin = "judged-by-cited-auth-events/"
			shape = t + "/" + w.authVsState(r.E, r.S)
		}
		if r.OK {
			res.Key = "C14/atstate/" + origin + "refused/" + shape
			res.What = fmt.Sprintf("atstate (room version %s): VerifyAuthRulesAtState refused event %d although the state %v reported before it allows it (allowValidation=%v): %v; room: %s",
				r.Ver, r.E, sortedCopy(r.S), r.AV, err, w.describe())
		} else {
			res.Key = "C14/atstate/" + origin + "accepted/" + shape
			res.What = fmt.Sprintf("atstate (room version %s): VerifyAuthRulesAtState accepted event %d although the state %v reported before it does not allow it (allowValidation=%v, state provider %s); room: %s",
				r.Ver, r.E, sortedCopy(r.S), r.AV, r.PM, w.describe())
		}
		return res
	}
	return hx.Result{OK: true, NT: fmt.Sprintf("atstate|%s|%s|ok=%v", r.Ver, shape, r.OK)}
}

// ------------------------------------------------------------------------------------------------- load

func classOf(res gmsl.EventLoadResult) string {
	switch res.Error.(type) {
	case nil:
		return "ok"
	case gmsl.SignatureErr:
		return "sig"
	case gmsl.AuthChainErr:
		return "chain"
	case gmsl.AuthRulesErr:
		return "rules"
	}
	return "invalid"
}

func replayLoad(w *world) hx.Result {
	r := w.r
	ctx := context.Background()
	order := make([]int, len(r.Events))
	for i := range order {
		order[i] = i + 1
	}
	w.rng.Shuffle(len(order), func(a, b int) { order[a], order[b] = order[b], order[a] })
	var raws []json.RawMessage
	var pdus []spec.RawJSON
	wantInvalid := 0
	wantCount := make([]int, len(r.Events)) // results expected per event: one per input
	sigCopies := 0                          // inputs that are the forged copy of an event listed twice
	for _, i := range order {
		n := 1
		if f := r.ev(i).F; f == "dup" || f == "sigcopy" {
			n = 2 // the input list carries this event twice
		}
		for k := 0; k < n; k++ {
			pos := len(raws)
			if k > 0 {
				pos = w.rng.Intn(len(raws) + 1)
			}
			raws = append(raws, nil)
			copy(raws[pos+1:], raws[pos:])
			bytesOf := w.respell(w.wire[i], r.ev(i).F != "malformed")
			if k > 0 && r.ev(i).F == "sigcopy" {
				bytesOf = w.forged[i] // same event ID, destroyed signature
				sigCopies++
			}
			raws[pos] = append(json.RawMessage{}, bytesOf...)
			pdus = append(pdus, nil)
			copy(pdus[pos+1:], pdus[pos:])
			pdus[pos] = append(spec.RawJSON{}, bytesOf...)
			if r.Cls[i-1] == "invalid" {
				wantInvalid++
			} else {
				wantCount[i-1]++
			}
		}
	}
	dupTag := ""
	if strings.Contains(r.faultKey(), "dup:") || strings.Contains(r.faultKey(), "sigcopy:") {
		dupTag = "duplicate-input/"
	}
	stateOf := func(id string) []int {
		if i, ok := w.byID[id]; ok {
			return r.SB[i-1]
		}
		return nil
	}
	prov := newProvider(w)
	sp := &stateProvider{w: w, stateOf: stateOf}
	loader := gmsl.NewEventsLoader(w.ver, newKeyRing(), sp, prov.ProvideEvents, false)
	// no input: no result, no error
	if none, nerr := loader.LoadAndVerify(ctx, nil, gmsl.TopologicalOrderByPrevEvents, identityQuerier); nerr != nil || len(none) != 0 {
		return w.fail("empty-input", 0, len(none), "LoadAndVerify of no input returned %d results, error %v", len(none), nerr)
	}
	if w.rng.Intn(4) == 0 {
		// the same loader object has already loaded (part of) these inputs in another order
		_, _ = loader.LoadAndVerify(ctx, raws[len(raws)/2:], gmsl.TopologicalOrderByAuthEvents, identityQuerier)
		w.variants = append(w.variants, "loader=reused")
	}
	results, err := loader.LoadAndVerify(ctx, raws, gmsl.TopologicalOrderByPrevEvents, identityQuerier)
	if err != nil {
		return w.fail("error", nil, fmt.Sprint(err), "LoadAndVerify failed as a whole: %v", err)
	}
	if len(results) != len(raws) {
		return w.fail("result-count", len(raws), len(results), "LoadAndVerify returned %d results for %d inputs", len(results), len(raws))
	}
	got := make([]string, len(r.Events))
	gotCopies := make([][]string, len(r.Events))
	gotCount := make([]int, len(r.Events))
	gotInvalid := 0
	for _, res := range results {
		c := classOf(res)
		if res.Event == nil {
			if c != "invalid" {
				extra := ""
				func() {
					defer func() {
						if p := recover(); p != nil {
							extra = fmt.Sprintf("; RequestBackfill on the same inputs panics: %v", p)
						}
					}()
					br := &backfillRequester{stateProvider: &stateProvider{w: w, stateOf: stateOf}, prov: newProvider(w), pdus: pdus}
					_, _ = gmsl.RequestBackfill(ctx, "hs1", br, newKeyRing(), w.room, w.ver, []string{w.ids[len(r.Events)]}, 100, identityQuerier)
				}()
				return w.fail(dupTag+"empty-result", nil, c, "LoadAndVerify returned a result with neither an event nor an error (%d inputs, %d results)%s", len(raws), len(results), extra)
			}
			gotInvalid++
			continue
		}
		i, ok := w.byID[res.Event.EventID()]
		if !ok {
			return w.fail("foreign-event", nil, res.Event.EventID(), "LoadAndVerify returned a result for %s, which is no input", res.Event.EventID())
		}
		if r.ev(i).F == "sigcopy" {
			// two copies of one event: the genuine one is classified as the event is, the forged one fails the
			// signature check
			gotCopies[i-1] = append(gotCopies[i-1], c)
			if c != "sig" {
				got[i-1] = c
			}
			gotCount[i-1]++
			continue
		}
		if got[i-1] != "" && got[i-1] != c {
			return w.fail(dupTag+"event-two-classes", nil, i, "LoadAndVerify returned results of class %q and %q for the same event %d", got[i-1], c, i)
		}
		got[i-1] = c
		gotCount[i-1]++
	}
	for i := range gotCount {
		if gotCount[i] != wantCount[i] {
			return w.fail(dupTag+"results-per-input", wantCount, gotCount, "LoadAndVerify returned %d result(s) for event %d, which is %d time(s) in the input", gotCount[i], i+1, wantCount[i])
		}
	}
	for i := range got {
		if r.ev(i+1).F == "sigcopy" {
			want := []string{r.Cls[i], "sig"}
			sort.Strings(want)
			sort.Strings(gotCopies[i])
			if strings.Join(want, ",") != strings.Join(gotCopies[i], ",") {
				return w.fail(dupTag+"forged-copy-classes", want, gotCopies[i],
					"input %d is listed twice, once genuine and once with a destroyed signature: LoadAndVerify classified the two inputs as %v, the specification says %v (each input by the first check it fails)",
					i+1, gotCopies[i], want)
			}
			got[i] = r.Cls[i]
		}
		if got[i] == "" {
			got[i] = "invalid"
		}
	}
	if gotInvalid != wantInvalid {
		return w.fail("invalid-count", wantInvalid, gotInvalid, "LoadAndVerify returned %d results without an event, %d inputs are no valid events", gotInvalid, wantInvalid)
	}
	for i := range got {
		if got[i] != r.Cls[i] {
			e := r.ev(i + 1)
			t := e.Type
			if t == "member" {
				t += "-" + e.Membership
			}
			aspect := fmt.Sprintf("class/%s-as-%s/%s", r.Cls[i], got[i], t)
			if len(r.AltCls) == len(got) && got[i] == r.AltCls[i] {
				aspect = "judged-by-cited-auth-events/" + aspect
			}
			res := w.fail(aspect, r.Cls, got,
				"LoadAndVerify classified input %d as %q, the specification says %q (first failing check); all classes %v, specification %v; state reported before it %v",
				i+1, got[i], r.Cls[i], got, r.Cls, sortedCopy(r.SB[i]))
			return res
		}
	}
	// RequestBackfill on the same inputs: everything that passed is returned, nothing that failed an auth check
	// or is no valid event is returned (events failing only the signature check are passed on deliberately).
	// (verifies everything once more: done for half of the records)
	if w.rng.Intn(2) == 0 {
		return w.loadOK()
	}
	prov2 := newProvider(w)
	br := &backfillRequester{stateProvider: &stateProvider{w: w, stateOf: stateOf}, prov: prov2, pdus: pdus}
	back, berr := gmsl.RequestBackfill(ctx, "hs1", br, newKeyRing(), w.room, w.ver, []string{w.ids[len(r.Events)]}, 100, identityQuerier)
	if berr != nil {
		return w.fail("backfill/error", nil, fmt.Sprint(berr), "RequestBackfill failed: %v", berr)
	}
	returned := map[int]bool{}
	for _, p := range back {
		i, ok := w.byID[p.EventID()]
		if !ok {
			return w.fail("backfill/foreign-event", nil, p.EventID(), "RequestBackfill returned %s, which is no input", p.EventID())
		}
		returned[i] = true
	}
	sigPassed := 0
	for i, c := range r.Cls {
		switch {
		case c == "ok" && !returned[i+1]:
			return w.fail("backfill/good-event-lost", r.Cls, nil, "RequestBackfill did not return input %d, which passes every check", i+1)
		case (c == "chain" || c == "rules" || c == "invalid") && returned[i+1] && r.ev(i+1).F != "sigcopy":
			return w.fail("backfill/bad-event-returned", r.Cls, nil, "RequestBackfill returned input %d, whose class is %q", i+1, c)
		case c == "sig" && returned[i+1]:
			sigPassed++
		}
	}
	_ = sigPassed
	return w.loadOK()
}

// ---------------------------------------------------------------------------------------------- backfill

// replayBackfill: RequestBackfill over two servers that both answer with every event of the room while the caller's
// event provider fails transiently (every call during the first server's round errors / returns nothing).  Every
// event that passes every check in some round comes back, exactly once; no event that fails an auth check (or is
// no valid event) in both rounds comes back.
func replayBackfill(w *world) hx.Result {
	r := w.r
	ctx := context.Background()
	order := make([]int, len(r.Events))
	for i := range order {
		order[i] = i + 1
	}
	w.rng.Shuffle(len(order), func(a, b int) { order[a], order[b] = order[b], order[a] })
	var pdus []spec.RawJSON
	for _, i := range order {
		pdus = append(pdus, append(spec.RawJSON{}, w.respell(w.wire[i], r.ev(i).F != "malformed")...))
	}
	stateOf := func(id string) []int {
		if i, ok := w.byID[id]; ok {
			return r.SB[i-1]
		}
		return nil
	}
	prov := newProvider(w)
	prov.transient = r.TR
	br := &backfillRequester{stateProvider: &stateProvider{w: w, stateOf: stateOf}, prov: prov, pdus: pdus,
		servers: []spec.ServerName{"hs2", "hs3"}}
	back, berr := gmsl.RequestBackfill(ctx, "hs1", br, newKeyRing(), w.room, w.ver, []string{w.ids[len(r.Events)]}, 100, identityQuerier)
	if berr != nil {
		return w.fail("error", nil, fmt.Sprint(berr), "RequestBackfill failed: %v", berr)
	}
	if br.asked != 2 {
		return hx.Result{OK: true, NT: fmt.Sprintf("backfill|%s|servers-asked=%d", r.Ver, br.asked)} // (limit reached: nothing to compare)
	}
	returned := map[int]int{}
	for _, p := range back {
		i, ok := w.byID[p.EventID()]
		if !ok {
			return w.fail("foreign-event", nil, p.EventID(), "RequestBackfill returned %s, which is no input", p.EventID())
		}
		returned[i]++
	}
	tr := "provider-" + r.TR + "-during-first-server"
	for i := range r.Cls {
		c1, c2 := r.Cls1[i], r.Cls[i]
		bad := func(c string) bool { return c == "chain" || c == "rules" || c == "invalid" }
		switch {
		case returned[i+1] > 1:
			return w.fail("returned-twice/"+tr, 1, returned[i+1], "RequestBackfill returned input %d %d times (two servers answered with it)", i+1, returned[i+1])
		case (c1 == "ok" || c2 == "ok") && returned[i+1] == 0:
			return w.fail("good-event-lost/"+tr, [][]string{r.Cls1, r.Cls}, nil,
				"RequestBackfill did not return input %d although the copy of the %s server passes every check (classes: first round %q, second round %q; two servers answered with the same events, the event provider %s while the first answer was verified)",
				i+1, map[bool]string{true: "first", false: "second"}[c1 == "ok"], c1, c2, r.TR)
		case bad(c1) && bad(c2) && returned[i+1] > 0:
			return w.fail("bad-event-returned/"+tr, [][]string{r.Cls1, r.Cls}, nil, "RequestBackfill returned input %d, whose classes are %q and %q", i+1, c1, c2)
		}
	}
	return hx.Result{OK: true, NT: fmt.Sprintf("backfill|%s|%s|tr=%s", r.Ver, r.faultKey(), r.TR)}
}

func (w *world) loadOK() hx.Result {
	r := w.r
	cnt := map[string]int{}
	for _, c := range r.Cls {
		cnt[c]++
	}
	var cs []string
	for c, n := range cnt {
		cs = append(cs, fmt.Sprintf("%s=%d", c, n))
	}
	sort.Strings(cs)
	return hx.Result{OK: true, NT: fmt.Sprintf("load|%s|%s|%s", r.Ver, r.faultKey(), strings.Join(cs, ","))}
}
