package main

// Materialisation of a FedVerify record: the room is built event by event, in DAG order, with the real
// EventBuilder; event IDs are the real reference hashes (room versions 3+), so model ids are mapped to the real
// IDs as the events come into being.

import (
	"bytes"
	"crypto/ed25519"
	"crypto/sha256"
	"encoding/base64"
	"encoding/json"
	"fmt"
	"hash/fnv"
	"math/rand"
	"sort"
	"strings"
	"sync"
	"time"

	gmsl "github.com/matrix-org/gomatrixserverlib"
	"github.com/matrix-org/gomatrixserverlib/spec"
	"github.com/tidwall/gjson"
	"github.com/tidwall/sjson"
)

var userIDs = map[string]string{
	"creator": "@creator:hs1", "alice": "@alice:hs1", "bob": "@bob:hs2", "carol": "@carol:hs2",
}

var roomLadder = [5]int64{-1, 0, 25, 50, 100}

const keyID = gmsl.KeyID("ed25519:k1")

// the events were sent long ago: no dependence on the wall clock (key validity is checked against
// min(valid_until, now + 7 days), far later)
var baseTime = time.Date(2020, 1, 1, 0, 0, 0, 0, time.UTC)

type serverKey struct {
	pub  ed25519.PublicKey
	priv ed25519.PrivateKey
}

func keyFromSeed(s string) serverKey {
	h := sha256.Sum256([]byte("c14-server-key-" + s))
	priv := ed25519.NewKeyFromSeed(h[:])
	return serverKey{priv.Public().(ed25519.PublicKey), priv}
}

var serverKeys = map[string]serverKey{"hs1": keyFromSeed("hs1"), "hs2": keyFromSeed("hs2")}
var strayKey = keyFromSeed("stray") // a key no server owns

func isDomainless(ver string) bool { return ver == "12" || ver == "org.matrix.hydra.11" }

func serverOf(userID string) string { return userID[strings.IndexByte(userID, ':')+1:] }

func strp(s string) *string { return &s }

func identityQuerier(roomID spec.RoomID, senderID spec.SenderID) (*spec.UserID, error) {
	return spec.NewUserID(string(senderID), true)
}

// world is the materialised record.
type world struct {
	r        *rec
	ver      gmsl.RoomVersion
	impl     gmsl.IRoomVersion
	room     string
	other    string           // the other room (wrongroom fault)
	otherCr  string           // ID of the other room's create event where room IDs are create event IDs
	ids      map[int]string   // model id -> real event ID
	byID     map[string]int   // real event ID -> model id
	pdu      map[int]gmsl.PDU // the event with that ID as a server holding it would have it (well signed, parsed)
	wire     map[int][]byte   // the bytes in a response (bad signature / malformed applied); nil if missing
	sibling  map[int]gmsl.PDU // dup fault: another event with the same (type, state_key)
	forged   map[int][]byte   // sigcopy fault: the second copy of the input, with a destroyed signature
	goodCopy map[int]string   // bad signature in one list only: the list ("auth" / "state") that carries the genuine copy
	rng      *rand.Rand
	tag      string   // prefix of the aspect of a disagreement (a harness-level dimension that is on)
	shape    int      // 0 undecided, 1 plain lists, 2 RespSendJoin / RespState, 3 RespState
	variants []string // which concrete shapes were used (for the nontrivial class)
}

func recordRand(raw []byte, seed int64) *rand.Rand {
	// the random choices depend on the record itself (not on its position) so that a fresh-process re-run of one
	// record repeats them
	h := fnv.New64a()
	h.Write(raw)
	return rand.New(rand.NewSource(seed*1000003 + int64(h.Sum64()>>1)))
}

func (w *world) content(e *ev) interface{} {
	switch e.Type {
	case "create":
		c := map[string]interface{}{"room_version": string(w.ver)}
		if !(string(w.ver) == "11" || isDomainless(string(w.ver))) {
			c["creator"] = userIDs[e.Sender]
		}
		return c
	case "member":
		return map[string]interface{}{"membership": e.Membership}
	case "pl":
		users := map[string]int64{}
		for u, rk := range e.PLU {
			if rk >= 0 {
				users[userIDs[u]] = roomLadder[rk]
			}
		}
		return map[string]interface{}{"users": users}
	case "jr":
		return map[string]interface{}{"join_rule": e.JR}
	default:
		return map[string]interface{}{"topic": fmt.Sprintf("topic %d", e.ID)}
	}
}

var typeNames = map[string]string{"create": "m.room.create", "member": "m.room.member", "pl": "m.room.power_levels",
	"jr": "m.room.join_rules", "topic": "m.room.topic"}

// buildEvent builds and signs one event with the real EventBuilder.
func (w *world) buildEvent(e *ev, room string, tsShift int64, extraContent bool) gmsl.PDU {
	pe := &gmsl.ProtoEvent{
		SenderID: userIDs[e.Sender],
		RoomID:   room,
		Type:     typeNames[e.Type],
		Depth:    e.Depth,
	}
	switch e.Type {
	case "member":
		pe.StateKey = strp(userIDs[e.SKey])
	default:
		pe.StateKey = strp("")
	}
	if e.F == "nonstate" {
		pe.StateKey = nil
	}
	c := w.content(e)
	if extraContent {
		c.(map[string]interface{})["org.verif.other"] = true
	}
	if err := pe.SetContent(c); err != nil {
		panic(err)
	}
	prev := []string{}
	for _, p := range e.Prev {
		prev = append(prev, w.ids[p])
	}
	if e.F == "create_prevs" && !extraContent {
		prev = append(prev, w.otherCr) // a create event that is not the first event of its room
	}
	auth := []string{}
	for _, a := range e.Auth {
		if isDomainless(string(w.ver)) && w.r.ev(a).Type == "create" {
			continue // implied by the room ID
		}
		auth = append(auth, w.ids[a])
	}
	sort.Strings(prev)
	sort.Strings(auth)
	pe.PrevEvents = prev
	pe.AuthEvents = auth
	if isDomainless(string(w.ver)) && e.Type == "create" {
		pe.RoomID = ""
	}
	// identical events recur in thousands of records: build (and sign) each once per process.  The event ID is
	// computed before the event is shared (it is cached lazily inside the PDU).
	cacheKey := fmt.Sprintf("%s|%s|%s|%s|%s|%s|%v|%s|%v|%v|%d|%d|%d|%v|%d|%v", w.ver, pe.RoomID, e.Type, e.Sender, e.SKey, e.Membership,
		e.PLU, e.JR, prev, auth, e.Depth, e.TS, e.ID, e.F == "nonstate", tsShift, extraContent)
	if c, ok := buildCache.Load(cacheKey); ok {
		return c.(gmsl.PDU)
	}
	origin := serverOf(userIDs[e.Sender])
	// the model's events are distinct events even when two of them say the same thing on the same predecessors
	// (two servers sending bob's join on the same extremity): the event's number goes into the millisecond
	now := baseTime.Add(time.Duration(e.TS*1000+int64(e.ID)*10+tsShift) * time.Millisecond)
	p, err := w.impl.NewEventBuilderFromProtoEvent(pe).Build(now, spec.ServerName(origin), keyID, serverKeys[origin].priv)
	if err != nil {
		panic(fmt.Sprintf("c14: cannot build event %d: %v", e.ID, err))
	}
	// an invite is also signed by the invited user's server
	if e.Type == "member" && e.Membership == "invite" && e.F != "nonstate" {
		if ts := serverOf(userIDs[e.SKey]); ts != origin {
			// (Sign hands back the embedded older event type for room version 12 events: parse the signed JSON again
			// to get an event that behaves like one of its room version)
			signed := p.Sign(ts, keyID, serverKeys[ts].priv)
			p, err = w.impl.NewEventFromTrustedJSON(signed.JSON(), false)
			if err != nil {
				panic(fmt.Sprintf("c14: cannot re-parse the doubly signed event %d: %v", e.ID, err))
			}
		}
	}
	_ = p.EventID()
	if c, loaded := buildCache.LoadOrStore(cacheKey, p); loaded {
		return c.(gmsl.PDU)
	}
	return p
}

var buildCache sync.Map

func materialise(r *rec, raw []byte, seed int64) *world {
	w := &world{r: r, ver: gmsl.RoomVersion(r.Ver), ids: map[int]string{}, byID: map[string]int{}, pdu: map[int]gmsl.PDU{},
		wire: map[int][]byte{}, sibling: map[int]gmsl.PDU{}, goodCopy: map[int]string{}, forged: map[int][]byte{}, rng: recordRand(raw, seed)}
	w.impl = gmsl.MustGetRoomVersion(w.ver)
	w.room, w.other = "!room:hs1", "!other:hs1"
	for i := range r.Events {
		e := &r.Events[i]
		if e.ID != i+1 {
			panic("c14: events are not numbered 1..N")
		}
		if e.Type == "create" {
			oc := w.buildEvent(e, w.other, 0, true) // the other room: another create event
			w.otherCr = oc.EventID()
			if isDomainless(r.Ver) {
				w.other = "!" + w.otherCr[1:]
			}
			if e.F == "create_domain" {
				w.room = "!room:hs9" // the whole room carries a room ID that is not of the creator's domain
			}
		}
		room := w.room
		if e.F == "wrongroom" {
			room = w.other
		}
		p := w.buildEvent(e, room, 0, false)
		if e.Type == "create" && isDomainless(r.Ver) {
			w.room = "!" + p.EventID()[1:]
		}
		w.ids[e.ID] = p.EventID()
		w.byID[p.EventID()] = e.ID
		w.pdu[e.ID] = p
		switch e.F {
		case "missing":
			w.wire[e.ID] = nil
		case "badsig":
			w.wire[e.ID] = w.badSignature(e, p)
			// an event that is in both lists of a response: sometimes only one of the two copies is forged (same
			// event ID, the signature is not part of it).  An event of which a copy fails the signature check
			// is an event failing the signature check.
			if (r.Kind == "state" || r.Kind == "sendjoin") && setOf(r.AL)[e.ID] && setOf(r.SL)[e.ID] {
				switch w.rng.Intn(5) {
				case 0, 1:
					w.goodCopy[e.ID] = "auth"
					w.variants = append(w.variants, "badsig-copy=state-list-only")
				case 2:
					w.goodCopy[e.ID] = "state"
					w.variants = append(w.variants, "badsig-copy=auth-list-only")
				}
			}
		case "malformed":
			w.wire[e.ID] = w.malformed(p)
		case "sigcopy":
			w.wire[e.ID] = p.JSON()
			w.forged[e.ID] = w.badSignature(e, p)
		case "dup":
			w.wire[e.ID] = p.JSON()
			if r.Kind == "load" {
				// the same input twice
			} else if w.rng.Intn(3) == 0 {
				w.sibling[e.ID] = p // the very same event a second time
				w.variants = append(w.variants, "dup=same-event")
			} else {
				w.sibling[e.ID] = w.buildEvent(e, room, 1, false) // same key, another event
				w.variants = append(w.variants, "dup=other-event")
			}
		default:
			w.wire[e.ID] = p.JSON()
		}
	}
	return w
}

// badSignature returns the event's JSON with a signature of the sender's server that does not verify.
func (w *world) badSignature(e *ev, p gmsl.PDU) []byte {
	origin := serverOf(userIDs[e.Sender])
	path := "signatures." + strings.ReplaceAll(origin, ".", `\.`) + "." + strings.ReplaceAll(string(keyID), ".", `\.`)
	js := p.JSON()
	sig := gjson.GetBytes(js, path).String()
	rawSig, err := base64.RawStdEncoding.DecodeString(sig)
	if err != nil || len(rawSig) != ed25519.SignatureSize {
		panic(fmt.Sprintf("c14: event %d has no signature of %s: %s", e.ID, origin, js))
	}
	var out []byte
	switch w.rng.Intn(4) {
	case 0: // one bit of the signature flipped
		rawSig[w.rng.Intn(len(rawSig))] ^= 1 << uint(w.rng.Intn(8))
		out, err = sjson.SetBytes(js, path, base64.RawStdEncoding.EncodeToString(rawSig))
		w.variants = append(w.variants, "badsig=bitflip")
	case 1: // signed by a key that is not the server's
		redacted, rerr := w.impl.RedactEventJSON(js)
		if rerr != nil {
			panic(rerr)
		}
		redacted, _ = sjson.DeleteBytes(redacted, "signatures")
		redacted, _ = sjson.DeleteBytes(redacted, "unsigned")
		signed, serr := gmsl.SignJSON(origin, keyID, strayKey.priv, redacted)
		if serr != nil {
			panic(serr)
		}
		out, err = sjson.SetBytes(js, path, gjson.GetBytes(signed, path).String())
		w.variants = append(w.variants, "badsig=other-key")
	case 2: // the signature of the server is gone
		out, err = sjson.DeleteBytes(js, "signatures."+strings.ReplaceAll(origin, ".", `\.`))
		w.variants = append(w.variants, "badsig=removed")
	default: // all zero signature
		out, err = sjson.SetBytes(js, path, base64.RawStdEncoding.EncodeToString(make([]byte, ed25519.SignatureSize)))
		w.variants = append(w.variants, "badsig=zero")
	}
	if err != nil {
		panic(err)
	}
	return out
}

// malformed returns bytes that are not a parsable event.
func (w *world) malformed(p gmsl.PDU) []byte {
	js := p.JSON()
	n := 5
	if isDomainless(string(w.ver)) && p.Type() == "m.room.create" {
		n = 4 // a room_id on a room version 12 create event is not a parse error
	}
	switch w.rng.Intn(n) {
	case 0:
		w.variants = append(w.variants, "malformed=truncated")
		return js[:len(js)/2]
	case 1:
		w.variants = append(w.variants, "malformed=type-number")
		out, _ := sjson.SetBytes(js, "type", 5)
		return out
	case 2:
		w.variants = append(w.variants, "malformed=array")
		return []byte(`["not","an","event"]`)
	case 3:
		w.variants = append(w.variants, "malformed=headered")
		out, _ := sjson.SetBytes(js, "_room_version", string(w.ver))
		return out
	default:
		w.variants = append(w.variants, "malformed=bad-room-id")
		out, _ := sjson.SetBytes(js, "room_id", "no-sigil")
		return out
	}
}

// ---------------------------------------------------------------------------------------- the response

type stateResponse struct {
	auth, state gmsl.EventJSONs
}

func (s *stateResponse) GetAuthEvents() gmsl.EventJSONs  { return s.auth }
func (s *stateResponse) GetStateEvents() gmsl.EventJSONs { return s.state }

// response builds the lists in a seeded random order.
func (w *world) response() *stateResponse {
	var resp stateResponse
	add := func(dst *gmsl.EventJSONs, ids []int, withSiblings bool) {
		ids = append([]int{}, ids...)
		w.rng.Shuffle(len(ids), func(a, b int) { ids[a], ids[b] = ids[b], ids[a] })
		list := "auth"
		if withSiblings {
			list = "state"
		}
		for _, i := range ids {
			js := w.wire[i]
			if w.goodCopy[i] == list {
				js = w.pdu[i].JSON()
			}
			js = w.respell(js, w.wire[i] != nil && w.r.ev(i).F != "malformed")
			if js != nil {
				*dst = append(*dst, append(spec.RawJSON{}, js...))
			}
		}
		if withSiblings {
			for _, i := range ids {
				if sib := w.sibling[i]; sib != nil {
					pos := w.rng.Intn(len(*dst) + 1)
					*dst = append(*dst, nil)
					copy((*dst)[pos+1:], (*dst)[pos:])
					(*dst)[pos] = append(spec.RawJSON{}, sib.JSON()...)
				}
			}
		}
	}
	add(&resp.auth, w.r.AL, false)
	add(&resp.state, w.r.SL, true)
	return &resp
}

func cloneJSONs(in gmsl.EventJSONs) gmsl.EventJSONs {
	out := make(gmsl.EventJSONs, len(in))
	for i := range in {
		out[i] = append(spec.RawJSON{}, in[i]...)
	}
	return out
}

func sameJSONs(a, b gmsl.EventJSONs) bool {
	if len(a) != len(b) {
		return false
	}
	for i := range a {
		if !bytes.Equal(a[i], b[i]) {
			return false
		}
	}
	return true
}

// modelIDs maps PDUs to sorted model ids; -1 for an event that is not of the room, -2 for a sibling.
func (w *world) modelIDs(ps []gmsl.PDU) []int {
	out := []int{}
	for _, p := range ps {
		if p == nil {
			out = append(out, -1)
			continue
		}
		if i, ok := w.byID[p.EventID()]; ok {
			out = append(out, i)
		} else {
			out = append(out, -1)
		}
	}
	sort.Ints(out)
	return out
}

func (w *world) describe() string {
	var parts []string
	for _, e := range w.r.Events {
		s := fmt.Sprintf("%d:%s(%s", e.ID, e.Type, e.Sender)
		if e.Type == "member" {
			s += "->" + e.SKey + " " + e.Membership
		}
		if e.Type == "pl" {
			var us []string
			for u, rk := range e.PLU {
				if rk >= 0 {
					us = append(us, fmt.Sprintf("%s=%d", u, roomLadder[rk]))
				}
			}
			sort.Strings(us)
			s += " " + strings.Join(us, ",")
		}
		if e.Type == "jr" {
			s += " " + e.JR
		}
		s += fmt.Sprintf(") auth=%v", e.Auth)
		if e.F != "none" {
			s += " FAULT=" + e.F
		}
		if e.P != "returns" {
			s += " PROVIDER=" + e.P
		}
		parts = append(parts, s)
	}
	return strings.Join(parts, "; ")
}

var _ = json.Marshal

// respell returns the bytes of an event as another server might send them: with an "unsigned" object (never
// signed, never hashed: it must have no effect) and / or with insignificant white space.
func (w *world) respell(js []byte, valid bool) []byte {
	if js == nil || !valid {
		return js
	}
	switch w.rng.Intn(8) {
	case 0:
		out, err := sjson.SetRawBytes(js, "unsigned", []byte(`{"age_ts":1577836800000,"prev_content":{"membership":"ban"},"replaces_state":"$x:hs1"}`))
		if err == nil {
			w.variants = append(w.variants, "wire=unsigned")
			return out
		}
	case 1:
		var buf bytes.Buffer
		if err := json.Indent(&buf, js, "", "  "); err == nil {
			w.variants = append(w.variants, "wire=whitespace")
			return buf.Bytes()
		}
	}
	return js
}
