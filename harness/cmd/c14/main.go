// Command c14 binds spec/FedVerify.tla to the real federation-response verification code of gomatrixserverlib:
// CheckStateResponse, CheckSendJoinResponse, LineariseStateResponse, VerifyEventAuthChain,
// VerifyAuthRulesAtState, EventsLoader.LoadAndVerify (and RequestBackfill on top of it).
//
//	c14 c14 -in records.ndjson   replay FedVerify_gen.tla records (spec -> code)
//
// Every record is a room history (Room.tla) with a fault per event and an event-provider behaviour per event ID.
// The room is materialised with REAL events: every event is built and signed by the real EventBuilder with the
// ed25519 key of the sender's server, citing the real IDs of the earlier events; signatures are verified by a real
// KeyRing over a scripted key database holding the real public keys.
package main

import (
	"encoding/json"
	"io"
	"os"
	"runtime/pprof"

	"github.com/sirupsen/logrus"

	"verifharness/hx"
)

func init() {
	logrus.SetOutput(io.Discard)
	logrus.SetLevel(logrus.PanicLevel)
	hx.Register("c14", "replay FedVerify_gen.tla records against the federation response verification functions", func(a *hx.Args) error {
		return hx.ReplayAll(a, func(i int, raw json.RawMessage) hx.Result { return replayOne(i, raw, a.Seed) })
	})
}

func main() {
	if p := os.Getenv("C14_CPUPROFILE"); p != "" { // development aid
		f, err := os.Create(p)
		if err == nil {
			_ = pprof.StartCPUProfile(f)
			defer pprof.StopCPUProfile()
		}
	}
	hx.Main()
}
