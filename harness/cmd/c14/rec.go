package main

import (
	"bytes"
	"encoding/json"
	"sort"
	"strings"
)

// ev is one event of the room as seen on the wire (Room.tla record + fault + provider behaviour).
type ev struct {
	ID         int            `json:"id"`
	Type       string         `json:"type"`
	Sender     string         `json:"sender"`
	SKey       string         `json:"skey"`
	Membership string         `json:"membership"`
	PLU        map[string]int `json:"plu"`
	JR         string         `json:"jr"`
	Prev       []int          `json:"prev"`
	Auth       []int          `json:"auth"`
	Depth      int64          `json:"depth"`
	TS         int64          `json:"ts"`
	F          string         `json:"f"` // none badsig disallowed missing wrongroom nonstate dup malformed
	P          string         `json:"p"` // returns nothing errors
}

// intSets decodes a TLC sequence of sets (<<>> is printed as []).
type intSets [][]int

func (s *intSets) UnmarshalJSON(b []byte) error {
	b = bytes.TrimSpace(b)
	var raw []json.RawMessage
	if err := json.Unmarshal(b, &raw); err != nil {
		return err
	}
	out := make([][]int, len(raw))
	for i, r := range raw {
		if err := json.Unmarshal(r, &out[i]); err != nil {
			return err
		}
	}
	*s = out
	return nil
}

// rec is one FedVerify_gen record: the scenario and what the specification derives.
type rec struct {
	Kind   string   `json:"kind"` // state sendjoin chain atstate load
	Ver    string   `json:"ver"`
	Events []ev     `json:"events"`
	AL     []int    `json:"al"` // auth-event list of the response
	SL     []int    `json:"sl"` // state-event list of the response
	J      int      `json:"j"`  // the join event (sendjoin)
	E      int      `json:"e"`  // the event to verify (chain, atstate)
	S      []int    `json:"s"`  // the state the state provider reports (atstate)
	SB     intSets  `json:"sb"` // per event: the state the state provider reports before it (load)
	AV     bool     `json:"av"`
	PM     string   `json:"pm"`
	Fail   bool     `json:"fail"`
	OK     bool     `json:"ok"`
	Auth   []int    `json:"auth"`
	State  []int    `json:"state"`
	AskMin []int    `json:"askmin"`
	AskMax []int    `json:"askmax"`
	Cls    []string `json:"cls"`
	AltOK  bool     `json:"altok"`  // diagnosis only: the answer if the event were judged by its own auth events found in the state
	AltCls []string `json:"altcls"` // diagnosis only
	PV     string   `json:"pv"`     // chain: how the provider answers one call: exact | over (the whole chain below the asked events)
	TR     string   `json:"tr"`     // backfill: the provider's transient fault during the first server's round: errors | nothing
	Cls1   []string `json:"cls1"`   // backfill: classes of the first round
}

func (r *rec) ev(id int) *ev { return &r.Events[id-1] }

// faultKey is the canonical abstract description of the deviations of a scenario: the sorted multiset of
// (fault kind / provider behaviour, type of the event concerned).
func (r *rec) faultKey() string {
	var parts []string
	// a provider behaviour belongs to the scenario only for IDs the provider can be asked for
	askable := setOf(r.AskMax)
	for _, e := range r.Events {
		t := e.Type
		if t == "member" {
			t = "member-" + e.Membership
		}
		if e.F != "none" {
			parts = append(parts, e.F+":"+t)
		}
		if e.P != "returns" && (askable[e.ID] || r.Kind == "load" || r.Kind == "backfill") {
			parts = append(parts, e.P+":"+t)
		}
	}
	if len(parts) == 0 {
		return "no-deviation"
	}
	sort.Strings(parts)
	return strings.Join(parts, "+")
}

func sortedCopy(x []int) []int {
	out := append([]int{}, x...)
	sort.Ints(out)
	return out
}

func sameInts(a, b []int) bool {
	if len(a) != len(b) {
		return false
	}
	for i := range a {
		if a[i] != b[i] {
			return false
		}
	}
	return true
}

func setOf(x []int) map[int]bool {
	m := map[int]bool{}
	for _, i := range x {
		m[i] = true
	}
	return m
}
