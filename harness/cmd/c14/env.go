package main

// The scripted environment: a key database holding the real public keys behind a real KeyRing, an EventProvider
// whose behaviour per event ID comes from the record, a StateProvider answering with the states of the record.

import (
	"context"
	"errors"
	"sort"
	"sync"
	"time"

	gmsl "github.com/matrix-org/gomatrixserverlib"
	"github.com/matrix-org/gomatrixserverlib/spec"
)

// keyDB implements gomatrixserverlib.KeyDatabase: the servers' real public keys, valid far beyond now.
type keyDB struct{}

func (keyDB) FetcherName() string { return "c14-keydb" }

func (keyDB) FetchKeys(ctx context.Context, requests map[gmsl.PublicKeyLookupRequest]spec.Timestamp) (map[gmsl.PublicKeyLookupRequest]gmsl.PublicKeyLookupResult, error) {
	out := map[gmsl.PublicKeyLookupRequest]gmsl.PublicKeyLookupResult{}
	validUntil := spec.AsTimestamp(time.Now().Add(1000 * 24 * time.Hour))
	for req := range requests {
		k, ok := serverKeys[string(req.ServerName)]
		if !ok || req.KeyID != keyID {
			continue
		}
		out[req] = gmsl.PublicKeyLookupResult{
			VerifyKey:    gmsl.VerifyKey{Key: spec.Base64Bytes(k.pub)},
			ExpiredTS:    gmsl.PublicKeyNotExpired,
			ValidUntilTS: validUntil,
		}
	}
	return out, nil
}

func (keyDB) StoreKeys(ctx context.Context, results map[gmsl.PublicKeyLookupRequest]gmsl.PublicKeyLookupResult) error {
	return nil
}

func newKeyRing() gmsl.JSONVerifier {
	return &gmsl.KeyRing{KeyDatabase: keyDB{}}
}

var errProvider = errors.New("c14: scripted provider error")

// provider is the caller's event provider.
type provider struct {
	w     *world
	mu    sync.Mutex
	asked map[string]bool // every event ID ever asked for
	calls int
}

func newProvider(w *world) *provider { return &provider{w: w, asked: map[string]bool{}} }

// ProvideEvents implements gomatrixserverlib.EventProvider: an error if one of the IDs is scripted to fail,
// otherwise the events scripted to be returned (always the event that was asked for).
func (p *provider) ProvideEvents(roomVer gmsl.RoomVersion, eventIDs []string) ([]gmsl.PDU, error) {
	p.mu.Lock()
	defer p.mu.Unlock()
	p.calls++
	var out []gmsl.PDU
	failed := false
	for _, id := range eventIDs {
		p.asked[id] = true
		i, ok := p.w.byID[id]
		if !ok {
			continue // nobody has this event (another room's create event)
		}
		switch p.w.r.ev(i).P {
		case "returns":
			out = append(out, p.w.pdu[i])
		case "errors":
			failed = true
		}
	}
	if failed {
		return nil, errProvider
	}
	return out, nil
}

// askedIDs: model ids asked for (sorted) and the IDs asked for that are no event of the record.
func (p *provider) askedIDs() (ids []int, unknown []string) {
	for id := range p.asked {
		if i, ok := p.w.byID[id]; ok {
			ids = append(ids, i)
		} else {
			unknown = append(unknown, id)
		}
	}
	sort.Ints(ids)
	sort.Strings(unknown)
	return
}

// stateProvider implements gomatrixserverlib.StateProvider.
type stateProvider struct {
	w         *world
	stateOf   func(eventID string) []int // model ids of the state reported before the event
	failIDs   bool
	failState bool
	idCalls   []string
	evCalls   []string
}

func (s *stateProvider) StateIDsBeforeEvent(ctx context.Context, event gmsl.PDU) ([]string, error) {
	s.idCalls = append(s.idCalls, event.EventID())
	if s.failIDs {
		return nil, errProvider
	}
	var out []string
	for _, i := range s.stateOf(event.EventID()) {
		out = append(out, s.w.ids[i])
	}
	return out, nil
}

func (s *stateProvider) StateBeforeEvent(ctx context.Context, roomVer gmsl.RoomVersion, event gmsl.PDU, eventIDs []string) (map[string]gmsl.PDU, error) {
	s.evCalls = append(s.evCalls, event.EventID())
	if s.failState {
		return nil, errProvider
	}
	out := map[string]gmsl.PDU{}
	for _, i := range s.stateOf(event.EventID()) {
		out[s.w.ids[i]] = s.w.pdu[i]
	}
	return out, nil
}

// backfillRequester implements gomatrixserverlib.BackfillRequester on top of the two providers.
type backfillRequester struct {
	*stateProvider
	prov *provider
	pdus []spec.RawJSON
}

func (b *backfillRequester) ServersAtEvent(ctx context.Context, roomID, eventID string) []spec.ServerName {
	return []spec.ServerName{"hs2"}
}

func (b *backfillRequester) Backfill(ctx context.Context, origin, server spec.ServerName, roomID string, limit int, fromEventIDs []string) (gmsl.Transaction, error) {
	t := gmsl.Transaction{Origin: server}
	for _, p := range b.pdus {
		t.PDUs = append(t.PDUs, []byte(p))
	}
	return t, nil
}

func (b *backfillRequester) ProvideEvents(roomVer gmsl.RoomVersion, eventIDs []string) ([]gmsl.PDU, error) {
	return b.prov.ProvideEvents(roomVer, eventIDs)
}
