package main

// The scripted environment: a key database holding the real public keys behind a real KeyRing, an EventProvider
// whose behaviour per event ID comes from the record, a StateProvider answering with the states of the record.

import (
	"context"
	"errors"
	"sort"
	"sync"
	"time"

	gmsl "github.com/matrix-org/gomatrixserverlib"
	"github.com/matrix-org/gomatrixserverlib/spec"
)

// keyDB implements gomatrixserverlib.KeyDatabase: the servers' real public keys, valid far beyond now.
type keyDB struct{}

func (keyDB) FetcherName() string { return "c14-keydb" }

func (keyDB) FetchKeys(ctx context.Context, requests map[gmsl.PublicKeyLookupRequest]spec.Timestamp) (map[gmsl.PublicKeyLookupRequest]gmsl.PublicKeyLookupResult, error) {
	out := map[gmsl.PublicKeyLookupRequest]gmsl.PublicKeyLookupResult{}
	validUntil := spec.AsTimestamp(time.Now().Add(1000 * 24 * time.Hour))
	for req := range requests {
		k, ok := serverKeys[string(req.ServerName)]
		if !ok || req.KeyID != keyID {
			continue
		}
		out[req] = gmsl.PublicKeyLookupResult{
			VerifyKey:    gmsl.VerifyKey{Key: spec.Base64Bytes(k.pub)},
			ExpiredTS:    gmsl.PublicKeyNotExpired,
			ValidUntilTS: validUntil,
		}
	}
	return out, nil
}

func (keyDB) StoreKeys(ctx context.Context, results map[gmsl.PublicKeyLookupRequest]gmsl.PublicKeyLookupResult) error {
	return nil
}

func newKeyRing() gmsl.JSONVerifier {
	return &gmsl.KeyRing{KeyDatabase: keyDB{}}
}

var errProvider = errors.New("c14: scripted provider error")

// provider is the caller's event provider.
type provider struct {
	w     *world
	mu    sync.Mutex
	asked map[string]bool // every event ID ever asked for
	calls int
	// priming: every ID fails the first time it is asked for (an earlier operation on the same provider object
	// saw errors); the library must carry nothing over from that operation to the next
	priming bool
	primed  map[string]bool
	// generous: with an event the provider also hands back the auth events of that event that it is scripted to
	// return (more events than asked for, the asked one among them)
	generous bool
	// over: one answer carries the asked events that are returned AND everything below them that is returned
	// (Answer(.., "over", ..) of FedVerify.tla: the whole auth chain in one call)
	over bool
	// transient: "errors" / "nothing" - every call fails that way while set (FedVerify_gen PickBackfill: the first round)
	transient string
}

func newProvider(w *world) *provider {
	return &provider{w: w, asked: map[string]bool{}, primed: map[string]bool{}}
}

// endPriming: the operation whose outcome is compared starts now.
func (p *provider) endPriming() {
	p.priming = false
	p.asked = map[string]bool{}
	p.calls = 0
}

// ProvideEvents implements gomatrixserverlib.EventProvider: an error if one of the IDs is scripted to fail,
// otherwise the events scripted to be returned (always the event that was asked for).
func (p *provider) ProvideEvents(roomVer gmsl.RoomVersion, eventIDs []string) ([]gmsl.PDU, error) {
	p.mu.Lock()
	defer p.mu.Unlock()
	p.calls++
	if p.transient != "" {
		for _, id := range eventIDs {
			p.asked[id] = true
		}
		if p.transient == "errors" {
			return nil, errProvider
		}
		return nil, nil
	}
	var out []gmsl.PDU
	failed := false
	given := map[int]bool{}
	var below func(i int)
	below = func(i int) {
		for _, a := range p.w.r.ev(i).Auth {
			if p.w.r.ev(a).P == "returns" && !given[a] {
				given[a] = true
				out = append(out, p.w.pdu[a])
				below(a)
			}
		}
	}
	for _, id := range eventIDs {
		p.asked[id] = true
		i, ok := p.w.byID[id]
		if !ok {
			continue // nobody has this event (another room's create event)
		}
		if p.priming && !p.primed[id] {
			p.primed[id] = true
			failed = true
			continue
		}
		switch p.w.r.ev(i).P {
		case "returns":
			if p.over {
				if !given[i] {
					given[i] = true
					out = append(out, p.w.pdu[i])
					below(i)
				}
				continue
			}
			out = append(out, p.w.pdu[i])
			if p.generous {
				for _, a := range p.w.r.ev(i).Auth {
					if p.w.r.ev(a).P == "returns" {
						out = append(out, p.w.pdu[a])
					}
				}
			}
		case "errors":
			failed = true
		}
	}
	if failed {
		return nil, errProvider
	}
	return out, nil
}

// askedIDs: model ids asked for (sorted) and the IDs asked for that are no event of the record.
func (p *provider) askedIDs() (ids []int, unknown []string) {
	for id := range p.asked {
		if i, ok := p.w.byID[id]; ok {
			ids = append(ids, i)
		} else {
			unknown = append(unknown, id)
		}
	}
	sort.Ints(ids)
	sort.Strings(unknown)
	return
}

// stateProvider implements gomatrixserverlib.StateProvider.
type stateProvider struct {
	w         *world
	stateOf   func(eventID string) []int // model ids of the state reported before the event
	failIDs   bool
	failState bool
	idCalls   []string
	evCalls   []string
}

func (s *stateProvider) StateIDsBeforeEvent(ctx context.Context, event gmsl.PDU) ([]string, error) {
	s.idCalls = append(s.idCalls, event.EventID())
	if s.failIDs {
		return nil, errProvider
	}
	var out []string
	for _, i := range s.stateOf(event.EventID()) {
		out = append(out, s.w.ids[i])
	}
	return out, nil
}

func (s *stateProvider) StateBeforeEvent(ctx context.Context, roomVer gmsl.RoomVersion, event gmsl.PDU, eventIDs []string) (map[string]gmsl.PDU, error) {
	s.evCalls = append(s.evCalls, event.EventID())
	if s.failState {
		return nil, errProvider
	}
	out := map[string]gmsl.PDU{}
	for _, i := range s.stateOf(event.EventID()) {
		out[s.w.ids[i]] = s.w.pdu[i]
	}
	return out, nil
}

// backfillRequester implements gomatrixserverlib.BackfillRequester on top of the two providers.
type backfillRequester struct {
	*stateProvider
	prov *provider
	pdus []spec.RawJSON
	// servers: the servers at the event (default: one); every one of them answers with pdus.  The provider's
	// transient fault ends when the second server is asked.
	servers []spec.ServerName
	asked   int
}

func (b *backfillRequester) ServersAtEvent(ctx context.Context, roomID, eventID string) []spec.ServerName {
	if b.servers != nil {
		return b.servers
	}
	return []spec.ServerName{"hs2"}
}

func (b *backfillRequester) Backfill(ctx context.Context, origin, server spec.ServerName, roomID string, limit int, fromEventIDs []string) (gmsl.Transaction, error) {
	b.asked++
	if b.asked > 1 {
		b.prov.mu.Lock()
		b.prov.transient = ""
		b.prov.mu.Unlock()
	}
	t := gmsl.Transaction{Origin: server}
	for _, p := range b.pdus {
		t.PDUs = append(t.PDUs, []byte(p))
	}
	return t, nil
}

func (b *backfillRequester) ProvideEvents(roomVer gmsl.RoomVersion, eventIDs []string) ([]gmsl.PDU, error) {
	return b.prov.ProvideEvents(roomVer, eventIDs)
}

// ---------------------------------------------------------------- the federation-backed state provider

type stateIDResponse struct{ state, auth []string }

func (r *stateIDResponse) GetStateEventIDs() []string { return r.state }
func (r *stateIDResponse) GetAuthEventIDs() []string  { return r.auth }

// fedStateClient implements gomatrixserverlib.FederatedStateClient: the remote server answers /state_ids and
// /state with the state of the record (as bytes: the events go through the untrusted parser).
type fedStateClient struct {
	w       *world
	stateOf func(eventID string) []int
}

func (c *fedStateClient) LookupStateIDs(ctx context.Context, origin, s spec.ServerName, roomID, eventID string) (gmsl.StateIDResponse, error) {
	r := &stateIDResponse{}
	for _, i := range c.stateOf(eventID) {
		r.state = append(r.state, c.w.ids[i])
	}
	return r, nil
}

func (c *fedStateClient) LookupState(ctx context.Context, origin, s spec.ServerName, roomID, eventID string, roomVersion gmsl.RoomVersion) (gmsl.StateResponse, error) {
	r := &stateResponse{}
	for _, i := range c.stateOf(eventID) {
		r.state = append(r.state, append(spec.RawJSON{}, c.w.pdu[i].JSON()...))
	}
	return r, nil
}
