package main

// Token text -> bytes.  This is the whole concretiser of C01: a table that mirrors section 8 ("Concrete
// syntax") of spec/CanonJSON.tla.  CanonJSON_trace.tla recomputes Bytes(text) in TLA+ for recorded
// documents and compares it with what this file produced, so the two tables check each other.

import (
	"fmt"
	"unicode/utf8"
)

const (
	tLBrace = 1
	tRBrace = 2
	tLBrack = 3
	tRBrack = 4
	tColon  = 5
	tComma  = 6
	tQuote  = 7
	tNull   = 8
	tTrue   = 9
	tFalse  = 10
	tWsSp   = 11
	tWsTab  = 12
	tWsNl   = 13
	tWsCr   = 14
	tBare   = 20
	tBadEsc = 21
	tBadHex = 22

	spRaw       = 0
	spShort     = 1
	spULower    = 2
	spUUpper    = 3
	spPairLower = 4
	spPairUpper = 5
	spMixed     = 6 // \uXxXx (hex digits 1, 3 upper, 2, 4 lower); a pair as \uXXXX\uxxxx
)

var fixedTok = map[int]string{
	tLBrace: "{", tRBrace: "}", tLBrack: "[", tRBrack: "]", tColon: ":", tComma: ",", tQuote: `"`,
	tNull: "null", tTrue: "true", tFalse: "false",
	tWsSp: " ", tWsTab: "\t", tWsNl: "\n", tWsCr: "\r",
	tBare: "x", tBadEsc: `\x`, tBadHex: `\u00G0`,
}

var shortLetter = map[int]byte{34: '"', 92: '\\', 47: '/', 8: 'b', 9: 't', 10: 'n', 12: 'f', 13: 'r'}

func numTok(b byte) int      { return 200 + int(b) }
func chTok(cp, sp int) int   { return 1000 + cp*8 + sp }
func isNumTok(t int) bool    { return t >= 200 && t < 328 }
func isChTok(t int) bool     { return t >= 1000 }
func tokCp(t int) int        { return (t - 1000) / 8 }
func tokSp(t int) int        { return (t - 1000) % 8 }
func isSurrogate(c int) bool { return c >= 0xD800 && c <= 0xDFFF }

func uEscape(b []byte, n int, upper bool) []byte {
	f := "\\u%04x"
	if upper {
		f = "\\u%04X"
	}
	return append(b, fmt.Sprintf(f, n)...)
}

func renderTok(b []byte, t int) []byte {
	switch {
	case isChTok(t):
		cp, sp := tokCp(t), tokSp(t)
		switch sp {
		case spRaw:
			if cp > 0x10FFFF || isSurrogate(cp) {
				panic(fmt.Sprintf("renderer: U+%04X has no raw spelling", cp))
			}
			return utf8.AppendRune(b, rune(cp))
		case spShort:
			l, ok := shortLetter[cp]
			if !ok {
				panic(fmt.Sprintf("renderer: U+%04X has no short escape", cp))
			}
			return append(b, '\\', l)
		case spULower, spUUpper:
			if cp > 0xFFFF {
				panic("renderer: \\uXXXX spelling of an astral code point")
			}
			return uEscape(b, cp, sp == spUUpper)
		case spMixed:
			if cp > 0x10FFFF {
				panic("renderer: code point out of range")
			}
			if cp <= 0xFFFF {
				u := []byte(fmt.Sprintf("%04X", cp))
				l := []byte(fmt.Sprintf("%04x", cp))
				return append(b, '\\', 'u', u[0], l[1], u[2], l[3])
			}
			hi, lo := 0xD800+(cp-0x10000)/1024, 0xDC00+(cp-0x10000)%1024
			return uEscape(uEscape(b, hi, true), lo, false)
		case spPairLower, spPairUpper:
			if cp < 0x10000 || cp > 0x10FFFF {
				panic("renderer: surrogate pair spelling of a BMP code point")
			}
			hi, lo := 0xD800+(cp-0x10000)/1024, 0xDC00+(cp-0x10000)%1024
			return uEscape(uEscape(b, hi, sp == spPairUpper), lo, sp == spPairUpper)
		}
		panic(fmt.Sprintf("renderer: unknown spelling %d", sp))
	case isNumTok(t):
		return append(b, byte(t-200))
	}
	s, ok := fixedTok[t]
	if !ok {
		panic(fmt.Sprintf("renderer: unknown token %d", t))
	}
	return append(b, s...)
}

// render returns the bytes of a token text and, per token, the offset at which it starts.
func render(toks []int) ([]byte, []int) {
	b := make([]byte, 0, len(toks)*2)
	at := make([]int, len(toks))
	for i, t := range toks {
		at[i] = len(b)
		b = renderTok(b, t)
	}
	return b, at
}

func renderBytes(toks []int) []byte {
	b, _ := render(toks)
	return b
}
