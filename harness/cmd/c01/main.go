// Command c01 binds spec/CanonJSON.tla to the canonical JSON functions of gomatrixserverlib (property C01).
//
//	c01 c01    -in records.ndjson enforce=<csv> versions=<csv>   spec -> code replay
//	c01 c01rec -out trace.ndjson -seed N -n N                     code -> spec recording
package main

import "verifharness/hx"

func main() { hx.Main() }
