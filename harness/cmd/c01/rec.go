package main

// C01 code -> spec: a seeded driver builds random documents *from tokens* (so that the token text is known
// by construction and no JSON lexer of the harness is trusted), depth <= 6, over a much wider alphabet than
// the generator families (random BMP / astral code points, random number literals, token-level damage),
// runs the real library and logs tokens + observed results.  spec/CanonJSON_trace.tla parses the tokens
// with the specification's own reader, decides validity, recomputes the canonical bytes and the enforced
// verdict for every room version, and compares.

import (
	"bytes"
	"encoding/json"
	"fmt"
	"math/big"
	"math/rand"

	gmsl "github.com/matrix-org/gomatrixserverlib"
	"verifharness/hx"
)

const (
	recMaxDepth  = 6
	recMaxTokens = 90
	recEchoInput = 300 // the first lines also carry the input bytes (renderer cross-check in TLA+)
)

type docGen struct {
	r     *rand.Rand
	toks  []int
	inner []bool // token i is inside a string (a character or the closing quote)
}

func (g *docGen) emit(t int, inner bool) {
	g.toks = append(g.toks, t)
	g.inner = append(g.inner, inner)
}

func (g *docGen) ws() {
	for g.r.Intn(6) == 0 {
		g.emit(tWsSp+g.r.Intn(4), false)
	}
}

var recKeyAlphabet = []int{'a', 'b', 'A', ' ', '!', '#', '[', ']', 0xE9, 0x2028, 0xE000, 0xFB01, 0xFFFF, 0x10000, 0x103FF, 0x10400, 0x10FC00, 0x1F600, 0x10FFFF, '"', '\\', 0, 0x1F, '/', 0x7F}

// recOrderAlphabet: characters of every class an ordering of keys can tell apart (CanonJSON.tla section 8b): ASCII,
// two-byte, BMP below the surrogates, BMP above the surrogates (private use, CJK compatibility, presentation forms,
// fullwidth forms, specials), supplementary planes.  Keys over it share prefixes and differ first across two classes.
var recOrderAlphabet = []int{'m', '.', 0x7F, 0x80, 0xE9, 0x7FF, 0x800, 0x2028, 0xD7FF, 0xE000, 0xF900, 0xFB01, 0xFE70, 0xFF01, 0xFFFD, 0xFFFF,
	0x10000, 0x10437, 0x1F600, 0x20BB7, 0xE0001, 0x10FFFF}
var recOddities = []int{0x2028, 0x2029, 0xFEFF, 0xFFFD, 0xFFFE, 0xFFFF, 0xD7FF, 0xE000, 0x10000, 0x103FF, 0x10400, 0x10FC00, 0x10FFFF, 0x7F, 0x80, 0x7FF, 0x800, 0x20, 0x1F}

func (g *docGen) codePoint() int {
	r := g.r
	switch p := r.Intn(100); {
	case p < 30:
		return 0x20 + r.Intn(0x5F) // printable ASCII (includes " \ /)
	case p < 40:
		return []int{'"', '\\', '/'}[r.Intn(3)]
	case p < 52:
		return r.Intn(0x20)
	case p < 60:
		return 0x7F + r.Intn(0x81)
	case p < 72:
		return 0x100 + r.Intn(0xD800-0x100)
	case p < 80:
		return 0xE000 + r.Intn(0x2000)
	case p < 88:
		return recOddities[r.Intn(len(recOddities))]
	default:
		return 0x10000 + r.Intn(0x100000)
	}
}

func spellingsOf(cp int) []int {
	var sp []int
	if cp >= 0x20 && cp != '"' && cp != '\\' && !isSurrogate(cp) {
		sp = append(sp, spRaw)
	}
	if _, ok := shortLetter[cp]; ok {
		sp = append(sp, spShort)
	}
	if cp <= 0xFFFF {
		sp = append(sp, spULower, spUUpper, spMixed)
	} else {
		sp = append(sp, spPairLower, spPairUpper, spMixed)
	}
	return sp
}

func (g *docGen) str(cps []int) {
	g.emit(tQuote, false)
	for _, cp := range cps {
		sp := spellingsOf(cp)
		k := sp[0]
		if g.r.Intn(3) == 0 {
			k = sp[g.r.Intn(len(sp))]
		}
		g.emit(chTok(cp, k), true)
	}
	g.emit(tQuote, true)
}

func (g *docGen) randString(alphabet []int) []int {
	n := g.r.Intn(5)
	if g.r.Intn(8) == 0 {
		n += g.r.Intn(5)
	}
	cps := make([]int, n)
	for i := range cps {
		if alphabet != nil {
			cps[i] = alphabet[g.r.Intn(len(alphabet))]
		} else {
			cps[i] = g.codePoint()
		}
	}
	return cps
}

var recSpecialNumbers = []string{
	"0", "-0", "1", "-1", "9007199254740991", "-9007199254740991", "9007199254740992", "-9007199254740992",
	"9007199254740993", "90071992547409910", "900719925474099", "0.5", "-0.5", "-0.0", "0.0", "1.0", "1e2", "1E2",
	"1e-05", "-1e-05", "0e1", "-0e1", "0E0", "1.5e300", "1e400", "-0.05", "-0.0e-0", "10.0", "-10", "1e+2", "2E-03",
	"123456789012345678901234567890", "100", "-100",
	"1E-05", "1E+05", "1e+05", "1e05", "1E05", "1e-0", "1E-0", "1E+0", "-0e-0", "-0E-05", "1.5E-05", "10e-01", "-1E-05",
	"9007199254740990", "-9007199254740990", "1000000000000000", "9999999999999999", "10000000000000000",
	// where a 64-bit integer parse saturates or wraps: 2^63-1, 2^63, 2^64-1, 2^64, 2^64+1, 2^64+2^53-1, 2^64+2^53, 2^65
	"9223372036854775807", "9223372036854775808", "-9223372036854775808", "-9223372036854775809",
	"18446744073709551615", "18446744073709551616", "18446744073709551617", "-18446744073709551615",
	"-18446744073709551616", "-18446744073709551617", "18455751272964292607", "18455751272964292608",
	"-18455751272964292607", "36893488147419103232", "-36893488147419103232",
}

// wrapLiteral is an integer literal k*2^64 + d (k = 1..4, |d| small or near 2^53), optionally negated: far out
// of range, but congruent modulo 2^64 to a value near or inside +/-(2^53-1).
func wrapLiteral(r *rand.Rand) string {
	n := new(big.Int).Lsh(big.NewInt(int64(1+r.Intn(4))), 64)
	var d int64
	switch r.Intn(4) {
	case 0:
		d = int64(r.Intn(2001) - 1000)
	case 1:
		d = (1<<53 - 1) + int64(r.Intn(5)-2)
	case 2:
		d = -(1<<53 - 1) + int64(r.Intn(5)-2)
	default:
		d = r.Int63n(1<<54) - 1<<53
	}
	n.Add(n, big.NewInt(d))
	if r.Intn(2) == 0 {
		n.Neg(n)
	}
	return n.String()
}

// numberLike is the content of a string (value or key) whose characters a number reader would take for a number
// (CanonJSON.tla section 3b): the spelling of a JSON number literal - special, wrapping or random -, or a spelling
// outside the JSON grammar that lenient readers accept (inf / infinity / nan in any letter case, hexadecimal floats,
// a leading +, a bare point, leading zeros, digit-group underscores, surrounding blanks).  It is a string all the same.
func (g *docGen) numberLike() []int {
	r := g.r
	var s string
	switch p := r.Intn(20); {
	case p < 7:
		s = recSpecialNumbers[r.Intn(len(recSpecialNumbers))]
	case p < 10:
		s = wrapLiteral(r)
	case p < 13:
		s = string(g.literal())
	case p < 15:
		w := []byte([]string{"inf", "infinity", "nan"}[r.Intn(3)])
		for i := range w {
			if r.Intn(2) == 0 {
				w[i] -= 'a' - 'A'
			}
		}
		s = []string{"", "", "-", "+"}[r.Intn(4)] + string(w)
	case p < 17:
		s = []string{"", "-", "+"}[r.Intn(3)] + []string{"0x", "0X"}[r.Intn(2)] + fmt.Sprintf("%x", 1+r.Intn(1<<20))
		if r.Intn(3) > 0 {
			s += []string{"p", "P"}[r.Intn(2)] + []string{"", "+", "-"}[r.Intn(3)] + fmt.Sprint(r.Intn(1100))
		}
	default:
		lit := string(g.literal())
		if r.Intn(2) == 0 {
			lit = recSpecialNumbers[r.Intn(len(recSpecialNumbers))]
		}
		switch r.Intn(6) {
		case 0:
			s = "+" + lit
		case 1:
			s = []string{" ", "\t", "\n"}[r.Intn(3)] + lit
		case 2:
			s = lit + []string{" ", "\n", "\r"}[r.Intn(3)]
		case 3:
			s = "0" + lit
		case 4:
			s = lit + "."
		default:
			if len(lit) > 2 {
				k := 1 + r.Intn(len(lit)-1)
				s = lit[:k] + "_" + lit[k:]
			} else {
				s = "." + lit
			}
		}
	}
	cps := make([]int, len(s))
	for i := 0; i < len(s); i++ {
		cps[i] = int(s[i])
	}
	return cps
}

func (g *docGen) number() {
	for _, b := range g.literal() {
		g.emit(numTok(b), false)
	}
}

// literal is a JSON number literal: special, wrapping or random.
func (g *docGen) literal() []byte {
	r := g.r
	var lit []byte
	if p := r.Intn(12); p < 4 {
		lit = []byte(recSpecialNumbers[r.Intn(len(recSpecialNumbers))])
	} else if p == 4 {
		lit = []byte(wrapLiteral(r))
	} else {
		if r.Intn(3) == 0 {
			lit = append(lit, '-')
		}
		if r.Intn(4) == 0 {
			lit = append(lit, '0')
		} else {
			lit = append(lit, byte('1'+r.Intn(9)))
			for n := r.Intn(5) * r.Intn(5); n > 0; n-- {
				lit = append(lit, byte('0'+r.Intn(10)))
			}
		}
		if r.Intn(4) == 0 {
			lit = append(lit, '.')
			for n := 1 + r.Intn(3); n > 0; n-- {
				lit = append(lit, byte('0'+r.Intn(10)))
			}
		}
		if r.Intn(5) == 0 {
			lit = append(lit, "eE"[r.Intn(2)])
			if s := r.Intn(3); s < 2 {
				lit = append(lit, "+-"[s])
			}
			for n := 1 + r.Intn(2); n > 0; n-- {
				lit = append(lit, byte('0'+r.Intn(10)))
			}
		}
	}
	return lit
}

func (g *docGen) value(depth int) {
	r := g.r
	p := r.Intn(100)
	if depth >= recMaxDepth || len(g.toks) > recMaxTokens {
		p = p % 60
	}
	switch {
	case p < 8:
		g.emit(tNull, false)
	case p < 14:
		g.emit(tTrue, false)
	case p < 20:
		g.emit(tFalse, false)
	case p < 42:
		g.number()
	case p < 60:
		if r.Intn(4) == 0 {
			g.str(g.numberLike()) // the characters of a number between quotes: a string like any other
		} else {
			g.str(g.randString(nil))
		}
	case p < 78:
		g.emit(tLBrack, false)
		n := r.Intn(4)
		for i := 0; i < n; i++ {
			if i > 0 {
				g.ws()
				g.emit(tComma, false)
			}
			g.ws()
			g.value(depth + 1)
		}
		g.ws()
		g.emit(tRBrack, false)
	default:
		g.emit(tLBrace, false)
		n := r.Intn(5)
		if depth <= 1 && r.Intn(150) == 0 {
			n = 120 + r.Intn(20) // around the 128 entries the library sorts without allocating
		}
		dupOK := r.Intn(40) == 0 // duplicate keys: outside the property's "valid", only "no panic"
		seen := map[string]bool{}
		var alphabet []int
		switch r.Intn(6) {
		case 0, 1, 2:
			alphabet = recKeyAlphabet // small alphabet: shared prefixes, escapes, UTF-16 / code point order
		case 3:
			alphabet = recOrderAlphabet // one class of characters against another, after shared prefixes
		}
		wrote := 0
		for i := 0; i < n; i++ {
			key := g.randString(alphabet)
			if r.Intn(10) == 0 {
				key = g.numberLike()
			}
			id := fmt.Sprint(key)
			if seen[id] && !dupOK {
				continue
			}
			seen[id] = true
			if wrote > 0 {
				g.ws()
				g.emit(tComma, false)
			}
			wrote++
			g.ws()
			g.str(key)
			g.ws()
			g.emit(tColon, false)
			g.ws()
			g.value(depth + 1)
		}
		g.ws()
		g.emit(tRBrace, false)
	}
}

// damage applies one token-level alteration.  Whether the result is still JSON is decided by the
// specification's reader, not here.
func (g *docGen) damage() {
	r := g.r
	n := len(g.toks)
	gaps := []int{n} // positions outside strings (before token i, or at the end)
	var inner, structural []int
	for i := range g.toks {
		if g.inner[i] {
			inner = append(inner, i)
		} else {
			gaps = append(gaps, i)
			if g.toks[i] >= tLBrace && g.toks[i] <= tComma {
				structural = append(structural, i)
			}
		}
	}
	insert := func(at, t int) {
		g.toks = append(g.toks[:at], append([]int{t}, g.toks[at:]...)...)
	}
	switch op := r.Intn(6); {
	case op == 0:
		g.toks = g.toks[:r.Intn(n)]
	case op == 1 && len(structural) > 0:
		at := structural[r.Intn(len(structural))]
		g.toks = append(g.toks[:at], g.toks[at+1:]...)
	case op == 2 && len(inner) > 0:
		bad := []int{tBadEsc, tBadHex, chTok(r.Intn(0x20), spRaw), chTok(0x0A, spRaw)}
		insert(inner[r.Intn(len(inner))], bad[r.Intn(len(bad))])
	case op == 3 && len(inner) > 0 && r.Intn(2) == 0:
		insert(inner[r.Intn(len(inner))], chTok(0xD800+r.Intn(0x800), spULower+r.Intn(2)))
	case op == 3 && len(inner) > 0:
		// two escapes that are not a surrogate pair: low-high, high-high, low-low, high + BMP
		hi, lo := 0xD800+r.Intn(0x400), 0xDC00+r.Intn(0x400)
		pairs := [][2]int{{lo, hi}, {hi, 0xD800 + r.Intn(0x400)}, {lo, 0xDC00 + r.Intn(0x400)}, {hi, r.Intn(0xD800)}, {hi, 0xE000 + r.Intn(0x2000)}}
		p := pairs[r.Intn(len(pairs))]
		at := inner[r.Intn(len(inner))]
		sp := spULower + r.Intn(2)
		insert(at, chTok(p[1], sp))
		insert(at, chTok(p[0], sp))
	default:
		junk := []int{tComma, tColon, tRBrack, tRBrace, tLBrack, tLBrace, tBare, tNull, tQuote, numTok('-'), numTok('.'), numTok('+'), numTok('0')}
		insert(gaps[r.Intn(len(gaps))], junk[r.Intn(len(junk))])
	}
}

func genDoc(r *rand.Rand) []int {
	g := &docGen{r: r}
	g.ws()
	g.value(r.Intn(3)) // start below the top sometimes so that scalars at top level are common enough
	g.ws()
	if r.Intn(7) == 0 {
		g.damage()
	}
	return g.toks
}

func toInts(b []byte) []int {
	out := make([]int, len(b))
	for i, c := range b {
		out[i] = int(c)
	}
	return out
}

type c01Line struct {
	Text []int    `json:"text"`
	Inb  []int    `json:"inb"`  // input bytes (first lines only, otherwise empty)
	OK   bool     `json:"ok"`   // CanonicalJSON returned no error
	Out  []int    `json:"out"`  // its output bytes
	AV   bool     `json:"av"`   // CanonicalJSONAssumeValid(input) = out
	Idem bool     `json:"idem"` // CanonicalJSON(out) = out
	Vers []string `json:"vers"` // registered room versions
	Rej  []string `json:"rej"`  // versions whose CheckCanonicalJSON refused the input
	ERej []string `json:"erej"` // versions whose EnforcedCanonicalJSON refused the input
	EOut bool     `json:"eout"` // every accepting EnforcedCanonicalJSON returned out
	SB   bool     `json:"sb"`   // every entry point, called repeatedly on one shared buffer, behaved as on a fresh copy
}

func observe(toks []int, echo bool) *c01Line {
	in := renderBytes(toks)
	l := &c01Line{Text: toks, Inb: []int{}, Out: []int{}, Rej: []string{}, ERej: []string{}, EOut: true, Vers: registeredVersions()}
	if echo {
		l.Inb = toInts(in)
	}
	out, err := gmsl.CanonicalJSON(clone(in))
	l.OK = err == nil
	if err == nil {
		l.Out = toInts(out)
		l.AV = bytes.Equal(gmsl.CanonicalJSONAssumeValid(clone(in)), out)
		out2, err2 := gmsl.CanonicalJSON(clone(out))
		l.Idem = err2 == nil && bytes.Equal(out2, out)
	}
	for _, v := range l.Vers {
		if gmsl.MustGetRoomVersion(gmsl.RoomVersion(v)).CheckCanonicalJSON(clone(in)) != nil {
			l.Rej = append(l.Rej, v)
		}
		if o, e := gmsl.EnforcedCanonicalJSON(clone(in), gmsl.RoomVersion(v)); e != nil {
			l.ERej = append(l.ERej, v)
		} else if !bytes.Equal(o, out) || err != nil {
			l.EOut = false
		}
	}
	step, _ := sameBuffer(in, l.Vers, err == nil)
	l.SB = step == ""
	return l
}

func init() {
	hx.Register("c01rec", "record canonical JSON calls on random token-built documents for CanonJSON_trace.tla", func(a *hx.Args) error {
		tw, err := hx.NewTraceWriter(a.Out)
		if err != nil {
			return err
		}
		rng := rand.New(rand.NewSource(a.Seed))
		for i := 0; i < a.N; i++ {
			toks := genDoc(rng)
			var line *c01Line
			r := hx.Safely(i, func() hx.Result {
				line = observe(toks, i < recEchoInput)
				return hx.Result{OK: true}
			})
			if !r.OK {
				// a panic: reported on stdout as a failing result line, not part of the trace
				r.I = i
				r.Extra = toks
				b, _ := json.Marshal(r)
				fmt.Println(string(b))
				continue
			}
			tw.Emit(line)
		}
		return tw.Close()
	})
}
