package main

// C01 spec -> code: every finished writer behaviour of CanonJSON.tla (one record per text) is rendered to
// bytes and run through CanonicalJSON, CanonicalJSONAssumeValid, EnforcedCanonicalJSON and
// IRoomVersion.CheckCanonicalJSON (every registered room version); the results are compared with what the
// specification derived (exp / alt / st / bad / nz).

import (
	"bytes"
	"encoding/json"
	"fmt"
	"sort"
	"strconv"
	"strings"

	gmsl "github.com/matrix-org/gomatrixserverlib"
	"verifharness/hx"
)

type c01Rec struct {
	Fam  string  `json:"fam"`
	Text []int   `json:"text"`
	St   string  `json:"st"`  // valid | invalid | illformed | dupkeys
	Cor  string  `json:"cor"` // Corrupt action taken by the writer, or "none"
	Exp  []int   `json:"exp"` // canonical text
	Alt  []int   `json:"alt"` // second admissible canonical text (negative zero spelt -0.0, -0e1 ...), or empty
	Bad  [][]int `json:"bad"` // literals that are not integer literals within +/-(2^53-1)
	Nz   bool    `json:"nz"`  // holds the literal -0
	Ast  []int   `json:"ast"` // supplementary code points an ill-formed text really holds
	// what a number reader would make of the characters of the text's STRINGS (CanonJSON.tla section 3b, NumLook:
	// integer-out-of-range, fraction-or-exponent, inf-nan-word, hex-float, ...).  No expected result depends on it; it
	// names the scenario class in the key of a disagreement.
	Look []string `json:"look"`
}

// lookClass is the number look of the strings of a text that matters most to the room version 6 rule (a look that
// would be refused if the string were a number), or "" if no string of the text looks like a number.
func lookClass(look []string) string {
	best, rank := "", -1
	order := map[string]int{"integer-in-range": 0, "lenient-decimal": 1, "number-in-blanks": 2, "hex-float": 3, "fraction-or-exponent": 4, "inf-nan-word": 5, "integer-out-of-range": 6}
	for _, l := range look {
		if r, ok := order[l]; ok && r > rank {
			best, rank = l, r
		}
	}
	return best
}

// sameBuffer calls every entry point repeatedly on ONE buffer holding the text (never on a copy) and compares
// each outcome with the outcome of the same call on a fresh copy: the same text must give the same result
// the second time and after another entry point has worked on the slice.  assumeValid: include
// CanonicalJSONAssumeValid (only for valid texts).  Returns "" or a description of the first difference.
func sameBuffer(in []byte, versions []string, assumeValid bool) (step, what string) {
	type call struct {
		name string
		fn   func(b []byte) ([]byte, bool)
	}
	canon := call{"CanonicalJSON", func(b []byte) ([]byte, bool) { o, e := gmsl.CanonicalJSON(b); return o, e != nil }}
	assume := call{"CanonicalJSONAssumeValid", func(b []byte) ([]byte, bool) { return gmsl.CanonicalJSONAssumeValid(b), false }}
	seq := []call{canon, canon}
	if assumeValid {
		seq = append(seq, assume, assume, canon)
	}
	for _, v := range versions {
		v := v
		seq = append(seq,
			call{"EnforcedCanonicalJSON", func(b []byte) ([]byte, bool) {
				o, e := gmsl.EnforcedCanonicalJSON(b, gmsl.RoomVersion(v))
				return o, e != nil
			}},
			call{"CheckCanonicalJSON", func(b []byte) ([]byte, bool) {
				return nil, gmsl.MustGetRoomVersion(gmsl.RoomVersion(v)).CheckCanonicalJSON(b) != nil
			}})
	}
	seq = append(seq, canon)
	if assumeValid {
		seq = append(seq, assume)
	}
	buf := clone(in)
	prev := "nothing"
	for _, c := range seq {
		fo, fe := c.fn(clone(in))
		fo = clone(fo)
		so, se := c.fn(buf)
		if fe != se || !bytes.Equal(fo, so) {
			return c.name + "-after-" + prev, fmt.Sprintf("%s on a fresh copy of the text gives %+q (error=%v); on the slice that %s had worked on before it gives %+q (error=%v); the slice now holds %+q", c.name, fo, fe, prev, so, se, buf)
		}
		prev = c.name
	}
	return "", ""
}

// inventedAstral returns a supplementary code point of out that is not among held (with multiplicity), or 0.
func inventedAstral(out []byte, held []int) int {
	left := map[int]int{}
	for _, c := range held {
		left[c]++
	}
	for _, c := range string(out) {
		if c >= 0x10000 {
			if left[int(c)] == 0 {
				return int(c)
			}
			left[int(c)]--
		}
	}
	return 0
}

// versionTable is the EnforcedCanonJSON column of spec/MatrixBase.tla, passed by the driver as
// "enforce=<csv>" and "versions=<csv>" (emitted by TLC, not written here).
type versionTable struct {
	all     []string
	enforce map[string]bool
}

func parseTable(rest []string) (*versionTable, error) {
	vt := &versionTable{enforce: map[string]bool{}}
	seen := 0
	for _, a := range rest {
		switch {
		case strings.HasPrefix(a, "enforce="):
			seen++
			for _, v := range strings.Split(strings.TrimPrefix(a, "enforce="), ",") {
				if v != "" {
					vt.enforce[v] = true
				}
			}
		case strings.HasPrefix(a, "versions="):
			seen++
			for _, v := range strings.Split(strings.TrimPrefix(a, "versions="), ",") {
				if v != "" {
					vt.all = append(vt.all, v)
				}
			}
		}
	}
	if seen != 2 || len(vt.all) == 0 {
		return nil, fmt.Errorf("c01 needs the room version table: enforce=<csv> versions=<csv>")
	}
	sort.Strings(vt.all)
	return vt, nil
}

func registeredVersions() []string {
	var out []string
	for v := range gmsl.RoomVersions() {
		out = append(out, string(v))
	}
	sort.Strings(out)
	return out
}

func init() {
	hx.Register("c01", "replay CanonJSON_gen.tla records against the canonical JSON functions", func(a *hx.Args) error {
		vt, err := parseTable(a.Rest)
		if err != nil {
			return err
		}
		return hx.ReplayAll(a, func(i int, raw json.RawMessage) hx.Result {
			var r c01Rec
			if err := json.Unmarshal(raw, &r); err != nil {
				panic(err)
			}
			return c01Replay(&r, vt)
		})
	})
}

func clone(b []byte) []byte { return append([]byte(nil), b...) }

func litString(l []int) string {
	b := make([]byte, len(l))
	for i, c := range l {
		b[i] = byte(c)
	}
	return string(b)
}

// numFeatures abstracts an inadmissible number literal to what the room version 6 rule can depend on:
// fraction / exponent (and the case of its letter) / magnitude, and whether the value is zero.
func numFeatures(lit string) string {
	var f []string
	mant := lit
	if i := strings.IndexAny(lit, "eE"); i >= 0 {
		mant = lit[:i]
		if lit[i] == 'E' {
			f = append(f, "exponent-capital-E")
		} else {
			f = append(f, "exponent")
		}
	}
	if strings.Contains(mant, ".") {
		f = append([]string{"fraction"}, f...)
	}
	if len(f) == 0 {
		f = append(f, "integer-out-of-range")
	}
	if strings.Trim(mant, "-0.") == "" {
		f = append(f, "zero-valued")
	}
	return strings.Join(f, "+")
}

// numPart names the element of a number literal (tokens run[0]..run[1] of toks) at token k.
func numPart(toks []int, run [2]int, k int) string {
	part := "mantissa"
	for i := run[0]; i < k; i++ {
		if c := toks[i] - 200; c == 'e' || c == 'E' {
			part = "exponent"
		}
	}
	switch c := byte(toks[k] - 200); {
	case c == '-' || c == '+':
		return part + "-sign"
	case c >= '0' && c <= '9':
		return part + "-digits"
	case c == '.':
		return "decimal-point"
	}
	return "exponent-letter"
}

// cpClass is the escape class of a code point (one class per row of the specification's alphabet).
func cpClass(cp int) string {
	switch {
	case cp == '"':
		return "quote"
	case cp == '\\':
		return "backslash"
	case cp == '/':
		return "slash"
	case cp < 0x20:
		if _, ok := shortLetter[cp]; ok {
			return "control-with-short-escape"
		}
		return "control"
	case cp == 0x7F:
		return "del"
	case cp < 0x80:
		return "ascii"
	case cp < 0xE000:
		return "bmp"
	case cp < 0x10000:
		return "bmp-above-surrogates"
	}
	return "astral"
}

// litRuns returns the [first, last] token index of every number literal of a token text.
func litRuns(toks []int) [][2]int {
	var runs [][2]int
	for i := 0; i < len(toks); i++ {
		if !isNumTok(toks[i]) {
			continue
		}
		j := i
		for j+1 < len(toks) && isNumTok(toks[j+1]) {
			j++
		}
		runs = append(runs, [2]int{i, j})
		i = j
	}
	return runs
}

// ordClass is CpClass of CanonJSON.tla section 8b: the classes of characters an ordering can tell apart.
func ordClass(cp int) string {
	switch {
	case cp < 0x80:
		return "ascii"
	case cp < 0x800:
		return "two-byte"
	case cp < 0xD800:
		return "bmp-below-surrogates"
	case cp < 0x10000:
		return "bmp-above-surrogates"
	}
	return "astral"
}

// keysOf returns the object keys (code points) of a token text.
func keysOf(toks []int) [][]int {
	var keys [][]int
	start := -1
	for i, t := range toks {
		if t != tQuote {
			continue
		}
		if start < 0 {
			start = i
			continue
		}
		if i+1 < len(toks) && toks[i+1] == tColon {
			var k []int
			for _, c := range toks[start+1 : i] {
				k = append(k, tokCp(c))
			}
			keys = append(keys, k)
		}
		start = -1
	}
	return keys
}

// misplacedKey: the output departs from the canonical text ref inside the key written by tokens start..end.  If the
// output has, at the place of that key, ANOTHER key of the document, the members are in a different order: the result
// names the classes (DiffClasses of CanonJSON.tla section 8b) of the two characters at which the two keys first
// differ, "<class in the key that belongs here>-before-<class in the key found here>".  "" if it is not a matter of order.
func misplacedKey(ref, at []int, start, end int, got []byte) string {
	if at[start] >= len(got) || got[at[start]] != '"' {
		return ""
	}
	// the JSON string that the output holds at the place of the key
	j := at[start] + 1
	for j < len(got) && got[j] != '"' {
		if got[j] == '\\' {
			j++
		}
		j++
	}
	if j >= len(got) {
		return ""
	}
	var found string
	if json.Unmarshal(got[at[start]:j+1], &found) != nil {
		return ""
	}
	var here, there []int
	for _, c := range ref[start+1 : end] {
		here = append(here, tokCp(c))
	}
	for _, c := range found {
		there = append(there, int(c))
	}
	same := func(a, b []int) bool {
		if len(a) != len(b) {
			return false
		}
		for i := range a {
			if a[i] != b[i] {
				return false
			}
		}
		return true
	}
	if same(here, there) {
		return ""
	}
	sibling := false
	for _, k := range keysOf(ref) {
		if same(k, there) {
			sibling = true
		}
	}
	if !sibling {
		return ""
	}
	i := 0
	for i < len(here) && i < len(there) && here[i] == there[i] {
		i++
	}
	ch, ct := "end", "end"
	if i < len(here) {
		ch = ordClass(here[i])
	}
	if i < len(there) {
		ct = ordClass(there[i])
	}
	return ch + "-before-" + ct
}

func commonPrefix(a, b []byte) int {
	d := 0
	for d < len(a) && d < len(b) && a[d] == b[d] {
		d++
	}
	return d
}

// classOf names the abstract element of the expected canonical text at which the observed output departs
// from it: an element of a number literal, a character class in a key / string value, or a structural token.  With two
// admissible canonical texts (exp, alt) the one that agrees longer with the output is the reference.
func classOf(exp, alt []int, got []byte) string {
	ref := exp
	d := commonPrefix(renderBytes(exp), got)
	if len(alt) > 0 {
		if da := commonPrefix(renderBytes(alt), got); da > d {
			ref, d = alt, da
		}
	}
	_, at := render(ref)
	k := len(ref) - 1
	for i := range ref {
		if at[i] > d {
			k = i - 1
			break
		}
	}
	if k < 0 || len(ref) == 0 {
		return "empty"
	}
	t := ref[k]
	switch {
	case isNumTok(t):
		for _, run := range litRuns(ref) {
			if run[0] <= k && k <= run[1] {
				return "number/" + numPart(ref, run, k)
			}
		}
		return "number"
	case isChTok(t) || t == tQuote:
		// the string (opening quote .. closing quote) that token k belongs to
		start, end, in := -1, -1, false
		for i, x := range ref {
			if x != tQuote {
				continue
			}
			if !in {
				start, in = i, true
			} else {
				in = false
				if start <= k && k <= i {
					end = i
					break
				}
			}
		}
		where := "string"
		if end >= 0 && end+1 < len(ref) && ref[end+1] == tColon {
			where = "key"
			if ord := misplacedKey(ref, at, start, end, got); ord != "" {
				return "key-order/" + ord
			}
		}
		if isChTok(t) {
			return where + "-char:" + cpClass(tokCp(t))
		}
		return where + "-quote"
	}
	return "structure=" + strings.TrimSpace(fixedTok[t])
}

func c01Replay(r *c01Rec, vt *versionTable) hx.Result {
	in, _ := render(r.Text)
	want := renderBytes(r.Exp)
	var alt []byte
	if len(r.Alt) > 0 {
		alt = renderBytes(r.Alt)
	}
	matches := func(b []byte) bool { return bytes.Equal(b, want) || (alt != nil && bytes.Equal(b, alt)) }
	nt := fmt.Sprintf("%s|%s|%s|bad=%v|nz=%v", r.Fam, r.St, r.Cor, len(r.Bad) > 0, r.Nz)
	look := lookClass(r.Look)
	if look != "" {
		nt += "|string-looks-like=" + look
	}
	// results are kept ASCII only: the driver splits harness output with str.splitlines(), which also
	// splits on U+0085 / U+2028 and friends
	asc := func(x interface{}) interface{} {
		if s, ok := x.(string); ok {
			return strconv.QuoteToASCII(s)
		}
		return x
	}
	fail := func(key, what string, w, g interface{}) hx.Result {
		return hx.Result{OK: false, NT: nt, Key: strconv.QuoteToASCII(key)[1 : len(strconv.QuoteToASCII(key))-1], What: fmt.Sprintf("input %+q: %s", in, what), Want: asc(w), Got: asc(g)}
	}

	out, err := gmsl.CanonicalJSON(clone(in))

	reg := registeredVersions()
	if strings.Join(reg, ",") != strings.Join(vt.all, ",") {
		return fail("C01/enforced/version-table", fmt.Sprintf("registered room versions %v differ from the specification's table %v", reg, vt.all), vt.all, reg)
	}

	switch r.St {
	case "invalid":
		if err == nil {
			return fail("C01/invalid-accepted/"+r.Cor, fmt.Sprintf("not JSON (%s) but CanonicalJSON returned %+q without error", r.Cor, out), "error", string(out))
		}
		for _, v := range reg {
			impl := gmsl.MustGetRoomVersion(gmsl.RoomVersion(v))
			_ = impl.CheckCanonicalJSON(clone(in)) // must not panic; its verdict on non-JSON is not constrained
			if o, e := gmsl.EnforcedCanonicalJSON(clone(in), gmsl.RoomVersion(v)); e == nil {
				return fail("C01/invalid-accepted/enforced/"+r.Cor, fmt.Sprintf("not JSON (%s) but EnforcedCanonicalJSON(%s) returned %+q without error", r.Cor, v, o), "error", string(o))
			}
		}
		if step, what := sameBuffer(in, reg, false); step != "" {
			return fail("C01/same-buffer/"+step, what, nil, nil)
		}
		return hx.Result{OK: true, NT: nt}
	case "valid":
	default:
		// grammatical but outside the property's "valid" (unpaired surrogate escapes, duplicate keys): no panic, and an
		// accepted text must not come out with a supplementary code point it does not hold (an invalid pair of
		// escapes is not the character of the genuine pair)
		invented := func(name string, o []byte) *hx.Result {
			if c := inventedAstral(o, r.Ast); c != 0 {
				res := fail("C01/illformed/invented-supplementary-code-point", fmt.Sprintf("%s = %+q holds U+%04X, which the text does not hold (its escapes are not a surrogate pair): a different value canonicalises to the bytes of the text with the genuine pair", name, o, c), nil, string(o))
				return &res
			}
			return nil
		}
		if err == nil {
			if res := invented("CanonicalJSON", out); res != nil {
				return *res
			}
			if res := invented("CanonicalJSONAssumeValid", gmsl.CanonicalJSONAssumeValid(clone(in))); res != nil {
				return *res
			}
		}
		for _, v := range reg {
			_ = gmsl.MustGetRoomVersion(gmsl.RoomVersion(v)).CheckCanonicalJSON(clone(in))
			if o, e := gmsl.EnforcedCanonicalJSON(clone(in), gmsl.RoomVersion(v)); e == nil {
				if res := invented("EnforcedCanonicalJSON", o); res != nil {
					return *res
				}
			}
		}
		return hx.Result{OK: true, NT: nt}
	}

	// --- valid text -----------------------------------------------------------------------------
	if err != nil {
		return fail("C01/valid-rejected/"+r.Fam, "valid JSON refused by CanonicalJSON: "+err.Error(), string(want), "error")
	}
	saved := clone(out) // the returned bytes must still be the canonical form after later calls (see the end)
	if !matches(out) {
		return fail("C01/canon/"+classOf(r.Exp, r.Alt, out), fmt.Sprintf("CanonicalJSON = %+q, canonical form is %+q", out, want), string(want), string(out))
	}
	if av := gmsl.CanonicalJSONAssumeValid(clone(in)); !bytes.Equal(av, out) {
		return fail("C01/assumevalid/"+classOf(r.Exp, r.Alt, av), fmt.Sprintf("CanonicalJSONAssumeValid = %+q but CanonicalJSON = %+q", av, out), string(out), string(av))
	}
	// the exported halves, composed the documented way (canonicalise = compact then sort)
	if cs := gmsl.SortJSON(gmsl.CompactJSON(clone(in), nil), nil); !bytes.Equal(cs, out) {
		return fail("C01/compact-sort/"+classOf(r.Exp, r.Alt, cs), fmt.Sprintf("SortJSON(CompactJSON(input)) = %+q but CanonicalJSON = %+q", cs, out), string(out), string(cs))
	}
	out2, err2 := gmsl.CanonicalJSON(clone(out))
	if err2 != nil || !bytes.Equal(out2, out) {
		return fail("C01/idempotence/"+classOf(r.Exp, r.Alt, out2), fmt.Sprintf("second application gives %+q (err=%v), first gave %+q", out2, err2, out), string(out), string(out2))
	}

	// --- enforced variant, every registered room version ----------------------------------------
	type verdict struct{ key, what string }
	var first *verdict
	var failing []string
	note := func(v, key, what string) {
		if first == nil {
			first = &verdict{key, what}
		}
		if first.key == key {
			failing = append(failing, v)
		}
	}
	for _, v := range reg {
		impl := gmsl.MustGetRoomVersion(gmsl.RoomVersion(v))
		enf := vt.enforce[v]
		e1 := impl.CheckCanonicalJSON(clone(in))
		o2, e2 := gmsl.EnforcedCanonicalJSON(clone(in), gmsl.RoomVersion(v))
		switch {
		case enf && len(r.Bad) > 0:
			lit := litString(r.Bad[0])
			if e1 == nil {
				note(v, "C01/enforced/accepts/number/"+numFeatures(lit), fmt.Sprintf("CheckCanonicalJSON of an enforcing room version accepts the number %s (not an integer literal within +/-(2^53-1))", lit))
			}
			if e2 == nil {
				note(v, "C01/enforced/accepts/number/"+numFeatures(lit), fmt.Sprintf("EnforcedCanonicalJSON of an enforcing room version accepts the number %s (not an integer literal within +/-(2^53-1))", lit))
			}
		case enf && r.Nz:
			// the literal -0 under enforcement: not constrained by the property; an accepted text must still be canonicalised
			if e2 == nil && !matches(o2) {
				note(v, "C01/enforced/output/"+classOf(r.Exp, r.Alt, o2), fmt.Sprintf("EnforcedCanonicalJSON = %+q, canonical form is %+q", o2, want))
			}
		default:
			cls, why := "non-enforcing-version", ""
			if enf {
				cls = "admissible-numbers"
			}
			if look != "" {
				// kinds do not cross: the text holds a STRING (value or key) whose characters a number reader would take
				// for a number; it is no number, and no number of the text is inadmissible
				cls += "/string-looks-like-number:" + look
				why = fmt.Sprintf(" (every number of the text is an integer literal within range; what reads as %s is the content of a string %v)", look, r.Look)
			}
			if e1 != nil {
				note(v, "C01/enforced/rejects/"+cls, "CheckCanonicalJSON refuses a text it must accept: "+e1.Error()+why)
			}
			if e2 != nil {
				note(v, "C01/enforced/rejects/"+cls, "EnforcedCanonicalJSON refuses a text it must accept: "+e2.Error()+why)
			} else if !matches(o2) {
				note(v, "C01/enforced/output/"+classOf(r.Exp, r.Alt, o2), fmt.Sprintf("EnforcedCanonicalJSON = %+q, canonical form is %+q", o2, want))
			}
		}
	}
	// results must not share storage with later calls: canonicalise something else, then look at the first result again
	_, _ = gmsl.CanonicalJSON([]byte("{ \"zz\" : [1, 2.50, \"\\u0041\"], \"aa\" : {\"b\":-0} }"))
	_ = gmsl.CanonicalJSONAssumeValid([]byte("[\"\\ud83d\\ude00\", 1e-05 ]"))
	if !bytes.Equal(out, saved) {
		return fail("C01/result-overwritten", fmt.Sprintf("the slice returned by CanonicalJSON read %+q, after later calls it reads %+q", saved, out), string(saved), string(out))
	}
	if first != nil {
		res := fail(first.key, first.what+fmt.Sprintf(" [room versions %v]", dedupe(failing)), nil, nil)
		res.Extra = map[string]interface{}{"versions": dedupe(failing)}
		return res
	}
	// the same text canonicalised again from the same slice, and after the other entry points have worked on it
	if step, what := sameBuffer(in, reg, true); step != "" {
		return fail("C01/same-buffer/"+step, what, nil, nil)
	}
	return hx.Result{OK: true, NT: nt}
}

func dedupe(xs []string) []string {
	var out []string
	for i, x := range xs {
		if i == 0 || xs[i-1] != x {
			out = append(out, x)
		}
	}
	return out
}
