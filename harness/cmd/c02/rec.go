package main

// code -> spec.  Command `c02rec`: seeded random runs over a wider universe (3 entities x 3 key IDs x 4 keys,
// up to 6 members with random names, random JSON values of depth <= 3, random presentations).  Each run is
// logged as its action trace, one NDJSON line per action, with what the real library answered after that
// action: the triples for which VerifyJSON returned nil and ListKeyIDs per entity.  spec/JSONSign_trace.tla
// re-derives every line.  The recorder knows nothing about expected results.
//
// Besides signatures the runs leave things that are no signatures in the signatures member: ForeignEntry (a value
// of some form - padded base64, text, number, object, array, null / "" - under some name and key ID, possibly a key
// ID of another algorithm) and ForeignEntity (signatures[name] as a whole becomes a string / number / array / null).
// When SignJSON returns an error while such a thing that it cannot carry over is there, the step is logged as
// SignRefused (nothing was produced); every other error of SignJSON is a failure.
//
// Values are logged by identity: equal value trees get equal tokens ("x<n>", per run).

import (
	"encoding/json"
	"fmt"
	"math/rand"
	"os"
	"strconv"
	"strings"
	"sync"

	"verifharness/hx"
)

type recLine struct {
	Run  int                 `json:"run"`
	Step int                 `json:"step"`
	Op   string              `json:"op"`
	P    []string            `json:"p"`
	Obj  map[string]string   `json:"obj"`
	Pres string              `json:"pres"`
	Ver  [][]string          `json:"ver"`
	Kids map[string][]string `json:"kids"`
	Doc  string              `json:"doc,omitempty"`
	Look string              `json:"look,omitempty"` // dump mode: a member named almost like signatures / unsigned
	Lone bool                `json:"lone,omitempty"` // dump mode: a member holds a text with a lone surrogate escape put into it
	Form string              `json:"form,omitempty"` // dump mode: form of an entry of the signatures member that is no signature
}

var strRunes = []rune{'a', 'b', 'Z', '0', ' ', '"', '\\', '/', '\b', '\f', '\n', '\r', '\t', 0x00, 0x1f, 0x7f, 0x80, 0xe9, 0x301,
	0x2028, 0x2029, 0xffff, 0x1F600, 0x10FFFF, '<', '>', '&', '\'', '-', '.', '*', '#', '|', '@', 'u', '{', '}', '[', ',', ':'}

// member names at any depth, including characters that must be escaped in canonical JSON
var keyRunes = []rune{'a', 'b', 'Z', '0', ' ', '/', 0x7f, 0x80, 0xe9, 0x301, 0x2028, 0xffff, 0x1F600, '<', '&', '\'', '-', '.', '*', '#', '|', '@', 'u', '{', ':',
	'"', '\\', '\n', '\t', 0x00, 0x1f, 'A'}
var keyWords = []string{"signatures", "unsigned", "d", "content", "age", "hashes", "sha256"}

var intPool = []int64{0, 1, -1, 2, 10, 100, 255, 256, 1000000000, 9007199254740991, -9007199254740991, 9007199254740990, 1000000000000, 65536, -10}

func randString(rng *rand.Rand, alphabet []rune, max int) string {
	n := rng.Intn(max + 1)
	var b strings.Builder
	for i := 0; i < n; i++ {
		b.WriteRune(alphabet[rng.Intn(len(alphabet))])
	}
	return b.String()
}

func randKey(rng *rand.Rand) string {
	if rng.Intn(4) == 0 {
		return keyWords[rng.Intn(len(keyWords))]
	}
	return randString(rng, keyRunes, 4)
}

// number literals beyond plain integers below 2^53: integers at and above 2^53 (neighbours collapse in float64),
// fractions, exponent spellings.  Every numeric value has exactly one spelling here and none is the value of a
// literal randInt can otherwise produce, so "same token" and "same number" coincide in the logged traces.
var oddNumbers = []string{"9007199254740992", "9007199254740993", "9007199254740994", "-9007199254740992", "-9007199254740993",
	"1234567890123456789", "1234567890123456790", "18446744073709551615", "18446744073709551616", "123456789012345678901234567890",
	"1e-05", "1e05", "2.5E-01", "2.5E01", "1.5", "-1.5", "-0.5", "0.5", "0.1", "0.10000000000000001", "3E+2", "3E-2", "1E-7", "1E7", "1e30", "1e31"}

func randInt(rng *rand.Rand) json.Number {
	if rng.Intn(4) == 0 {
		return json.Number(oddNumbers[rng.Intn(len(oddNumbers))])
	}
	if rng.Intn(2) == 0 {
		return json.Number(strconv.FormatInt(intPool[rng.Intn(len(intPool))], 10))
	}
	v := rng.Int63n(1 << 53)
	if rng.Intn(2) == 0 {
		v = -v
	}
	return json.Number(strconv.FormatInt(v, 10))
}

func randObject(rng *rand.Rand, depth int) map[string]interface{} {
	m := map[string]interface{}{}
	for i, n := 0, rng.Intn(4); i < n; i++ {
		m[randKey(rng)] = randValue(rng, depth+1)
	}
	return m
}

func randValue(rng *rand.Rand, depth int) interface{} {
	k := rng.Intn(10)
	if depth >= 3 && k >= 6 {
		k = rng.Intn(6)
	}
	switch k {
	case 0, 1:
		return randString(rng, strRunes, 6)
	case 2, 3:
		return randInt(rng)
	case 4:
		return rng.Intn(2) == 0
	case 5:
		return nil
	case 6, 7:
		a := []interface{}{}
		for i, n := 0, rng.Intn(4); i < n; i++ {
			a = append(a, randValue(rng, depth+1))
		}
		return a
	default:
		return randObject(rng, depth)
	}
}

// editInside returns a copy of the object o with one change strictly inside it (at any depth).
func editInside(rng *rand.Rand, o map[string]interface{}) map[string]interface{} {
	before := string(canonical(o))
	for try := 0; try < 40; try++ {
		c := clone(o).(map[string]interface{})
		var containers []interface{}
		var walk func(v interface{})
		walk = func(v interface{}) {
			switch t := v.(type) {
			case map[string]interface{}:
				containers = append(containers, t)
				for _, k := range sortedKeys(t) {
					walk(t[k])
				}
			case []interface{}:
				// arrays are edited through their parent (slices cannot be changed in place)
			}
		}
		walk(c)
		m := containers[rng.Intn(len(containers))].(map[string]interface{})
		keys := sortedKeys(m)
		switch op := rng.Intn(4); {
		case op == 0 || len(keys) == 0:
			m[randKey(rng)] = randValue(rng, 2)
		case op == 1:
			delete(m, keys[rng.Intn(len(keys))])
		default:
			k := keys[rng.Intn(len(keys))]
			if a, ok := m[k].([]interface{}); ok && len(a) > 0 && rng.Intn(2) == 0 {
				b := append([]interface{}{}, a...)
				switch rng.Intn(3) {
				case 0:
					b = append(b, randValue(rng, 3))
				case 1:
					b = b[1:]
				default:
					i, j := rng.Intn(len(b)), rng.Intn(len(b))
					b[i], b[j] = b[j], b[i]
				}
				m[k] = b
			} else {
				m[k] = randValue(rng, 2)
			}
		}
		if string(canonical(c)) != before {
			return c
		}
	}
	c := clone(o).(map[string]interface{})
	c["verif-edit-"+strconv.Itoa(rng.Int())] = json.Number("1")
	return c
}

type recRun struct {
	run    int
	rng    *rand.Rand
	w      *world
	name   map[string]string // member label -> concrete name
	d      *document
	ids    map[string]string        // canonical text -> value token
	past   map[string][]interface{} // member label / "unsigned" -> earlier values (to restore)
	dump   bool
	labels []string // member labels; n* are nested (object valued)
}

func (r *recRun) id(v interface{}) string {
	c := string(canonical(v))
	if t, ok := r.ids[c]; ok {
		return t
	}
	t := "x" + strconv.Itoa(len(r.ids)+1)
	r.ids[c] = t
	return t
}

func (r *recRun) abstractObj() map[string]string {
	o := map[string]string{}
	for _, l := range r.labels {
		if v, ok := r.d.top[r.name[l]]; ok {
			o[l] = r.id(v)
		} else {
			o[l] = "absent"
		}
	}
	if v, ok := r.d.top["unsigned"]; ok {
		o["unsigned"] = r.id(v)
	} else {
		o["unsigned"] = "absent"
	}
	return o
}

func (r *recRun) fresh(l string) interface{} {
	if strings.HasPrefix(l, "n") {
		return randObject(r.rng, 1)
	}
	return randValue(r.rng, 0)
}

// a new value for member l (label or "unsigned") different from cur; sometimes an earlier one (restoring it)
func (r *recRun) another(l string, cur interface{}, has bool) interface{} {
	for {
		var v interface{}
		if p := r.past[l]; len(p) > 0 && r.rng.Intn(3) == 0 {
			v = clone(p[r.rng.Intn(len(p))])
		} else if l == "unsigned" {
			v = mustParse(unsignedPairs[r.rng.Intn(len(unsignedPairs))][r.rng.Intn(2)])
			if r.rng.Intn(2) == 0 {
				v = randObject(r.rng, 1)
			}
		} else {
			v = r.fresh(l)
		}
		if !has || string(canonical(v)) != string(canonical(cur)) {
			return v
		}
	}
}

func (r *recRun) remember(l string) {
	key := l
	if l != "unsigned" {
		key = r.name[l]
	}
	if v, ok := r.d.top[key]; ok {
		r.past[l] = append(r.past[l], clone(v))
	}
}

// ForeignForms of JSONSign_trace.cfg
var entryForms = []string{"padded", "text", "scalar", "object", "list", "blank"}

// EntityForms of JSONSign_trace.cfg
// Only the form every decoder reads as "no signatures of that entity" (null / "") is exercised: whether a string,
// number or array left under ANOTHER entity's name may make the signer's signature unverifiable is not something the
// property states (it speaks of further entities adding their SIGNATURES); see DESIGN.md 11.2.
var entityForms = []string{"blank"}

var presTags = []string{"canon", "ws", "order", "esc", "ws+order", "ws+esc", "order+esc", "all"}

// one random action; returns (op, params) or a failure of a real-code check made while acting
func (r *recRun) act() (string, []string, *stepFailure) {
	rng := r.rng
	var present, absent []string
	for _, l := range r.labels {
		if _, ok := r.d.top[r.name[l]]; ok {
			present = append(present, l)
		} else {
			absent = append(absent, l)
		}
	}
	raw := hasRaw(r.d.top)
	for {
		switch x := rng.Intn(100); {
		case x < 35 && raw:
			// what the canonical form of an ill-formed text is, is not the property's business: such texts only
			// appear here as tampering of something signed, never as something that gets signed
			continue
		case x < 25:
			e, k, p := "E"+strconv.Itoa(1+rng.Intn(3)), "K"+strconv.Itoa(1+rng.Intn(3)), "P"+strconv.Itoa(1+rng.Intn(4))
			if f := r.d.libSign(r.w.ent[e], r.w.kid[k], r.w.priv[p]); f != nil {
				if r.d.unreadable() && strings.HasPrefix(f.class, "sign/error/") {
					// SignJSON declined a document that holds an entry it cannot carry over: nothing was produced
					return "SignRefused", []string{e, k, p}, nil
				}
				return "Sign", []string{e, k, p}, f
			}
			return "Sign", []string{e, k, p}, nil
		case x < 35:
			e, k, p := "E"+strconv.Itoa(1+rng.Intn(3)), "K"+strconv.Itoa(1+rng.Intn(3)), "P"+strconv.Itoa(1+rng.Intn(4))
			if rng.Intn(4) == 0 {
				p = "junk" // an entry that is no signature under any key: priv["junk"] is nil
			}
			r.d.foreignSign(r.w.ent[e], r.w.kid[k], r.w.priv[p], rng.Intn(5) == 0, rng)
			return "ForeignSign", []string{e, k, p}, nil
		case x < 47:
			if len(present) == 0 {
				continue
			}
			l := present[rng.Intn(len(present))]
			r.remember(l)
			v := r.another(l, r.d.top[r.name[l]], true)
			if t, ok := tamperSurrogate(r.d.top[r.name[l]], rng); ok && rng.Intn(2) == 0 {
				v = t // the same text with one character outside the BMP in an ill-formed escape spelling
			} else if t, ok := tamperLone(r.d.top[r.name[l]], rng); ok && rng.Intn(6) == 0 {
				v = t // the same text with a lone surrogate escape put into one of its strings
			}
			r.d.top[r.name[l]] = v
			r.d.rerender(rng)
			return "Mutate", []string{l, r.id(v), ""}, nil
		case x < 55:
			if len(absent) == 0 {
				continue
			}
			l := absent[rng.Intn(len(absent))]
			v := r.another(l, nil, false)
			r.d.top[r.name[l]] = v
			r.d.rerender(rng)
			return "Insert", []string{l, r.id(v), ""}, nil
		case x < 63:
			if len(present) == 0 {
				continue
			}
			l := present[rng.Intn(len(present))]
			r.remember(l)
			delete(r.d.top, r.name[l])
			r.d.rerender(rng)
			return "Delete", []string{l, "", ""}, nil
		case x < 73:
			var nested []string
			for _, l := range present {
				if _, ok := r.d.top[r.name[l]].(map[string]interface{}); ok {
					nested = append(nested, l)
				}
			}
			if len(nested) == 0 {
				continue
			}
			l := nested[rng.Intn(len(nested))]
			r.remember(l)
			var v interface{} = editInside(rng, r.d.top[r.name[l]].(map[string]interface{}))
			if t, ok := tamperSurrogate(r.d.top[r.name[l]], rng); ok && rng.Intn(2) == 0 {
				v = t // a nested string or member name respelled ill-formed
			} else if t, ok := tamperLone(r.d.top[r.name[l]], rng); ok && rng.Intn(6) == 0 {
				v = t
			}
			r.d.top[r.name[l]] = v
			r.d.rerender(rng)
			return "NestedEdit", []string{l, r.id(v), ""}, nil
		case x < 85:
			cur, has := r.d.top["unsigned"]
			r.remember("unsigned")
			if has && rng.Intn(4) == 0 {
				delete(r.d.top, "unsigned")
				r.d.rerender(rng)
				return "EditUnsigned", []string{"absent", "", ""}, nil
			}
			v := r.another("unsigned", cur, has)
			r.d.top["unsigned"] = v
			r.d.rerender(rng)
			return "EditUnsigned", []string{r.id(v), "", ""}, nil
		case x < 90:
			// somebody leaves something that is no signature in some place of the signatures member
			e, k := "E"+strconv.Itoa(1+rng.Intn(3)), []string{"K1", "K2", "K3", "KA"}[rng.Intn(4)]
			f := entryForms[rng.Intn(len(entryForms))]
			r.d.foreignEntry(r.w.ent[e], r.w.kid[k], f, rng)
			return "ForeignEntry", []string{e, k, f}, nil
		case x < 92:
			// ... or in the place of all the signatures of an entity
			e, f := "E"+strconv.Itoa(1+rng.Intn(3)), entityForms[rng.Intn(len(entityForms))]
			r.d.foreignEntity(r.w.ent[e], f, rng)
			return "ForeignEntity", []string{e, "*", f}, nil
		default:
			r.d.pres = presTags[rng.Intn(len(presTags))]
			r.d.rerender(rng)
			return "Reserialise", []string{r.d.pres, "", ""}, nil
		}
	}
}

func recordRun(seed int64, run int, dump bool, emit func(*recLine), fail func(hx.Result)) {
	rng := rand.New(rand.NewSource(seedOf(seed, []byte("c02rec-run-"+strconv.Itoa(run)))))
	w := newWorld(rng, 3, 3, 4)
	w.addAlgKid(rng)
	r := &recRun{run: run, rng: rng, w: w, name: map[string]string{}, ids: map[string]string{},
		past: map[string][]interface{}{}, dump: dump, labels: []string{"m1", "m2", "m3", "m4", "n1", "n2"}}
	for i, n := range memberNames(rng, len(r.labels)) {
		r.name[r.labels[i]] = n
	}
	r.d = &document{top: map[string]interface{}{}, pres: presTags[rng.Intn(len(presTags))]}
	for _, l := range r.labels {
		if rng.Intn(10) < 6 {
			r.d.top[r.name[l]] = r.fresh(l)
		}
	}
	if rng.Intn(2) == 0 {
		r.d.top["unsigned"] = r.another("unsigned", nil, false)
	}
	switch x := rng.Intn(100); {
	case x < 8:
		r.d.top["signatures"] = map[string]interface{}{}
	case x < 11:
		r.d.top["signatures"] = nil
	case x < 14:
		r.d.top["signatures"] = map[string]interface{}{r.w.ent["E1"]: nil}
	case x < 20:
		r.d.top["signatures"] = map[string]interface{}{r.w.ent["E"+strconv.Itoa(1+rng.Intn(3))]: map[string]interface{}{}}
	}
	r.d.rerender(rng)

	line := func(step int, op string, p []string) bool {
		r.d.loneInvolved = r.d.loneInvolved || hasLone(r.d.top)
		obs := r.w.observe(r.d.bytes, r.d.whole())
		if obs.Panic != "" {
			fail(hx.Result{OK: false, Key: r.d.key("verify/panic/after=" + op), What: obs.Panic + " on " + string(r.d.bytes),
				Extra: map[string]interface{}{"run": run, "step": step}})
			return false
		}
		if obs.Odd != "" {
			fail(hx.Result{OK: false, Key: r.d.key(obs.OddClass + "/after=" + op), What: obs.Odd + " on " + string(r.d.bytes),
				Extra: map[string]interface{}{"run": run, "step": step}})
			return false
		}
		l := &recLine{Run: run, Step: step, Op: op, P: p, Obj: map[string]string{}, Pres: r.d.pres, Ver: obs.Ver, Kids: obs.Kids}
		if op == "Init" {
			l.Obj = r.abstractObj()
		}
		if dump {
			l.Doc = string(r.d.bytes)
			l.Look = r.d.lookalike()
			l.Lone = r.d.loneInvolved || hasLone(r.d.top)
			l.Form = r.d.foreignForm()
		}
		emit(l)
		return true
	}
	if !line(0, "Init", []string{"", "", ""}) {
		return
	}
	steps := 3 + rng.Intn(7)
	for s := 1; s <= steps; s++ {
		op, p, f := r.act()
		if f != nil {
			fail(hx.Result{OK: false, Key: r.d.key(f.class), What: f.what,
				Extra: map[string]interface{}{"run": run, "step": s, "op": op, "p": p}})
			return
		}
		if !line(s, op, p) {
			return
		}
	}
}

func init() {
	hx.Register("c02rec", "record random signing / editing runs as an NDJSON trace for JSONSign_trace.tla", func(a *hx.Args) error {
		tw, err := hx.NewTraceWriter(a.Out)
		if err != nil {
			return err
		}
		only, dump := -1, false
		for _, m := range strings.Split(a.Mode, ",") {
			if strings.HasPrefix(m, "run=") {
				if only, err = strconv.Atoi(m[4:]); err != nil {
					return err
				}
			}
			if m == "dump" {
				dump = true
			}
		}
		enc := json.NewEncoder(os.Stdout)
		fail := func(r hx.Result) { _ = enc.Encode(&r) }
		emit := func(l *recLine) { tw.Emit(l) }
		if only >= 0 {
			recordRun(a.Seed, only, dump, emit, fail)
		} else {
			// runs are independent (each has its own seed): record them in parallel, write them in order
			type runOut struct {
				lines []*recLine
				fails []hx.Result
			}
			outs := make([]runOut, a.N)
			par := a.Par
			if par < 1 {
				par = 1
			}
			var wg sync.WaitGroup
			next := make(chan int)
			for w := 0; w < par; w++ {
				wg.Add(1)
				go func() {
					defer wg.Done()
					for run := range next {
						o := &outs[run]
						recordRun(a.Seed, run, false, func(l *recLine) { o.lines = append(o.lines, l) },
							func(r hx.Result) { o.fails = append(o.fails, r) })
					}
				}()
			}
			for run := 0; run < a.N; run++ {
				next <- run
			}
			close(next)
			wg.Wait()
			for i := range outs {
				for _, l := range outs[i].lines {
					emit(l)
				}
				for _, r := range outs[i].fails {
					fail(r)
				}
			}
		}
		if tw.N == 0 && only < 0 {
			return fmt.Errorf("c02rec recorded nothing")
		}
		return tw.Close()
	})
}
