package main

// spec -> code.  Command `c02`: every record printed by JSONSign_gen.tla is one behaviour of the
// specification (start document + action history) with the verification matrix and key-ID lists the
// specification derives for its final state.  The behaviour is re-enacted on real bytes: Sign is the real
// SignJSON with a real ed25519 key, every other action is a JSON edit re-marshalled in the presentation the
// document has at that point (stale signatures are therefore real signatures of the old payload), and the
// final document is put through VerifyJSON for the whole universe and through ListKeyIDs.
// Records of FormSpec also have ForeignEntry / ForeignEntity actions (entries that are no signatures, by form:
// world.go foreignEntry / foreignEntity) and a key ID KA of another algorithm in the universe.

import (
	"encoding/json"
	"fmt"
	"math/rand"
	"reflect"
	"sort"
	"strings"

	"verifharness/hx"
)

type c02Rec struct {
	Start struct {
		Obj  map[string]string `json:"obj"`
		Pres string            `json:"pres"`
		Sigs string            `json:"sigs"`
	} `json:"start"`
	Hist [][]string          `json:"hist"`
	Ver  [][]string          `json:"ver"`
	Kids map[string][]string `json:"kids"`
}

// concretisation of the value tokens of one record
type tokens struct {
	member map[string]string      // a, b, c -> concrete member name
	plain  map[string]interface{} // "a/v1" ... -> value
	nested map[string]interface{} // "c/d0" ... -> value of the nested member
	uns    map[string]interface{} // u1, u2
}

// values with a character outside the BMP (in a string or in a member name); their tamper partner is the same
// text with that character in an ill-formed escape spelling
var astralValues = []string{`"ok 😀"`, `"😀"`, `"\ud800\udc00 first"`, `"last \udbff\udfff"`, `{"body":"ok 😀","n":1}`, `{"k😀":1,"a":[]}`,
	`["x","💩"]`, `{"😀":{"😀":"😀"}}`, `"a😀b😀"`}

func pickPair(rng *rand.Rand) (interface{}, interface{}) {
	if rng.Intn(6) == 0 {
		// a genuine character and an ill-formed spelling sharing its low bits: different values, either may be
		// the one that is signed
		var a interface{} = mustParse(astralValues[rng.Intn(len(astralValues))])
		t, ok := tamperSurrogate(a, rng)
		if !ok {
			panic("harness: astralValues entry without a character outside the BMP")
		}
		var b interface{} = t
		if rng.Intn(2) == 0 {
			a, b = b, a
		}
		return a, b
	}
	if rng.Intn(8) == 0 {
		// a value and the same text with a lone surrogate escape put into one of its strings
		for {
			var a interface{} = mustParse(valuePool[rng.Intn(len(valuePool))])
			if t, ok := tamperLone(a, rng); ok {
				var b interface{} = t
				if rng.Intn(2) == 0 {
					a, b = b, a
				}
				return a, b
			}
		}
	}
	if rng.Intn(2) == 0 {
		p := valuePairs[rng.Intn(len(valuePairs))]
		a, b := mustParse(p[0]), mustParse(p[1])
		if rng.Intn(2) == 0 {
			a, b = b, a
		}
		return a, b
	}
	for {
		a, b := mustParse(valuePool[rng.Intn(len(valuePool))]), mustParse(valuePool[rng.Intn(len(valuePool))])
		if !sameValue(a, b) {
			return a, b
		}
	}
}

func newTokens(rng *rand.Rand, members []string) *tokens {
	t := &tokens{member: map[string]string{}, plain: map[string]interface{}{}, nested: map[string]interface{}{}, uns: map[string]interface{}{}}
	names := memberNames(rng, len(members))
	if rng.Intn(3) == 0 { // plain a, b, c every third time: easier to read in reports
		names = append([]string(nil), members...)
	}
	for i, m := range members {
		t.member[m] = names[i]
		if m == "c" {
			sh := nestedShapes[rng.Intn(len(nestedShapes))]
			v1, v2 := pickPair(rng)
			t.nested["c/d0"] = mustParse(sh.without)
			for tok, v := range map[string]interface{}{"c/d1": v1, "c/d2": v2} {
				text := fmt.Sprintf(sh.with, canonical(v))
				if r, raw := v.(rawText); raw {
					mustParse(text)
					t.nested[tok] = rawText{text: text, lone: r.lone} // the whole nested member is carried as written
				} else {
					t.nested[tok] = mustParse(text)
				}
			}
			continue
		}
		v1, v2 := pickPair(rng)
		t.plain[m+"/v1"], t.plain[m+"/v2"] = v1, v2
	}
	u := unsignedPairs[rng.Intn(len(unsignedPairs))]
	u1, u2 := mustParse(u[0]), mustParse(u[1])
	if rng.Intn(2) == 0 {
		u1, u2 = u2, u1
	}
	t.uns["u1"], t.uns["u2"] = u1, u2
	return t
}

func (t *tokens) value(m, tok string) interface{} {
	if v, ok := t.plain[m+"/"+tok]; ok {
		return clone(v)
	}
	if v, ok := t.nested[m+"/"+tok]; ok {
		return clone(v)
	}
	panic("harness: no value for token " + m + "/" + tok)
}

func init() {
	hx.Register("c02", "replay JSONSign_gen.tla behaviours against SignJSON / VerifyJSON / ListKeyIDs", func(a *hx.Args) error {
		return hx.ReplayAll(a, func(i int, raw json.RawMessage) hx.Result { return c02Replay(a.Seed, raw) })
	})
}

func opLetters(h [][]string) string {
	var b strings.Builder
	for _, a := range h {
		switch a[0] {
		case "Sign":
			b.WriteByte('S')
		case "ForeignSign":
			b.WriteByte('F')
		case "ForeignEntry":
			b.WriteByte('E')
		case "ForeignEntity":
			b.WriteByte('W')
		case "Mutate":
			b.WriteByte('M')
		case "Insert":
			b.WriteByte('I')
		case "Delete":
			b.WriteByte('D')
		case "NestedEdit":
			b.WriteByte('N')
		case "EditUnsigned":
			b.WriteByte('U')
		case "Reserialise":
			b.WriteByte('R')
		default:
			b.WriteByte('?')
		}
	}
	return b.String()
}

func c02Replay(seed int64, raw json.RawMessage) hx.Result {
	var r c02Rec
	if err := json.Unmarshal(raw, &r); err != nil {
		panic(err)
	}
	// everything concrete is a function of (seed, record): a record replays identically alone in a fresh process
	rng := rand.New(rand.NewSource(seedOf(seed, raw)))
	w := newWorld(rng, 2, 2, 3)
	tk := newTokens(rng, []string{"a", "b", "c"})
	formsFamily := false
	for _, a := range r.Hist {
		formsFamily = formsFamily || a[0] == "ForeignEntry" || a[0] == "ForeignEntity"
	}
	if formsFamily {
		// FormSpec: the universe has a key ID of another algorithm (drawn here so that the concrete values of the
		// records of the other family stay what they were)
		w.addAlgKid(rng)
	}

	d := &document{top: map[string]interface{}{}, pres: r.Start.Pres}
	for _, pool := range []map[string]interface{}{tk.plain, tk.nested} {
		for _, v := range pool {
			if x, ok := v.(rawText); ok && x.lone {
				d.loneInvolved = true
			}
		}
	}
	for m, tok := range r.Start.Obj {
		switch {
		case tok == "absent":
		case m == "unsigned":
			d.top["unsigned"] = clone(tk.uns[tok])
		default:
			d.top[tk.member[m]] = tk.value(m, tok)
		}
	}
	switch r.Start.Sigs {
	case "absent":
	case "empty":
		d.top["signatures"] = map[string]interface{}{}
	case "null":
		d.top["signatures"] = nil
	case "entnull":
		d.top["signatures"] = map[string]interface{}{w.ent["E1"]: nil}
	case "entempty":
		d.top["signatures"] = map[string]interface{}{w.ent["E1"]: map[string]interface{}{}}
	default:
		panic("unknown start.sigs " + r.Start.Sigs)
	}
	d.rerender(rng)

	last := "none"
	signedHow := map[string]string{} // "E|K" -> Sign / ForeignSign of the latest signature in that slot
	signedKey := map[string]string{}
	undefined := map[string]bool{} // "E|K" -> signed by ForeignSign while a member was an ill-formed text
	for n, a := range r.Hist {
		last = a[0]
		switch a[0] {
		case "Sign":
			if f := d.libSign(w.ent[a[1]], w.kid[a[2]], w.priv[a[3]]); f != nil {
				return hx.Result{OK: false, Key: d.key(f.class), What: fmt.Sprintf("action %d of %s: %s", n+1, opLetters(r.Hist), f.what),
					Extra: map[string]interface{}{"entities": w.ent, "keyids": w.kid}}
			}
			signedHow[a[1]+"|"+a[2]], signedKey[a[1]+"|"+a[2]] = "Sign", a[3]
			undefined[a[1]+"|"+a[2]] = false
		case "ForeignSign":
			// another implementation's canonical form of an ill-formed text is anybody's guess: what it signs
			// then is not compared (the slot is left out of the matrix until it is signed again)
			undefined[a[1]+"|"+a[2]] = hasRaw(d.top) && a[3] != "junk"
			d.foreignSign(w.ent[a[1]], w.kid[a[2]], w.priv[a[3]], rng.Intn(4) == 0, rng)
			signedHow[a[1]+"|"+a[2]], signedKey[a[1]+"|"+a[2]] = "ForeignSign", a[3]
		case "ForeignEntry":
			// an entry that is no signature, in the form a[3]
			d.foreignEntry(w.ent[a[1]], w.kid[a[2]], a[3], rng)
			signedHow[a[1]+"|"+a[2]], signedKey[a[1]+"|"+a[2]] = "ForeignEntry", "junk"
			undefined[a[1]+"|"+a[2]] = false
		case "ForeignEntity":
			// signatures[entity] as a whole becomes something that is no object, in the form a[3]
			d.foreignEntity(w.ent[a[1]], a[3], rng)
			for k := range w.kid {
				signedHow[a[1]+"|"+k], signedKey[a[1]+"|"+k] = "ForeignEntity", "junk"
				undefined[a[1]+"|"+k] = false
			}
		case "Mutate", "Insert", "NestedEdit":
			d.top[tk.member[a[1]]] = tk.value(a[1], a[2])
			d.rerender(rng)
		case "Delete":
			delete(d.top, tk.member[a[1]])
			d.rerender(rng)
		case "EditUnsigned":
			if a[1] == "absent" {
				delete(d.top, "unsigned")
			} else {
				d.top["unsigned"] = clone(tk.uns[a[1]])
			}
			d.rerender(rng)
		case "Reserialise":
			d.pres = a[1]
			d.rerender(rng)
		default:
			panic("unknown action " + a[0])
		}
	}

	obs := w.observe(d.bytes, d.whole())
	ctxInfo := map[string]interface{}{"document": string(d.bytes), "entities": w.ent, "keyids": w.kid}
	if obs.Panic != "" {
		return hx.Result{OK: false, Key: d.key("verify/panic/after=" + last), What: obs.Panic + " on " + string(d.bytes), Extra: ctxInfo}
	}
	if obs.Odd != "" {
		return hx.Result{OK: false, Key: d.key(obs.OddClass + "/after=" + last), What: obs.Odd + " on " + string(d.bytes), Extra: ctxInfo}
	}
	want := map[string]bool{}
	for _, t := range r.Ver {
		want[strings.Join(t, "|")] = true
	}
	got := map[string]bool{}
	for _, t := range obs.Ver {
		got[strings.Join(t, "|")] = true
	}
	var wantL, gotL []string
	for k := range want {
		wantL = append(wantL, k)
	}
	for k := range got {
		gotL = append(gotL, k)
	}
	sort.Strings(wantL)
	sort.Strings(gotL)
	for _, k := range wantL {
		if !got[k] {
			slot := k[:strings.LastIndex(k, "|")]
			if undefined[slot] {
				continue
			}
			return hx.Result{OK: false,
				Key:  d.key(fmt.Sprintf("incomplete/after=%s/pres=%s/signed-by=%s", last, d.pres, signedHow[slot])),
				What: fmt.Sprintf("%s must verify after %s but VerifyJSON says %q", k, opLetters(r.Hist), obs.Errs[k]),
				Want: wantL, Got: gotL, Extra: ctxInfo}
		}
	}
	for _, k := range gotL {
		if !want[k] {
			slot := k[:strings.LastIndex(k, "|")]
			if undefined[slot] {
				continue
			}
			why := "tampered"
			if _, ok := signedKey[slot]; !ok {
				why = "never-signed"
			} else if signedKey[slot] != k[strings.LastIndex(k, "|")+1:] {
				why = "other-key"
			}
			return hx.Result{OK: false,
				Key:  d.key(fmt.Sprintf("unsound/%s/after=%s/pres=%s", why, last, d.pres)),
				What: fmt.Sprintf("%s verifies after %s but must not (%s)", k, opLetters(r.Hist), why),
				Want: wantL, Got: gotL, Extra: ctxInfo}
		}
	}
	for _, e := range sortedKeys(w.ent) {
		wk := append([]string{}, r.Kids[e]...)
		sort.Strings(wk)
		if !reflect.DeepEqual(wk, obs.Kids[e]) {
			return hx.Result{OK: false, Key: d.key("keyids/after=" + last),
				What: fmt.Sprintf("ListKeyIDs(%s) after %s: want %v got %v", e, opLetters(r.Hist), wk, obs.Kids[e]),
				Want: r.Kids, Got: obs.Kids, Extra: ctxInfo}
		}
	}
	nt := fmt.Sprintf("%s|%s|%s|%d", r.Start.Sigs, opLetters(r.Hist), d.pres, len(gotL))
	if formsFamily {
		// which forms were left where (relative to the first signer's place), in order
		for _, a := range r.Hist {
			if a[0] == "ForeignEntry" || a[0] == "ForeignEntity" {
				nt += "|" + a[1] + a[2] + "=" + a[3]
			}
		}
	}
	return hx.Result{OK: true, NT: nt}
}
