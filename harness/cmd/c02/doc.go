package main

// JSON documents as the harness sees them: a value tree (encoding/json with UseNumber) plus a writer that
// realises the presentation tags of JSONSign.tla.  Nothing here comes from gomatrixserverlib: the canonical
// writer (sorted keys, no whitespace, shortest escapes) is written from the Matrix specification so that a
// "foreign" signer is really independent of the library.

import (
	"bytes"
	"encoding/json"
	"fmt"
	"io"
	"math/rand"
	"sort"
	"strings"
	"unicode/utf16"
	"unicode/utf8"
)

// parse decodes one JSON text into map[string]interface{} / []interface{} / string / json.Number / bool / nil.
func parse(b []byte) (interface{}, error) {
	d := json.NewDecoder(bytes.NewReader(b))
	d.UseNumber()
	var v interface{}
	if err := d.Decode(&v); err != nil {
		return nil, err
	}
	if _, err := d.Token(); err != io.EOF {
		return nil, fmt.Errorf("trailing data after JSON value")
	}
	return v, nil
}

func mustParse(s string) interface{} {
	v, err := parse([]byte(s))
	if err != nil {
		panic(fmt.Sprintf("harness value pool: %q: %v", s, err))
	}
	return v
}

// rawText is a value given as its JSON text, written out verbatim in every presentation.  It is how texts that
// no writer would produce from a value enter a document: escape pairs that are not a high + low surrogate pair
// and lone surrogate escapes, which every JSON decoder reads as replacement characters.  Its value, where one
// is needed for a comparison, is what encoding/json decodes.
type rawText struct {
	text string
	lone bool // made by inserting a lone surrogate escape into a string (tamperLone), not by respelling a character
}

// clone copies a value tree.
func clone(v interface{}) interface{} {
	switch t := v.(type) {
	case map[string]interface{}:
		m := make(map[string]interface{}, len(t))
		for k, x := range t {
			m[k] = clone(x)
		}
		return m
	case []interface{}:
		a := make([]interface{}, len(t))
		for i, x := range t {
			a[i] = clone(x)
		}
		return a
	default:
		return v
	}
}

// style is a concrete presentation.  The zero value is the canonical form.
type style struct {
	ws    bool // insignificant whitespace between tokens
	order bool // member order other than sorted
	esc   bool // other spellings of string characters (\uXXXX in either hex case, surrogate pairs, \/)
	rng   *rand.Rand
}

// styleOf maps a presentation tag of the specification ("canon", "ws", "order", "esc", "all", or a
// "+"-joined combination as logged by the recorder) to a concrete style.
func styleOf(tag string, rng *rand.Rand) *style {
	s := &style{rng: rng}
	for _, t := range strings.Split(tag, "+") {
		switch t {
		case "canon", "":
		case "ws":
			s.ws = true
		case "order":
			s.order = true
		case "esc":
			s.esc = true
		case "all":
			s.ws, s.order, s.esc = true, true, true
		default:
			panic("unknown presentation tag " + tag)
		}
	}
	return s
}

var wsTokens = []string{"", " ", "  ", "\n", "\t", "\r\n", " \n\t ", "\n    "}

func (s *style) gap(b *bytes.Buffer) {
	if s.ws {
		b.WriteString(wsTokens[s.rng.Intn(len(wsTokens))])
	}
}

func render(v interface{}, s *style) []byte {
	var b bytes.Buffer
	s.gap(&b)
	s.value(&b, v)
	s.gap(&b)
	return b.Bytes()
}

func canonical(v interface{}) []byte { return render(v, &style{}) }

func (s *style) value(b *bytes.Buffer, v interface{}) {
	switch t := v.(type) {
	case rawText:
		b.WriteString(t.text)
	case nil:
		b.WriteString("null")
	case bool:
		if t {
			b.WriteString("true")
		} else {
			b.WriteString("false")
		}
	case json.Number:
		b.WriteString(string(t))
	case string:
		s.str(b, t)
	case []interface{}:
		b.WriteByte('[')
		for i, x := range t {
			if i > 0 {
				b.WriteByte(',')
			}
			s.gap(b)
			s.value(b, x)
			s.gap(b)
		}
		if len(t) == 0 {
			s.gap(b)
		}
		b.WriteByte(']')
	case map[string]interface{}:
		keys := make([]string, 0, len(t))
		for k := range t {
			keys = append(keys, k)
		}
		sort.Strings(keys) // byte order of UTF-8 = code point order
		if s.order && len(keys) > 1 {
			if s.rng.Intn(2) == 0 {
				for i, j := 0, len(keys)-1; i < j; i, j = i+1, j-1 {
					keys[i], keys[j] = keys[j], keys[i]
				}
			} else {
				s.rng.Shuffle(len(keys), func(i, j int) { keys[i], keys[j] = keys[j], keys[i] })
				if sort.StringsAreSorted(keys) {
					keys[0], keys[len(keys)-1] = keys[len(keys)-1], keys[0]
				}
			}
		}
		b.WriteByte('{')
		for i, k := range keys {
			if i > 0 {
				b.WriteByte(',')
			}
			s.gap(b)
			s.str(b, k)
			s.gap(b)
			b.WriteByte(':')
			s.gap(b)
			s.value(b, t[k])
			s.gap(b)
		}
		if len(keys) == 0 {
			s.gap(b)
		}
		b.WriteByte('}')
	default:
		panic(fmt.Sprintf("render: unexpected %T", v))
	}
}

var shortEsc = map[rune]string{'\b': `\b`, '\f': `\f`, '\n': `\n`, '\r': `\r`, '\t': `\t`, '"': `\"`, '\\': `\\`}

func (s *style) hex4(b *bytes.Buffer, u uint16) {
	f := `\u%04x`
	if s.rng.Intn(2) == 0 {
		f = `\u%04X`
	}
	fmt.Fprintf(b, f, u)
}

func (s *style) str(b *bytes.Buffer, x string) {
	b.WriteByte('"')
	first := true
	for _, r := range x {
		short, hasShort := shortEsc[r]
		if !s.esc {
			switch {
			case hasShort:
				b.WriteString(short)
			case r < 0x20:
				fmt.Fprintf(b, `\u%04x`, r)
			default:
				b.WriteRune(r)
			}
			continue
		}
		// escape spelling varied: the first character of every string is always respelled when it has another spelling
		force := first
		first = false
		switch {
		case hasShort:
			if s.rng.Intn(2) == 0 {
				b.WriteString(short)
			} else {
				s.hex4(b, uint16(r))
			}
		case r < 0x20:
			s.hex4(b, uint16(r))
		case r == '/':
			switch s.rng.Intn(3) {
			case 0:
				b.WriteString(`\/`)
			case 1:
				s.hex4(b, uint16(r))
			default:
				if force {
					b.WriteString(`\/`)
				} else {
					b.WriteByte('/')
				}
			}
		case r < 0x80:
			if force || s.rng.Intn(4) == 0 {
				s.hex4(b, uint16(r))
			} else {
				b.WriteRune(r)
			}
		case r == utf8.RuneError:
			b.WriteRune(r)
		case r < 0x10000:
			if force || s.rng.Intn(2) == 0 {
				s.hex4(b, uint16(r))
			} else {
				b.WriteRune(r)
			}
		default:
			if force || s.rng.Intn(2) == 0 {
				hi, lo := utf16.EncodeRune(r)
				s.hex4(b, uint16(hi))
				s.hex4(b, uint16(lo))
			} else {
				b.WriteRune(r)
			}
		}
	}
	b.WriteByte('"')
}

// illFormedSpellings lists, for a character outside the BMP, escape texts that are NOT its surrogate pair but
// share the low ten bits of each half with it (low + low, high + high, low + high, high + BMP character) and the
// two lone halves.  encoding/json decodes each to replacement characters (plus the BMP character).
func illFormedSpellings(r rune) []string {
	hi, lo := utf16.EncodeRune(r)
	h, l := uint16(hi), uint16(lo)
	return []string{
		fmt.Sprintf(`\u%04X\u%04X`, h+0x400, l),       // low, low
		fmt.Sprintf(`\u%04X\u%04x`, h, l-0x400),       // high, high
		fmt.Sprintf(`\u%04x\u%04X`, h+0x400, l-0x400), // low, high
		fmt.Sprintf(`\u%04x\u%04x`, h, l&0x3ff),       // high, BMP character (or control character) escape
		fmt.Sprintf(`\u%04x`, h),                      // lone high
		fmt.Sprintf(`\u%04X`, l),                      // lone low
		fmt.Sprintf(`\u%04x\u%04x`, l, h),             // the pair in the wrong order
	}
}

// tamperSurrogate rewrites the first character outside the BMP in the canonical text of v (in a string value or
// in a member name, at any depth) to one of its ill-formed spellings.  ok is false if v has no such character.
func tamperSurrogate(v interface{}, rng *rand.Rand) (rawText, bool) {
	text := canonical(v)
	for i := 0; i < len(text); {
		r, n := utf8.DecodeRune(text[i:])
		if r >= 0x10000 && r != utf8.RuneError {
			sp := illFormedSpellings(r)
			out := string(text[:i]) + sp[rng.Intn(len(sp))] + string(text[i+n:])
			// it must be JSON that denotes another value
			dec, err := parse([]byte(out))
			if err != nil || sameValue(dec, v) {
				panic(fmt.Sprintf("harness: ill-formed spelling %q of %q is not a different value (%v)", out, text, err))
			}
			return rawText{text: out}, true
		}
		i += n
	}
	return rawText{}, false
}

func hasRaw(top map[string]interface{}) bool {
	for k, v := range top {
		if _, ok := v.(rawText); ok && k != "signatures" && k != "unsigned" {
			return true
		}
	}
	return false
}

func hasLone(top map[string]interface{}) bool {
	for k, v := range top {
		if r, ok := v.(rawText); ok && r.lone && k != "signatures" && k != "unsigned" {
			return true
		}
	}
	return false
}

// tamperLone inserts one lone surrogate escape into a string of the canonical text of v (a value or a member
// name, at any depth; before a character, before an escape sequence or at the end).  Every JSON decoder reads
// one more replacement character there, so the result denotes another value.  ok is false if v has no string.
func tamperLone(v interface{}, rng *rand.Rand) (rawText, bool) {
	text := canonical(v)
	if r, ok := v.(rawText); ok {
		text = []byte(r.text)
	}
	var spots []int
	in := false
	for i := 0; i < len(text); {
		c := text[i]
		switch {
		case !in:
			in = c == '"'
			i++
			if in {
				spots = append(spots, i)
			}
		case c == '"':
			in = false
			i++
		case c == '\\' && text[i+1] == 'u':
			i += 6
			spots = append(spots, i)
		case c == '\\':
			i += 2
			spots = append(spots, i)
		default:
			_, n := utf8.DecodeRune(text[i:])
			i += n
			spots = append(spots, i)
		}
	}
	if len(spots) == 0 {
		return rawText{}, false
	}
	for try := 0; try < 20; try++ {
		at := spots[rng.Intn(len(spots))]
		esc := []string{`\ud83d`, `\uDE00`, `\uD800`, `\udfff`, `\uDBFF`, `\udc00`}[rng.Intn(6)]
		out := string(text[:at]) + esc + string(text[at:])
		dec, err := parse([]byte(out))
		if err != nil {
			panic(fmt.Sprintf("harness: %q is not JSON: %v", out, err))
		}
		if !sameValue(dec, v) { // (a high surrogate put right before an escaped low one would complete a pair)
			return rawText{text: out, lone: true}, true
		}
	}
	return rawText{}, false
}
