package main

// Concrete universe behind the labels of JSONSign.tla (entities E*, key IDs K*, keys P*), value pools, and
// the real operations: gomatrixserverlib.SignJSON / VerifyJSON / ListKeyIDs, each under recover().

import (
	"bytes"
	"crypto/ed25519"
	"crypto/sha256"
	"encoding/base64"
	"encoding/binary"
	"encoding/json"
	"fmt"
	"math/big"
	"math/rand"
	"reflect"
	"sort"
	"strings"

	gmsl "github.com/matrix-org/gomatrixserverlib"
)

// names that must stay different from each other although they look alike come first
var entityPairs = [][]string{
	{"matrix.org", "Matrix.org"},
	{"example.org", "example.org:8448"},
	{"a.example", "a.example."},
	{"example.org", "example.org "},
	{"xn--bcher-kva.example", "bücher.example"},
	{"localhost:8448", "localhost:8449"},
}
var entityPool = []string{"example.org", "matrix.org", "localhost:8448", "xn--bcher-kva.example", "[2001:db8::1]:8448",
	"srv.é.example", "a.b.c", "1.2.3.4", "sub.domain.example.com:443", "host-name.example", "signatures", "unsigned"}

var kidPairs = [][]string{
	{"ed25519:1", "ed25519:01"},
	{"ed25519:a", "ed25519:A"},
	{"ed25519:1", "ed25519:1 "},
	{"ed25519:auto", "ed25519:auto2"},
	{"ed25519:k", "curve25519:k"},
}
var kidPool = []string{"ed25519:1", "ed25519:auto", "ed25519:a_b", "ed25519:0", "ed25519:Zz9", "ed25519:p2", "ed25519:é", "ed25519:a.b"}

// key IDs of other algorithms (label KA of JSONSign_gen.tla / JSONSign_trace.cfg): nobody signs with them, entries
// under them are left by entities that sign differently
var algKidPool = []string{"pgp:0xDEADBEEF", "x509:1", "curve25519:AAAAHg", "rsa:1", "signed_curve25519:AAAAHQ", "ed448:k", "ed25519",
	"", "hmac-sha256:2", "ed25519:", "ecdsa-p256:a", "ED25519:1"}

// addAlgKid gives the label KA a concrete key ID of another algorithm, distinct from the other key IDs.
func (w *world) addAlgKid(rng *rand.Rand) {
	for {
		n := algKidPool[rng.Intn(len(algKidPool))]
		taken := false
		for _, k := range w.kid {
			taken = taken || k == n
		}
		if !taken {
			w.kid["KA"] = n
			return
		}
	}
}

// top-level member names, including names that must be written with escapes in canonical JSON (quote,
// backslash, control characters: their escaped spelling orders differently from their value) and names that
// coincide with what is an entity name or a key ID elsewhere in the document.
var memberPool = []string{"a", "b", "c", "content", "type", "é", "z", "0", "😀", "room_id", "a.b", "sig*", "~", "auth_events",
	"e\u0301", "hashes", "_", "ÿ", "\uffee", "origin", "x y", "d",
	"a\"b", "back\\slash", "\n", "\x00", "\x1f", "tab\t", "\"", "\\", "A", "\x7f",
	"example.org", "ed25519:1", "matrix.org"}

// ordinary members whose names look like the two special ones (one in six documents gets one)
var lookalikePool = []string{"Signatures", "Unsigned", "signature", "unsigned_", "SIGNATURES", "\u017fignatures", "un\u017figned", "signatures ", "_unsigned"}

// memberNames picks n distinct top-level member names.
func memberNames(rng *rand.Rand, n int) []string {
	names := pickDistinct(rng, n, nil, memberPool)
	if rng.Intn(6) == 0 {
		names[rng.Intn(n)] = lookalikePool[rng.Intn(len(lookalikePool))]
	}
	return names
}

// lookalike names a top-level member that Go's case-folding struct-field matching would take for
// "signatures" / "unsigned" although it is another member ("" if none): only used to label disagreements.
func (d *document) lookalike() string {
	for _, k := range sortedKeys(d.top) {
		if (strings.EqualFold(k, "signatures") && k != "signatures") || (strings.EqualFold(k, "unsigned") && k != "unsigned") {
			return k
		}
	}
	return ""
}

// key builds the canonical scenario key of a disagreement.
func (d *document) key(class string) string {
	if d.loneInvolved || hasLone(d.top) {
		// one key per kind of failure
		for _, cut := range []string{"/after=", "/signatures="} {
			if i := strings.Index(class, cut); i >= 0 {
				class = class[:i]
			}
		}
		return "C02/lone-surrogate/" + class
	}
	if f := d.foreignForm(); f != "" && !strings.HasPrefix(class, "sign/") {
		// an entry that is no signature sits in the signatures member: one key per kind of failure and form
		for _, cut := range []string{"/after=", "/signatures="} {
			if i := strings.Index(class, cut); i >= 0 {
				class = class[:i]
			}
		}
		return "C02/foreign-entry/" + class + "/form=" + f
	}
	nilMap := strings.HasPrefix(class, "sign/panic/signatures=null") || strings.HasPrefix(class, "sign/panic/signatures=entity-null")
	if l := d.lookalike(); l != "" && !nilMap {
		// one key per kind of failure: where in the behaviour it showed is not the point here
		for _, cut := range []string{"/after=", "/signatures="} {
			if i := strings.Index(class, cut); i >= 0 {
				class = class[:i]
			}
		}
		return "C02/lookalike-member/" + class
	}
	return "C02/" + class
}

// pairs of values that must be told apart
var valuePairs = [][2]string{
	{`1`, `"1"`}, {`null`, `false`}, {`{}`, `[]`}, {`"a"`, `"a "`}, {`"é"`, `"é"`}, {`1`, `10`},
	{`[1,2]`, `[2,1]`}, {`{"k":[1,2]}`, `{"k":[2,1]}`}, {`"A"`, `"a"`}, {`0`, `false`}, {`""`, `null`},
	{`9007199254740991`, `9007199254740990`}, {`-1`, `1`}, {`"\u0000"`, `""`}, {`"\\"`, `"\\\\"`}, {`"\""`, `"'"`},
	{`{"x":1,"y":2}`, `{"x":2,"y":1}`}, {`[[]]`, `[]`}, {`[0,{"x":1,"y":2}]`, `[0,{"x":2,"y":1}]`}, {`"<"`, `"\\u003c"`}, {`"\n"`, `"n"`}, {`"😀"`, `"😁"`},
	{`"/"`, `"\\/"`}, {`{"a":null}`, `{}`}, {`[null]`, `[]`}, {`true`, `"true"`}, {`" "`, `" "`},
	{`"\u007f"`, `"\u0080"`}, {`-9007199254740991`, `9007199254740991`}, {`{"é":1}`, `{"e":1}`}, {`100`, `1000`},
	// numbers: around 2^53 and beyond (neighbours that collapse in float64), fractions, exponent spellings whose
	// tampering is one character.  The two values of a pair always differ numerically; two spellings of one
	// number (1.0 / 1, 1e2 / 100, -0 / 0) are never opposed: the property does not say whether that is a change.
	{`9007199254740991`, `9007199254740992`}, {`9007199254740992`, `9007199254740993`}, {`-9007199254740992`, `-9007199254740993`},
	{`9007199254740993`, `9007199254740994`}, {`1234567890123456789`, `1234567890123456790`}, {`18446744073709551616`, `18446744073709551615`},
	{`1e-05`, `1e05`}, {`2.5E-01`, `2.5E01`}, {`-0.5`, `0.5`}, {`1.5`, `1.6`}, {`1E-7`, `1E7`}, {`3E+2`, `3E-2`}, {`1e30`, `1e31`},
	{`[1e-05,7]`, `[1e05,7]`}, {`{"scale":-0.5}`, `{"scale":0.5}`}, {`{"n":[9007199254740993]}`, `{"n":[9007199254740992]}`},
	{`123456789012345678901234567890`, `123456789012345678901234567891`}, {`0.1`, `0.10000000000000001`},
	// characters outside the BMP in values and in member names (the ill-formed spellings of these are made by
	// tamperSurrogate)
	{`"ok 😀"`, `"ok 😁"`}, {`{"k😀":1}`, `{"k😁":1}`}, {`"\ud800\udc00"`, `"\ud800\udc01"`}, {`["\udbff\udfff", "x"]`, `["\udbff\udffe", "x"]`},
	// keys that need escapes, in nested objects
	{`{"\n":1,"A":2}`, `{"\n":2,"A":1}`}, {`{"\"":1}`, `{"\\":1}`}, {`{"\u0000":[],"\u001f":{}}`, `{"\u0000":{},"\u001f":[]}`},
}
var valuePool = []string{
	`"plain"`, `"q\"uote\\back/slash"`, `"\b\f\n\r\t"`, `"\u0000\u001f\u007f"`, `"é 😀"`, `""`, `"<>&"`,
	`0`, `1`, `-1`, `9007199254740991`, `-9007199254740991`, `10`, `1234567890`, `true`, `false`, `null`,
	`[]`, `[1,"a",{"k":null}]`, `{}`, `{"z":1,"a":{"y":[],"b":"é"}}`, `{"signatures":{"x":{"ed25519:1":"AAAA"}},"unsigned":{"age":5}}`,
	`"😀 astral"`, `{"😀":"😀","é":["é"],"a.b":{"*":1}}`, `[[[[1]]]]`, `"-0"`, `"1e5"`, `" leading"`,
	`9007199254740992`, `9007199254740993`, `-9007199254740993`, `1e-05`, `2.5E-01`, `-0.5`, `1.5`, `3E+2`, `1e30`,
	`{"\n":false,"A":true,"\"":[1e-05],"\\":{"\t":null}}`, `[0.5,-1.5,1E-7]`,
	// objects with several members behind a scalar / an array inside an array (key order inside arrays)
	`[1,{"b":1,"a":2}]`, `["x",{"z":{"b":1,"a":2},"y":0},[{"d":1,"c":2}]]`, `[null,[{"b":[true,{"d":1,"c":2}],"a":"x"}]]`,
}

var unsignedPairs = [][2]string{
	{`{"age":1}`, `{"age":2}`}, {`{"prev_content":{"a":"é\"\\"}}`, `{}`}, {`null`, `{}`}, {`"s"`, `["s"]`},
	{`{"signatures":{}}`, `{"signatures":null}`}, {`{"age":1,"x":"\u2028"}`, `{"age":1}`}, {`7`, `{"age":7}`},
	{`{"redacted_because":{"unsigned":{"age":3}}}`, `{"age":1234,"transaction_id":"m\/1"}`},
}

// shapes of a nested member: %s is where the inner member d goes (with a leading or trailing comma as needed)
type nestedShape struct {
	with, without string // JSON text with d = %s / without d
}

var nestedShapes = []nestedShape{
	{`{"d":%s}`, `{}`},
	{`{"d":%s,"unsigned":{"age":1},"signatures":{"x":{"ed25519:1":"AAAA"}}}`, `{"unsigned":{"age":1},"signatures":{"x":{"ed25519:1":"AAAA"}}}`},
	{`{"n":{"d":%s},"k":[1,{"d":"decoy"}]}`, `{"n":{},"k":[1,{"d":"decoy"}]}`},
	{`{"é":"x","d":%s,"D":0}`, `{"é":"x","D":0}`},
	{`{"k":[{"d":%s}]}`, `{"k":[{}]}`},
	{`{"\n":false,"A":true,"d":%s}`, `{"\n":false,"A":true}`},
	{`{"k":[1,{"d":%s,"a":0,"z":[2,{"y":1,"x":2}]}]}`, `{"k":[1,{"a":0,"z":[2,{"y":1,"x":2}]}]}`},
	{`{"\"":{"d":%s},"\\":1e-05,"\u0000":[9007199254740993]}`, `{"\"":{},"\\":1e-05,"\u0000":[9007199254740993]}`},
}

type world struct {
	ent  map[string]string
	kid  map[string]string
	priv map[string]ed25519.PrivateKey
	pub  map[string]ed25519.PublicKey
}

func seedOf(seed int64, salt []byte) int64 {
	h := sha256.New()
	var b [8]byte
	binary.BigEndian.PutUint64(b[:], uint64(seed))
	h.Write(b[:])
	h.Write(salt)
	return int64(binary.BigEndian.Uint64(h.Sum(nil)[:8]) & 0x7fffffffffffffff)
}

// pickDistinct returns n distinct names: with some probability the first two are a look-alike pair.
func pickDistinct(rng *rand.Rand, n int, pairs [][]string, pool []string) []string {
	var out []string
	seen := map[string]bool{}
	if n >= 2 && len(pairs) > 0 && rng.Intn(3) == 0 {
		p := pairs[rng.Intn(len(pairs))]
		a, b := p[0], p[1]
		if rng.Intn(2) == 0 {
			a, b = b, a
		}
		out = append(out, a, b)
		seen[a], seen[b] = true, true
	}
	for len(out) < n {
		x := pool[rng.Intn(len(pool))]
		if !seen[x] {
			seen[x] = true
			out = append(out, x)
		}
	}
	rng.Shuffle(len(out), func(i, j int) { out[i], out[j] = out[j], out[i] })
	return out
}

func newWorld(rng *rand.Rand, nEnt, nKid, nKey int) *world {
	w := &world{ent: map[string]string{}, kid: map[string]string{}, priv: map[string]ed25519.PrivateKey{}, pub: map[string]ed25519.PublicKey{}}
	for i, n := range pickDistinct(rng, nEnt, entityPairs, entityPool) {
		w.ent[fmt.Sprintf("E%d", i+1)] = n
	}
	for i, n := range pickDistinct(rng, nKid, kidPairs, kidPool) {
		w.kid[fmt.Sprintf("K%d", i+1)] = n
	}
	for i := 0; i < nKey; i++ {
		var s [32]byte
		rng.Read(s[:])
		k := ed25519.NewKeyFromSeed(s[:])
		l := fmt.Sprintf("P%d", i+1)
		w.priv[l] = k
		w.pub[l] = k.Public().(ed25519.PublicKey)
	}
	return w
}

// sameValue compares two value trees; numbers are compared by their exact numeric value (so that a respelling
// like 1.0 -> 1 is not called a change, while 9007199254740993 -> 9007199254740992 is).
func sameValue(a, b interface{}) bool {
	if r, ok := a.(rawText); ok {
		a = mustParse(r.text)
	}
	if r, ok := b.(rawText); ok {
		b = mustParse(r.text)
	}
	switch x := a.(type) {
	case map[string]interface{}:
		y, ok := b.(map[string]interface{})
		if !ok || len(x) != len(y) {
			return false
		}
		for k, v := range x {
			w, ok := y[k]
			if !ok || !sameValue(v, w) {
				return false
			}
		}
		return true
	case []interface{}:
		y, ok := b.([]interface{})
		if !ok || len(x) != len(y) {
			return false
		}
		for i := range x {
			if !sameValue(x[i], y[i]) {
				return false
			}
		}
		return true
	case json.Number:
		y, ok := b.(json.Number)
		if !ok {
			return false
		}
		if x == y {
			return true
		}
		p, ok1 := new(big.Rat).SetString(string(x))
		q, ok2 := new(big.Rat).SetString(string(y))
		return ok1 && ok2 && p.Cmp(q) == 0
	default:
		return reflect.DeepEqual(a, b)
	}
}

func sortedKeys[V any](m map[string]V) []string {
	var ks []string
	for k := range m {
		ks = append(ks, k)
	}
	sort.Strings(ks)
	return ks
}

// ---- the real library, each call under recover -------------------------------------------------------

func safeSign(name, kid string, priv ed25519.PrivateKey, doc []byte) (out []byte, err error, pan string) {
	defer func() {
		if p := recover(); p != nil {
			pan = fmt.Sprint(p)
		}
	}()
	out, err = gmsl.SignJSON(name, gmsl.KeyID(kid), priv, doc)
	return
}

func safeVerify(name, kid string, pub ed25519.PublicKey, doc []byte) (err error, pan string) {
	defer func() {
		if p := recover(); p != nil {
			pan = fmt.Sprint(p)
		}
	}()
	err = gmsl.VerifyJSON(name, gmsl.KeyID(kid), pub, doc)
	return
}

func safeList(name string, doc []byte) (ids []string, err error, pan string) {
	defer func() {
		if p := recover(); p != nil {
			pan = fmt.Sprint(p)
		}
	}()
	var ks []gmsl.KeyID
	ks, err = gmsl.ListKeyIDs(name, doc)
	for _, k := range ks {
		ids = append(ids, string(k))
	}
	sort.Strings(ids)
	return
}

// observation of one document over the whole universe, in labels
type observation struct {
	Ver   [][]string          // verifying <<entity, key ID, key>> label triples, sorted
	Kids  map[string][]string // entity label -> key ID labels (names that are not in the universe are kept verbatim)
	Errs  map[string]string   // "E|K|P" -> VerifyJSON error text of the non-verifying triples
	Panic string
	// facts outside the matrix that need no model: "" or a (class, description) of what went wrong
	OddClass, Odd string
}

// byte strings that are not ed25519 public keys: VerifyJSON must refuse them for every name and key ID
func malformedKeys(good ed25519.PublicKey) [][]byte {
	return [][]byte{good[:31], {}, nil, append(append([]byte{}, good...), 0)}
}

// observe puts one document through VerifyJSON for the whole universe and through ListKeyIDs for every entity.
// whole names the entities (concrete names) whose signatures[name] is no object: such a name has no key IDs, and
// whether ListKeyIDs says so with an empty list or with an error is not the property's business.
func (w *world) observe(doc []byte, whole map[string]bool) *observation {
	o := &observation{Kids: map[string][]string{}, Errs: map[string]string{}, Ver: [][]string{}}
	given := append([]byte{}, doc...)
	defer func() {
		// the same buffer went through every call above: had one of them written to it, later answers would
		// be about another document
		if o.Panic == "" && o.Odd == "" && !bytes.Equal(given, doc) {
			o.OddClass, o.Odd = "input-modified/verify", fmt.Sprintf("VerifyJSON / ListKeyIDs wrote to their input: %q became %q", given, doc)
		}
	}()
	kidLabel := map[string]string{}
	for l, n := range w.kid {
		kidLabel[n] = l
	}
	for _, e := range sortedKeys(w.ent) {
		for _, k := range sortedKeys(w.kid) {
			for _, p := range sortedKeys(w.pub) {
				err, pan := safeVerify(w.ent[e], w.kid[k], w.pub[p], doc)
				if pan != "" {
					o.Panic = "VerifyJSON: " + pan
					return o
				}
				if err == nil {
					o.Ver = append(o.Ver, []string{e, k, p})
				} else {
					o.Errs[e+"|"+k+"|"+p] = err.Error()
				}
			}
		}
		for _, k := range sortedKeys(w.kid) {
			for n, bad := range malformedKeys(w.pub["P1"]) {
				err, pan := safeVerify(w.ent[e], w.kid[k], bad, doc)
				if pan != "" {
					o.Panic = fmt.Sprintf("VerifyJSON with a public key of %d bytes: %s", len(bad), pan)
					return o
				}
				if err == nil && o.Odd == "" {
					o.OddClass = "unsound/malformed-public-key"
					o.Odd = fmt.Sprintf("VerifyJSON(%q, %q) accepts a public key of %d bytes (variant %d)", w.ent[e], w.kid[k], len(bad), n)
				}
			}
		}
		ids, err, pan := safeList(w.ent[e], doc)
		if pan != "" {
			o.Panic = "ListKeyIDs: " + pan
			return o
		}
		if err != nil && whole[w.ent[e]] {
			o.Kids[e] = []string{}
			continue
		}
		if err != nil {
			o.Kids[e] = []string{"error: " + err.Error()}
			continue
		}
		ls := []string{}
		for _, id := range ids {
			if l, ok := kidLabel[id]; ok {
				ls = append(ls, l)
			} else {
				ls = append(ls, "?"+id)
			}
		}
		sort.Strings(ls)
		o.Kids[e] = ls
	}
	return o
}

// ---- the document in flight ----------------------------------------------------------------------------

type document struct {
	top   map[string]interface{} // the harness' own reading of the document
	bytes []byte                 // what the library is given
	pres  string                 // presentation tag
	// a text with a lone surrogate escape put into one of its strings is, or was, a member of this document
	// (only used to label disagreements)
	loneInvolved bool
	// entries of the signatures member left by foreignEntry (and not overwritten since): (entity, key ID) -> form;
	// (entity, "*") -> form of a signatures[entity] that is no object (foreignEntity)
	forms map[[2]string]string
}

// whole lists the entities whose signatures[entity] is no object (null included).
func (d *document) whole() map[string]bool {
	out := map[string]bool{}
	for x := range d.forms {
		if x[1] == "*" {
			out[x[0]] = true
		}
	}
	return out
}

// unreadable says whether an entry is there in a form a signer cannot carry over (JSONSign.tla: Unreadable).
func (d *document) unreadable() bool {
	for _, f := range d.forms {
		if f != "blank" {
			return true
		}
	}
	return false
}

// foreignForm names the form of a foreign entry of the document ("" if none), entries that cannot be carried
// over first: used to label disagreements.
func (d *document) foreignForm() string {
	var slots [][2]string
	for x := range d.forms {
		slots = append(slots, x)
	}
	sort.Slice(slots, func(i, j int) bool { return slots[i][0]+"\x00"+slots[i][1] < slots[j][0]+"\x00"+slots[j][1] })
	// a name whose entry is no object first, then entries that cannot be carried over, then blanks
	pick := func(want func(x [2]string) bool) string {
		for _, x := range slots {
			if want(x) {
				if x[1] == "*" {
					return "entity-" + d.forms[x]
				}
				return d.forms[x]
			}
		}
		return ""
	}
	if f := pick(func(x [2]string) bool { return x[1] == "*" && d.forms[x] != "blank" }); f != "" {
		return f
	}
	if f := pick(func(x [2]string) bool { return d.forms[x] != "blank" }); f != "" {
		return f
	}
	return pick(func(x [2]string) bool { return true })
}

func (d *document) rerender(rng *rand.Rand) { d.bytes = render(d.top, styleOf(d.pres, rng)) }

func (d *document) projection() map[string]interface{} {
	p := map[string]interface{}{}
	for k, v := range d.top {
		if k != "signatures" && k != "unsigned" {
			p[k] = v
		}
	}
	return p
}

// how the signatures member looks for entity `name`: used in disagreement keys
func (d *document) sigShape(name string) string {
	s, ok := d.top["signatures"]
	if !ok {
		return "absent"
	}
	m, isMap := s.(map[string]interface{})
	switch {
	case s == nil:
		return "null"
	case !isMap:
		return "non-object"
	case len(m) == 0:
		return "empty"
	}
	e, ok := m[name]
	if !ok {
		return "other-entities"
	}
	em, isMap := e.(map[string]interface{})
	switch {
	case e == nil:
		return "entity-null"
	case !isMap:
		return "entity-non-object"
	case len(em) == 0:
		return "entity-empty"
	}
	return "entity-present"
}

// flatSigs lists the entries (entity, key ID) of the harness' reading by what they are: the bytes of a string of
// unpadded base64 (either alphabet; a blanked entry - null or "" - is the empty byte string), otherwise the value
// itself.
func flatSigs(top map[string]interface{}) map[[2]string]string {
	out := map[[2]string]string{}
	m, _ := top["signatures"].(map[string]interface{})
	for e, v := range m {
		em, isMap := v.(map[string]interface{})
		if !isMap && v != nil {
			out[[2]string{e, "*"}] = "value:" + string(canonical(v)) // a name whose entry is no object
		}
		for k, s := range em {
			out[[2]string{e, k}] = entryDesc(s)
		}
	}
	return out
}

func entryDesc(s interface{}) string {
	if s == nil {
		return "bytes:"
	}
	if str, ok := s.(string); ok {
		if b, ok := decodeUnpadded(str); ok {
			return "bytes:" + string(b)
		}
	}
	return "value:" + string(canonical(s))
}

func decodeUnpadded(s string) ([]byte, bool) {
	for _, enc := range []*base64.Encoding{base64.RawStdEncoding, base64.RawURLEncoding} {
		if b, err := enc.DecodeString(s); err == nil {
			return b, true
		}
	}
	return nil, false
}

func decodesAnyBase64(s string) bool {
	for _, enc := range []*base64.Encoding{base64.RawStdEncoding, base64.RawURLEncoding, base64.StdEncoding, base64.URLEncoding} {
		if _, err := enc.DecodeString(s); err == nil {
			return true
		}
	}
	return false
}

type stepFailure struct {
	class string // key fragment
	what  string
}

// libSign is the action Sign: the real SignJSON, then the harness re-reads the result and checks what the
// specification says SignJSON leaves alone (every member but signatures, every other signature entry).
func (d *document) libSign(name, kid string, priv ed25519.PrivateKey) *stepFailure {
	shape := d.sigShape(name)
	given := append([]byte{}, d.bytes...)
	out, err, pan := safeSign(name, kid, priv, d.bytes)
	if !bytes.Equal(given, d.bytes) {
		return &stepFailure{"input-modified/sign", fmt.Sprintf("SignJSON(%q, %q) wrote to its input: %q became %q", name, kid, given, d.bytes)}
	}
	if pan != "" {
		return &stepFailure{"sign/panic/signatures=" + shape, fmt.Sprintf("SignJSON(%q, %q) panicked: %s on %s", name, kid, pan, d.bytes)}
	}
	if err != nil {
		return &stepFailure{"sign/error/signatures=" + shape, fmt.Sprintf("SignJSON(%q, %q) failed: %v on %s", name, kid, err, d.bytes)}
	}
	v, perr := parse(out)
	top2, isObj := v.(map[string]interface{})
	if perr != nil || !isObj {
		return &stepFailure{"sign/output-not-an-object", fmt.Sprintf("SignJSON output %s does not parse as an object: %v", out, perr)}
	}
	for k, old := range d.top {
		if k == "signatures" {
			continue
		}
		now, ok := top2[k]
		if _, raw := old.(rawText); raw && ok {
			// an ill-formed text: how its canonical form reads is not the property's business; the harness
			// keeps the text it wrote as the member's identity
			top2[k] = old
			continue
		}
		if !ok || !sameValue(old, now) {
			cl := "sign/member-changed"
			if k == "unsigned" {
				cl = "sign/unsigned-changed"
			}
			return &stepFailure{cl, fmt.Sprintf("SignJSON changed member %q: %s -> %s", k, canonical(old), canonical(now))}
		}
	}
	for k := range top2 {
		if _, ok := d.top[k]; !ok && k != "signatures" {
			return &stepFailure{"sign/member-added", fmt.Sprintf("SignJSON added member %q", k)}
		}
	}
	before, after := flatSigs(d.top), flatSigs(top2)
	slot := [2]string{name, kid}
	for x, b := range before {
		if x == slot {
			continue
		}
		a, ok := after[x]
		if !ok {
			return &stepFailure{"sign/signature-entry-lost", fmt.Sprintf("SignJSON(%q, %q) dropped the signature of %q %q", name, kid, x[0], x[1])}
		}
		if a != b {
			return &stepFailure{"sign/signature-entry-changed", fmt.Sprintf("SignJSON(%q, %q) changed the signature of %q %q", name, kid, x[0], x[1])}
		}
	}
	if _, ok := after[slot]; !ok {
		return &stepFailure{"sign/no-entry-written", fmt.Sprintf("SignJSON(%q, %q) output has no such entry: %s", name, kid, out)}
	}
	for x := range after {
		if _, ok := before[x]; !ok && x != slot {
			return &stepFailure{"sign/signature-entry-invented", fmt.Sprintf("SignJSON(%q, %q) added an entry for %q %q", name, kid, x[0], x[1])}
		}
	}
	d.top, d.bytes, d.pres = top2, out, "canon"
	delete(d.forms, slot)
	delete(d.forms, [2]string{name, "*"})
	return nil
}

// foreignSign is the action ForeignSign: another implementation signs its own canonical encoding of the
// projection and writes the entry into the signatures member; the document keeps its presentation.
//
// Without a key (label "junk") what is written is well-formed unpadded base64 that is no signature: random
// bytes of the right length, or a byte string that is one byte short / long, three bytes, or empty.
func (d *document) foreignSign(name, kid string, priv ed25519.PrivateKey, urlSafe bool, rng *rand.Rand) {
	var sig []byte
	if priv != nil {
		sig = ed25519.Sign(priv, canonical(d.projection()))
	} else {
		sig = make([]byte, []int{64, 64, 63, 65, 3, 0}[rng.Intn(6)])
		rng.Read(sig)
	}
	enc := base64.RawStdEncoding
	if urlSafe {
		enc = base64.RawURLEncoding
	}
	sm, _ := d.top["signatures"].(map[string]interface{})
	if sm == nil {
		sm = map[string]interface{}{}
	}
	em, _ := sm[name].(map[string]interface{})
	if em == nil {
		em = map[string]interface{}{}
	}
	em[kid] = enc.EncodeToString(sig)
	sm[name] = em
	d.top["signatures"] = sm
	delete(d.forms, [2]string{name, kid})
	delete(d.forms, [2]string{name, "*"})
	d.rerender(rng)
}

// values of the forms of JSONSign.tla that are no base64 at all
var formTexts = []string{"(revoked)", "-----BEGIN PGP SIGNATURE-----\n\niQEzBAABCAAdFiEE\n=njhB\n-----END PGP SIGNATURE-----", "AAAAA", "not base64!",
	"\u00e9", " ", "AAAA AAAA", "sig:v1:AAAA", "ed25519=AAAA", "AAAA=AAAA", "a-b+", "=", "====", "AAAA.AAAA.AAAA", "\x00", "A"}
var formScalars = []string{"12345", "0", "-1", "1e5", "0.5", "9007199254740993", "true", "false"}
var formObjects = []string{`{"alg":"RS256","sig":"AAAA"}`, `{}`, `{"ed25519:1":"AAAA"}`, `{"signature":"AAAA","key":null}`, `{"":{}}`}
var formLists = []string{`[]`, `["AAAA"]`, `[1,2]`, `[null]`, `[{"sig":"AAAA"}]`, `[[]]`}

// foreignEntry is the action ForeignEntry: somebody leaves under signatures[name][kid] a value of the given form
// that is no signature under any key of the universe; the document keeps its presentation and everything else.
// Where the value carries signature bytes (padded base64, inside an object or a list) they are a genuine ed25519
// signature of the current projection by a key nobody of the universe holds, or random bytes of some length.
func (d *document) foreignEntry(name, kid, form string, rng *rand.Rand) {
	sigBytes := func(lengths []int) []byte {
		if rng.Intn(2) == 0 {
			var seed [32]byte
			rng.Read(seed[:])
			return ed25519.Sign(ed25519.NewKeyFromSeed(seed[:]), canonical(d.projection()))
		}
		b := make([]byte, lengths[rng.Intn(len(lengths))])
		rng.Read(b)
		return b
	}
	var v interface{}
	switch form {
	case "padded":
		// lengths that are no multiple of three: the encoding ends in '=' or '=='
		b := sigBytes([]int{64, 64, 65, 32, 1, 2, 62})
		enc := base64.StdEncoding
		if rng.Intn(4) == 0 {
			enc = base64.URLEncoding
		}
		str := enc.EncodeToString(b)
		if !strings.HasSuffix(str, "=") {
			panic("harness: padded form without padding")
		}
		v = str
	case "text":
		str := formTexts[rng.Intn(len(formTexts))]
		if decodesAnyBase64(str) {
			panic("harness: text form " + str + " is base64")
		}
		v = str
	case "scalar":
		v = mustParse(formScalars[rng.Intn(len(formScalars))])
	case "object":
		o := mustParse(formObjects[rng.Intn(len(formObjects))]).(map[string]interface{})
		if _, ok := o["sig"]; ok && rng.Intn(2) == 0 {
			o["sig"] = base64.RawStdEncoding.EncodeToString(sigBytes([]int{64, 256}))
		}
		v = o
	case "list":
		l := mustParse(formLists[rng.Intn(len(formLists))]).([]interface{})
		if len(l) == 1 && rng.Intn(2) == 0 {
			l[0] = base64.RawStdEncoding.EncodeToString(sigBytes([]int{64}))
		}
		v = l
	case "blank":
		if rng.Intn(2) == 0 {
			v = ""
		}
	default:
		panic("unknown entry form " + form)
	}
	sm, _ := d.top["signatures"].(map[string]interface{})
	if sm == nil {
		sm = map[string]interface{}{}
	}
	em, _ := sm[name].(map[string]interface{})
	if em == nil {
		em = map[string]interface{}{}
	}
	em[kid] = v
	sm[name] = em
	d.top["signatures"] = sm
	if d.forms == nil {
		d.forms = map[[2]string]string{}
	}
	d.forms[[2]string{name, kid}] = form
	delete(d.forms, [2]string{name, "*"})
	d.rerender(rng)
}

var entityTexts = []string{"garbage", "", "ed25519:1", "AAAA", "{}", "(none)"}
var entityLists = []string{`[]`, `["ed25519:1"]`, `[{"ed25519:1":"AAAA"}]`, `[null]`}

// foreignEntity is the action ForeignEntity: signatures[name] as a whole becomes a value of the given form that is
// no object (whatever name had there is gone); the document keeps its presentation and everything else.
func (d *document) foreignEntity(name, form string, rng *rand.Rand) {
	var v interface{}
	switch form {
	case "text":
		str := entityTexts[rng.Intn(len(entityTexts))]
		if rng.Intn(4) == 0 {
			b := make([]byte, 64)
			rng.Read(b)
			str = base64.RawStdEncoding.EncodeToString(b)
		}
		v = str
	case "scalar":
		v = mustParse(formScalars[rng.Intn(len(formScalars))])
	case "list":
		v = mustParse(entityLists[rng.Intn(len(entityLists))])
	case "blank":
	default:
		panic("unknown entity form " + form)
	}
	sm, _ := d.top["signatures"].(map[string]interface{})
	if sm == nil {
		sm = map[string]interface{}{}
	}
	sm[name] = v
	d.top["signatures"] = sm
	if d.forms == nil {
		d.forms = map[[2]string]string{}
	}
	for x := range d.forms {
		if x[0] == name {
			delete(d.forms, x)
		}
	}
	d.forms[[2]string{name, "*"}] = form
	d.rerender(rng)
}
