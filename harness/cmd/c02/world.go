package main

// Concrete universe behind the labels of JSONSign.tla (entities E*, key IDs K*, keys P*), value pools, and
// the real operations: gomatrixserverlib.SignJSON / VerifyJSON / ListKeyIDs, each under recover().

import (
	"bytes"
	"crypto/ed25519"
	"crypto/sha256"
	"encoding/base64"
	"encoding/binary"
	"encoding/json"
	"fmt"
	"math/big"
	"math/rand"
	"reflect"
	"sort"
	"strings"

	gmsl "github.com/matrix-org/gomatrixserverlib"
)

// names that must stay different from each other although they look alike come first
var entityPairs = [][]string{
	{"matrix.org", "Matrix.org"},
	{"example.org", "example.org:8448"},
	{"a.example", "a.example."},
	{"example.org", "example.org "},
	{"xn--bcher-kva.example", "bücher.example"},
	{"localhost:8448", "localhost:8449"},
}
var entityPool = []string{"example.org", "matrix.org", "localhost:8448", "xn--bcher-kva.example", "[2001:db8::1]:8448",
	"srv.é.example", "a.b.c", "1.2.3.4", "sub.domain.example.com:443", "host-name.example", "signatures", "unsigned"}

var kidPairs = [][]string{
	{"ed25519:1", "ed25519:01"},
	{"ed25519:a", "ed25519:A"},
	{"ed25519:1", "ed25519:1 "},
	{"ed25519:auto", "ed25519:auto2"},
	{"ed25519:k", "curve25519:k"},
}
var kidPool = []string{"ed25519:1", "ed25519:auto", "ed25519:a_b", "ed25519:0", "ed25519:Zz9", "ed25519:p2", "ed25519:é", "ed25519:a.b"}

// top-level member names, including names that must be written with escapes in canonical JSON (quote,
// backslash, control characters: their escaped spelling orders differently from their value) and names that
// coincide with what is an entity name or a key ID elsewhere in the document.
var memberPool = []string{"a", "b", "c", "content", "type", "é", "z", "0", "😀", "room_id", "a.b", "sig*", "~", "auth_events",
	"e\u0301", "hashes", "_", "ÿ", "\uffee", "origin", "x y", "d",
	"a\"b", "back\\slash", "\n", "\x00", "\x1f", "tab\t", "\"", "\\", "A", "\x7f",
	"example.org", "ed25519:1", "matrix.org"}

// ordinary members whose names look like the two special ones (one in six documents gets one)
var lookalikePool = []string{"Signatures", "Unsigned", "signature", "unsigned_", "SIGNATURES", "\u017fignatures", "un\u017figned", "signatures ", "_unsigned"}

// memberNames picks n distinct top-level member names.
func memberNames(rng *rand.Rand, n int) []string {
	names := pickDistinct(rng, n, nil, memberPool)
	if rng.Intn(6) == 0 {
		names[rng.Intn(n)] = lookalikePool[rng.Intn(len(lookalikePool))]
	}
	return names
}

// lookalike names a top-level member that Go's case-folding struct-field matching would take for
// "signatures" / "unsigned" although it is another member ("" if none): only used to label disagreements.
func (d *document) lookalike() string {
	for _, k := range sortedKeys(d.top) {
		if (strings.EqualFold(k, "signatures") && k != "signatures") || (strings.EqualFold(k, "unsigned") && k != "unsigned") {
			return k
		}
	}
	return ""
}

// key builds the canonical scenario key of a disagreement.
func (d *document) key(class string) string {
	if d.loneInvolved || hasLone(d.top) {
		// one key per kind of failure
		for _, cut := range []string{"/after=", "/signatures="} {
			if i := strings.Index(class, cut); i >= 0 {
				class = class[:i]
			}
		}
		return "C02/lone-surrogate/" + class
	}
	nilMap := strings.HasPrefix(class, "sign/panic/signatures=null") || strings.HasPrefix(class, "sign/panic/signatures=entity-null")
	if l := d.lookalike(); l != "" && !nilMap {
		// one key per kind of failure: where in the behaviour it showed is not the point here
		for _, cut := range []string{"/after=", "/signatures="} {
			if i := strings.Index(class, cut); i >= 0 {
				class = class[:i]
			}
		}
		return "C02/lookalike-member/" + class
	}
	return "C02/" + class
}

// pairs of values that must be told apart
var valuePairs = [][2]string{
	{`1`, `"1"`}, {`null`, `false`}, {`{}`, `[]`}, {`"a"`, `"a "`}, {`"é"`, `"é"`}, {`1`, `10`},
	{`[1,2]`, `[2,1]`}, {`{"k":[1,2]}`, `{"k":[2,1]}`}, {`"A"`, `"a"`}, {`0`, `false`}, {`""`, `null`},
	{`9007199254740991`, `9007199254740990`}, {`-1`, `1`}, {`"\u0000"`, `""`}, {`"\\"`, `"\\\\"`}, {`"\""`, `"'"`},
	{`{"x":1,"y":2}`, `{"x":2,"y":1}`}, {`[[]]`, `[]`}, {`[0,{"x":1,"y":2}]`, `[0,{"x":2,"y":1}]`}, {`"<"`, `"\\u003c"`}, {`"\n"`, `"n"`}, {`"😀"`, `"😁"`},
	{`"/"`, `"\\/"`}, {`{"a":null}`, `{}`}, {`[null]`, `[]`}, {`true`, `"true"`}, {`" "`, `" "`},
	{`"\u007f"`, `"\u0080"`}, {`-9007199254740991`, `9007199254740991`}, {`{"é":1}`, `{"e":1}`}, {`100`, `1000`},
	// numbers: around 2^53 and beyond (neighbours that collapse in float64), fractions, exponent spellings whose
	// tampering is one character.  The two values of a pair always differ numerically; two spellings of one
	// number (1.0 / 1, 1e2 / 100, -0 / 0) are never opposed: the property does not say whether that is a change.
	{`9007199254740991`, `9007199254740992`}, {`9007199254740992`, `9007199254740993`}, {`-9007199254740992`, `-9007199254740993`},
	{`9007199254740993`, `9007199254740994`}, {`1234567890123456789`, `1234567890123456790`}, {`18446744073709551616`, `18446744073709551615`},
	{`1e-05`, `1e05`}, {`2.5E-01`, `2.5E01`}, {`-0.5`, `0.5`}, {`1.5`, `1.6`}, {`1E-7`, `1E7`}, {`3E+2`, `3E-2`}, {`1e30`, `1e31`},
	{`[1e-05,7]`, `[1e05,7]`}, {`{"scale":-0.5}`, `{"scale":0.5}`}, {`{"n":[9007199254740993]}`, `{"n":[9007199254740992]}`},
	{`123456789012345678901234567890`, `123456789012345678901234567891`}, {`0.1`, `0.10000000000000001`},
	// characters outside the BMP in values and in member names (the ill-formed spellings of these are made by
	// tamperSurrogate)
	{`"ok 😀"`, `"ok 😁"`}, {`{"k😀":1}`, `{"k😁":1}`}, {`"\ud800\udc00"`, `"\ud800\udc01"`}, {`["\udbff\udfff", "x"]`, `["\udbff\udffe", "x"]`},
	// keys that need escapes, in nested objects
	{`{"\n":1,"A":2}`, `{"\n":2,"A":1}`}, {`{"\"":1}`, `{"\\":1}`}, {`{"\u0000":[],"\u001f":{}}`, `{"\u0000":{},"\u001f":[]}`},
}
var valuePool = []string{
	`"plain"`, `"q\"uote\\back/slash"`, `"\b\f\n\r\t"`, `"\u0000\u001f\u007f"`, `"é 😀"`, `""`, `"<>&"`,
	`0`, `1`, `-1`, `9007199254740991`, `-9007199254740991`, `10`, `1234567890`, `true`, `false`, `null`,
	`[]`, `[1,"a",{"k":null}]`, `{}`, `{"z":1,"a":{"y":[],"b":"é"}}`, `{"signatures":{"x":{"ed25519:1":"AAAA"}},"unsigned":{"age":5}}`,
	`"😀 astral"`, `{"😀":"😀","é":["é"],"a.b":{"*":1}}`, `[[[[1]]]]`, `"-0"`, `"1e5"`, `" leading"`,
	`9007199254740992`, `9007199254740993`, `-9007199254740993`, `1e-05`, `2.5E-01`, `-0.5`, `1.5`, `3E+2`, `1e30`,
	`{"\n":false,"A":true,"\"":[1e-05],"\\":{"\t":null}}`, `[0.5,-1.5,1E-7]`,
	// objects with several members behind a scalar / an array inside an array (key order inside arrays)
	`[1,{"b":1,"a":2}]`, `["x",{"z":{"b":1,"a":2},"y":0},[{"d":1,"c":2}]]`, `[null,[{"b":[true,{"d":1,"c":2}],"a":"x"}]]`,
}

var unsignedPairs = [][2]string{
	{`{"age":1}`, `{"age":2}`}, {`{"prev_content":{"a":"é\"\\"}}`, `{}`}, {`null`, `{}`}, {`"s"`, `["s"]`},
	{`{"signatures":{}}`, `{"signatures":null}`}, {`{"age":1,"x":"\u2028"}`, `{"age":1}`}, {`7`, `{"age":7}`},
	{`{"redacted_because":{"unsigned":{"age":3}}}`, `{"age":1234,"transaction_id":"m\/1"}`},
}

// shapes of a nested member: %s is where the inner member d goes (with a leading or trailing comma as needed)
type nestedShape struct {
	with, without string // JSON text with d = %s / without d
}

var nestedShapes = []nestedShape{
	{`{"d":%s}`, `{}`},
	{`{"d":%s,"unsigned":{"age":1},"signatures":{"x":{"ed25519:1":"AAAA"}}}`, `{"unsigned":{"age":1},"signatures":{"x":{"ed25519:1":"AAAA"}}}`},
	{`{"n":{"d":%s},"k":[1,{"d":"decoy"}]}`, `{"n":{},"k":[1,{"d":"decoy"}]}`},
	{`{"é":"x","d":%s,"D":0}`, `{"é":"x","D":0}`},
	{`{"k":[{"d":%s}]}`, `{"k":[{}]}`},
	{`{"\n":false,"A":true,"d":%s}`, `{"\n":false,"A":true}`},
	{`{"k":[1,{"d":%s,"a":0,"z":[2,{"y":1,"x":2}]}]}`, `{"k":[1,{"a":0,"z":[2,{"y":1,"x":2}]}]}`},
	{`{"\"":{"d":%s},"\\":1e-05,"\u0000":[9007199254740993]}`, `{"\"":{},"\\":1e-05,"\u0000":[9007199254740993]}`},
}

type world struct {
	ent  map[string]string
	kid  map[string]string
	priv map[string]ed25519.PrivateKey
	pub  map[string]ed25519.PublicKey
}

func seedOf(seed int64, salt []byte) int64 {
	h := sha256.New()
	var b [8]byte
	binary.BigEndian.PutUint64(b[:], uint64(seed))
	h.Write(b[:])
	h.Write(salt)
	return int64(binary.BigEndian.Uint64(h.Sum(nil)[:8]) & 0x7fffffffffffffff)
}

// pickDistinct returns n distinct names: with some probability the first two are a look-alike pair.
func pickDistinct(rng *rand.Rand, n int, pairs [][]string, pool []string) []string {
	var out []string
	seen := map[string]bool{}
	if n >= 2 && len(pairs) > 0 && rng.Intn(3) == 0 {
		p := pairs[rng.Intn(len(pairs))]
		a, b := p[0], p[1]
		if rng.Intn(2) == 0 {
			a, b = b, a
		}
		out = append(out, a, b)
		seen[a], seen[b] = true, true
	}
	for len(out) < n {
		x := pool[rng.Intn(len(pool))]
		if !seen[x] {
			seen[x] = true
			out = append(out, x)
		}
	}
	rng.Shuffle(len(out), func(i, j int) { out[i], out[j] = out[j], out[i] })
	return out
}

func newWorld(rng *rand.Rand, nEnt, nKid, nKey int) *world {
	w := &world{ent: map[string]string{}, kid: map[string]string{}, priv: map[string]ed25519.PrivateKey{}, pub: map[string]ed25519.PublicKey{}}
	for i, n := range pickDistinct(rng, nEnt, entityPairs, entityPool) {
		w.ent[fmt.Sprintf("E%d", i+1)] = n
	}
	for i, n := range pickDistinct(rng, nKid, kidPairs, kidPool) {
		w.kid[fmt.Sprintf("K%d", i+1)] = n
	}
	for i := 0; i < nKey; i++ {
		var s [32]byte
		rng.Read(s[:])
		k := ed25519.NewKeyFromSeed(s[:])
		l := fmt.Sprintf("P%d", i+1)
		w.priv[l] = k
		w.pub[l] = k.Public().(ed25519.PublicKey)
	}
	return w
}

// sameValue compares two value trees; numbers are compared by their exact numeric value (so that a respelling
// like 1.0 -> 1 is not called a change, while 9007199254740993 -> 9007199254740992 is).
func sameValue(a, b interface{}) bool {
	if r, ok := a.(rawText); ok {
		a = mustParse(r.text)
	}
	if r, ok := b.(rawText); ok {
		b = mustParse(r.text)
	}
	switch x := a.(type) {
	case map[string]interface{}:
		y, ok := b.(map[string]interface{})
		if !ok || len(x) != len(y) {
			return false
		}
		for k, v := range x {
			w, ok := y[k]
			if !ok || !sameValue(v, w) {
				return false
			}
		}
		return true
	case []interface{}:
		y, ok := b.([]interface{})
		if !ok || len(x) != len(y) {
			return false
		}
		for i := range x {
			if !sameValue(x[i], y[i]) {
				return false
			}
		}
		return true
	case json.Number:
		y, ok := b.(json.Number)
		if !ok {
			return false
		}
		if x == y {
			return true
		}
		p, ok1 := new(big.Rat).SetString(string(x))
		q, ok2 := new(big.Rat).SetString(string(y))
		return ok1 && ok2 && p.Cmp(q) == 0
	default:
		return reflect.DeepEqual(a, b)
	}
}

func sortedKeys[V any](m map[string]V) []string {
	var ks []string
	for k := range m {
		ks = append(ks, k)
	}
	sort.Strings(ks)
	return ks
}

// ---- the real library, each call under recover -------------------------------------------------------

func safeSign(name, kid string, priv ed25519.PrivateKey, doc []byte) (out []byte, err error, pan string) {
	defer func() {
		if p := recover(); p != nil {
			pan = fmt.Sprint(p)
		}
	}()
	out, err = gmsl.SignJSON(name, gmsl.KeyID(kid), priv, doc)
	return
}

func safeVerify(name, kid string, pub ed25519.PublicKey, doc []byte) (err error, pan string) {
	defer func() {
		if p := recover(); p != nil {
			pan = fmt.Sprint(p)
		}
	}()
	err = gmsl.VerifyJSON(name, gmsl.KeyID(kid), pub, doc)
	return
}

func safeList(name string, doc []byte) (ids []string, err error, pan string) {
	defer func() {
		if p := recover(); p != nil {
			pan = fmt.Sprint(p)
		}
	}()
	var ks []gmsl.KeyID
	ks, err = gmsl.ListKeyIDs(name, doc)
	for _, k := range ks {
		ids = append(ids, string(k))
	}
	sort.Strings(ids)
	return
}

// observation of one document over the whole universe, in labels
type observation struct {
	Ver   [][]string          // verifying <<entity, key ID, key>> label triples, sorted
	Kids  map[string][]string // entity label -> key ID labels (names that are not in the universe are kept verbatim)
	Errs  map[string]string   // "E|K|P" -> VerifyJSON error text of the non-verifying triples
	Panic string
	// facts outside the matrix that need no model: "" or a (class, description) of what went wrong
	OddClass, Odd string
}

// byte strings that are not ed25519 public keys: VerifyJSON must refuse them for every name and key ID
func malformedKeys(good ed25519.PublicKey) [][]byte {
	return [][]byte{good[:31], {}, nil, append(append([]byte{}, good...), 0)}
}

func (w *world) observe(doc []byte) *observation {
	o := &observation{Kids: map[string][]string{}, Errs: map[string]string{}, Ver: [][]string{}}
	given := append([]byte{}, doc...)
	defer func() {
		// the same buffer went through every call above: had one of them written to it, later answers would
		// be about another document
		if o.Panic == "" && o.Odd == "" && !bytes.Equal(given, doc) {
			o.OddClass, o.Odd = "input-modified/verify", fmt.Sprintf("VerifyJSON / ListKeyIDs wrote to their input: %q became %q", given, doc)
		}
	}()
	kidLabel := map[string]string{}
	for l, n := range w.kid {
		kidLabel[n] = l
	}
	for _, e := range sortedKeys(w.ent) {
		for _, k := range sortedKeys(w.kid) {
			for _, p := range sortedKeys(w.pub) {
				err, pan := safeVerify(w.ent[e], w.kid[k], w.pub[p], doc)
				if pan != "" {
					o.Panic = "VerifyJSON: " + pan
					return o
				}
				if err == nil {
					o.Ver = append(o.Ver, []string{e, k, p})
				} else {
					o.Errs[e+"|"+k+"|"+p] = err.Error()
				}
			}
		}
		for _, k := range sortedKeys(w.kid) {
			for n, bad := range malformedKeys(w.pub["P1"]) {
				err, pan := safeVerify(w.ent[e], w.kid[k], bad, doc)
				if pan != "" {
					o.Panic = fmt.Sprintf("VerifyJSON with a public key of %d bytes: %s", len(bad), pan)
					return o
				}
				if err == nil && o.Odd == "" {
					o.OddClass = "unsound/malformed-public-key"
					o.Odd = fmt.Sprintf("VerifyJSON(%q, %q) accepts a public key of %d bytes (variant %d)", w.ent[e], w.kid[k], len(bad), n)
				}
			}
		}
		ids, err, pan := safeList(w.ent[e], doc)
		if pan != "" {
			o.Panic = "ListKeyIDs: " + pan
			return o
		}
		if err != nil {
			o.Kids[e] = []string{"error: " + err.Error()}
			continue
		}
		ls := []string{}
		for _, id := range ids {
			if l, ok := kidLabel[id]; ok {
				ls = append(ls, l)
			} else {
				ls = append(ls, "?"+id)
			}
		}
		sort.Strings(ls)
		o.Kids[e] = ls
	}
	return o
}

// ---- the document in flight ----------------------------------------------------------------------------

type document struct {
	top   map[string]interface{} // the harness' own reading of the document
	bytes []byte                 // what the library is given
	pres  string                 // presentation tag
	// a text with a lone surrogate escape put into one of its strings is, or was, a member of this document
	// (only used to label disagreements)
	loneInvolved bool
}

func (d *document) rerender(rng *rand.Rand) { d.bytes = render(d.top, styleOf(d.pres, rng)) }

func (d *document) projection() map[string]interface{} {
	p := map[string]interface{}{}
	for k, v := range d.top {
		if k != "signatures" && k != "unsigned" {
			p[k] = v
		}
	}
	return p
}

// how the signatures member looks for entity `name`: used in disagreement keys
func (d *document) sigShape(name string) string {
	s, ok := d.top["signatures"]
	if !ok {
		return "absent"
	}
	m, isMap := s.(map[string]interface{})
	switch {
	case s == nil:
		return "null"
	case !isMap:
		return "non-object"
	case len(m) == 0:
		return "empty"
	}
	e, ok := m[name]
	if !ok {
		return "other-entities"
	}
	em, isMap := e.(map[string]interface{})
	switch {
	case e == nil:
		return "entity-null"
	case !isMap:
		return "entity-non-object"
	case len(em) == 0:
		return "entity-empty"
	}
	return "entity-present"
}

// flatSigs lists the signature entries (entity, key ID) -> decoded bytes of the harness' reading.
func flatSigs(top map[string]interface{}) map[[2]string]string {
	out := map[[2]string]string{}
	m, _ := top["signatures"].(map[string]interface{})
	for e, v := range m {
		em, _ := v.(map[string]interface{})
		for k, s := range em {
			str, ok := s.(string)
			if !ok {
				out[[2]string{e, k}] = fmt.Sprintf("non-string:%v", s)
				continue
			}
			out[[2]string{e, k}] = string(decodeB64(str))
		}
	}
	return out
}

func decodeB64(s string) []byte {
	for _, enc := range []*base64.Encoding{base64.RawStdEncoding, base64.RawURLEncoding, base64.StdEncoding, base64.URLEncoding} {
		if b, err := enc.DecodeString(s); err == nil {
			return b
		}
	}
	return []byte("undecodable:" + s)
}

type stepFailure struct {
	class string // key fragment
	what  string
}

// libSign is the action Sign: the real SignJSON, then the harness re-reads the result and checks what the
// specification says SignJSON leaves alone (every member but signatures, every other signature entry).
func (d *document) libSign(name, kid string, priv ed25519.PrivateKey) *stepFailure {
	shape := d.sigShape(name)
	given := append([]byte{}, d.bytes...)
	out, err, pan := safeSign(name, kid, priv, d.bytes)
	if !bytes.Equal(given, d.bytes) {
		return &stepFailure{"input-modified/sign", fmt.Sprintf("SignJSON(%q, %q) wrote to its input: %q became %q", name, kid, given, d.bytes)}
	}
	if pan != "" {
		return &stepFailure{"sign/panic/signatures=" + shape, fmt.Sprintf("SignJSON(%q, %q) panicked: %s on %s", name, kid, pan, d.bytes)}
	}
	if err != nil {
		return &stepFailure{"sign/error/signatures=" + shape, fmt.Sprintf("SignJSON(%q, %q) failed: %v on %s", name, kid, err, d.bytes)}
	}
	v, perr := parse(out)
	top2, isObj := v.(map[string]interface{})
	if perr != nil || !isObj {
		return &stepFailure{"sign/output-not-an-object", fmt.Sprintf("SignJSON output %s does not parse as an object: %v", out, perr)}
	}
	for k, old := range d.top {
		if k == "signatures" {
			continue
		}
		now, ok := top2[k]
		if _, raw := old.(rawText); raw && ok {
			// an ill-formed text: how its canonical form reads is not the property's business; the harness
			// keeps the text it wrote as the member's identity
			top2[k] = old
			continue
		}
		if !ok || !sameValue(old, now) {
			cl := "sign/member-changed"
			if k == "unsigned" {
				cl = "sign/unsigned-changed"
			}
			return &stepFailure{cl, fmt.Sprintf("SignJSON changed member %q: %s -> %s", k, canonical(old), canonical(now))}
		}
	}
	for k := range top2 {
		if _, ok := d.top[k]; !ok && k != "signatures" {
			return &stepFailure{"sign/member-added", fmt.Sprintf("SignJSON added member %q", k)}
		}
	}
	before, after := flatSigs(d.top), flatSigs(top2)
	slot := [2]string{name, kid}
	for x, b := range before {
		if x == slot {
			continue
		}
		a, ok := after[x]
		if !ok {
			return &stepFailure{"sign/signature-entry-lost", fmt.Sprintf("SignJSON(%q, %q) dropped the signature of %q %q", name, kid, x[0], x[1])}
		}
		if a != b {
			return &stepFailure{"sign/signature-entry-changed", fmt.Sprintf("SignJSON(%q, %q) changed the signature of %q %q", name, kid, x[0], x[1])}
		}
	}
	if _, ok := after[slot]; !ok {
		return &stepFailure{"sign/no-entry-written", fmt.Sprintf("SignJSON(%q, %q) output has no such entry: %s", name, kid, out)}
	}
	for x := range after {
		if _, ok := before[x]; !ok && x != slot {
			return &stepFailure{"sign/signature-entry-invented", fmt.Sprintf("SignJSON(%q, %q) added an entry for %q %q", name, kid, x[0], x[1])}
		}
	}
	d.top, d.bytes, d.pres = top2, out, "canon"
	return nil
}

// foreignSign is the action ForeignSign: another implementation signs its own canonical encoding of the
// projection and writes the entry into the signatures member; the document keeps its presentation.
//
// Without a key (label "junk") what is written is well-formed unpadded base64 that is no signature: random
// bytes of the right length, or a byte string that is one byte short / long, three bytes, or empty.
func (d *document) foreignSign(name, kid string, priv ed25519.PrivateKey, urlSafe bool, rng *rand.Rand) {
	var sig []byte
	if priv != nil {
		sig = ed25519.Sign(priv, canonical(d.projection()))
	} else {
		sig = make([]byte, []int{64, 64, 63, 65, 3, 0}[rng.Intn(6)])
		rng.Read(sig)
	}
	enc := base64.RawStdEncoding
	if urlSafe {
		enc = base64.RawURLEncoding
	}
	sm, _ := d.top["signatures"].(map[string]interface{})
	if sm == nil {
		sm = map[string]interface{}{}
	}
	em, _ := sm[name].(map[string]interface{})
	if em == nil {
		em = map[string]interface{}{}
	}
	em[kid] = enc.EncodeToString(sig)
	sm[name] = em
	d.top["signatures"] = sm
	d.rerender(rng)
}
