package main

// Concrete universe behind the labels of JSONSign.tla (entities E*, key IDs K*, keys P*), value pools, and
// the real operations: gomatrixserverlib.SignJSON / VerifyJSON / ListKeyIDs, each under recover().

import (
	"crypto/ed25519"
	"crypto/sha256"
	"encoding/base64"
	"encoding/binary"
	"fmt"
	"math/rand"
	"reflect"
	"sort"
	"strings"

	gmsl "github.com/matrix-org/gomatrixserverlib"
)

// names that must stay different from each other although they look alike come first
var entityPairs = [][]string{
	{"matrix.org", "Matrix.org"},
	{"example.org", "example.org:8448"},
	{"a.example", "a.example."},
	{"example.org", "example.org "},
	{"xn--bcher-kva.example", "bücher.example"},
	{"localhost:8448", "localhost:8449"},
}
var entityPool = []string{"example.org", "matrix.org", "localhost:8448", "xn--bcher-kva.example", "[2001:db8::1]:8448",
	"srv.é.example", "a.b.c", "1.2.3.4", "sub.domain.example.com:443", "host-name.example", "signatures", "unsigned"}

var kidPairs = [][]string{
	{"ed25519:1", "ed25519:01"},
	{"ed25519:a", "ed25519:A"},
	{"ed25519:1", "ed25519:1 "},
	{"ed25519:auto", "ed25519:auto2"},
	{"ed25519:k", "curve25519:k"},
}
var kidPool = []string{"ed25519:1", "ed25519:auto", "ed25519:a_b", "ed25519:0", "ed25519:Zz9", "ed25519:p2", "ed25519:é", "ed25519:a.b"}

// top-level member names.  Names that need escaping in canonical JSON (quote, backslash, control characters)
// are left to C01: the pinned canonicaliser is known to write such keys unescaped.
var memberPool = []string{"a", "b", "c", "content", "type", "é", "z", "0", "😀", "room_id", "a.b", "sig*", "~", "auth_events",
	"e\u0301", "hashes", "_", "ÿ", "\uffee", "origin", "x y", "d"}

// ordinary members whose names look like the two special ones (one in six documents gets one)
var lookalikePool = []string{"Signatures", "Unsigned", "signature", "unsigned_", "SIGNATURES", "\u017fignatures", "un\u017figned", "signatures ", "_unsigned"}

// memberNames picks n distinct top-level member names.
func memberNames(rng *rand.Rand, n int) []string {
	names := pickDistinct(rng, n, nil, memberPool)
	if rng.Intn(6) == 0 {
		names[rng.Intn(n)] = lookalikePool[rng.Intn(len(lookalikePool))]
	}
	return names
}

// lookalike names a top-level member that Go's case-folding struct-field matching would take for
// "signatures" / "unsigned" although it is another member ("" if none): only used to label disagreements.
func (d *document) lookalike() string {
	for _, k := range sortedKeys(d.top) {
		if (strings.EqualFold(k, "signatures") && k != "signatures") || (strings.EqualFold(k, "unsigned") && k != "unsigned") {
			return k
		}
	}
	return ""
}

// key builds the canonical scenario key of a disagreement.
func (d *document) key(class string) string {
	nilMap := strings.HasPrefix(class, "sign/panic/signatures=null") || strings.HasPrefix(class, "sign/panic/signatures=entity-null")
	if l := d.lookalike(); l != "" && !nilMap {
		// one key per kind of failure: where in the behaviour it showed is not the point here
		for _, cut := range []string{"/after=", "/signatures="} {
			if i := strings.Index(class, cut); i >= 0 {
				class = class[:i]
			}
		}
		return "C02/lookalike-member/" + class
	}
	return "C02/" + class
}

// pairs of values that must be told apart
var valuePairs = [][2]string{
	{`1`, `"1"`}, {`null`, `false`}, {`{}`, `[]`}, {`"a"`, `"a "`}, {`"é"`, `"é"`}, {`1`, `10`},
	{`[1,2]`, `[2,1]`}, {`{"k":[1,2]}`, `{"k":[2,1]}`}, {`"A"`, `"a"`}, {`0`, `false`}, {`""`, `null`},
	{`9007199254740991`, `9007199254740990`}, {`-1`, `1`}, {`"\u0000"`, `""`}, {`"\\"`, `"\\\\"`}, {`"\""`, `"'"`},
	{`{"x":1,"y":2}`, `{"x":2,"y":1}`}, {`[[]]`, `[]`}, {`"<"`, `"\\u003c"`}, {`"\n"`, `"n"`}, {`"😀"`, `"😁"`},
	{`"/"`, `"\\/"`}, {`{"a":null}`, `{}`}, {`[null]`, `[]`}, {`true`, `"true"`}, {`" "`, `" "`},
	{`"\u007f"`, `"\u0080"`}, {`-9007199254740991`, `9007199254740991`}, {`{"é":1}`, `{"e":1}`}, {`100`, `1000`},
}
var valuePool = []string{
	`"plain"`, `"q\"uote\\back/slash"`, `"\b\f\n\r\t"`, `"\u0000\u001f\u007f"`, `"é 😀"`, `""`, `"<>&"`,
	`0`, `1`, `-1`, `9007199254740991`, `-9007199254740991`, `10`, `1234567890`, `true`, `false`, `null`,
	`[]`, `[1,"a",{"k":null}]`, `{}`, `{"z":1,"a":{"y":[],"b":"é"}}`, `{"signatures":{"x":{"ed25519:1":"AAAA"}},"unsigned":{"age":5}}`,
	`"😀 astral"`, `{"😀":"😀","é":["é"],"a.b":{"*":1}}`, `[[[[1]]]]`, `"-0"`, `"1e5"`, `" leading"`,
}

var unsignedPairs = [][2]string{
	{`{"age":1}`, `{"age":2}`}, {`{"prev_content":{"a":"é\"\\"}}`, `{}`}, {`null`, `{}`}, {`"s"`, `["s"]`},
	{`{"signatures":{}}`, `{"signatures":null}`}, {`{"age":1,"x":"\u2028"}`, `{"age":1}`}, {`7`, `{"age":7}`},
	{`{"redacted_because":{"unsigned":{"age":3}}}`, `{"age":1234,"transaction_id":"m\/1"}`},
}

// shapes of a nested member: %s is where the inner member d goes (with a leading or trailing comma as needed)
type nestedShape struct {
	with, without string // JSON text with d = %s / without d
}

var nestedShapes = []nestedShape{
	{`{"d":%s}`, `{}`},
	{`{"d":%s,"unsigned":{"age":1},"signatures":{"x":{"ed25519:1":"AAAA"}}}`, `{"unsigned":{"age":1},"signatures":{"x":{"ed25519:1":"AAAA"}}}`},
	{`{"n":{"d":%s},"k":[1,{"d":"decoy"}]}`, `{"n":{},"k":[1,{"d":"decoy"}]}`},
	{`{"é":"x","d":%s,"D":0}`, `{"é":"x","D":0}`},
	{`{"k":[{"d":%s}]}`, `{"k":[{}]}`},
}

type world struct {
	ent  map[string]string
	kid  map[string]string
	priv map[string]ed25519.PrivateKey
	pub  map[string]ed25519.PublicKey
}

func seedOf(seed int64, salt []byte) int64 {
	h := sha256.New()
	var b [8]byte
	binary.BigEndian.PutUint64(b[:], uint64(seed))
	h.Write(b[:])
	h.Write(salt)
	return int64(binary.BigEndian.Uint64(h.Sum(nil)[:8]) & 0x7fffffffffffffff)
}

// pickDistinct returns n distinct names: with some probability the first two are a look-alike pair.
func pickDistinct(rng *rand.Rand, n int, pairs [][]string, pool []string) []string {
	var out []string
	seen := map[string]bool{}
	if n >= 2 && len(pairs) > 0 && rng.Intn(3) == 0 {
		p := pairs[rng.Intn(len(pairs))]
		a, b := p[0], p[1]
		if rng.Intn(2) == 0 {
			a, b = b, a
		}
		out = append(out, a, b)
		seen[a], seen[b] = true, true
	}
	for len(out) < n {
		x := pool[rng.Intn(len(pool))]
		if !seen[x] {
			seen[x] = true
			out = append(out, x)
		}
	}
	rng.Shuffle(len(out), func(i, j int) { out[i], out[j] = out[j], out[i] })
	return out
}

func newWorld(rng *rand.Rand, nEnt, nKid, nKey int) *world {
	w := &world{ent: map[string]string{}, kid: map[string]string{}, priv: map[string]ed25519.PrivateKey{}, pub: map[string]ed25519.PublicKey{}}
	for i, n := range pickDistinct(rng, nEnt, entityPairs, entityPool) {
		w.ent[fmt.Sprintf("E%d", i+1)] = n
	}
	for i, n := range pickDistinct(rng, nKid, kidPairs, kidPool) {
		w.kid[fmt.Sprintf("K%d", i+1)] = n
	}
	for i := 0; i < nKey; i++ {
		var s [32]byte
		rng.Read(s[:])
		k := ed25519.NewKeyFromSeed(s[:])
		l := fmt.Sprintf("P%d", i+1)
		w.priv[l] = k
		w.pub[l] = k.Public().(ed25519.PublicKey)
	}
	return w
}

func sortedKeys[V any](m map[string]V) []string {
	var ks []string
	for k := range m {
		ks = append(ks, k)
	}
	sort.Strings(ks)
	return ks
}

// ---- the real library, each call under recover -------------------------------------------------------

func safeSign(name, kid string, priv ed25519.PrivateKey, doc []byte) (out []byte, err error, pan string) {
	defer func() {
		if p := recover(); p != nil {
			pan = fmt.Sprint(p)
		}
	}()
	out, err = gmsl.SignJSON(name, gmsl.KeyID(kid), priv, doc)
	return
}

func safeVerify(name, kid string, pub ed25519.PublicKey, doc []byte) (err error, pan string) {
	defer func() {
		if p := recover(); p != nil {
			pan = fmt.Sprint(p)
		}
	}()
	err = gmsl.VerifyJSON(name, gmsl.KeyID(kid), pub, doc)
	return
}

func safeList(name string, doc []byte) (ids []string, err error, pan string) {
	defer func() {
		if p := recover(); p != nil {
			pan = fmt.Sprint(p)
		}
	}()
	var ks []gmsl.KeyID
	ks, err = gmsl.ListKeyIDs(name, doc)
	for _, k := range ks {
		ids = append(ids, string(k))
	}
	sort.Strings(ids)
	return
}

// observation of one document over the whole universe, in labels
type observation struct {
	Ver   [][]string          // verifying <<entity, key ID, key>> label triples, sorted
	Kids  map[string][]string // entity label -> key ID labels (names that are not in the universe are kept verbatim)
	Errs  map[string]string   // "E|K|P" -> VerifyJSON error text of the non-verifying triples
	Panic string
}

func (w *world) observe(doc []byte) *observation {
	o := &observation{Kids: map[string][]string{}, Errs: map[string]string{}, Ver: [][]string{}}
	kidLabel := map[string]string{}
	for l, n := range w.kid {
		kidLabel[n] = l
	}
	for _, e := range sortedKeys(w.ent) {
		for _, k := range sortedKeys(w.kid) {
			for _, p := range sortedKeys(w.pub) {
				err, pan := safeVerify(w.ent[e], w.kid[k], w.pub[p], doc)
				if pan != "" {
					o.Panic = "VerifyJSON: " + pan
					return o
				}
				if err == nil {
					o.Ver = append(o.Ver, []string{e, k, p})
				} else {
					o.Errs[e+"|"+k+"|"+p] = err.Error()
				}
			}
		}
		ids, err, pan := safeList(w.ent[e], doc)
		if pan != "" {
			o.Panic = "ListKeyIDs: " + pan
			return o
		}
		if err != nil {
			o.Kids[e] = []string{"error: " + err.Error()}
			continue
		}
		ls := []string{}
		for _, id := range ids {
			if l, ok := kidLabel[id]; ok {
				ls = append(ls, l)
			} else {
				ls = append(ls, "?"+id)
			}
		}
		sort.Strings(ls)
		o.Kids[e] = ls
	}
	return o
}

// ---- the document in flight ----------------------------------------------------------------------------

type document struct {
	top   map[string]interface{} // the harness' own reading of the document
	bytes []byte                 // what the library is given
	pres  string                 // presentation tag
}

func (d *document) rerender(rng *rand.Rand) { d.bytes = render(d.top, styleOf(d.pres, rng)) }

func (d *document) projection() map[string]interface{} {
	p := map[string]interface{}{}
	for k, v := range d.top {
		if k != "signatures" && k != "unsigned" {
			p[k] = v
		}
	}
	return p
}

// how the signatures member looks for entity `name`: used in disagreement keys
func (d *document) sigShape(name string) string {
	s, ok := d.top["signatures"]
	if !ok {
		return "absent"
	}
	m, isMap := s.(map[string]interface{})
	switch {
	case s == nil:
		return "null"
	case !isMap:
		return "non-object"
	case len(m) == 0:
		return "empty"
	}
	e, ok := m[name]
	if !ok {
		return "other-entities"
	}
	em, isMap := e.(map[string]interface{})
	switch {
	case e == nil:
		return "entity-null"
	case !isMap:
		return "entity-non-object"
	case len(em) == 0:
		return "entity-empty"
	}
	return "entity-present"
}

// flatSigs lists the signature entries (entity, key ID) -> decoded bytes of the harness' reading.
func flatSigs(top map[string]interface{}) map[[2]string]string {
	out := map[[2]string]string{}
	m, _ := top["signatures"].(map[string]interface{})
	for e, v := range m {
		em, _ := v.(map[string]interface{})
		for k, s := range em {
			str, ok := s.(string)
			if !ok {
				out[[2]string{e, k}] = fmt.Sprintf("non-string:%v", s)
				continue
			}
			out[[2]string{e, k}] = string(decodeB64(str))
		}
	}
	return out
}

func decodeB64(s string) []byte {
	for _, enc := range []*base64.Encoding{base64.RawStdEncoding, base64.RawURLEncoding, base64.StdEncoding, base64.URLEncoding} {
		if b, err := enc.DecodeString(s); err == nil {
			return b
		}
	}
	return []byte("undecodable:" + s)
}

type stepFailure struct {
	class string // key fragment
	what  string
}

// libSign is the action Sign: the real SignJSON, then the harness re-reads the result and checks what the
// specification says SignJSON leaves alone (every member but signatures, every other signature entry).
func (d *document) libSign(name, kid string, priv ed25519.PrivateKey) *stepFailure {
	shape := d.sigShape(name)
	out, err, pan := safeSign(name, kid, priv, d.bytes)
	if pan != "" {
		return &stepFailure{"sign/panic/signatures=" + shape, fmt.Sprintf("SignJSON(%q, %q) panicked: %s on %s", name, kid, pan, d.bytes)}
	}
	if err != nil {
		return &stepFailure{"sign/error/signatures=" + shape, fmt.Sprintf("SignJSON(%q, %q) failed: %v on %s", name, kid, err, d.bytes)}
	}
	v, perr := parse(out)
	top2, isObj := v.(map[string]interface{})
	if perr != nil || !isObj {
		return &stepFailure{"sign/output-not-an-object", fmt.Sprintf("SignJSON output %s does not parse as an object: %v", out, perr)}
	}
	for k, old := range d.top {
		if k == "signatures" {
			continue
		}
		now, ok := top2[k]
		if !ok || !reflect.DeepEqual(old, now) {
			cl := "sign/member-changed"
			if k == "unsigned" {
				cl = "sign/unsigned-changed"
			}
			return &stepFailure{cl, fmt.Sprintf("SignJSON changed member %q: %s -> %s", k, canonical(old), canonical(now))}
		}
	}
	for k := range top2 {
		if _, ok := d.top[k]; !ok && k != "signatures" {
			return &stepFailure{"sign/member-added", fmt.Sprintf("SignJSON added member %q", k)}
		}
	}
	before, after := flatSigs(d.top), flatSigs(top2)
	slot := [2]string{name, kid}
	for x, b := range before {
		if x == slot {
			continue
		}
		a, ok := after[x]
		if !ok {
			return &stepFailure{"sign/signature-entry-lost", fmt.Sprintf("SignJSON(%q, %q) dropped the signature of %q %q", name, kid, x[0], x[1])}
		}
		if a != b {
			return &stepFailure{"sign/signature-entry-changed", fmt.Sprintf("SignJSON(%q, %q) changed the signature of %q %q", name, kid, x[0], x[1])}
		}
	}
	if _, ok := after[slot]; !ok {
		return &stepFailure{"sign/no-entry-written", fmt.Sprintf("SignJSON(%q, %q) output has no such entry: %s", name, kid, out)}
	}
	for x := range after {
		if _, ok := before[x]; !ok && x != slot {
			return &stepFailure{"sign/signature-entry-invented", fmt.Sprintf("SignJSON(%q, %q) added an entry for %q %q", name, kid, x[0], x[1])}
		}
	}
	d.top, d.bytes, d.pres = top2, out, "canon"
	return nil
}

// foreignSign is the action ForeignSign: another implementation signs its own canonical encoding of the
// projection and writes the entry into the signatures member; the document keeps its presentation.
func (d *document) foreignSign(name, kid string, priv ed25519.PrivateKey, urlSafe bool, rng *rand.Rand) {
	sig := ed25519.Sign(priv, canonical(d.projection()))
	enc := base64.RawStdEncoding
	if urlSafe {
		enc = base64.RawURLEncoding
	}
	sm, _ := d.top["signatures"].(map[string]interface{})
	if sm == nil {
		sm = map[string]interface{}{}
	}
	em, _ := sm[name].(map[string]interface{})
	if em == nil {
		em = map[string]interface{}{}
	}
	em[kid] = enc.EncodeToString(sig)
	sm[name] = em
	d.top["signatures"] = sm
	d.rerender(rng)
}
