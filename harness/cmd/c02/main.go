// Command c02 binds spec/JSONSign.tla (property C02: JSON signatures) to the real gomatrixserverlib.
//
//	c02 c02    -in records.ndjson [-seed N]          replay JSONSign_gen.tla behaviours (spec -> code)
//	c02 c02rec -out trace.ndjson  [-seed N] [-n N]   record random runs for JSONSign_trace.tla (code -> spec)
//	c02 c02rec -out trace.ndjson  -seed N -mode run=K[,dump]   re-record run K only (dump: with document bytes)
package main

import "verifharness/hx"

func main() { hx.Main() }
